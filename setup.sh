#!/bin/bash
# MANIFEST.setup_cmd: build the Coq development from files on disk only (offline).
set -e
cd "$(dirname "$0")"
if [ -f tools/extract_facts.py ]; then
  /venv/bin/python tools/extract_facts.py "${VERIF_REPO:-/repo}" coq/theories/Extracted.v
fi
# identify_utils.py -> IdentifyGen{Conf,IM,MB}.v (fail closed: a file that cannot be generated is replaced by a stub that does not compile)
/venv/bin/python tools/translate_identify.py "${VERIF_REPO:-/repo}" coq/theories || true
for f in IdentifyGenConf IdentifyGenIM IdentifyGenMB; do
  [ -f coq/theories/$f.v ] || echo "(* the translator failed closed on this part of identify_utils.py *) Definition translator_failed_closed : True := 0." > coq/theories/$f.v
done
# causal_graph.py traversal methods -> TraversalGenCyc.v / TraversalGenQ.v (same fail-closed convention; the tool writes its own stub)
/venv/bin/python tools/translate_traversal.py "${VERIF_REPO:-/repo}" coq/theories || true
for f in TraversalGenCyc TraversalGenQ; do
  [ -f coq/theories/$f.v ] || echo "(* the translator failed closed *) Definition translator_failed_closed : True := 0." > coq/theories/$f.v
done
# time_series_causal_graph.py algorithms -> TSGen{Summary,Stationary,Minimal,Extend}.v
/venv/bin/python tools/translate_ts_summary.py "${VERIF_REPO:-/repo}" coq/theories || true
/venv/bin/python tools/translate_ts_extend.py "${VERIF_REPO:-/repo}" coq/theories || true
# causal_graph.py rollback mutators (change_edge_type, replace_edge, delete_node, delete_edge) -> MutGenRollback.v
/venv/bin/python tools/translate_mutators.py "${VERIF_REPO:-/repo}" coq/theories || true
# causal_graph.py _set_edge / _prepare_nodes / add_edge / add_node -> MutGenAdd.v
/venv/bin/python tools/translate_add_edge.py "${VERIF_REPO:-/repo}" coq/theories || true
for f in TSGenSummary TSGenStationary TSGenMinimal TSGenExtend MutGenRollback MutGenAdd; do
  [ -f coq/theories/$f.v ] || echo "(* the translator failed closed *) Definition translator_failed_closed : True := 0." > coq/theories/$f.v
done
cd coq
coq_makefile -f _CoqProject -o Makefile >/dev/null
timeout 3000 make -k -j"$(nproc)" 2>&1 | tail -5
echo "setup done"
