#!/bin/bash
# MANIFEST.setup_cmd: build the Coq development from files on disk only (offline).
set -e
cd "$(dirname "$0")"
if [ -f tools/extract_facts.py ]; then
  /venv/bin/python tools/extract_facts.py "${VERIF_REPO:-/repo}" coq/theories/Extracted.v
fi
cd coq
coq_makefile -f _CoqProject -o Makefile >/dev/null
timeout 3000 make -k -j"$(nproc)" 2>&1 | tail -5
echo "setup done"
