"""Shared driver for the properties that quantify over mutation histories (C01 C02 C03 C09 C13):
random + exhaustive-short histories are run on the real classes, compared step by step with the
Coq model (GraphTS.v), and a per-property predicate is evaluated on the implementation after
every step."""
from __future__ import annotations

import itertools
import json
import random

from . import common as C
from . import graph_hist as H


def run_history(rng, kind, length, oracle=None, gen=None, ops_fixed=None, warm=True):
    """Drive one history. oracle(g, kind, op, code, before_tokens, after_tokens, ctx) -> why|None."""
    gen = gen or H.Gen(rng, kind)
    g = H.new_graph(kind)
    ctx = {}
    if oracle is not None and hasattr(oracle, 'init'):
        oracle.init(g, kind, ctx)
    ops, expected, outcomes = [], [], []
    why_first = None
    before = H.observe(g, kind, gen.pool, gen.lags, gen.vars)
    n = len(ops_fixed) if ops_fixed is not None else length
    for i in range(n):
        op = ops_fixed[i] if ops_fixed is not None else gen.op(g)
        if warm:
            H.warm_caches(g, rng)
        code, exc = H.apply_op(g, op)
        after = H.observe(g, kind, gen.pool, gen.lags, gen.vars)
        ops.append(op)
        outcomes.append(code)
        expected.append((code, C.hash_tokens(after)))
        if oracle is not None and why_first is None:
            try:
                why = oracle(g, kind, op, code, before, after, ctx)
            except Exception as e:  # noqa: BLE001  (a read-only view that raises on a state reached by public mutators)
                import traceback
                fr = traceback.extract_tb(e.__traceback__)[-1]
                why = (f'a read-only view raised {type(e).__name__}: {str(e)[:160]} (in {fr.name}, {fr.filename.split("/")[-1]}:{fr.lineno}) '
                       f'on the state reached after {op[0]}')
            if why:
                why_first = (i, why)
        before = after
    case = dict(kind=kind, ops=ops, pool=gen.pool, lags=gen.lags, vars=gen.vars, expected=expected, outcomes=outcomes)
    return case, why_first


def rerun(case, oracle):
    """Re-run the stored ops of a case on the implementation; returns (new case, first oracle failure)."""
    class FixedGen:
        pool, lags, vars = case['pool'], case['lags'], case['vars']
    return run_history(random.Random(0), case['kind'], 0, oracle=oracle, gen=FixedGen, ops_fixed=[H._tup(o) for o in case['ops']], warm=False)


def shrink_by_oracle(case, oracle):
    ops = list(case['ops'])

    def fails(ops_):
        c, why = rerun(dict(case, ops=ops_), oracle)
        return why
    i = 0
    while i < len(ops):
        cand = ops[:i] + ops[i + 1:]
        if fails(cand):
            ops = cand
        else:
            i += 1
    c, why = rerun(dict(case, ops=ops), oracle)
    return c, why


def shrink_by_model(case, step):
    """Minimise a history on which model and implementation diverge (any step)."""
    cur = dict(case, ops=list(case['ops'][:step + 1]))
    for _ in range(60):
        cands = []
        for i in range(len(cur['ops'])):
            ops_ = cur['ops'][:i] + cur['ops'][i + 1:]
            if not ops_:
                continue
            c, _ = rerun(dict(cur, ops=ops_), None)
            cands.append(c)
        if not cands:
            break
        mism = H.check_cases_against_model(cands, chunk=max(1, len(cands) // C.NCPU + 1), tag='shrink')
        if not mism:
            break
        ci, si = mism[0]
        cur = dict(cands[ci], ops=cands[ci]['ops'][:si + 1])
        cur, _ = rerun(cur, None)
    return cur


def diagnose(case):
    """Locate the first step and token position at which model and implementation differ."""
    mism = H.check_cases_against_model([case], chunk=1, tag='diag')
    if not mism:
        return None
    step = mism[0][1]
    _, out, toks = H.replay_history(case, step + 1)
    mt = H.model_tokens(case, step + 1)
    it = toks[-1]
    pos = next((i for i, (a, b) in enumerate(zip(mt, it)) if a != b), min(len(mt), len(it)))
    g = H.new_graph(case['kind'])
    codes = []
    for op in case['ops'][:step + 1]:
        codes.append(H.apply_op(g, H._tup(op))[0])
    return dict(step=step, impl_outcomes=[C.ERR_NAME.get(c, c) for c in codes], token_position=pos,
                model_tokens_around=mt[max(0, pos - 8):pos + 8], impl_tokens_around=it[max(0, pos - 8):pos + 8],
                impl_nodes=[n.identifier for n in g.get_nodes()],
                impl_edges=[(e.source.identifier, str(e.get_edge_type()), e.destination.identifier) for e in g.get_edges()])


# a reduced alphabet for exhaustive short histories
def small_alphabet(kind):
    if kind == 'Plain':
        names = ['a', 'b', 'c']
    else:
        names = ['x', 'y lag(n=1)', 'y']
    ops = []
    for a in names:
        ops.append(('add_node', a, 'unspecified', None))
        ops.append(('delete_node', a, False))
    for a, b in itertools.permutations(names, 2):
        ops.append(('add_edge', (a, None), (b, None), '->', None, True, 'ids'))
        ops.append(('add_edge', (a, None), (b, None), '--', None, True, 'ids'))
        ops.append(('delete_edge', a, b, None, 'delete_edge'))
        ops.append(('change_edge_type', a, b, '->'))
    ops.append(('replace_node', names[0], names[2], None, None, 'DEFAULT', None))
    ops.append(('replace_edge', names[0], names[1], names[1], names[2], None, None))
    return names, ops


def exhaustive_short(kind, depth, oracle=None, limit=None, rng=None):
    names, alphabet = small_alphabet(kind)

    class G:
        pool, lags, vars = names, [-1, 0], ['x', 'y']
    cases, bad = [], []
    seqs = itertools.product(alphabet, repeat=depth)
    if limit is not None:
        seqs = list(seqs)
        rng.shuffle(seqs)
        seqs = seqs[:limit]
    for seq in seqs:
        c, why = run_history(random.Random(0), kind, 0, oracle=oracle, gen=G, ops_fixed=list(seq), warm=False)
        cases.append(c)
        if why:
            bad.append((c, why))
    return cases, bad


def history_property(run, tier, seed, *, pid, kinds=('Plain', 'TS'), oracle=None, n_quick=200, n_thorough=3000, length=40,
                     divergence_is_violation=False, gen_factory=None, exhaustive=True, describe=''):
    rng = random.Random(seed)
    n = n_quick if tier == 'quick' else n_thorough
    cases, bad = [], []
    # corpus first
    cdir = C.VERIF / 'corpus' / pid
    if cdir.exists():
        for f in sorted(cdir.glob('*.json')):
            case = json.loads(f.read_text())
            if 'ops' not in case:
                continue
            c, why = rerun(case, oracle)
            cases.append(c)
            if why:
                bad.append((c, why))
    ncorpus = len(cases)
    for i in range(n):
        kind = kinds[i % len(kinds)]
        gen = gen_factory(rng, kind) if gen_factory else None
        c, why = run_history(rng, kind, length, oracle=oracle, gen=gen)
        cases.append(c)
        if why:
            bad.append((c, why))
    nexh = 0
    if exhaustive:
        for kind in kinds:
            depth = 2 if tier == 'quick' else 3
            cs, b = exhaustive_short(kind, depth, oracle=oracle, limit=None if tier == 'thorough' else 600, rng=rng)
            cases += cs
            bad += b
            nexh += len(cs)
    mism = H.check_cases_against_model(cases, chunk=30, tag=pid.lower())
    from collections import Counter
    opk, errs = Counter(), Counter()
    for c in cases:
        for op, o in zip(c['ops'], c['outcomes']):
            opk[op[0]] += 1
            errs[C.ERR_NAME.get(o, 'ok' if o == 0 else str(o))] += 1
        run.count(tuple(map(repr, c['ops'])), nontrivial=(0 in c['outcomes'] and any(c['outcomes'])))
    run.coverage.update(histories=len(cases), corpus_cases=ncorpus, exhaustive_short_histories=nexh,
                        steps=sum(len(c['ops']) for c in cases), operations_by_kind=dict(opk), outcomes_by_class=dict(errs))
    run.coverage['rule'] = (describe + ' Histories are driven against the real class with caches randomly warmed; after EVERY step the '
                            'full observation (all read views over a name pool + mirrored private indexes) is hashed and compared with the '
                            'Coq model evaluated by vm_compute. distinct_nontrivial = distinct histories with at least one accepted and one rejected call.')
    run.samples.append(dict(kind=cases[-1]['kind'], history=[repr(o) for o in cases[ncorpus]['ops'][:5]],
                            outcomes=cases[ncorpus]['outcomes'][:5]))
    run.oblige(f'correspondence: {len(cases)} histories, {run.coverage["steps"]} steps, model == implementation after every step',
               not mism, '' if not mism else f'{len(mism)} diverging histories; first: case {mism[0][0]} step {mism[0][1]}')
    # property predicate failures found on the implementation
    for c, (step, why) in bad[:2]:
        c2, why2 = shrink_by_oracle(c, oracle)
        run.violation(dict(kind=c2['kind'], ops=c2['ops'], pool=c2['pool'], lags=c2['lags'], vars=c2['vars'],
                           why=(why2 or (step, why))[1], replay_cmd=f'./check {pid} --replay <this file>'),
                      note=str((why2 or (step, why))[1])[:200])
    if mism and not bad:
        ci, si = mism[0]
        small = shrink_by_model(cases[ci], si)
        diag = diagnose(small)
        rep = dict(kind=small['kind'], ops=small['ops'], pool=small['pool'], lags=small['lags'], vars=small['vars'],
                   divergence=diag, replay_cmd=f'./check {pid} --replay <this file>')
        if divergence_is_violation:
            run.violation(dict(rep, why='the implementation differs from the reference model after this history'),
                          note=f'model/implementation divergence at step {diag and diag["step"]}')
        else:
            run.coverage['first_divergence'] = rep
    return cases, mism, bad


def replay_file(run, path, oracle, pid, divergence_is_violation=False):
    case = json.loads(open(path).read())
    c, why = rerun(case, oracle)
    if why:
        run.violation(dict(case, why=why[1]), note=str(why[1])[:200])
    mism = H.check_cases_against_model([c], chunk=1, tag='replay')
    if mism and divergence_is_violation and not why:
        run.violation(dict(case, divergence=diagnose(c), why='the implementation differs from the reference model'), note='divergence')
    print(f'replayed {path}: oracle={"FAIL: " + str(why[1]) if why else "ok"} model_divergence={bool(mism)}')
    return 1 if run.violations else 0
