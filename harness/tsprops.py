"""Shared driver of C14–C17 (minimal / extended / stationary / summary graphs): generator of
template-consistent (and of wild) time-series graphs, extraction of the implementation's graphs as
Coq terms (coq/theories/TSGraph.v), evaluation of model equality and of the property oracles in Coq."""
from __future__ import annotations

import copy
import json
import os
import random
import re

import numpy

from cai_causal_graph import TimeSeriesCausalGraph

from . import common as C
from . import graph_hist as H

IDX = {'C14': 0, 'C15': 1, 'C16': 2, 'C17': 3}
RESERVED = ('time_lag', 'variable_name')
# result vector layout of CorrTS.check_tcase
COLS = ['min_eq', 'ismin_eq', 'adj_eq', 'ext_eq', 'stat_eq', 'isstat_eq', 'sum_eq',
        'c14', 'is_minimal_iff', 'c15', 'c16', 'is_stationary_iff', 'c17']
CMP = {'C14': [0, 1, 2], 'C15': [3], 'C16': [4, 5], 'C17': [6]}
ORA = {'C14': [(7, 'get_minimal_graph does not return exactly the placed templates + floating variables'),
               (8, 'is_minimal_graph(g) differs from "g equals its minimal graph"')],
       'C15': [(9, 'extend_graph is not the exact unrolling of the minimal graph over the window')],
       'C16': [(10, 'get_stationary_graph is not the least stationary super-graph over the window'),
               (11, 'is_stationary_graph(g) differs from "g is a DAG equal to its stationary graph"')],
       'C17': [(12, 'get_summary_graph does not have one node per variable / the right adjacency and orientation, or it raised')]}


# ---- generator ------------------------------------------------------------------------------
def gen_ts_graph(rng, mode):
    """Returns a list of build steps [('node', name, vt, meta) | ('edge', s, d, type, meta)] and the graph meta.
    modes: 'consistent' (all types), 'dag' (directed, acyclic), 'dag0' (DAG, window ending at 0), 'wild'."""
    vars_ = rng.sample(['x', 'y', 'z', 'w'], rng.choice([2, 2, 3, 3, 4]))
    if rng.random() < 0.15:
        # names whose natural (numeric) and lexicographic orders disagree
        vars_ = rng.sample(['X2', 'X10', 'X9', 'a10', 'a9'], len(vars_))
    if rng.random() < 0.1:
        vars_[0] = rng.choice(['X 1', 'lag', 'v\n'])
    steps = []
    vt = {v: rng.choice(C.VTYPES) for v in vars_}
    vm = {v: copy.deepcopy(rng.choice([None, None, {'u': 1}, {'k': [1, {'z': None}]}])) for v in vars_}
    gmeta = copy.deepcopy(rng.choice([None, {'g': 1}, {'name': 'ts', 'l': [1, 2]}]))
    if mode == 'wild':
        lags = [-2, -1, 0, 1]
        for _ in range(rng.randint(1, 9)):
            s, d = (rng.choice(vars_), rng.choice(lags)), (rng.choice(vars_), rng.choice(lags))
            t = rng.choice(C.ETYPES) if rng.random() < 0.5 else '->'
            steps.append(('edge', H.ts_name(*s), H.ts_name(*d), t, copy.deepcopy(rng.choice([None, {'e': 1}]))))
        for _ in range(rng.randint(0, 2)):
            steps.append(('node', H.ts_name(rng.choice(vars_), rng.choice(lags)), rng.choice(C.VTYPES), None))
        rng.shuffle(steps)
        return steps, gmeta
    lo = rng.choice([-3, -2, -2, -1, 0])
    hi = 0 if mode == 'dag0' or rng.random() < 0.6 else rng.choice([1, 2])
    order = list(vars_)
    rng.shuffle(order)
    templates = {}
    for _ in range(rng.randint(1, 6)):
        sv, dv = rng.choice(vars_), rng.choice(vars_)
        delta = rng.choice([0, 0, 1, 1, 2, 3])
        if delta == 0:
            if sv == dv:
                continue
            if mode in ('dag', 'dag0') and order.index(sv) > order.index(dv):
                sv, dv = dv, sv
            if (dv, sv, 0) in templates:
                continue
        if delta > hi - lo and rng.random() < 0.7:
            continue
        t = '->' if mode in ('dag', 'dag0') or rng.random() < 0.5 else rng.choice(C.ETYPES[1:])
        if (sv, dv, delta) not in templates:
            templates[(sv, dv, delta)] = (t, copy.deepcopy(rng.choice([None, None, {'e': 1}, {'w': [0.5 > 1, 'a']}])))
    full = rng.random() < 0.3
    for (sv, dv, delta), (t, m) in templates.items():
        positions = [p for p in range(lo, hi + 1) if p - delta >= lo] or [hi]
        chosen = positions if full else rng.sample(positions, rng.randint(1, len(positions)))
        for p in chosen:
            s, d = H.ts_name(sv, p - delta), H.ts_name(dv, p)
            if t != '->' and delta == 0 and rng.random() < 0.0:
                s, d = d, s
            if t != '->' and delta > 0 and rng.random() < 0.3:
                s, d = d, s   # later -> earlier: the class must swap it
            steps.append(('edge', s, d, t, copy.deepcopy(m)))
    # explicit nodes (attributes uniform per variable) and floating nodes at arbitrary lags
    names = set()
    for st in steps:
        names.update(st[1:3])
    explicit = []
    for n in sorted(names):
        if rng.random() < 0.5:
            v = re.sub(r' (lag|future)\(n=\d+\)$', '', n)
            explicit.append(('node', n, vt.get(v, 'unspecified'), copy.deepcopy(vm.get(v))))
    for _ in range(rng.randint(0, 2)):
        v = rng.choice(vars_)
        explicit.append(('node', H.ts_name(v, rng.randint(lo, hi)), vt[v], copy.deepcopy(vm[v])))
    if full:
        for v in vars_:
            for p in range(lo, hi + 1):
                explicit.append(('node', H.ts_name(v, p), vt[v], copy.deepcopy(vm[v])))
    rng.shuffle(explicit)
    if rng.random() < 0.5:
        steps = explicit + steps
    else:
        rng.shuffle(steps)
        steps = steps + explicit
    return steps, gmeta


def summary_steps(vars_, pairs, rng=None):
    """A time-series DAG whose every edge is lagged (so any set of (source variable, destination variable) pairs is acyclic):
    the summary graph is decided by the set of pairs; used to cover feedback pairs sitting on longer summary cycles."""
    steps = []
    for sv, dv in pairs:
        delta = 1 if rng is None else rng.choice([1, 1, 2])
        pos = 0 if rng is None else rng.choice([0, 0, -1])
        steps.append(('edge', H.ts_name(sv, pos - delta), H.ts_name(dv, pos), '->', None))
    if rng is not None:
        rng.shuffle(steps)
    return steps


def all_summary3():
    vs = ['x', 'y', 'z']
    ps = [(a, b) for a in vs for b in vs]
    for mask in range(1, 1 << len(ps)):
        yield summary_steps(vs, [ps[i] for i in range(len(ps)) if mask >> i & 1]), None


def gen_summary_graph(rng):
    vs = rng.sample(['x', 'y', 'z', 'w', 'v'], rng.choice([4, 4, 5]))
    ps = [(a, b) for a in vs for b in vs]
    p = rng.choice([0.25, 0.4, 0.55])
    pairs = [q for q in ps if rng.random() < p]
    # make sure there is a longer cycle with a feedback pair touching it
    cyc = rng.sample(vs, rng.choice([3, 3, 4]))
    pairs += [(cyc[i], cyc[(i + 1) % len(cyc)]) for i in range(len(cyc))]
    a, b = rng.choice(cyc), rng.choice(vs)
    if a != b:
        pairs += [(a, b), (b, a)]
    pairs = list(dict.fromkeys(pairs))
    steps = summary_steps(vs, pairs, rng)
    if rng.random() < 0.3:
        steps.append(('node', H.ts_name('u', rng.choice([0, -1])), 'unspecified', None))
    return steps, None


def probe(g, rng):
    """Read-only queries, also with arguments the graph does not have (absent lags, variables, nodes), between the construction
    steps: none of them may change what the derived-graph operations answer afterwards."""
    H.warm_caches(g, rng, 0.3)
    for f in (lambda: g.get_nodes_at_lag(rng.choice([-7, -4, -3, 1, 2, 5])), lambda: g.get_nodes_at_lag(rng.randint(-3, 1)),
              lambda: g.get_nodes_for_variable_name(rng.choice(['nope', 'x', 'y', 'x lag(n=1)'])),
              lambda: g.get_contemporaneous_nodes(rng.choice(g.get_node_names() or ['x'])),
              lambda: g.node_exists('nope lag(n=9)'), lambda: g.get_edges(source='nope'), lambda: g.get_node('nope'),
              lambda: g.edge_exists('nope', 'x'), lambda: g.get_nodes(rng.choice(g.get_node_names() or ['x'])),
              lambda: g.get_inputs(), lambda: g.get_outputs(), lambda: g.get_topological_order(return_all=len(g.get_node_names()) <= 5 and rng.random() < 0.3),
              lambda: g.extend_graph(rng.choice([None, 0, 1, 3]), rng.choice([None, 0, 2]))):
        if rng.random() < 0.5:
            try:
                f()
            except Exception:  # noqa: BLE001
                pass


def build(steps, gmeta):
    import zlib
    rng = random.Random(zlib.crc32(repr((steps, gmeta)).encode()))
    mode = rng.randrange(4)          # 0, 1: plain construction; 2: probes half way and at the end; 3: probes at the end
    g = TimeSeriesCausalGraph(meta=copy.deepcopy(gmeta))
    for k, st in enumerate(steps):
        if mode == 2 and k == len(steps) // 2:
            probe(g, rng)
        try:
            if st[0] == 'node':
                g.add_node(st[1], variable_type=H.VT[st[2]], meta=copy.deepcopy(st[3]))
            else:
                g.add_edge(st[1], st[2], edge_type=H.ET[st[3]], meta=copy.deepcopy(st[4]))
        except Exception:  # noqa: BLE001  (duplicates / cycles from the random choices are simply skipped)
            pass
    if mode >= 2:
        probe(g, rng)
    return g


def post_edit(g, pid, k):
    """In-place attribute edits through node handles AFTER the graph was built (deterministic in k): for C17 every node gets a
    variable type of its own (the nodes of one variable disagree); for C15 the derived-graph operations are called first (whatever
    they memoise on the object is now warm), then variable type and user metadata are changed uniformly per variable, so the
    recorded calls must carry the NEW attributes to every copy."""
    rng = random.Random(1000003 * k + 17)
    vts = list(H.VT.values())
    if pid == 'C17':
        for nd in g.get_nodes():
            nd.variable_type = rng.choice(vts)
    elif pid == 'C15':
        for b, f in ((1, 1), (2, 2), (0, 3), (3, 0)):
            try:
                g.extend_graph(b, f)
            except Exception:  # noqa: BLE001
                pass
        per = {}
        for nd in g.get_nodes():
            v = nd.variable_name
            if v not in per:
                per[v] = (rng.choice(vts), rng.choice([None, {'unit': f'u{k}'}, {'w': [k, {'z': None}]}]))
            nd.variable_type = per[v][0]
            for key in [x for x in nd.meta if x not in RESERVED]:
                del nd.meta[key]
            if per[v][1]:
                nd.meta.update(copy.deepcopy(per[v][1]))
    return g


# ---- Coq terms ------------------------------------------------------------------------------
def user_meta(m):
    return C.canon_json({k: v for k, v in m.items() if k not in RESERVED})


def cq_tnode(n):
    return ('{| tv := %s; tl := %s; tvt := %s; tm := %s |}'
            % (C.cq_name(n.variable_name), C.cq_Z(n.time_lag), C.cq_vtype(n.variable_type), C.cq_meta(user_meta(n.meta))))


def cq_tedge(e):
    s, d = e.source, e.destination
    return ('{| es := %s; esl := %s; ed := %s; edl := %s; ety := %s; em := %s |}'
            % (C.cq_name(s.variable_name), C.cq_Z(s.time_lag), C.cq_name(d.variable_name), C.cq_Z(d.time_lag),
               C.cq_etype(e.get_edge_type()), C.cq_meta(C.canon_json(e.meta))))


def cq_tsg(g):
    return ('{| tnodes := %s; tedges := %s; tgmeta := %s |}'
            % (C.cq_list(cq_tnode, list(g._nodes_by_identifier.values())), C.cq_list(cq_tedge, g.get_edges()), C.cq_meta(C.canon_json(g.meta))))


def cq_pgraph(g):
    nodes = C.cq_list(lambda n: '{| pn := %s; pvt := %s; pm := %s |}' % (C.cq_name(n.identifier), C.cq_vtype(n.variable_type), C.cq_meta(C.canon_json(n.meta))),
                      list(g._nodes_by_identifier.values()))
    edges = C.cq_list(lambda e: '{| ps := %s; pd := %s; pty := %s; pem := %s |}' % (C.cq_name(e.source.identifier), C.cq_name(e.destination.identifier),
                                                                                    C.cq_etype(e.get_edge_type()), C.cq_meta(C.canon_json(e.meta))),
                      g.get_edges())
    return '{| pnodes := %s; pedges := %s; pgmeta := %s |}' % (nodes, edges, C.cq_meta(C.canon_json(g.meta)))


ERR_CTOR = {1: 'ENodeDup', 2: 'EEdgeDup', 3: 'EReverse', 4: 'ECyclic', 5: 'ENodeMissing', 6: 'EEdgeMissing', 7: 'EEdgeExists', 8: 'EValue',
            9: 'EAssert', 10: 'EKey', 11: 'EType', 12: 'EEdgeInvalid', 13: 'EConv', 14: 'EInvalidAdj', 15: 'EIndex'}


def cq_res(f, thunk):
    try:
        v = thunk()
    except Exception as e:  # noqa: BLE001
        code = C.err_code(e)
        if code not in ERR_CTOR:
            raise
        return f'(Err {ERR_CTOR[code]})', e
    return f'(Ok {f(v)})', v


def cq_adj(d, nvars):
    def mat(a):
        return C.cq_list(lambda row: C.cq_list(lambda x: C.cq_bool(bool(x)), row), a.tolist())
    return C.cq_list(lambda kv: f'({C.cq_Z(int(kv[0]))}, {mat(kv[1])})', sorted(d.items()))


GRID_B = [None, 0, 1, 2, 3]
GRID_F = [None, 0, 1, 2]


def cq_case(g, which, rng, tier):
    oZ = lambda o: C.cq_opt(C.cq_Z, o)  # noqa: E731
    mn = cq_res(cq_tsg, g.get_minimal_graph)[0] if (which[0] or True) else ''
    ismin = cq_res(C.cq_bool, g.is_minimal_graph)[0]
    adj = cq_res(lambda d: cq_adj(d, 0), lambda: g.adjacency_matrices)[0] if which[0] else '(Err EIndex)'
    ext = []
    if which[1]:
        grid = [(b, f, iap) for b in GRID_B for f in GRID_F for iap in (True, False)]
        if tier == 'quick':
            grid = rng.sample(grid, 8)
        grid += [(rng.choice([-1, 4]), rng.choice([None, 1]), True)] if rng.random() < 0.2 else []
        for b, f, iap in grid:
            r = cq_res(cq_tsg, lambda: g.extend_graph(b, f, include_all_parents=iap))[0]
            ext.append(f'({oZ(b)}, {oZ(f)}, {C.cq_bool(iap)}, {r})')
    stat = cq_res(cq_tsg, g.get_stationary_graph)[0] if which[2] else '(Err EIndex)'
    isstat = cq_res(C.cq_bool, g.is_stationary_graph)[0] if which[2] else '(Err EIndex)'
    summ = cq_res(cq_pgraph, g.get_summary_graph)[0] if which[3] else '(Err EIndex)'
    return ('{| tc_g := %s; tc_which := %s; tc_min := %s; tc_ismin := %s; tc_adj := %s; tc_ext := [%s]; tc_stat := %s; '
            'tc_isstat := %s; tc_sum := %s |}'
            % (cq_tsg(g), C.cq_list(C.cq_bool, which), mn, ismin, adj, '; '.join(ext), stat, isstat, summ))


# the code GENERATED from time_series_causal_graph.py on every run (tools/translate_ts_extend.py, translate_ts_summary.py), evaluated on
# the same rows: (module, entry point, columns of ITS result vector that compare the generated code with the implementation)
GEN = {'C14': ('CorrTSGenMinimal', 'check_tcases_gen_minimal', [0, 1], 'TSGenMinimal.v: get_minimal_graph / is_minimal_graph'),
       'C15': ('CorrTSGenExtend', 'check_tcases_gen_extend', [0], 'TSGenExtend.v: extend_graph'),
       'C16': ('CorrTSGenStationary', 'check_tcases_genstat', [4, 5], 'TSGenStationary.v: get_stationary_graph / is_stationary_graph'),
       'C17': ('CorrTSGenSummary', 'check_tcases_gensum', [6], 'TSGenSummary.v: get_summary_graph')}


def _rows_of(blk):
    return [[int(x) for x in re.findall(r'\d+', re.sub(r'%\w+', '', row))] for row in re.findall(r'\[([^\[\]]*)\]', blk)]


def run_cases(graphs, which, rng, tier, tag='ts', chunk=25, gen=None):
    """Evaluate the hand model (CorrTS.check_tcases) on the cases the implementation ran; with gen=(module, entry point) the
    generated code is evaluated on the same rows in a second file per chunk (kept apart so that a generated file that no longer
    compiles cannot take the hand-model comparison with it). Returns out, or (out, gen_out | None, gen_error)."""
    wd = C.workdir()
    rows = [cq_case(g, which, rng, tier) for g in graphs]
    files, gfiles = [], []
    for i in range(0, len(rows), chunk):
        body = 'Definition cs : list tcase := [\n ' + ';\n '.join(rows[i:i + chunk]) + '\n].\n'
        f = wd / f'{tag}_{i // chunk}.v'
        f.write_text(C.COQ_HEADER + 'From CG Require Import Base TSGraph CorrTS.\nLocal Open Scope N_scope.\n' + body + 'Eval vm_compute in (check_tcases cs).\n')
        files.append(f)
        if gen:
            gf = wd / f'{tag}_gen_{i // chunk}.v'
            gf.write_text(C.COQ_HEADER + f'From CG Require Import Base TSGraph CorrTS {gen[0]}.\nLocal Open Scope N_scope.\n' + body + f'Eval vm_compute in ({gen[1]} cs).\n')
            gfiles.append(gf)
    res = C.run_coq_files(files + gfiles, timeout=1800)
    out = []
    for f, rc, so, se in res[:len(files)]:
        if rc != 0:
            raise RuntimeError(f'coqc failed on {f}: {se[-2000:]}')
        out += _rows_of(C.parse_eval_blocks(so)[0])
    if len(out) != len(graphs):
        raise RuntimeError(f'Coq returned {len(out)} rows for {len(graphs)} cases')
    if not gen:
        return out
    gout, gerr = [], ''
    for f, rc, so, se in res[len(files):]:
        if rc != 0:
            gerr = f'the generated definitions could not be evaluated ({f.name}): {se[-300:]}'
            break
        gout += _rows_of(C.parse_eval_blocks(so)[0])
    if not gerr and len(gout) != len(graphs):
        gerr = f'Coq returned {len(gout)} rows for {len(graphs)} cases'
    return out, (None if gerr else gout), gerr


def ts_property(run, tier, seed, pid, describe=''):
    rng = random.Random(seed)
    n = {'quick': 260, 'thorough': 4000}[tier]
    if pid == 'C15':
        n = {'quick': 120, 'thorough': 1500}[tier]
    refused = os.environ.get('VERIF_TRANSLATOR_REFUSED') == '1'      # set by main.py: the source translator refused the current source
    if refused and tier == 'quick':
        n *= 3
    specs = []
    cdir = C.VERIF / 'corpus' / pid
    if cdir.exists():
        for f in sorted(cdir.glob('*.json')):
            c = json.loads(f.read_text())
            if 'steps' in c:
                specs.append(('corpus', [tuple(s) for s in c['steps']], c.get('gmeta')))
    modes = {'C14': ['consistent', 'consistent', 'dag', 'wild'], 'C15': ['consistent', 'dag', 'dag0', 'wild'],
             'C16': ['dag0', 'dag0', 'dag0', 'consistent', 'wild'], 'C17': ['dag', 'dag', 'dag0', 'wild']}[pid]
    for i in range(n):
        mode = modes[i % len(modes)]
        if pid == 'C17' and i % 3 == 2:
            steps, gmeta = gen_summary_graph(rng)
            mode = 'summary-cycles'
        else:
            steps, gmeta = gen_ts_graph(rng, mode)
        specs.append((mode, steps, gmeta))
    if pid == 'C17':
        specs += [('all-3-variable-lag-1', st, gm) for st, gm in all_summary3()]
    specs.append(('empty', [], None))
    graphs = [build(s, gm) for _, s, gm in specs]
    edited = {}
    if pid in ('C15', 'C17'):
        for i, g in enumerate(graphs):
            if i % 3 == 1 and specs[i][0] != 'corpus':
                post_edit(g, pid, i)
                edited[i] = i
    # derived objects are inputs too: the graph a derived-graph operation RETURNED (with whatever it cached or pre-marked on it)
    # is itself queried and compared with the model evaluated on its extracted structure
    derive = {'C14': lambda g: g.get_minimal_graph(), 'C15': lambda g: g.extend_graph(1, 1), 'C16': lambda g: g.get_stationary_graph()}.get(pid)
    if derive:
        nbase = len(graphs)
        for i in range(0, nbase, 2 if tier == 'quick' else 3):
            try:
                h = derive(graphs[i])
            except Exception:  # noqa: BLE001
                continue
            specs.append(('derived:' + specs[i][0], specs[i][1], specs[i][2]))
            graphs.append(h)
    which = [p == pid for p in ('C14', 'C15', 'C16', 'C17')]
    if refused:
        out, gout, gerr = run_cases(graphs, which, rng, tier, tag=pid.lower()), [], ''
    else:
        out, gout, gerr = run_cases(graphs, which, rng, tier, tag=pid.lower(), gen=GEN[pid][:2])
    gbad = [] if gout is None else [i for i, r in enumerate(gout) if any(r[c] == 0 for c in GEN[pid][2])]
    run.coverage['translated_source_cases'] = 0 if refused else len(graphs)
    if not refused:
        run.oblige(f'correspondence: translated time_series_causal_graph.py ({GEN[pid][3]}) == implementation on {len(graphs)} time-series graphs',
               gout is not None and not gbad, gerr or ('' if not gbad else f'{len(gbad)} divergences; first: graph {gbad[0]} steps={specs[gbad[0]][1]!r}'[:480]))
    from collections import Counter
    cols = Counter()
    diverging = []
    for i, r in enumerate(out):
        for c in CMP[pid]:
            if r[c] == 0:
                diverging.append((i, COLS[c]))
        for c, _ in ORA[pid]:
            cols[(COLS[c], r[c])] += 1
    for (mode, steps, gm), g in zip(specs, graphs):
        run.count((repr(steps), repr(gm)), nontrivial=len(g.get_edges()) >= 2)
    run.coverage.update(graphs=len(graphs), by_mode=dict(Counter(m for m, _, _ in specs)),
                        oracle_outcomes={f'{k[0]}={["fails", "holds", "premises-not-met"][k[1]]}': v for k, v in cols.items()},
                        graph_sizes=dict(Counter(min(len(g.get_edges()), 10) for g in graphs)))
    run.coverage['rule'] = (describe + ' Graphs are instances of random template sets (2–4 variables, time differences 0–3, all six edge types, '
                            'partial or complete instantiation over a lag window, non-directed edges also given later->earlier, floating nodes, '
                            'metadata and variable types uniform per variable) plus unconstrained "wild" graphs (model equality only, incl. the inputs on '
                            'which the code raises). non-trivial = at least 2 edges; distinct by construction steps.')
    gi = len(graphs) // 2
    run.samples.append(dict(mode=specs[gi][0], steps=[list(map(str, s)) for s in specs[gi][1][:6]], result_vector=dict(zip(COLS, out[gi]))))
    run.oblige(f'correspondence: model == implementation on {len(graphs)} time-series graphs ({", ".join(COLS[c] for c in CMP[pid])})', not diverging,
               '' if not diverging else f'{len(diverging)} divergences; first: graph {diverging[0][0]} column {diverging[0][1]} steps={specs[diverging[0][0]][1]!r}'[:490])
    found = False
    for c, why in ORA[pid]:
        bad = [i for i, r in enumerate(out) if r[c] == 0]
        for i in bad[:2]:
            found = True
            run.violation(dict(steps=specs[i][1], gmeta=specs[i][2], mode=specs[i][0], why=why, result_vector=dict(zip(COLS, out[i])),
                               post_edit=edited.get(i), replay_cmd=f'./check {pid} --replay <this file>'), note=why)
    if pid == 'C14' and not found:
        # adjacency_matrices is part of the property ("that template set written as one matrix per source lag"); the model's
        # matrices are proved to be exactly that (adj_matrices_spec), so on a consistent template set a differing answer is a failing input
        for i, r in enumerate(out):
            if r[2] == 0 and r[7] != 2 and not found:
                found = True
                why = 'adjacency_matrices is not the template set written as one matrix per source lag'
                run.violation(dict(steps=specs[i][1], gmeta=specs[i][2], mode=specs[i][0], why=why, result_vector=dict(zip(COLS, out[i])),
                                   replay_cmd=f'./check {pid} --replay <this file>'), note=why)
    if diverging and not found:
        i = diverging[0][0]
        run.coverage['first_divergence'] = dict(steps=specs[i][1], gmeta=specs[i][2], column=diverging[0][1], result_vector=dict(zip(COLS, out[i])))
    return specs, graphs, out, diverging


def replay_ts(run, path, pid):
    c = json.loads(open(path).read())
    g = build([tuple(s) for s in c['steps']], c.get('gmeta'))
    if c.get('post_edit') is not None:
        post_edit(g, pid, c['post_edit'])
    which = [p == pid for p in ('C14', 'C15', 'C16', 'C17')]
    out = run_cases([g], which, random.Random(0), 'thorough', tag='replay', chunk=1)
    r = dict(zip(COLS, out[0]))
    print('result vector', r)
    for col, why in ORA[pid]:
        if out[0][col] == 0:
            run.violation(dict(c, why=why, result_vector=r), note=why)
    return 1 if run.violations else 0
