"""Correspondence between coq/theories/Serial.v and the real to_dict / from_dict / copy / conversions (written by the
proof engineer of Serial.v as its validation script; adapted as a library module of the C05 check)."""
from __future__ import annotations

import copy
import json
import random
import subprocess
import sys
from concurrent.futures import ThreadPoolExecutor
from pathlib import Path  # noqa: F401

from . import common as C          # noqa: E402
from . import graph_hist as GH      # noqa: E402

from cai_causal_graph import CausalGraph, TimeSeriesCausalGraph   # noqa: E402
from cai_causal_graph.causal_graph import Skeleton                # noqa: E402

THEORIES = str(C.THEORIES)

HOSTILE_PLAIN = ['X\n', 'a b', 'é', 'lag', 'future', 'node_1', 'meta', 'he said "hi"', "it's", 'nodes', 'a\\b',
                 'x lag(n=1)', 'x future(n=2)', 'y lag(n=2)', 'x', 'y', 'bad lag(n=1) lag(n=2)']
CASEFOLD_PLAIN = ['X', 'x', 'ss', '\u00df', 'a', 'A', 'b', 'B']
GMETAS = [None, {}, {'gm': 1}, {'z': [1, {'y': None, 'a': 's'}], 'b': False}]


# ------------------------------------------------------------------------------------------
# ordered printers (dict order kept, except inside 'meta' payloads which are canonicalised)
# ------------------------------------------------------------------------------------------
def jobj(entries):
    return '(JObj [' + '; '.join(f'({C.cq_name(k)}, {v})' for k, v in entries) + '])'


def cq_any(v):
    """generic ordered printer for values we do not interpret (hostile dictionaries)"""
    if isinstance(v, dict):
        return jobj([(k, cq_any(x)) for k, x in v.items()])
    if isinstance(v, list):
        return '(JList [' + '; '.join(cq_any(x) for x in v) + '])'
    return C.cq_json(v)


def cq_metaval(v):
    if isinstance(v, dict):
        return C.cq_json(C.canon_json(v))
    return cq_any(v)


def cq_node_dict(nd):
    if not isinstance(nd, dict):
        return cq_any(nd)
    return jobj([(k, cq_metaval(v) if k == 'meta' else cq_any(v)) for k, v in nd.items()])


def cq_edge_dict(ed):
    if not isinstance(ed, dict):
        return cq_any(ed)
    ent = []
    for k, v in ed.items():
        if k in ('source', 'destination'):
            ent.append((k, cq_node_dict(v)))
        elif k == 'meta':
            ent.append((k, cq_metaval(v)))
        else:
            ent.append((k, cq_any(v)))
    return jobj(ent)


def cq_graph_dict(d, version):
    ent = []
    for k, v in d.items():
        if k == 'nodes' and isinstance(v, dict):
            ent.append((k, jobj([(i, cq_node_dict(nd)) for i, nd in v.items()])))
        elif k == 'edges' and isinstance(v, dict):
            ent.append((k, jobj([(s, jobj([(t, cq_edge_dict(ed)) for t, ed in dd.items()]) if isinstance(dd, dict) else cq_any(dd))
                                 for s, dd in v.items()])))
        elif k == 'version':
            ent.append((k, C.cq_json('$VERSION' if v == version else v)))
        elif k == 'meta':
            ent.append((k, cq_metaval(v)))
        else:
            ent.append((k, cq_any(v)))
    return jobj(ent)


def through_json(d):
    return json.loads(json.dumps(d))


# ------------------------------------------------------------------------------------------
# what we observe of a from_dict-like call on the implementation
# ------------------------------------------------------------------------------------------
def sig_of(thunk, kind, pool, lags, vars_):
    """(error code, hash) — hash of observation ++ graph meta for a graph result."""
    try:
        g = thunk()
    except Exception as e:  # noqa: BLE001
        return (C.err_code(e), 0, type(e).__name__), None
    t = GH.observe(g, kind, pool, lags, vars_) + C.tk_meta(C.canon_json(g.meta))
    return (0, C.hash_tokens(t), ''), g


def cq_sig(s):
    return f'({s[0]}, {s[1]}%uint63)'


def cq_res_json(thunk, version):
    try:
        d = thunk()
    except Exception as e:  # noqa: BLE001
        return f'(Err {ERR_CTOR[C.err_code(e)]})', None
    d = through_json(d)
    return f'(Ok {cq_graph_dict(d, version)})', d


ERR_CTOR = {1: 'ENodeDup', 2: 'EEdgeDup', 3: 'EReverse', 4: 'ECyclic', 5: 'ENodeMissing', 6: 'EEdgeMissing',
            7: 'EEdgeExists', 8: 'EValue', 9: 'EAssert', 10: 'EKey', 11: 'EType', 12: 'EEdgeInvalid', 13: 'EConv',
            14: 'EInvalidAdj', 15: 'EIndex'}


# ------------------------------------------------------------------------------------------
# case generation
# ------------------------------------------------------------------------------------------
def build_graph(rng, kind, flavour):
    """Drive the real implementation with a random history; returns (graph, ops, gen, gmeta)."""
    gen = GH.Gen(rng, kind)
    if kind == 'Plain' and flavour == 'tsnames':
        # plain graph over time-series style names (for from_causal_graph), some of them unparsable
        vs = ['x', 'y', 'lag', 'X 1']
        pool = [GH.ts_name(v, l) for v in vs[:3] for l in (-2, -1, 0, 1)]
        rng.shuffle(pool)
        gen.pool = pool[:6]
        if rng.random() < 0.15:
            gen.pool[0] = 'bad lag(n=1) lag(n=2)'
        gen.lags = [-2, -1, 0, 1]
        gen.vars = vs
    elif kind == 'Plain' and flavour == 'hostile':
        pool = list(HOSTILE_PLAIN)
        rng.shuffle(pool)
        gen.pool = pool[:6]
        gen.lags = [-2, -1, 0, 1, 2]
        gen.vars = ['x', 'y']
    elif kind == 'Plain' and flavour == 'casefold':
        # identifiers that differ only by case / case folding ('ss' and the sharp s fold to the same string)
        pool = list(CASEFOLD_PLAIN)
        rng.shuffle(pool)
        gen.pool = pool[:6]
        gen.lags = [-2, -1, 0, 1, 2]
        gen.vars = ['x', 'y']
    elif kind == 'TS' and flavour == 'casefold':
        gen.vars = rng.choice([['X', 'x', 'y'], ['ss', '\u00df', 'S'], ['a', 'A', 'b']])
        gen.lags = [-1, 0, 1]
        allp = [GH.ts_name(v, l) for v in gen.vars for l in gen.lags]
        rng.shuffle(allp)
        gen.pool = allp[:6]
    elif kind == 'TS' and flavour == 'hostile':
        vs = ['he said "hi"', 'v\n', 'lag', 'future', 'a b', "it's", 'meta']
        rng.shuffle(vs)
        gen.vars = vs[:3]
        gen.lags = [-2, -1, 0, 1]
        allp = [GH.ts_name(v, l) for v in gen.vars for l in gen.lags]
        rng.shuffle(allp)
        gen.pool = allp[:6]
    gm = copy.deepcopy(rng.choice(GMETAS))
    g = (CausalGraph if kind == 'Plain' else TimeSeriesCausalGraph)(meta=copy.deepcopy(gm))
    ops = []
    n = rng.choice([4, 8, 12, 18, 25])
    for _ in range(n):
        op = gen.op(g)
        # more metadata / node objects than the default mix
        if rng.random() < 0.25:
            op = ('add_node', gen.name(), gen.vt(), gen.meta())
        if n == 12 or rng.random() < 0.12:
            GH.warm_caches(g, rng, 0.3)          # derived views (skeleton included) looked at BETWEEN the mutations
        GH.apply_op(g, op)
        ops.append(op)
    if flavour == 'casefold':
        # denser graphs: several sources that fold to the same string, each with several edges
        for _ in range(rng.choice([4, 8, 10])):
            op = ('add_edge', gen.endpoint(False), gen.endpoint(False), gen.ety(), gen.meta(), True, 'ids')
            GH.apply_op(g, op)
            ops.append(op)
    if g.get_node_names() and rng.random() < 0.35:
        # a derived view is looked at, then a node attribute is edited in place through its handle: the last word before serialising
        GH.warm_caches(g, rng, 0.5)
        try:
            _ = g.skeleton.to_dict()
        except Exception:  # noqa: BLE001
            pass
        op = ('set_attr', rng.choice(g.get_node_names()), None, None, None, gen.vt(), (gen.meta() or {}) if kind == 'Plain' and rng.random() < 0.5 else None)
        GH.apply_op(g, op)
        ops.append(op)
    return g, ops, gen, (gm or {})


def mutate(rng, d, gen):
    """A hostile (but shape-respecting) variant of a to_dict output, or None."""
    d = copy.deepcopy(d)
    nodes, edges = d.get('nodes', {}), d.get('edges', {})
    all_edges = [(s, t) for s, dd in edges.items() for t in dd]
    x = rng.random()
    if x < 0.12:
        d.pop('meta', None)
        return d, 'no-graph-meta'
    if x < 0.24 and nodes:
        for nd in nodes.values():
            if rng.random() < 0.5:
                nd.pop('meta', None)
            if rng.random() < 0.5:
                nd.pop('variable_type', None)
            if rng.random() < 0.3:
                nd.pop('node_class', None)
        return d, 'node-optional-keys'
    if x < 0.40 and all_edges:
        # re-orient an edge entry (tests the swap / refusal of the time-series class and
        # reverse detection)
        s, t = rng.choice(all_edges)
        ed = edges[s].pop(t)
        if not edges[s]:
            edges.pop(s)
        ed['source'], ed['destination'] = ed['destination'], ed['source']
        edges.setdefault(t, {})[s] = ed
        return d, 'reoriented-edge'
    if x < 0.52 and all_edges:
        # an edge entry between unknown nodes (implicitly added from the endpoint dictionaries)
        s, t = rng.choice(all_edges)
        ed = edges[s][t]
        for end in ('source', 'destination'):
            if rng.random() < 0.7:
                nid = ed[end]['identifier']
                nodes.pop(nid, None)
        return d, 'edge-with-unknown-nodes'
    if x < 0.62 and all_edges:
        # duplicate an edge entry under another key, possibly reversed => EdgeDuplicated / Reverse
        s, t = rng.choice(all_edges)
        ed = copy.deepcopy(edges[s][t])
        if rng.random() < 0.5:
            ed['source'], ed['destination'] = ed['destination'], ed['source']
        edges.setdefault('zzz-extra', {})['k'] = ed
        return d, 'duplicate-edge'
    if x < 0.72 and all_edges:
        s, t = rng.choice(all_edges)
        ed = edges[s][t]
        for end in ('source', 'destination'):
            r = rng.random()
            if r < 0.3:
                ed[end]['node_class'] = 'Node'
            elif r < 0.6:
                ed[end]['node_class'] = 'TimeSeriesNode'
            elif r < 0.7:
                ed[end]['node_class'] = 'Whatever'
            elif r < 0.8:
                ed[end].pop('node_class', None)
            if rng.random() < 0.3:
                ed[end].pop('meta', None)
            if rng.random() < 0.3 and isinstance(ed[end].get('meta'), dict):
                ed[end]['meta']['time_lag'] = 7
        if rng.random() < 0.3:
            ed.pop('meta', None)
        return d, 'endpoint-classes'
    if x < 0.80 and nodes:
        # duplicated identifier under a different key
        k0 = rng.choice(list(nodes))
        nodes['zzz-dup'] = copy.deepcopy(nodes[k0])
        return d, 'duplicate-node'
    if x < 0.88:
        # add a directed cycle through fresh entries (validate decides)
        names = list(nodes)
        if len(names) >= 2:
            a, b = rng.sample(names, 2)
            mk = lambda s, t: {'source': copy.deepcopy(nodes[s]), 'destination': copy.deepcopy(nodes[t]), 'edge_type': '->', 'meta': {}}
            edges.setdefault('zz1', {})['k'] = mk(a, b)
            edges.setdefault('zz2', {})['k'] = mk(b, a)
            return d, 'cycle'
    if x < 0.94:
        key = rng.choice(['nodes', 'edges', 'version'])
        d.pop(key, None)
        return d, f'missing-{key}'
    if nodes:
        k0 = rng.choice(list(nodes))
        r = rng.random()
        if r < 0.4:
            nodes[k0]['variable_type'] = 'nonsense'
        elif r < 0.7:
            nodes[k0].pop('identifier', None)
        else:
            nodes[k0]['identifier'] = gen.name()
        return d, 'node-garbage'
    return d, 'none'


def make_case(rng, idx):
    kind = rng.choice(['Plain', 'TS'])
    flavour = rng.choice(['default', 'hostile', 'tsnames', 'casefold'] if kind == 'Plain' else ['default', 'default', 'hostile', 'casefold'])
    g, ops, gen, gm = build_graph(rng, kind, flavour)
    cls = CausalGraph if kind == 'Plain' else TimeSeriesCausalGraph
    pool, lags, vars_ = gen.pool, gen.lags, gen.vars
    from cai_causal_graph import __version__ as version
    checks = []   # (label, coq boolean expression)
    st = 'st'
    # --- to_dict, both include_meta values, through JSON text
    for im in (True, False):
        exp, _ = cq_res_json(lambda: g.to_dict(include_meta=im), version)
        checks.append((f'to_dict im={im}', f'rj_eqb (to_dict k {st} {C.cq_bool(im)}) {exp}'))
        exp, _ = cq_res_json(lambda: g.skeleton.to_dict(include_meta=im), version)
        checks.append((f'skeleton.to_dict im={im}', f'rj_eqb (skeleton_to_dict k {st} {C.cq_bool(im)}) {exp}'))
    # --- from_dict(to_dict) for the model's own dictionary
    try:
        d_true = through_json(g.to_dict())
    except Exception:  # noqa: BLE001
        d_true = None
    if d_true is not None:
        for v in (True, False):
            s, h = sig_of(lambda: cls.from_dict(copy.deepcopy(d_true), validate=v), kind, pool, lags, vars_)
            checks.append((f'from_dict(to_dict) validate={v} -> {s[2]}',
                           f'sig_eqb (gsig k (bind (to_dict k {st} true) (fun j => from_dict k j {C.cq_bool(v)}))) {cq_sig(s)}'))
        # copy(include_meta=False)
        s, _ = sig_of(lambda: g.copy(include_meta=False), kind, pool, lags, vars_)
        checks.append((f'copy(include_meta=False) -> {s[2]}', f'sig_eqb (gsig k (copy k {st} false)) {cq_sig(s)}'))
        # skeleton round trip with the graph class
        dsk = through_json(g.skeleton.to_dict())
        s, _ = sig_of(lambda: Skeleton.from_dict(copy.deepcopy(dsk), graph_class=cls)._graph, kind, pool, lags, vars_)
        checks.append((f'Skeleton.from_dict -> {s[2]}',
                       f'sig_eqb (gsig k (bind (skeleton_to_dict k {st} true) (fun j => skeleton_from_dict k j))) {cq_sig(s)}'))
        # class conversions
        if kind == 'Plain':
            s, _ = sig_of(lambda: TimeSeriesCausalGraph.from_causal_graph(g), 'TS', pool, lags, vars_)
            checks.append((f'from_causal_graph -> {s[2]}', f'sig_eqb (gsig TS (from_causal_graph {st})) {cq_sig(s)}'))
            s, _ = sig_of(lambda: TimeSeriesCausalGraph.from_dict(copy.deepcopy(d_true), validate=True), 'TS', pool, lags, vars_)
            checks.append((f'TS.from_dict(plain dict) validate -> {s[2]}',
                           f'sig_eqb (gsig TS (bind (to_dict Plain {st} true) (fun j => from_dict TS j true))) {cq_sig(s)}'))
        else:
            s, _ = sig_of(lambda: CausalGraph.from_dict(copy.deepcopy(d_true)), 'Plain', pool, lags, vars_)
            checks.append((f'ts_to_cg -> {s[2]}', f'sig_eqb (gsig Plain (ts_to_cg {st})) {cq_sig(s)}'))
        # --- hostile variants of the dictionary, either class
        for _ in range(3):
            md, label = mutate(rng, d_true, gen)
            k2 = kind if rng.random() < 0.7 else ('TS' if kind == 'Plain' else 'Plain')
            cls2 = CausalGraph if k2 == 'Plain' else TimeSeriesCausalGraph
            v = rng.random() < 0.6
            s, _ = sig_of(lambda: cls2.from_dict(copy.deepcopy(md), validate=v), k2, pool, lags, vars_)
            if s[0] == 99:
                continue   # exception class outside the model's vocabulary (AttributeError ...)
            checks.append((f'mutant {label} as {k2} validate={v} -> {s[2]}',
                           f'sig_eqb (gsig {k2} (from_dict {k2} {cq_graph_dict(md, version)} {C.cq_bool(v)})) {cq_sig(s)}'))
    body = (f'Definition case_{idx} : list bool :=\n'
            f'  let k := {kind} in\n'
            f'  let pool := {C.cq_names(pool)} in let lags := {C.cq_list(C.cq_Z, lags)} in let vars := {C.cq_names(vars_)} in\n'
            f'  let gsig := fun k r => gsig0 k pool lags vars r in\n'
            f'  let st := g_run k {C.cq_list(lambda o: "(" + GH.cq_op(GH._tup(o)) + ")", ops)} (empty_graph {C.cq_meta(gm)}) in\n'
            f'  [' + ';\n   '.join(c for _, c in checks) + '].\n')
    return dict(kind=kind, flavour=flavour, labels=[l for l, _ in checks], body=body, nnodes=len(g.nodes), nedges=len(g.edges), ops=ops, gmeta=gm)


HEADER = C.COQ_HEADER + '''From CG Require Import Base Graph GraphObs Tok Names GraphTS Serial.
From Coq Require Import Uint63.
Local Open Scope N_scope.
Definition to_dict := Serial.to_dict.
Definition from_dict := Serial.from_dict parse fmt.
Definition copy := Serial.copy parse fmt.
Definition skeleton_from_dict := Serial.skeleton_from_dict parse fmt.
Definition from_causal_graph := Serial.from_causal_graph parse fmt.
Definition ts_to_cg := Serial.ts_to_cg parse fmt.
Definition rj_eqb (a b : res json) : bool :=
  match a, b with
  | Ok x, Ok y => json_eqb x y
  | Err e, Err e' => N.eqb (err_code e) (err_code e')
  | _, _ => false
  end.
Definition gsig0 (k : kind) pool lags vars (r : res graph) : N * int :=
  match r with
  | Ok g => (0, hash_tokens (g_observe k g pool lags vars ++ tk_meta (gmeta g)))
  | Err e => (err_code e, 0%uint63)
  end.
Definition sig_eqb (a b : N * int) : bool := N.eqb (fst a) (fst b) && Uint63.eqb (snd a) (snd b).
'''


def run_chunk(path):
    r = subprocess.run(['timeout', '900', 'coqc', '-Q', THEORIES, 'CG', str(path)], capture_output=True, text=True,
                       cwd=str(path.parent))
    return r


def run(seed, n, chunk=10):
    """Returns (total checks, [mismatch descriptions], stats per check kind, cases)."""
    import re
    out_dir = C.workdir()
    rng = random.Random(seed)
    cases = [make_case(rng, i) for i in range(n)]
    files = []
    for c0 in range(0, n, chunk):
        p = out_dir / f'ser_{seed}_{c0 // chunk}.v'
        idxs = list(range(c0, min(n, c0 + chunk)))
        p.write_text(HEADER + '\n'.join(cases[i]['body'] for i in idxs)
                     + '\nEval vm_compute in [' + '; '.join(f'case_{i}' for i in idxs) + '].\n')
        files.append((idxs, p))
    with ThreadPoolExecutor(max_workers=C.NCPU) as ex:
        results = list(ex.map(lambda f: run_chunk(f[1]), files))
    total = 0
    bad = []
    stats = {}
    for (idxs, p), r in zip(files, results):
        if r.returncode != 0:
            raise RuntimeError(f'coqc failed on {p}: {r.stderr[-2000:]}')
        m = re.search(r'=\s*(\[.*\])\s*:\s*list \(list bool\)', r.stdout, re.S)
        inner = re.findall(r'\[([^\[\]]*)\]', m.group(1))
        assert len(inner) == len(idxs), (len(inner), len(idxs))
        for i, txt in zip(idxs, inner):
            vals = [x.strip() for x in txt.split(';')] if txt.strip() else []
            assert len(vals) == len(cases[i]['labels']), (i, len(vals), len(cases[i]['labels']))
            for lab, v in zip(cases[i]['labels'], vals):
                total += 1
                key = lab.split(' ->')[0].split(' as ')[0]
                stats.setdefault(key, [0, 0])[0] += 1
                if v != 'true':
                    stats[key][1] += 1
                    bad.append(dict(case=i, kind=cases[i]['kind'], flavour=cases[i]['flavour'], check=lab, ops=cases[i].get('ops')))
    return total, bad, stats, cases
