"""Correspondence of the GENERATED time-series code (coq/theories/TSGenMinimal.v, TSGenExtend.v, written by
tools/translate_ts_extend.py) with the implementation: the same generator, the same case format ([tcase], built by
tsprops.cq_case) and the same comparisons as the C14 / C15 rows of tsprops.py, evaluated by
CorrTSGenMinimal.check_tcases_gen_minimal / CorrTSGenExtend.check_tcases_gen_extend.

usage (stand-alone):  PYTHONPATH=<repo>:<verif> python -m harness.tsgencorr [C14|C15] [n] [seed]
returns / prints the number of diverging graphs (0 = the generated code answered exactly like the library)."""
from __future__ import annotations

import random
import re
import sys

from . import common as C
from . import tsprops as T

ENTRY = {'C14': ('CorrTSGenMinimal', 'check_tcases_gen_minimal', ['gen_min_eq', 'gen_ismin_eq', 'gen_min_vs_model', 'gen_ismin_vs_model', 'closed']),
         'C15': ('CorrTSGenExtend', 'check_tcases_gen_extend', ['gen_ext_eq', 'gen_ext_vs_model'])}


def run_gen_cases(graphs, pid, rng, tier='quick', chunk=25):
    mod, fn, cols = ENTRY[pid]
    which = [p == pid for p in ('C14', 'C15', 'C16', 'C17')]
    wd = C.workdir()
    rows = [T.cq_case(g, which, rng, tier) for g in graphs]
    files = []
    for i in range(0, len(rows), chunk):
        f = wd / f'gen_{pid.lower()}_{i // chunk}.v'
        f.write_text(C.COQ_HEADER + f'From CG Require Import Base TSGraph CorrTS {mod}.\nLocal Open Scope N_scope.\n'
                     'Definition cs : list tcase := [\n ' + ';\n '.join(rows[i:i + chunk]) + f'\n].\nEval vm_compute in ({fn} cs).\n')
        files.append(f)
    out = []
    for f, rc, so, se in C.run_coq_files(files, timeout=1800):
        if rc != 0:
            raise RuntimeError(f'coqc failed on {f}: {se[-2000:]}')
        blk = C.parse_eval_blocks(so)[0]
        for row in re.findall(r'\[([^\[\]]*)\]', blk):
            out.append([int(x) for x in re.findall(r'\d+', re.sub(r'%\w+', '', row))])
    if len(out) != len(graphs):
        raise RuntimeError(f'Coq returned {len(out)} rows for {len(graphs)} cases')
    return cols, out


def main(argv):
    pid = argv[1] if len(argv) > 1 else 'C14'
    n = int(argv[2]) if len(argv) > 2 else 60
    rng = random.Random(int(argv[3]) if len(argv) > 3 else 1)
    modes = {'C14': ['consistent', 'consistent', 'dag', 'wild'], 'C15': ['consistent', 'dag', 'dag0', 'wild']}[pid]
    specs = [T.gen_ts_graph(rng, modes[i % len(modes)]) for i in range(n)] + [([], None)]
    graphs = [T.build(s, gm) for s, gm in specs]
    # derived objects too (what the operations returned)
    for g in list(graphs[::3]):
        try:
            graphs.append(g.get_minimal_graph() if pid == 'C14' else g.extend_graph(1, 1))
        except Exception:  # noqa: BLE001
            pass
    cols, out = run_gen_cases(graphs, pid, rng)
    bad = [(i, dict(zip(cols, r))) for i, r in enumerate(out) if any(x == 0 for x in r)]
    print(f'{pid}: {len(graphs)} graphs, columns {cols}, diverging: {len(bad)}')
    for i, r in bad[:5]:
        print('  graph', i, r)
    return 1 if bad else 0


if __name__ == '__main__':
    sys.exit(main(sys.argv))
