"""Sweep over DAGs shared by C10 C11 C18 C19 C20: the implementation's answers are serialised to
the token layout of coq/theories/CorrDag.v and compared (by hash) with the model evaluated inside
Coq; outputs that need a checker (topological order, d-separation sets, confounder / instrument /
Markov-boundary criteria) are sent to Coq, which evaluates the property's predicate on them."""
from __future__ import annotations

import itertools
import os
import random
from multiprocessing import Pool

from cai_causal_graph import CausalGraph
from cai_causal_graph.identify_utils import (identify_confounders, identify_instruments, identify_markov_boundary,
                                              identify_mediators)

from . import common as C

SECTIONS = ['C10', 'C11', 'C18', 'C19', 'C20']
NAMES = 'abcdefgh'
# identifiers that are legal but unusual (empty string, space, newline, non-ASCII, quote, the bare word lag): every fifth DAG of a
# sweep is built over these instead of single letters -- the answers are mapped back to indices, so the comparison with the model
# is the renaming-invariance clause of the properties
HOSTILE_NAMES = ['', 'a b', 'X\n', '\u00e9', 'lag', "it's", 'node_1', 'zz']


def names_for(n, arcs):
    return HOSTILE_NAMES if (n + 3 * len(arcs) + sum(b for _, b in arcs)) % 5 == 0 else NAMES


def is_acyclic_bits(n, arcs):
    indeg = [0] * n
    out = [[] for _ in range(n)]
    for a, b in arcs:
        indeg[b] += 1
        out[a].append(b)
    st = [i for i in range(n) if indeg[i] == 0]
    seen = 0
    while st:
        v = st.pop()
        seen += 1
        for w in out[v]:
            indeg[w] -= 1
            if indeg[w] == 0:
                st.append(w)
    return seen == n


def all_dags(n):
    pairs = [(a, b) for a in range(n) for b in range(n) if a != b]
    upairs = [(a, b) for a in range(n) for b in range(a + 1, n)]
    # choose for every unordered pair: none / a->b / b->a
    res = []
    for choice in itertools.product((0, 1, 2), repeat=len(upairs)):
        arcs = [((a, b) if c == 1 else (b, a)) for (a, b), c in zip(upairs, choice) if c]
        if is_acyclic_bits(n, arcs):
            res.append(arcs)
    return res


def random_dag(rng, n, p=None):
    p = p if p is not None else rng.choice([0.25, 0.4, 0.55])
    perm = list(range(n))
    rng.shuffle(perm)
    arcs = [(perm[i], perm[j]) for i in range(n) for j in range(i + 1, n) if rng.random() < p]
    rng.shuffle(arcs)
    return arcs


def upper_triangular_dags(n):
    ups = [(a, b) for a in range(n) for b in range(a + 1, n)]
    for mask in range(1 << len(ups)):
        yield [ups[i] for i in range(len(ups)) if mask >> i & 1]


def _warm_queries(g, names):
    """Queries of every family on a partially built graph (answers ignored): a cache that survives the later mutations shows
    up as a wrong answer on the finished graph."""
    qs = [lambda: g.is_dag(), lambda: g.to_networkx(), lambda: g.get_topological_order(), lambda: g.adjacency_matrix,
          lambda: g.skeleton.edges, lambda: g.to_dict()]
    if names:
        x, y = names[0], names[-1]
        qs += [lambda: g.get_ancestors(x), lambda: g.get_descendants(y), lambda: g.get_nodes_between(x, y),
               lambda: g.get_all_causal_paths(x, y), lambda: g.is_d_separated(x, y, set()),
               lambda: identify_confounders(g, x, y), lambda: identify_markov_boundary(g, x),
               lambda: identify_instruments(g, x, y), lambda: identify_mediators(g, x, y),
               lambda: g.get_ancestral_graph(y), lambda: g.get_d_separation_set(x, y)]
    for q in qs:
        try:
            q()
        except Exception:  # noqa: BLE001
            pass


def _decorate(g, ids):
    """variable types and (nested) metadata on the nodes, so that derived sub-graphs can be checked to carry them over"""
    from cai_causal_graph.type_definitions import NodeVariableType
    vts = list(NodeVariableType)
    for i, nm in enumerate(ids):
        node = g.get_node(nm)
        node.variable_type = vts[(i + len(ids)) % len(vts)]
        if i % 2:
            node.meta = {'i': i, 'w': [i, {'k': nm}]}


def attrs_kept(sub, g):
    """every node of a derived sub-graph carries the variable type and metadata of the node it came from"""
    for node in sub.get_nodes():
        src = g.get_node(node.identifier)
        if node.variable_type != src.variable_type or node.meta != src.meta:
            return False
    return True


def build(n, arcs, names=NAMES):
    """The DAG with the given arcs, reached by one of several histories chosen deterministically from the arcs: plain
    insertion; insertion with queries of every family half way (warm caches); a detour through an extra node and an extra
    edge that are deleted again; a copy; a dictionary round trip; a scaffold node joined to every node and deleted again; the
    node with most parents renamed away and back."""
    mode = (n * 7 + sum((i + 1) * (3 * a + b + 1) for i, (a, b) in enumerate(arcs))) % 12
    g = CausalGraph()
    ids = [names[i] for i in range(n)]
    touched = {v for e in arcs for v in e}
    if mode == 8:
        # the nodes without edges are added LAST, one by one with add_node, after every family of queries has been asked
        # (cached is_dag / networkx view, then a node-only mutation, then the recorded queries)
        for a, b in arcs:
            g.add_edge(names[a], names[b])
        _warm_queries(g, [names[i] for i in sorted(touched)])
        for i in range(n):
            if i not in touched:
                g.add_node(names[i])
        _decorate(g, ids)
        return g
    g.add_nodes_from(ids)
    half = len(arcs) // 2
    for k, (a, b) in enumerate(arcs):
        if k == half and mode == 3:
            _warm_queries(g, ids)
        if k == half and mode == 4:
            g.add_node('zz~')
            g.add_edge('zz~', names[a])
            _warm_queries(g, ids)
        g.add_edge(names[a], names[b])
    if mode == 4 and arcs:
        g.delete_node('zz~')
    if mode == 5 and arcs:
        a, b = arcs[0]
        _warm_queries(g, ids)
        g.delete_edge(names[a], names[b])
        _warm_queries(g, ids)
        g.add_edge(names[a], names[b])
    if mode in (9, 10) and n >= 2:
        # a scaffold node with SEVERAL directed edges (every node its parent / its child) is added and deleted again: whatever the
        # neighbours keep per node must be cleaned for each of them
        g.add_node('zz~')
        for i in range(n):
            if mode == 9:
                g.add_edge(names[i], 'zz~')
            else:
                g.add_edge('zz~', names[i])
        _warm_queries(g, ids)
        g.delete_node('zz~')
    if mode == 11 and arcs:
        # the node with most parents is renamed away and back (replace_node re-creates its edges and deletes the original)
        indeg = {v: sum(1 for _, b in arcs if b == v) for v in range(n)}
        x = max(range(n), key=lambda v: (indeg[v], -v))
        g.replace_node(names[x], 'zz~')
        _warm_queries(g, ['zz~' if i == x else names[i] for i in range(n)])
        g.replace_node('zz~', names[x])
    if mode == 6:
        _warm_queries(g, ids)
        g = g.copy()
    if mode == 7:
        g = CausalGraph.from_dict(g.to_dict())
    _decorate(g, ids)
    return g


# ---- token mirror --------------------------------------------------------------------------
def tk_nats(l): return C.tk_list(lambda x: [x], l)
def tk_set(l): return tk_nats(sorted(l))
def tk_ll(l): return C.tk_list(tk_nats, sorted(list(x) for x in l))
def tk_graph(nodes, arcs): return tk_set(nodes) + tk_ll([[a, b] for a, b in arcs])


def subsets(l):
    return [[l[j] for j in range(len(l)) if i >> j & 1] for i in range(1 << len(l))]


def impl_answers(n, arcs, which):
    """Returns (hashes[5], aux dict) for one DAG.  For every other DAG (chosen deterministically from the arcs) the whole
    battery of queries of ALL families is first run once on the same graph object with the answers discarded, so that the
    recorded answers are 'later calls' made after every other query (a memo shared between two queries, or filled by one and
    trusted by another, shows up); for the remaining DAGs the recorded answers are first calls."""
    return _answers(prepared(n, arcs), n, arcs, which)


def prepared(n, arcs):
    """the graph object on which the recorded answers are taken: built by build(), and for every other DAG already queried
    once with the whole battery (answers discarded).  Used by the sweep AND by the reference-definition search, so that a
    failure that needs an earlier query on the same object is reproduced by the search."""
    g = build(n, arcs, names_for(n, arcs))
    if (len(arcs) + sum(a for a, _ in arcs)) % 2 == 1:
        try:
            _answers(g, n, arcs, [True] * 5)
        except Exception:  # noqa: BLE001
            pass
    return g


def _answers(g, n, arcs, which):
    N = names_for(n, arcs)
    ix = {N[i]: i for i in range(n)}
    V = range(n)
    opairs = [(x, y) for x in V for y in V if x != y]
    upairs = [(x, y) for x in V for y in V if x < y]
    hashes = [0] * 5
    aux = dict(topo=[], dsets=[], conf=[], inst=[], mb=[])
    I = lambda names: [ix[s] for s in names]  # noqa: E731

    def gview(sub):
        return tk_graph(I(sub.get_node_names()), [(ix[a], ix[b]) for a, b in sub.get_edge_pairs()])
    if which[0]:
        t = []
        for x in V:
            t += tk_set(I(g.get_ancestors(N[x]))) + tk_set(I(g.get_descendants(N[x])))
            if x % 2 and (set(g.get_ancestors(g.get_node(N[x]))) != set(g.get_ancestors(N[x]))
                          or set(g.get_descendants(g.get_node(N[x]))) != set(g.get_descendants(N[x]))):
                t += [999]
            subs = [g.get_ancestral_graph(N[x]), g.get_descendant_graph(N[x]), g.get_parents_graph(N[x]), g.get_children_graph(N[x])]
            if not all(attrs_kept(sg, g) for sg in subs):
                t += [997]
            t += gview(subs[0]) + gview(subs[1])
            t += gview(subs[2]) + gview(subs[3])
        for x in V:
            # collections: all descendants / ancestors at once (True), the same plus the node itself (False: a node of a DAG is never
            # its own ancestor), the node alone in the three argument forms
            ds, an = sorted(g.get_descendants(N[x])), sorted(g.get_ancestors(N[x]))
            if (not g.is_ancestor(N[x], ds) or not g.is_descendant(N[x], set(an)) or g.is_ancestor(N[x], ds + [N[x]]) or g.is_descendant(N[x], an + [N[x]])
                    or g.is_ancestor(N[x], N[x]) or g.is_ancestor(N[x], [N[x]]) or g.is_descendant(N[x], N[x]) or g.is_descendant(N[x], {N[x]})):
                t += [996]
        for x, y in opairs:
            a = g.is_ancestor(N[x], N[y])
            d = g.is_descendant(N[x], N[y])
            if a != g.is_ancestor(N[x], [N[y]]) or a != g.is_ancestor(N[x], {N[y]}) or d != g.is_descendant(N[x], [N[y]]) \
                    or not g.is_ancestor(N[x], []) or not g.is_descendant(N[x], set()):
                t += [999]
            t += C.tk_bool(a) + C.tk_bool(d)
            t += tk_set(I(g.get_common_ancestors(N[x], N[y]))) + tk_set(I(g.get_common_descendants(N[x], N[y])))
            t += tk_ll([I(p) for p in g.get_all_causal_paths(N[x], N[y])])
            t += [0] + tk_set(I(nd.identifier for nd in g.get_nodes_between(N[x], N[y])))
            t += C.tk_bool(g.directed_path_exists(N[x], N[y]))
        for x in V:
            t += tk_ll([I(p) for p in g.get_all_causal_paths(N[x], N[x])])
            t += [0] + tk_set(I(nd.identifier for nd in g.get_nodes_between(N[x], N[x])))
        t += tk_ll([I(o) for o in g.get_topological_order(return_all=True)])
        hashes[0] = C.hash_tokens(t)
        aux['topo'] = I(g.get_topological_order())
    if which[1]:
        t = []
        for x, y in upairs:
            oth = [v for v in V if v != x and v != y]
            b1, b2 = [], []
            for Z in subsets(oth):
                zs = {N[z] for z in Z}
                r = g.is_d_separated(N[x], N[y], zs)
                if r != g.is_d_separated(N[y], N[x], list(zs)) or r != g.is_d_separated([N[x]], {N[y]}, zs):
                    r = 'asym'
                b1.append(r)
                m = g.is_minimally_d_separated(N[x], N[y], zs)
                # the same queries with Node objects (end points and / or members of the conditioning set), lists and tuples
                form = (x + 2 * y + len(Z)) % 4
                if form == 0:
                    alt = (g.get_node(N[x]), g.get_node(N[y]), {g.get_node(N[z]) for z in Z})
                elif form == 1:
                    alt = (N[x], N[y], [g.get_node(N[z]) for z in Z])
                elif form == 2:
                    alt = (g.get_node(N[x]), N[y], tuple(N[z] for z in Z))
                else:
                    alt = (N[y], N[x], frozenset(zs))
                try:
                    if g.is_minimally_d_separated(*alt) != m or bool(g.is_d_separated(*alt)) != bool(r):
                        m = 'asym'
                except Exception:  # noqa: BLE001
                    m = 'asym'
                if m == 'asym':
                    t += [998]
                    m = False
                b2.append(m)
            if 'asym' in b1:
                t += [999]
                b1 = [bool(b) and b != 'asym' for b in b1]
            t += [C.mask_of(b1), C.mask_of(b2)]
            try:
                aux['dsets'].append(sorted(I(g.get_d_separation_set(N[x], N[y]))))
            except AssertionError:
                aux['dsets'].append(None)
        hashes[1] = C.hash_tokens(t)
    def as_node(v):
        # the graph's own node object, or a FRESH Node carrying only the identifier (no edges of its own, not held by any graph)
        if (v + len(arcs)) % 2:
            from cai_causal_graph.graph_components import Node
            return Node(N[v])
        return g.get_node(N[v])

    def same_with_nodes(f, x, y, ref):
        """the same query with Node objects instead of identifiers (first, second or both arguments) must answer the same"""
        form = (x + 2 * y) % 4
        if form == 3:
            return True
        a = as_node(x) if form in (0, 2) else N[x]
        b = as_node(y) if form in (1, 2) else N[y]
        try:
            return sorted(I(f(g, a, b))) == ref
        except Exception:  # noqa: BLE001
            return False
    if which[2] or which[3]:
        conf = {(x, y): sorted(I(identify_confounders(g, N[x], N[y]))) for x, y in opairs}
        if which[2]:
            t = []
            for p in opairs:
                if not same_with_nodes(identify_confounders, p[0], p[1], conf[p]):
                    t += [999]
                t += [0] + tk_set(conf[p])
            hashes[2] = C.hash_tokens(t)
            aux['conf'] = [conf[p] for p in opairs]
    if which[3]:
        t = []
        for x, y in opairs:
            ins = sorted(I(identify_instruments(g, N[x], N[y])))
            med = sorted(I(identify_mediators(g, N[x], N[y])))
            if not same_with_nodes(identify_instruments, x, y, ins) or not same_with_nodes(identify_mediators, x, y, med):
                t += [999]
            t += [0] + tk_set(ins) + [0] + tk_set(med)
            aux['inst'].append(ins)
        hashes[3] = C.hash_tokens(t)
    if which[4]:
        t = []
        for x in V:
            mb = sorted(I(identify_markov_boundary(g, N[x])))
            if sorted(identify_markov_boundary(g.skeleton, N[x])) != sorted(g.get_neighbors(N[x])):
                t += [999]
            if x % 2 and sorted(I(identify_markov_boundary(g, as_node(x)))) != mb:
                t += [999]
            t += tk_set(mb)
            aux['mb'].append(mb)
        hashes[4] = C.hash_tokens(t)
    return hashes, aux


def _worker(args):
    n, arcs, which = args
    try:
        return impl_answers(n, arcs, which)
    except Exception as e:  # noqa: BLE001
        return ('EXC', f'{type(e).__name__}: {e}')


def cq_nats(l): return '[' + '; '.join(map(str, l)) + ']'


def cq_dcase(n, arcs, which, hashes, aux):
    f = lambda ll: '[' + '; '.join(cq_nats(l) for l in ll) + ']'  # noqa: E731
    ds = '[' + '; '.join('None' if d is None else f'(Some {cq_nats(d)})' for d in aux['dsets']) + ']'
    return ('{| dc_n := %d; dc_arcs := %s; dc_which := %s; dc_hashes := %s; dc_topo := %s; dc_dsets := %s; '
            'dc_conf := %s; dc_inst := %s; dc_mb := %s |}'
            % (n, '[' + '; '.join(f'({a}, {b})' for a, b in arcs) + ']',
               '[' + '; '.join(C.cq_bool(w) for w in which) + ']',
               '[' + '; '.join(f'{h}%uint63' for h in hashes) + ']',
               cq_nats(aux['topo']), ds, f(aux['conf']), f(aux['inst']), f(aux['mb'])))


EXCEPTIONS = []


def sweep(dags, which, tag='dag', chunk=250, procs=None):
    """dags: list of (n, arcs). Returns list of per-DAG result vectors (lists of ints) from Coq and the raw impl data."""
    procs = procs or C.NCPU
    jobs = [(n, arcs, which) for n, arcs in dags]
    if len(jobs) > 200 and procs > 1:
        with Pool(procs) as pool:
            impl = pool.map(_worker, jobs, chunksize=32)
    else:
        impl = [_worker(j) for j in jobs]
    wd = C.workdir()
    files = []
    for i in range(0, len(dags), chunk):
        f = wd / f'{tag}_{i // chunk}.v'
        rows = []
        for (n, arcs), r in zip(dags[i:i + chunk], impl[i:i + chunk]):
            if r[0] == 'EXC':
                # a query raised on a DAG with existing nodes: recorded as a divergence (hashes 0); the search explains it
                EXCEPTIONS.append((n, arcs, r[1]))
                r = ([0] * 5, dict(topo=[], dsets=[], conf=[], inst=[], mb=[]))
            rows.append(cq_dcase(n, arcs, which, r[0], r[1]))
        f.write_text(C.COQ_HEADER + 'From CG Require Import Base CorrDag.\nFrom Coq Require Import Uint63.\n'
                     'Definition cs : list dcase := [\n ' + ';\n '.join(rows) + '\n].\n'
                     'Eval vm_compute in (check_dcases cs).\n')
        files.append(f)
    res = C.run_coq_files(files, timeout=3000)
    out = []
    import re
    for f, rc, so, se in res:
        if rc != 0:
            raise RuntimeError(f'coqc failed on {f}: {se[-1500:]}')
        blocks = C.parse_eval_blocks(so)
        inner = re.findall(r'\[([^\[\]]*)\]', blocks[0])
        for row in inner:
            out.append([int(x) for x in re.findall(r'\d+', re.sub(r'%\w+', '', row))])
    if len(out) != len(dags):
        raise RuntimeError(f'Coq returned {len(out)} rows for {len(dags)} cases')
    return out, impl


def dag_set(tier, rng, max_exh=None):
    """The DAGs explored: exhaustive up to 4 (quick) / 5 (thorough) labelled nodes + samples beyond."""
    dags = []
    exh = max_exh or (4 if tier == 'quick' else 5)
    for n in range(1, exh + 1):
        dags += [(n, a) for a in all_dags(n)]
    n_exh = len(dags)
    if tier == 'quick':
        dags += [(5, random_dag(rng, 5)) for _ in range(250)]
        dags += [(6, random_dag(rng, 6)) for _ in range(60)]
    else:
        ut = list(upper_triangular_dags(6))
        rng.shuffle(ut)
        dags += [(6, a) for a in ut[:3000]]
        dags += [(6, random_dag(rng, 6)) for _ in range(1500)]
        dags += [(7, random_dag(rng, 7)) for _ in range(300)]
    return dags, n_exh


def model_tokens(which_index, n, arcs):
    wd = C.workdir()
    f = wd / 'dagdiag.v'
    f.write_text(C.COQ_HEADER + 'From CG Require Import Base CorrDag.\n'
                 f'Eval vm_compute in (dag_tokens {which_index} {n} {"[" + "; ".join(f"({a}, {b})" for a, b in arcs) + "]"}).\n')
    r = C.coqc(f)
    if r.returncode != 0:
        raise RuntimeError(r.stderr[-1500:])
    return C.parse_N_list(C.parse_eval_blocks(r.stdout)[0])


# ---- mixed graphs (colliders, directed_path_exists) -------------------------------------------
def all_mixed(n, types):
    """every assignment of {no edge} + types x both stored orientations to every unordered pair"""
    ups = [(a, b) for a in range(n) for b in range(a + 1, n)]
    opts = [None] + [(t, o) for t in types for o in (0, 1)]
    for choice in itertools.product(opts, repeat=len(ups)):
        yield [((a, b) if c[1] == 0 else (b, a)) + (c[0],) for (a, b), c in zip(ups, choice) if c]


def random_mixed(rng, n, types, p=0.5):
    out = []
    for a in range(n):
        for b in range(a + 1, n):
            if rng.random() < p:
                s, d = (a, b) if rng.random() < 0.5 else (b, a)
                out.append((s, d, rng.choice(types)))
    return out


def build_mixed(n, mg):
    from cai_causal_graph.type_definitions import EdgeType
    g = CausalGraph()
    g.add_nodes_from([NAMES[i] for i in range(n)])
    for s, d, t in mg:
        g.add_edge(NAMES[s], NAMES[d], edge_type=EdgeType(t), validate=False)
    return g


def mixed_sweep(cases, sel, impl_tokens, tag='mixed', chunk=400):
    """cases: list of (n, mg); impl_tokens(g, n) -> tokens. Returns indices that disagree with the model."""
    wd = C.workdir()
    rows = []
    for n, mg in cases:
        g = build_mixed(n, mg)
        rows.append((n, mg, C.hash_tokens(impl_tokens(g, n))))
    files = []
    for i in range(0, len(rows), chunk):
        f = wd / f'{tag}_{i // chunk}.v'
        body = ';\n '.join('(%d, %s, %d%%uint63)' % (n, '[' + '; '.join(f'({s}, {d}, {C.cq_etype(t)})' for s, d, t in mg) + ']', h)
                           for n, mg, h in rows[i:i + chunk])
        f.write_text(C.COQ_HEADER + 'From CG Require Import Base CorrDag.\nFrom Coq Require Import Uint63.\n'
                     f'Eval vm_compute in (check_mixed {sel} [\n {body}\n]).\n')
        files.append((i, f))
    res = C.run_coq_files([f for _, f in files])
    bad = []
    for (base, f), (_, rc, so, se) in zip(files, res):
        if rc != 0:
            raise RuntimeError(f'coqc failed on {f}: {se[-1500:]}')
        bad += [base + j for j in C.parse_N_list(C.parse_eval_blocks(so)[0])]
    return bad


# ------------------------------------------------------------------------------------------
# answers do not depend on what was asked before: the same question on a graph object that has already answered every other
# question (in forward and in reverse order) and on a freshly built object of the same graph
# ------------------------------------------------------------------------------------------
def order_independence(run, pid, fns, sizes=(5,), sample6=0, rng=None):
    """fns: list of (label, f, arity) with f(g, name_x[, name_y]) -> iterable of identifiers. Every upper-triangular DAG on the
    given sizes (every unlabelled DAG occurs among them) plus `sample6` random 6-node DAGs. Returns the number of questions asked."""
    import itertools
    dags = []
    for n in sizes:
        dags += [(n, a) for a in upper_triangular_dags(n)]
    if sample6 and rng is not None:
        dags += [(6, random_dag(rng, 6)) for _ in range(sample6)]
    asked = 0
    nviol = 0

    def plain(n, arcs):
        g = CausalGraph()
        g.add_nodes_from([NAMES[i] for i in range(n)])
        for a, b in arcs:
            g.add_edge(NAMES[a], NAMES[b])
        return g

    def ask(f, g, q):
        try:
            return sorted(I_(f(g, *[NAMES[v] for v in q])))
        except Exception as e:  # noqa: BLE001
            return f'raised {type(e).__name__}'
    for n, arcs in dags:
        for label, f, arity in fns:
            qs = list(itertools.permutations(range(n), 2)) if arity == 2 else [(v,) for v in range(n)]
            fresh = {q: ask(f, plain(n, arcs), q) for q in qs}
            for order in (qs, qs[::-1]):
                g = plain(n, arcs)
                for k, q in enumerate(order):
                    asked += 1
                    got = ask(f, g, q)
                    if got != fresh[q]:
                        if nviol < 2:
                            run.violation(dict(kind='order_dependence', function=label, n=n, arcs=arcs, asked_before=[list(x) for x in order[:k]],
                                               question=list(q), got=got, fresh_object=fresh[q],
                                               why=f'{label}{tuple(NAMES[v] for v in q)} answers {got} on a graph object that has answered '
                                                   f'{k} other questions and {fresh[q]} on a freshly built object of the same graph '
                                                   f'(edges {[(NAMES[a], NAMES[b]) for a, b in arcs]})',
                                               replay_cmd=f'./check {pid} --replay <this file>'), note=f'{label} depends on earlier questions')
                        nviol += 1
                        break
    run.oblige(f'answers independent of earlier questions: {", ".join(l for l, _, _ in fns)} on {len(dags)} DAGs, every question asked on a '
               f'fresh object and on an object that has answered all the others (forward and reverse order)', nviol == 0,
               '' if not nviol else f'{nviol} (DAG, function, order) combinations differ')
    run.coverage['order_independence_questions'] = asked
    return asked


def I_(xs):
    return [x if isinstance(x, str) else x.identifier for x in xs]


def replay_order(run, c, fns):
    """re-run one recorded order-dependence case"""
    f = dict((l, fn) for l, fn, _ in fns)[c['function']]
    n, arcs = c['n'], [tuple(a) for a in c['arcs']]

    def plain():
        g = CausalGraph()
        g.add_nodes_from([NAMES[i] for i in range(n)])
        for a, b in arcs:
            g.add_edge(NAMES[a], NAMES[b])
        return g
    g = plain()
    for q in c['asked_before']:
        try:
            f(g, *[NAMES[v] for v in q])
        except Exception:  # noqa: BLE001
            pass
    q = c['question']
    got = sorted(I_(f(g, *[NAMES[v] for v in q])))
    fresh = sorted(I_(f(plain(), *[NAMES[v] for v in q])))
    print('warm object:', got, ' fresh object:', fresh)
    if got != fresh:
        run.violation(dict(c, got=got, fresh_object=fresh), note='depends on earlier questions')
    return 1 if run.violations else 0


def build_mixed_edited(n, mg, rng):
    """The same mixed graph reached through an edit history: edges first added with another type (or the other way round) and then
    re-typed / removed and re-added, extra edges added and removed again, nodes deleted and re-created. Returns (graph, steps) or
    (None, steps) when the library refused a step (then the case is skipped; directed cycles make some detours illegal)."""
    from cai_causal_graph.type_definitions import EdgeType
    g = CausalGraph()
    g.add_nodes_from([NAMES[i] for i in range(n)])
    steps = []

    def do(op, *a):
        steps.append([op, *a])
        if op == 'add':
            g.add_edge(NAMES[a[0]], NAMES[a[1]], edge_type=EdgeType(a[2]), validate=False)
        elif op == 'retype':
            g.change_edge_type(NAMES[a[0]], NAMES[a[1]], EdgeType(a[2]))
        elif op == 'remove':
            g.remove_edge(NAMES[a[0]], NAMES[a[1]])
        elif op == 'delete':
            g.delete_edge(NAMES[a[0]], NAMES[a[1]])
    used = {frozenset((s, d)) for s, d, _ in mg}
    free = [(a, b) for a in range(n) for b in range(n) if a != b and frozenset((a, b)) not in used]
    extras = []
    try:
        for s, d, t in mg:
            mode = rng.randrange(6)
            t2 = rng.choice([x for x in ('->', '<>', '--') if x != t])
            if mode == 0:
                do('add', s, d, t)
            elif mode == 1:
                do('add', s, d, t2)
                do('retype', s, d, t)
            elif mode == 2:
                do('add', d, s, t2)
                do(rng.choice(['remove', 'delete']), d, s)
                do('add', s, d, t)
            elif mode == 3:
                do('add', s, d, t)
                do('retype', s, d, t2)
                do('retype', s, d, t)
            elif mode == 4:
                do('add', d, s, rng.choice(['<>', '--']))
                do('remove', d, s)
                do('add', s, d, t)
            else:
                do('add', s, d, t)
                if free and rng.random() < 0.7:
                    a, b = rng.choice(free)
                    if frozenset((a, b)) not in {frozenset(e[:2]) for e in extras}:
                        do('add', a, b, rng.choice(['->', '<>', '--']))
                        extras.append((a, b))
        rng.shuffle(extras)
        for a, b in extras:
            do(rng.choice(['remove', 'delete']), a, b)
    except Exception as e:  # noqa: BLE001
        steps.append(['refused', type(e).__name__])
        return None, steps
    final = sorted((e.source.identifier, e.destination.identifier, str(e.get_edge_type())) for e in g.get_edges())
    want = sorted((NAMES[s], NAMES[d], t) for s, d, t in mg)

    def norm(es):
        return sorted((min(a, b), max(a, b), t) if t in ('<>', '--') else (a, b, t) for a, b, t in es)
    if norm(final) != norm(want):
        steps.append(['final edge set differs', final])
        return None, steps
    return g, steps


def replay_mixed_steps(n, steps):
    from cai_causal_graph.type_definitions import EdgeType
    g = CausalGraph()
    g.add_nodes_from([NAMES[i] for i in range(n)])
    for op, *a in steps:
        if op == 'add':
            g.add_edge(NAMES[a[0]], NAMES[a[1]], edge_type=EdgeType(a[2]), validate=False)
        elif op == 'retype':
            g.change_edge_type(NAMES[a[0]], NAMES[a[1]], EdgeType(a[2]))
        elif op == 'remove':
            g.remove_edge(NAMES[a[0]], NAMES[a[1]])
        elif op == 'delete':
            g.delete_edge(NAMES[a[0]], NAMES[a[1]])
    return g
