"""Plain-Python transcriptions of the textbook definitions, used ONLY to turn a model/implementation divergence on a concrete
DAG into an explained failing input (the search step); the deciding comparison is always against the Coq model."""
from __future__ import annotations

import itertools

from cai_causal_graph.identify_utils import identify_confounders, identify_instruments, identify_markov_boundary, identify_mediators

from . import dagsweep as D


def closure(n, arcs):
    reach = {v: set() for v in range(n)}
    for _ in range(n):
        for a, b in arcs:
            reach[a] |= {b} | reach[b]
    return reach


def simple_paths(n, arcs, s, t):
    out = {v: [b for a, b in arcs if a == v] for v in range(n)}
    res = []

    def go(path):
        v = path[-1]
        if v == t:
            res.append(list(path))
            return
        for w in out[v]:
            if w not in path:
                go(path + [w])
    if s != t:
        go([s])
    return res


def c10_reference(n, arcs):
    N = D.names_for(n, arcs)
    g = D.prepared(n, arcs)
    reach = closure(n, arcs)
    ix = {N[i]: i for i in range(n)}
    for x in range(n):
        if {ix[v] for v in g.get_descendants(N[x])} != reach[x]:
            return f'get_descendants({N[x]!r}) = {sorted(g.get_descendants(N[x]))}, reachable set is {sorted(N[v] for v in reach[x])}'
        anc = {v for v in range(n) if x in reach[v]}
        if {ix[v] for v in g.get_ancestors(N[x])} != anc:
            return f'get_ancestors({N[x]!r}) wrong'
        for sub, nodes in ((g.get_ancestral_graph(N[x]), anc | {x}), (g.get_descendant_graph(N[x]), reach[x] | {x})):
            if {ix[v] for v in sub.get_node_names()} != nodes or {(ix[a], ix[b]) for a, b in sub.get_edge_pairs()} != {(a, b) for a, b in arcs if a in nodes and b in nodes}:
                return f'ancestral / descendant sub-graph of {N[x]!r} is not the induced sub-graph'
            if not D.attrs_kept(sub, g):
                return f'a node of the ancestral / descendant sub-graph of {N[x]!r} lost its variable type or metadata'
        for sub, star in ((g.get_parents_graph(N[x]), {(a, b) for a, b in arcs if b == x}), (g.get_children_graph(N[x]), {(a, b) for a, b in arcs if a == x})):
            if {(ix[a], ix[b]) for a, b in sub.get_edge_pairs()} != star or {ix[v] for v in sub.get_node_names()} != {x} | {v for e in star for v in e}:
                return f'parents / children graph of {N[x]!r} is not the star of its directed edges'
    for x in range(n):
        for y in range(n):
            if x == y:
                continue
            paths = simple_paths(n, arcs, x, y)
            got = sorted([ix[v] for v in p] for p in g.get_all_causal_paths(N[x], N[y]))
            if got != sorted(paths):
                return f'get_all_causal_paths({N[x]!r},{N[y]!r}) = {got}, the simple directed paths are {sorted(paths)}'
            between = {v for v in range(n) if (v == x or v in reach[x]) and (v == y or y in reach[v])} if y in reach[x] else set()
            nb = {ix[v.identifier] for v in g.get_nodes_between(N[x], N[y])}
            if nb != between:
                return (f'get_nodes_between({N[x]!r},{N[y]!r}) = {sorted(N[v] for v in nb)}, nodes on directed paths are {sorted(N[v] for v in between)} '
                        f'(edges added in the order {[(N[a], N[b]) for a, b in arcs]})')
            if g.directed_path_exists(N[x], N[y]) != (y in reach[x]):
                return f'directed_path_exists({N[x]!r},{N[y]!r}) wrong'
            if g.is_ancestor(N[x], N[y]) != (y in reach[x]):
                return f'is_ancestor({N[x]!r},{N[y]!r}) wrong'
            for coll in ([N[x]], [N[y], N[x]], {N[x]}):
                if g.is_ancestor(N[x], coll) or g.is_descendant(N[x], coll):
                    return (f'is_ancestor / is_descendant({N[x]!r}, {sorted(coll)!r}) is True although the collection contains the node itself '
                            f'(a node of a DAG is not its own ancestor or descendant; get_descendants({N[x]!r}) = {sorted(g.get_descendants(N[x]))})')
            if g.is_descendant(N[x], N[y]) != (x in reach[y]):
                return f'is_descendant({N[x]!r},{N[y]!r}) wrong'
            ca = {v for v in range(n) if x in reach[v] and y in reach[v]}
            got = {ix[v] for v in g.get_common_ancestors(N[x], N[y])}
            if got != ca:
                return f'get_common_ancestors({N[x]!r},{N[y]!r}) = {sorted(N[v] for v in got)}, the common ancestors are {sorted(N[v] for v in ca)}'
            cd = reach[x] & reach[y]
            got = {ix[v] for v in g.get_common_descendants(N[x], N[y])}
            if got != cd:
                return f'get_common_descendants({N[x]!r},{N[y]!r}) = {sorted(N[v] for v in got)}, the common descendants are {sorted(N[v] for v in cd)}'
    if n <= 6:
        orders = sorted(list(p) for p in itertools.permutations(range(n)) if all(p.index(a) < p.index(b) for a, b in arcs))
        got = sorted([ix[v] for v in o] for o in g.get_topological_order(return_all=True))
        if got != orders:
            return f'get_topological_order(return_all=True) gives {len(got)} orders, the linear extensions are {len(orders)}'
    return None


def dsep_paths(n, arcs, x, y, Z):
    """path-based definition: every undirected simple path is blocked"""
    nb = {v: set() for v in range(n)}
    A = set(arcs)
    for a, b in arcs:
        nb[a].add(b)
        nb[b].add(a)
    reach = closure(n, arcs)

    def blocked(p):
        for i in range(1, len(p) - 1):
            a, b, c = p[i - 1], p[i], p[i + 1]
            coll = (a, b) in A and (c, b) in A
            if coll:
                if b not in Z and not (reach[b] & Z):
                    return True
            elif b in Z:
                return True
        return False

    def go(path):
        v = path[-1]
        if v == y:
            return blocked(path)
        return all(go(path + [w]) for w in nb[v] if w not in path)
    return go([x])


def c11_reference(n, arcs):
    N = D.names_for(n, arcs)
    g = D.prepared(n, arcs)
    for x in range(n):
        for y in range(x + 1, n):
            oth = [v for v in range(n) if v not in (x, y)]
            for Z in D.subsets(oth):
                exp = dsep_paths(n, arcs, x, y, set(Z))
                got = g.is_d_separated(N[x], N[y], {N[z] for z in Z})
                if got != exp:
                    return f'is_d_separated({N[x]!r},{N[y]!r},{[N[z] for z in Z]}) = {got}, by the path definition {exp}'
                minimal = exp and all(not dsep_paths(n, arcs, x, y, set(Z) - {z}) for z in Z)
                if g.is_minimally_d_separated(N[x], N[y], {N[z] for z in Z}) != minimal:
                    return f'is_minimally_d_separated({N[x]!r},{N[y]!r},{[N[z] for z in Z]}) differs from "separates and no node can be removed" ({minimal})'
                for form, args in (('Node objects everywhere', (g.get_node(N[x]), g.get_node(N[y]), {g.get_node(N[z]) for z in Z})),
                                   ('list of Node objects as the set', (N[x], N[y], [g.get_node(N[z]) for z in Z])),
                                   ('tuple of identifiers as the set', (N[x], N[y], tuple(N[z] for z in Z)))):
                    try:
                        r1, r2 = bool(g.is_d_separated(*args)), bool(g.is_minimally_d_separated(*args))
                    except Exception as e:  # noqa: BLE001
                        return f'd-separation query ({N[x]!r},{N[y]!r},{[N[z] for z in Z]}) given as {form} raised {type(e).__name__}: {e}'
                    if r1 != exp or r2 != minimal:
                        return (f'({N[x]!r},{N[y]!r},{[N[z] for z in Z]}) given as {form}: is_d_separated = {r1} (definition {exp}), '
                                f'is_minimally_d_separated = {r2} (definition {minimal})')
    return None


def c19_reference(n, arcs):
    N = D.names_for(n, arcs)
    g = D.prepared(n, arcs)
    reach = closure(n, arcs)
    ix = {N[i]: i for i in range(n)}
    for s in range(n):
        for d in range(n):
            if s == d:
                continue
            got = sorted(ix[v] for v in identify_mediators(g, N[s], N[d]))
            if s in reach[d]:
                exp = []
            else:
                paths = [p for p in simple_paths(n, arcs, s, d) if len(p) > 2]
                if not paths:
                    exp = []
                else:
                    cand = set.intersection(*[set(p) - {s, d} for p in paths])
                    conf = [ix[v] for v in identify_confounders(g, N[s], N[d])]
                    pruned = closure(n, [(a, b) for a, b in arcs if a != s])
                    exp = sorted(m for m in cand if not any(m in pruned[z] for z in conf))
            if got != exp:
                return f'identify_mediators({N[s]!r},{N[d]!r}) = {[N[v] for v in got]}, by the declarative characterisation {[N[v] for v in exp]}'
            # Node objects instead of identifiers (either or both arguments) must give the same answers; and nothing at all when the
            # destination is an ancestor of the source
            ins = sorted(ix[v] for v in identify_instruments(g, N[s], N[d]))
            if s in reach[d] and (ins or got):
                return f'destination {N[d]!r} is an ancestor of source {N[s]!r} but instruments = {[N[v] for v in ins]}, mediators = {[N[v] for v in got]}'
            for form, (a, b) in (('Node, id', (g.get_node(N[s]), N[d])), ('id, Node', (N[s], g.get_node(N[d]))),
                                 ('Node, Node', (g.get_node(N[s]), g.get_node(N[d])))):
                for f, ref in ((identify_instruments, ins), (identify_mediators, got)):
                    try:
                        r = sorted(ix[v] for v in f(g, a, b))
                    except Exception as e:  # noqa: BLE001
                        return f'{f.__name__}({N[s]!r},{N[d]!r}) with arguments given as ({form}) raised {type(e).__name__}: {e}; with identifiers it returns {[N[v] for v in ref]}'
                    if r != ref:
                        return f'{f.__name__}({N[s]!r},{N[d]!r}) with arguments given as ({form}) = {[N[v] for v in r]}, with identifiers {[N[v] for v in ref]}'
    return None


def c20_reference(n, arcs):
    N = D.names_for(n, arcs)
    g = D.prepared(n, arcs)
    ix = {N[i]: i for i in range(n)}
    for a in range(n):
        pa = {x for x, y in arcs if y == a}
        ch = {y for x, y in arcs if x == a}
        co = {x for x, y in arcs if y in ch and x != a}
        got = {ix[v] for v in identify_markov_boundary(g, N[a])}
        if got != pa | ch | co:
            return f'identify_markov_boundary({N[a]!r}) = {sorted(N[v] for v in got)}, parents+children+co-parents = {sorted(N[v] for v in pa | ch | co)}'
    return None


REFERENCE = {'C10': c10_reference, 'C11': c11_reference, 'C19': c19_reference, 'C20': c20_reference}
