"""Exact-order correspondence for the DEFAULT get_topological_order() (C10: CausalGraph, networkx topological_sort; C13:
TimeSeriesCausalGraph, networkx lexicographical_topological_sort with key = lag): the order the implementation returns is compared,
element by element, with the order computed by the Coq models of the two networkx algorithms (TopoSort.v, CorrTopoSort.v) from the
node order and the per-source adjacency order of the implementation's graph."""
from __future__ import annotations

import random

from cai_causal_graph import CausalGraph, TimeSeriesCausalGraph

from . import common as C
from . import graph_hist as H

POOL = ['a', 'b', 'c', 'd', 'e', 'f', 'g', 'h', '', 'a b', 'X\n', 'é', 'lag', 'node_10', 'node_2']


def random_graph(rng, ts):
    n = rng.choice([2, 3, 4, 5, 6, 7, 8])
    if ts:
        vs = ['x', 'y', 'z', 'w']
        cands = [(v, l) for v in vs for l in (-2, -1, 0, 1)]
        nodes = rng.sample(cands, min(n, len(cands)))
        names = [H.ts_name(v, l) for v, l in nodes]
        order = sorted(range(len(nodes)), key=lambda i: (nodes[i][1], rng.random()))
        g = TimeSeriesCausalGraph()
    else:
        names = rng.sample(POOL, n)
        order = list(range(n))
        rng.shuffle(order)
        g = CausalGraph()
    ins = list(names)
    rng.shuffle(ins)
    for nm in ins:
        g.add_node(nm)
    p = rng.choice([0.2, 0.35, 0.5])
    arcs = [(names[order[i]], names[order[j]]) for i in range(len(order)) for j in range(i + 1, len(order)) if rng.random() < p]
    rng.shuffle(arcs)
    for a, b in arcs:
        g.add_edge(a, b)
    # histories that move an edge to the end of its source's adjacency
    for a, b in rng.sample(arcs, min(len(arcs), rng.choice([0, 0, 1, 2]))):
        if rng.random() < 0.5:
            g.delete_edge(a, b)
            g.add_edge(a, b)
        else:
            g.change_edge_type(a, b, H.ET['--'])
            g.change_edge_type(a, b, H.ET['->'])
    if rng.random() < 0.15 and arcs:
        g = g.copy()
    if rng.random() < 0.05 and len(arcs) >= 1:
        a, b = arcs[0]
        try:
            g.add_edge(b, a if ts is False else b, validate=False)   # a cycle (plain graphs): the library must refuse
        except Exception:  # noqa: BLE001
            pass
    return g


def case_of(g, ts):
    names = g.get_node_names()
    ix = {nm: i for i, nm in enumerate(names)}
    n = len(names)
    if any(str(e.get_edge_type()) != '->' for e in g.get_edges()):
        return None
    arcs = [(ix[s], ix[d]) for s, dd in g._edges_by_source.items() for d in dd]
    try:
        got = [ix[v] for v in g.get_topological_order()]
    except AssertionError:
        got = [n + 1]
    nats = lambda l: '[' + '; '.join(map(str, l)) + ']'  # noqa: E731
    arcs_s = '[' + '; '.join(f'({a}, {b})' for a, b in arcs) + ']'
    if ts:
        lags = '[' + '; '.join(f'({g.get_node(nm).time_lag})%Z' for nm in names) + ']'
        call = f'corr_topo_time {n} {nats(range(n))} {arcs_s} {lags}'
    else:
        call = f'corr_topo_default {n} {nats(range(n))} {arcs_s}'
    return f'(list_nat_eqb ({call}) {nats(got)})', dict(names=names, arcs=[(names[a], names[b]) for a, b in arcs], implementation_order=got)


def exact_default_order(run, pid, tier, seed, extra_graphs=()):
    ts = pid == 'C13'
    rng = random.Random(seed + 4242)
    n = 300 if tier == 'quick' else 4000
    graphs = [random_graph(rng, ts) for _ in range(n)] + list(extra_graphs)
    cases = [c for c in (case_of(g, ts) for g in graphs) if c is not None]
    wd = C.workdir()
    files = []
    chunk = 400
    for i in range(0, len(cases), chunk):
        f = wd / f'topo_{pid.lower()}_{i // chunk}.v'
        f.write_text(C.COQ_HEADER + 'From CG Require Import Base CorrTopoSort.\n'
                     'Fixpoint list_nat_eqb (a b : list nat) : bool := match a, b with [] , [] => true | x :: a\', y :: b\' => Nat.eqb x y && list_nat_eqb a\' b\' | _, _ => false end.\n'
                     'Fixpoint bad (i : nat) (l : list bool) : list nat := match l with [] => [] | true :: t => bad (S i) t | false :: t => i :: bad (S i) t end.\n'
                     'Eval vm_compute in (map N.of_nat (bad 0 [\n ' + ';\n '.join(c[0] for c in cases[i:i + chunk]) + '\n])).\n')
        files.append((i, f))
    bad = []
    for (base, f), (_, rc, so, se) in zip(files, C.run_coq_files([f for _, f in files], timeout=1800)):
        if rc != 0:
            raise RuntimeError(f'coqc failed on {f}: {se[-1500:]}')
        bad += [cases[base + j][1] for j in C.parse_N_list(C.parse_eval_blocks(so)[0])]
    run.coverage['default_order_cases'] = len(cases)
    run.oblige(f'correspondence: the default get_topological_order() equals, element by element, the modelled networkx algorithm on {len(cases)} graphs',
               not bad, '' if not bad else f'first disagreement: {bad[0]!r}'[:480])
    return bad
