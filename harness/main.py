"""./check <Cxx> [--tier quick|thorough] [--replay FILE]"""
from __future__ import annotations

import argparse
import importlib
import logging
import os
import sys
import traceback

from . import common as C


def main(argv=None):
    ap = argparse.ArgumentParser()
    ap.add_argument('pid')
    ap.add_argument('--tier', default=os.environ.get('VERIF_TIER', 'quick'), choices=['quick', 'thorough'])
    ap.add_argument('--replay', default=None)
    ap.add_argument('--no-build', action='store_true', help='skip make (setup already built everything)')
    a = ap.parse_args(argv)
    logging.disable(logging.CRITICAL)  # the library logs warnings on many inputs we feed it
    seed = int(os.environ.get('VERIF_SEED', '20260926'))
    pid = a.pid.upper()
    mod = importlib.import_module(f'harness.props.{pid.lower()}')
    run = C.Run(pid, a.tier, seed, level=getattr(mod, 'LEVEL', 'proof'))
    if a.replay:
        return mod.replay(run, a.replay)

    # 1. no forbidden declarations anywhere in the development
    bad = C.source_scan()
    run.oblige('source-scan: no Axiom/Parameter/Admitted/admit/unguarded Variable/disabled checks', not bad, '; '.join(bad))

    # 2. (re)build: regenerates Extracted.v from /repo, then make
    if a.no_build or os.environ.get('VERIF_NOBUILD') == '1':
        ok, log = True, 'build skipped'
    else:
        ok, log = C.build(clean=(a.tier == 'thorough' and os.environ.get('VERIF_CLEAN') == '1'))
    needed = getattr(mod, 'NEEDS', [])
    # A translator that REFUSED the current source (a construct outside its subset: it wrote its stub) says nothing about behaviour.
    # For the properties whose hand-written model is itself tied to the code by a full correspondence check (GEN_SOFT), the run then
    # falls back to that tie alone: the theorems about the hand model are re-checked, the correspondence runs on a larger sample, and
    # the evidence records that the translated-source theorems were not available. A translator that ACCEPTED the source and whose
    # equivalence proof no longer checks is a broken obligation as before.
    soft = getattr(mod, 'GEN_SOFT', None)
    refused = []
    if soft:
        for gf in soft['generated']:
            try:
                if 'translator_failed' in (C.THEORIES / f'{gf}.v').read_text():
                    refused.append(gf)
            except OSError:
                pass
    variant = ''
    if refused:
        needed = [n for n in needed if n not in soft['modules']]
        variant = 'base'
        os.environ['VERIF_TRANSLATOR_REFUSED'] = '1'
        run.coverage['translator_refused'] = dict(generated_files=refused, fallback='hand-written model theorems (Properties/%sbase.v) + '
                                                  'model/implementation correspondence on a 3x sample; translated-source theorems not checked on this run' % pid)
        print(f'NOTE: property={pid} the source translator refused the current source ({", ".join(refused)}); deciding with the hand-written model and its correspondence')
    skipped = log == 'build skipped'       # developer mode (VERIF_NOBUILD=1): only the existence of the compiled files is required
    missing = [n for n in needed if not (C.THEORIES / f'{n}.vo').exists()
               or (not skipped and (C.THEORIES / f'{n}.vo').stat().st_mtime < (C.THEORIES / f'{n}.v').stat().st_mtime)]
    run.oblige('build: ' + ', '.join(needed), not missing, ('not built: ' + ', '.join(missing) + '\n' + log[-1500:]) if missing else '')

    # 3. the property's theorems, re-checked, with Print Assumptions under each
    ob = C.property_obligations(pid, variant)
    if not ob['theorems']:
        run.oblige(f'Properties/{pid}.v', False, ob['log'])
    for t in ob['theorems']:
        closed = 'Closed under the global context' in t['assumptions']
        allowed = getattr(mod, 'ALLOWED_AXIOMS', [])
        okax = closed or all(any(x in line for x in allowed) for line in t['assumptions'].split(' : ')[:-1]) and bool(allowed)
        run.oblige(f"theorem {t['name']}", ob['ok'] and okax, t['assumptions'])
        if not closed:
            run.assumptions.append(f"{t['name']}: {t['assumptions']}")
    if not ob['ok']:
        run.oblige(f'Properties/{pid}.v compiles', False, ob['log'])
    run.coverage['theorems'] = [t['name'] for t in ob['theorems']]

    # 4. correspondence between the model and /repo, corpus first
    try:
        mod.check(run, a.tier, seed)
    except Exception:  # noqa: BLE001
        tb = traceback.format_exc()
        run.oblige('harness ran to completion', False, tb[-1500:])
        print(tb, file=sys.stderr)

    # 5. a broken obligation with no concrete failing input is still a violation
    broken = [o for o in run.obligations if not o['ok']]
    if broken and not run.violations:
        found = False
        if hasattr(mod, 'search'):
            try:
                found = mod.search(run, a.tier, seed)
            except Exception:  # noqa: BLE001
                print(traceback.format_exc(), file=sys.stderr)
        if not found and not run.violations:
            run.violation(dict(broken_obligations=broken,
                               explanation='a proof obligation or the model/implementation correspondence no longer checks; '
                                           'the search found no input on which the property fails'),
                          note='; '.join(o['name'] for o in broken)[:300], no_input=True)
    rc = run.finish()
    print(f"{pid} tier={a.tier} obligations={sum(o['ok'] for o in run.obligations)}/{len(run.obligations)} "
          f"evaluations={run.evaluations} violations={len(run.violations)} wall={run.coverage.get('wall', '')}")
    return rc


if __name__ == '__main__':
    sys.exit(main())
