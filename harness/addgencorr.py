"""Correspondence of the GENERATED edge-adding path (coq/theories/MutGenAdd.v, written by tools/translate_add_edge.py:
_set_edge, _prepare_nodes, add_edge) with the implementation: the same generator and the same case format ([hcase],
built by graph_hist.cq_case) as the history rows of histprops.py (C01 / C02), evaluated by CorrMutGenAdd.gen_mismatches
(every add_edge step -- identifier / Node-object / Edge-object / pair forms -- is executed by the generated code; outcome
code + hash of the observation after every step are compared with what the library showed) and
CorrMutGenAdd.gen_mismatches_eo (Edge-object form of the generated code where the step has Node-object end points).

usage (stand-alone):  PYTHONPATH=<repo>:<verif> python -m harness.addgencorr [n] [seed]
prints / returns the number of diverging histories (0 = the generated code answered exactly like the library)."""
from __future__ import annotations

import random
import sys

from . import common as C
from . import graph_hist as H
from . import histprops as HP

TRANSLATED = ('add_edge', 'add_node', 'add_node_obj')


def check_cases_against_generated(cases, chunk=40, tag='addgen'):
    """-> list of (case index, first diverging step) of the GENERATED code against the implementation."""
    wd = C.workdir()
    files = []
    for i in range(0, len(cases), chunk):
        f = wd / f'{tag}_{i // chunk}.v'
        body = ';\n  '.join(H.cq_case(c) for c in cases[i:i + chunk])
        f.write_text(C.COQ_HEADER
                     + 'From CG Require Import Base Graph GraphObs Tok Names GraphTS CorrMutGenAdd.\n'
                     + 'From Coq Require Import Uint63.\nLocal Open Scope N_scope.\n'
                     + f'Definition cases : list hcase := [\n  {body}\n].\n'
                     + 'Eval vm_compute in (gen_mismatches cases ++ gen_mismatches_eo cases).\n')
        files.append((i, f))
    mism = []
    for (base, f), (_, rc, out, err) in zip(files, C.run_coq_files([f for _, f in files])):
        if rc != 0:
            raise RuntimeError(f'coqc failed on {f}: {err[-2000:]}')
        for ci, si in C.parse_nat_pairs(out):
            mism.append((base + ci, si))
    return mism


def translated_adders(run, cases, limit=300):
    """the edge / node adders GENERATED from causal_graph.py on this run (MutGenAdd.v: _set_edge, _prepare_nodes, add_edge, add_node),
    executed inside Coq on the histories the implementation ran: every add_edge / add_node step goes through the generated code, outcome
    and observation after every step are compared with what the library showed"""
    import os
    if os.environ.get('VERIF_TRANSLATOR_REFUSED') == '1':
        run.coverage['translated_adder_cases'] = 0
        return
    cs = [c for c in cases if any(o[0] in TRANSLATED for o in c['ops'])][:limit]
    steps = sum(1 for c in cs for o in c['ops'] if o[0] in TRANSLATED)
    rejected = sum(1 for c in cs for o, code in zip(c['ops'], c['outcomes']) if code and o[0] in TRANSLATED)
    try:
        bad = check_cases_against_generated(cs)
        detail = '' if not bad else f'{len(bad)} diverging histories; first: step {bad[0][1]} of {cs[bad[0][0]]["ops"][:bad[0][1] + 1]!r}'[:480]
    except Exception as e:  # noqa: BLE001
        bad, detail = [None], f'the generated definitions could not be evaluated: {type(e).__name__}: {str(e)[-300:]}'
    run.coverage['translated_adder_cases'] = dict(histories=len(cs), steps_run_by_generated_code=steps, of_which_rejected_calls=rejected)
    run.oblige(f'correspondence: translated causal_graph.py add_edge / _set_edge / add_node (MutGenAdd.v) == implementation on {len(cs)} histories, '
               f'{steps} steps of which {rejected} rejected calls', not bad, detail)


def main(argv):
    n = int(argv[1]) if len(argv) > 1 else 120
    rng = random.Random(int(argv[2]) if len(argv) > 2 else 1)
    cases, steps, failing = [], 0, 0
    for i in range(n):
        kind = 'Plain' if i % 3 else 'TS'
        gen = H.Gen(rng, kind, error_seeking=(i % 2 == 0))
        c, _ = HP.run_history(rng, kind, rng.choice([6, 10, 14]), gen=gen, warm=(i % 4 == 0))
        steps += sum(1 for o in c['ops'] if o[0] in TRANSLATED)
        failing += sum(1 for o, code in zip(c['ops'], c['outcomes']) if code and o[0] in TRANSLATED)
        cases.append(c)
    bad = check_cases_against_generated(cases)
    print(f'addgencorr: {n} histories, {steps} steps run by generated code ({failing} of them rejected calls), '
          f'diverging histories: {len(bad)}')
    for ci, si in bad[:5]:
        print('  case', ci, 'step', si, cases[ci]['ops'][si])
    return 1 if bad else 0


if __name__ == '__main__':
    sys.exit(main(sys.argv))
