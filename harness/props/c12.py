"""C12 — time-series node identity (name codec) and lag / variable lookups."""
from __future__ import annotations

import itertools
import json
import random
import re

from cai_causal_graph import TimeSeriesCausalGraph
from cai_causal_graph.utils import get_name_with_lag, get_variable_name_and_lag

from .. import common as C
from .. import graph_hist as H

LEVEL = 'proof'
NEEDS = ['SFTSNode', 'SFCodec', 'Extracted', 'SourceFacts', 'Base', 'Dec', 'Names', 'NamesProofs', 'CorrNames', 'Graph', 'GraphObs', 'GraphTS', 'GraphInv', 'GraphLemmas', 'GraphInvProofs']

TOKENS = ['X', ' ', '\n', 'lag', 'future', '(n=', ')', '0', '1', '12', ' lag(n=1)', ' future(n=2)', 'flag(n=3)']
LAGS = [0, 1, -1, 2, -12, 30, -7, 5]
HOSTILE = ['X', 'X Y', 'X\n', '\nX', 'lag', 'future', 'lag(n=', 'X lag', 'X (n=1)', 'é', 'X\n\n', ' X', 'X ', '名前',
           'a"b', "a'b", 'lag(n=)', 'future(n=x)', 'X lag(n=1', 'n=1)', '0', '12', '-1', 'X\tY']


def impl_parse(s):
    try:
        v, k = get_variable_name_and_lag(s)
        return (v, k)
    except ValueError:
        return None


def impl_fmt(s, k):
    try:
        return get_name_with_lag(s, k)
    except ValueError:
        return None


def has_unicode_digit(s):
    return any(ch.isdigit() and not ('0' <= ch <= '9') for ch in s)


def strings(tier, rng):
    out = []
    maxtok = 3 if tier == 'quick' else 5
    for n in range(0, maxtok + 1):
        for combo in itertools.product(TOKENS, repeat=n):
            out.append(''.join(combo))
    # longer token strings, sampled
    for _ in range(3000 if tier == 'quick' else 20000):
        out.append(''.join(rng.choice(TOKENS) for _ in range(rng.randint(4, 7))))
    # random strings over a hostile alphabet
    alpha = 'Xyz lagfuture(n=)0123456789\n\t é名"\\'
    for _ in range(1500 if tier == 'quick' else 10000):
        out.append(''.join(rng.choice(alpha) for _ in range(rng.randint(1, 14))))
    for v in HOSTILE:
        for k in range(-30, 31) if tier == 'thorough' else (-12, -1, 0, 1, 2, 30):
            f = impl_fmt(v, k)
            if f is not None:
                out.append(f)
        out.append(v)
    seen, res = set(), []
    for s in out:
        if s not in seen and not has_unicode_digit(s):
            seen.add(s)
            res.append(s)
    return res


def cq_ncase(s, p, fs):
    ps = 'None' if p is None else f'(Some ({C.cq_name(p[0])}, {C.cq_Z(p[1])}))'
    fl = C.cq_list(lambda kr: f'({C.cq_Z(kr[0])}, {C.cq_opt(C.cq_name, kr[1])})', fs)
    return f'({C.cq_name(s)}, {ps}, {fl})'


def codec_stream(run, tier, rng):
    ss = strings(tier, rng)
    cases = []
    for i, s in enumerate(ss):
        lags = [LAGS[(i + j) % len(LAGS)] for j in range(2)] + [0]
        cases.append((s, impl_parse(s), [(k, impl_fmt(s, k)) for k in lags]))
    wd = C.workdir()
    chunk = 600
    files = []
    for i in range(0, len(cases), chunk):
        f = wd / f'names_{i // chunk}.v'
        body = ';\n '.join(cq_ncase(*c) for c in cases[i:i + chunk])
        f.write_text(C.COQ_HEADER + 'From CG Require Import Base Dec Names CorrNames.\nLocal Open Scope N_scope.\n'
                     f'Definition cs : list ncase := [\n {body}\n].\n'
                     'Eval vm_compute in (nmismatches cs).\nEval vm_compute in (goods cs).\n')
        files.append((i, f))
    res = C.run_coq_files([f for _, f in files])
    mism, goods = [], []
    for (base, f), (_, rc, out, err) in zip(files, res):
        if rc != 0:
            raise RuntimeError(f'coqc failed on {f}: {err[-1500:]}')
        blocks = C.parse_eval_blocks(out)
        mism += [base + j for j in C.parse_N_list(blocks[0])]
        goods += [base + j for j in C.parse_N_list(blocks[1])]
    ntriv = sum(1 for c in cases if c[1] is not None and c[1][1] != 0)
    run.coverage['codec_strings'] = len(cases)
    run.coverage['codec_strings_with_marker_parsed'] = ntriv
    run.coverage['codec_rejected_by_impl'] = sum(1 for c in cases if c[1] is None)
    for c in cases:
        run.count(c[0], nontrivial=(c[1] is None or c[1][1] != 0 or '(' in c[0] or '\n' in c[0]))
    run.samples.append(dict(string=cases[len(cases) // 3][0], impl_parse=cases[len(cases) // 3][1]))
    run.oblige(f'correspondence: parse/fmt on {len(cases)} strings', not mism,
               '' if not mism else f'first divergences: {[cases[i][0] for i in mism[:5]]!r}')
    # the property's own predicate, evaluated on the IMPLEMENTATION for every good variable name
    bad = []
    ngood = 0
    for i in goods:
        v = cases[i][0]
        ngood += 1
        for k in (0, 1, -1, 7, -12, 30):
            name = impl_fmt(v, k)
            ok = name is not None and impl_parse(name) == (v, k)
            ok = ok and (k != 0 or name == v)
            if ok:
                for k2 in (0, -3, 4):
                    ok = ok and impl_fmt(name, k2) == impl_fmt(v, k2)
            if not ok:
                bad.append(dict(variable=v, lag=k, name=name, parsed_back=None if name is None else impl_parse(name)))
                break
    run.coverage['good_variable_names_round_tripped_on_impl'] = ngood
    for b in bad[:3]:
        run.violation(dict(kind='codec-roundtrip', **b,
                           replay_cmd=f'./check C12 --replay <this file>'),
                      note=f'parse(fmt(v,k)) != (v,k) for v={b["variable"]!r} k={b["lag"]}')
    if mism and not bad:
        # divergence without a property failure among good names: keep the divergence as the replay
        run.coverage['codec_divergences'] = [dict(string=cases[i][0], impl_parse=cases[i][1], impl_fmt=cases[i][2]) for i in mism[:10]]
    return mism, bad


# ---- (B) lookups on graphs -----------------------------------------------------------------

def ts_coherent(g):
    """The property's predicate evaluated on the implementation: returns None or a description."""
    for n in g.get_nodes():
        try:
            v, k = get_variable_name_and_lag(n.identifier)
            if n.variable_name != v or n.time_lag != k:
                return f'node {n.identifier!r}: variable_name/time_lag {n.meta.get("variable_name")!r}/{n.meta.get("time_lag")!r} != parse {v!r}/{k}'
        except Exception as e:  # noqa: BLE001
            return f'node {n.identifier!r}: {type(e).__name__}: {e}'
    nodes = g.get_nodes()
    lags = sorted({n.time_lag for n in nodes} | {-3, 0, 3})
    for l in lags:
        a = sorted(x.identifier for x in g.get_nodes_at_lag(l))
        b = sorted(n.identifier for n in nodes if n.time_lag == l)
        if a != b:
            return f'get_nodes_at_lag({l}) = {a} but a scan gives {b}'
    vs = sorted({n.variable_name for n in nodes})
    for v in vs + ['__none__']:
        a = sorted(x.identifier for x in g.get_nodes_for_variable_name(v))
        b = sorted(n.identifier for n in nodes if n.variable_name == v)
        if a != b:
            return f'get_nodes_for_variable_name({v!r}) = {a} but a scan gives {b}'
    for n in nodes:
        a = sorted(x.identifier for x in g.get_contemporaneous_nodes(n.identifier))
        b = sorted(m.identifier for m in nodes if m.time_lag == n.time_lag and m.identifier != n.identifier)
        if a != b:
            return f'get_contemporaneous_nodes({n.identifier!r}) = {a} but a scan gives {b}'
    if g.variables != vs or g.get_all_variable_names() != vs:
        return f'variables {g.variables} / get_all_variable_names {g.get_all_variable_names()} but a scan gives {vs}'
    neg = [n.time_lag for n in nodes if n.time_lag <= 0]
    pos = [n.time_lag for n in nodes if n.time_lag >= 0]
    eb = (abs(min(neg)) if neg else None) if nodes else None
    ef = (max(pos) if pos else None) if nodes else None
    if g.max_backward_lag != eb or g.max_forward_lag != ef or g.maxlag != eb:
        return f'max lags {g.max_backward_lag}/{g.max_forward_lag} but a scan gives {eb}/{ef}'
    return None


def history_stream(run, tier, rng, pid='C12'):
    n = 150 if tier == 'quick' else 2500
    length = 40
    cases, bad = [], []
    for i in range(n):
        gen = H.Gen(rng, 'TS')
        g = H.new_graph('TS')
        ops, expected, outcomes = [], [], []
        for step in range(length):
            op = gen.op(g)
            H.warm_caches(g, rng)
            code, _ = H.apply_op(g, op)
            ops.append(op)
            outcomes.append(code)
            expected.append((code, C.hash_tokens(H.observe(g, 'TS', gen.pool, gen.lags, gen.vars))))
            why = ts_coherent(g)
            if why and not bad:
                bad.append(dict(kind='TS', ops=list(ops), pool=gen.pool, lags=gen.lags, vars=gen.vars, why=why))
        case = dict(kind='TS', ops=ops, pool=gen.pool, lags=gen.lags, vars=gen.vars, expected=expected, outcomes=outcomes)
        cases.append(case)
        run.count(('hist', tuple(map(repr, ops))), nontrivial=(0 in outcomes and any(outcomes)))
    # constructors: dictionaries, matrices, plain graphs
    ctor_bad = constructor_stream(run, tier, rng)
    mism = H.check_cases_against_model(cases, chunk=25, tag='c12h')
    run.coverage['ts_histories'] = len(cases)
    run.coverage['ts_history_steps'] = len(cases) * length
    run.samples.append(dict(history=[repr(o) for o in cases[0]['ops'][:6]], outcomes=cases[0]['outcomes'][:6]))
    run.oblige(f'correspondence: {len(cases)} time-series histories x {length} steps (lookups, tags, indexes observed after every step)',
               not mism, '' if not mism else f'first divergence: case {mism[0][0]} step {mism[0][1]}')
    for b in (bad + ctor_bad)[:3]:
        b = shrink_ts(b) if 'ops' in b else b
        run.violation(dict(b, replay_cmd='./check C12 --replay <this file>'), note=b['why'][:200])
    if mism and not bad:
        ci, si = mism[0]
        run.coverage['history_divergence'] = dict(case=cases[ci], step=si)
    return mism, bad + ctor_bad


def shrink_ts(b):
    """Greedy deletion of operations while the implementation still shows the incoherence."""
    ops = list(b['ops'])

    def fails(ops_):
        g = H.new_graph('TS')
        for op in ops_:
            H.apply_op(g, H._tup(op))
            if ts_coherent(g):
                return True
        return False
    i = 0
    while i < len(ops):
        cand = ops[:i] + ops[i + 1:]
        if fails(cand):
            ops = cand
        else:
            i += 1
    return dict(b, ops=ops)


def constructor_stream(run, tier, rng, pred=None):
    pred = pred or ts_coherent
    """from_dict / from_adjacency_matrix / from_causal_graph / from_adjacency_matrices naming lagged nodes."""
    import numpy
    from cai_causal_graph import CausalGraph
    bad = []
    n = 60 if tier == 'quick' else 600
    built = 0
    for _ in range(n):
        vars_ = ['x', 'y', 'z'][:rng.choice([2, 3])]
        names = [H.ts_name(v, l) for v in vars_ for l in (-2, -1, 0, 1)]
        rng.shuffle(names)
        names = names[:rng.randint(2, 6)]
        cg = CausalGraph()
        cg.add_nodes_from(names)
        for _ in range(rng.randint(0, 7)):
            a, b = rng.sample(names, 2)
            try:
                cg.add_edge(a, b, edge_type=H.ET[rng.choice(C.ETYPES)])
            except Exception:  # noqa: BLE001
                pass
        for how in ('from_causal_graph', 'from_dict', 'from_adjacency_matrix', 'from_adjacency_matrices'):
            try:
                if how == 'from_causal_graph':
                    g = TimeSeriesCausalGraph.from_causal_graph(cg)
                elif how == 'from_dict':
                    g = TimeSeriesCausalGraph.from_dict(json.loads(json.dumps(cg.to_dict())))
                elif how == 'from_adjacency_matrix':
                    k = len(names)
                    a = numpy.triu((numpy.array([[rng.random() < 0.3 for _ in range(k)] for _ in range(k)])).astype(int), 1)
                    g = TimeSeriesCausalGraph.from_adjacency_matrix(a, names)
                else:
                    k = len(vars_)
                    mats = {-d: numpy.array([[int(rng.random() < 0.3) for _ in range(k)] for _ in range(k)]) for d in (1, 2)}
                    mats[0] = numpy.triu(numpy.array([[int(rng.random() < 0.4) for _ in range(k)] for _ in range(k)]), 1)
                    g = TimeSeriesCausalGraph.from_adjacency_matrices(mats, vars_)
            except Exception:  # noqa: BLE001  (refusals are fine: against-time edges, cycles)
                continue
            built += 1
            why = pred(g)
            if why:
                bad.append(dict(constructor=how, names=names, edges=[(e.source.identifier, e.destination.identifier, str(e.get_edge_type())) for e in cg.get_edges()], why=why))
    run.coverage['constructor_graphs_checked'] = built
    return bad


def check(run, tier, seed):
    rng = random.Random(seed)
    # corpus first
    corpus_dir = C.VERIF / 'corpus' / 'C12'
    for f in sorted(corpus_dir.glob('*.json')) if corpus_dir.exists() else []:
        replay_case(run, json.loads(f.read_text()), str(f))
    codec_stream(run, tier, rng)
    history_stream(run, tier, rng)
    run.coverage['rule'] = ('(A) all token strings up to %d tokens over a 13-token alphabet + sampled longer + random hostile strings; '
                            'non-trivial = rejected, or parsed with a non-zero lag, or containing "(" / newline. '
                            '(B) random time-series histories of 40 public mutations driven against the real class, '
                            'non-trivial = at least one accepted and one rejected call; distinct by content.' % (3 if tier == 'quick' else 5))


def replay_case(run, case, path=''):
    if case.get('kind') == 'codec-roundtrip':
        v, k = case['variable'], case['lag']
        name = impl_fmt(v, k)
        if name is None or impl_parse(name) != (v, k):
            run.violation(dict(case), note=f'corpus {path}: codec round trip fails for {v!r},{k}')
        return
    if 'ops' in case:
        g = H.new_graph('TS')
        for op in case['ops']:
            H.apply_op(g, H._tup(op))
            why = ts_coherent(g)
            if why:
                run.violation(dict(case, why=why), note=f'corpus {path}: {why[:150]}')
                return


def replay(run, path):
    case = json.loads(open(path).read())
    replay_case(run, case, path)
    print('replayed', path, 'violations:', len(run.violations))
    return 1 if run.violations else 0


def search(run, tier, seed):
    """Called when an obligation broke but no violation was found yet: widen the search."""
    rng = random.Random(seed + 1)
    _, bad1 = codec_stream(run, 'thorough', rng)
    _, bad2 = history_stream(run, 'thorough' if tier == 'thorough' else 'quick', rng)
    return bool(bad1 or bad2)
