"""C03 — a rejected mutation leaves the graph exactly as it was."""
from __future__ import annotations

import json
from collections import Counter

from .. import common as C
from .. import graph_hist as H
from .. import histprops as HP

LEVEL = 'proof'
NEEDS = ['PyRtMut', 'MutGenRollback', 'MutGenRollbackProofs', 'CorrMutGenRollback', 'SFMutators', 'Extracted', 'SourceFacts', 'Base', 'Names', 'Graph', 'GraphObs', 'GraphTS', 'GraphInv', 'GraphAtomicLemmas', 'GraphAtomicProofs']
SINGLE = {'add_node', 'add_node_obj', 'add_node_vl', 'delete_node', 'replace_node', 'add_edge', 'add_time_edge',
          'delete_edge', 'change_edge_type', 'replace_edge'}
CELLS = Counter()


def unchanged(g, kind, op, code, before, after, ctx):
    if code != 0 and op[0] in SINGLE:
        CELLS[(op[0], C.ERR_NAME.get(code, str(code)))] += 1
        if before != after:
            pos = next((i for i, (a, b) in enumerate(zip(before, after)) if a != b), min(len(before), len(after)))
            return (f'{op[0]} raised {C.ERR_NAME.get(code, code)} but the observable state changed '
                    f'(first difference at token {pos}; nodes now {g.get_node_names()}, edges now '
                    f'{[(e.source.identifier, str(e.get_edge_type()), e.destination.identifier) for e in g.get_edges()]})')
    return None


class ErrGen(H.Gen):
    """Error-seeking generator: small pools, many closing / reversing / re-lagging calls."""

    def op(self, g):
        r = self.rng
        x = r.random()
        es = g.get_edge_pairs()
        if es and x < 0.30:
            s, d = r.choice(es)
            y = r.random()
            if y < 0.25:
                if r.random() < 0.35:     # the edge named the other way round (found for symmetric types by some lookups, not by others)
                    s, d = d, s
                return ('change_edge_type', s, d, '->')
            if y < 0.45:
                return ('add_edge', (d, None), (s, None), self.ety(), self.meta(), True, 'ids')
            if y < 0.70:
                return ('replace_edge', s, d, self.name(), self.name(), r.choice([None, '->', '--']), self.meta())
            if y < 0.85:
                return ('replace_node', s, self.name(), None, None, 'DEFAULT', None)
            if self.kind == 'TS':
                return ('replace_node', r.choice([s, d]), None, r.choice(self.lags), None, 'DEFAULT', None)
        return super().op(g)


# ---- rejected calls OUTSIDE the model (malformed arguments): implementation-side atomicity only -------------------------------
def plain_snapshot(g, kind):
    """identity-free content of a graph, robust to values the tokeniser does not know (per-node lists and index groups sorted:
    their internal order is what a restored edge may change, and no query shows it)"""
    def es(lst):
        return sorted((e.source.identifier, str(e.get_edge_type()), e.destination.identifier, json.dumps(e.meta, sort_keys=True, default=str)) for e in lst)
    st = dict(d=json.dumps(g.to_dict(), sort_keys=True, default=str),
              nodes=[(n.identifier, str(n.variable_type), json.dumps(n.meta, sort_keys=True, default=str), es(n.get_inbound_edges()), es(n.get_outbound_edges()))
                     for n in g.get_nodes()],
              src=sorted((k, sorted(v)) for k, v in g._edges_by_source.items() if v),
              dst=sorted((k, sorted(v)) for k, v in g._edges_by_destination.items() if v), edges=es(g.get_edges()))
    if kind == 'TS':
        st['lag'] = sorted((k, sorted(n.identifier for n in v)) for k, v in g._lag_to_nodes.items() if v)
        st['var'] = sorted((k, sorted(n.identifier for n in v)) for k, v in g._variable_name_to_nodes.items() if v)
    return json.dumps(st, sort_keys=True, default=str)


def _tampered(name, var=False):
    from cai_causal_graph.graph_components import TimeSeriesNode
    nd = TimeSeriesNode(name)
    if var:
        nd.meta['variable_name'] = 'other'
    else:
        nd.meta['time_lag'] = -7
    return nd


def malformed_calls(g, rng, kind):
    from cai_causal_graph.graph_components import Edge, Node
    names = g.get_node_names() or ['a']
    n, m = rng.choice(names), rng.choice(names)
    es = g.get_edge_pairs()
    s, d = rng.choice(es) if es else (n, m)
    new = 'fresh' if kind == 'Plain' else rng.choice(['fresh lag(n=1)', 'fresh future(n=3)', 'fresh'])
    L = [('replace_node in place: invalid variable_type string + metadata', lambda: g.replace_node(n, variable_type='numeric ', meta={'q': 1})),
         ('replace_node in place: variable_type=float + metadata', lambda: g.replace_node(n, variable_type=float, meta={'q': [1]})),
         ('replace_node by new id: invalid variable_type', lambda: g.replace_node(n, new, variable_type='bogus')),
         ('add_node: invalid variable_type', lambda: g.add_node(new, variable_type='bogus', meta={'a': 1})),
         ('add_node: no arguments', lambda: g.add_node()),
         ('add_edge: missing destination', lambda: g.add_edge(n)),
         ('add_edge: metadata not a dictionary', lambda: g.add_edge(new, n, meta='str')),
         ('add_node: metadata not a dictionary', lambda: g.add_node(new, meta=[1])),
         ('change_edge_type: None', lambda: g.change_edge_type(s, d, None)),
         ('replace_edge: metadata not a dictionary', lambda: g.replace_edge(s, d, new, n, meta=3)),
         ('replace_edge: invalid edge_type', lambda: g.replace_edge(s, d, n, new, edge_type='bogus')),
         ('delete_edge: invalid edge_type', lambda: g.delete_edge(s, d, edge_type='bogus')),
         ('delete_node: None', lambda: g.delete_node(None)),
         ('add_edge: edge object together with a source', lambda: g.add_edge(edge=Edge(Node(n), Node(new)), source=n))]
    if kind == 'TS':
        L += [('add_node: variable_name without time_lag', lambda: g.add_node(variable_name='x')),
              ('add_node: time_lag given as a string', lambda: g.add_node(variable_name='zq', time_lag='1')),
              ('add_time_edge: non-integer lag', lambda: g.add_time_edge('zq', 1.5, 'y', 0)),
              ('replace_node: non-integer lag', lambda: g.replace_node(n, time_lag=1.5)),
              ('replace_node: variable_name containing a marker', lambda: g.replace_node(n, variable_name='q lag(n=1)', time_lag=0)),
              ('add_node: node object whose lag tag was edited by hand', lambda: g.add_node(node=_tampered('tq lag(n=1)'))),
              ('add_edge: new end point object whose lag tag was edited by hand', lambda: g.add_edge(_tampered('tq lag(n=2)'), n)),
              ('add_edge: new end point object whose variable tag was edited by hand', lambda: g.add_edge(n, _tampered('tq', var=True)))]
    return L


def off_model_atomicity(run, tier, seed):
    import random
    rng = random.Random(seed + 303)
    nstates = 120 if tier == 'quick' else 1500
    cells = Counter()
    bad = []
    for it in range(nstates):
        kind = 'Plain' if it % 2 == 0 else 'TS'
        gen = ErrGen(rng, kind, True)
        g = H.new_graph(kind)
        ops = []
        for _ in range(rng.randint(2, 14)):
            op = gen.op(g)
            ops.append(op)
            H.apply_op(g, op)
        nlab = len(malformed_calls(g, random.Random(it), kind))
        for k in range(nlab):
            g = H.new_graph(kind)
            for op in ops:
                H.apply_op(g, op)
            if k % 3 == 0:
                H.warm_caches(g, rng, 0.3)
            lab, f = malformed_calls(g, random.Random(it), kind)[k]
            before = plain_snapshot(g, kind)
            try:
                f()
            except Exception as e:  # noqa: BLE001
                cells[(lab, type(e).__name__)] += 1
                if plain_snapshot(g, kind) != before and len(bad) < 3:
                    bad.append(dict(kind=kind, ops=ops, call=lab, raised=type(e).__name__,
                                    why=f'{lab} raised {type(e).__name__} but the graph changed (nodes now {g.get_node_names()}, edges now '
                                        f'{[(x.source.identifier, str(x.get_edge_type()), x.destination.identifier) for x in g.get_edges()]})'))
    run.coverage['off_model_rejected_calls'] = {f'{k[0]} / {k[1]}': v for k, v in sorted(cells.items())}
    for b in bad[:2]:
        run.violation(b, note=b['why'][:200])
    return bad

# the code translated from the source on every run: when the translator REFUSES the current source the run falls back to the
# hand-written model and its correspondence (harness/main.py)
GEN_SOFT = dict(generated=['MutGenRollback'], modules=['MutGenRollback', 'MutGenRollbackProofs', 'CorrMutGenRollback'])


def check(run, tier, seed):
    CELLS.clear()
    cases, _mism, _bad = HP.history_property(run, tier, seed, pid='C03', oracle=unchanged, n_quick=240, n_thorough=4000,
                        gen_factory=lambda rng, kind: ErrGen(rng, kind, True),
                        describe='Error-seeking histories (calls that close cycles, reverse or duplicate existing edges, re-lag '
                                 'time-series nodes against time, name unparsable nodes) + exhaustive short histories; the full '
                                 'observation is snapshotted before and after EVERY raising single-element mutator on the real graph.')
    run.coverage['raising_calls_by_mutator_and_error'] = {f'{k[0]}/{k[1]}': v for k, v in sorted(CELLS.items())}
    run.coverage['raising_single_element_calls'] = sum(CELLS.values())
    off_model_atomicity(run, tier, seed)
    translated_mutators(run, cases)


def translated_mutators(run, cases):
    """the rollback mutators GENERATED from causal_graph.py on this run (MutGenRollback.v), executed inside Coq on the same histories:
    every change_edge_type / replace_edge / delete_node / delete_edge step runs through the generated code, outcome and observation after
    every step are compared with what the library showed"""
    import os
    if os.environ.get('VERIF_TRANSLATOR_REFUSED') == '1':
        run.coverage['translated_source_cases'] = 0
        return
    from .. import mutgencorr
    cs = [c for c in cases if any(o[0] in mutgencorr.TRANSLATED for o in c['ops'])][:400]
    steps = sum(1 for c in cs for o in c['ops'] if o[0] in mutgencorr.TRANSLATED)
    rejected = sum(1 for c in cs for o, code in zip(c['ops'], c['outcomes']) if code and o[0] in mutgencorr.TRANSLATED)
    try:
        bad = mutgencorr.check_cases_against_generated(cs)
        detail = '' if not bad else f'{len(bad)} diverging histories; first: step {bad[0][1]} of {cs[bad[0][0]]["ops"][:bad[0][1] + 1]!r}'[:480]
    except Exception as e:  # noqa: BLE001
        bad, detail = [None], f'the generated definitions could not be evaluated: {type(e).__name__}: {str(e)[-300:]}'
    run.coverage['translated_source_cases'] = dict(histories=len(cs), steps_run_by_generated_code=steps, of_which_rejected_calls=rejected)
    run.oblige(f'correspondence: translated causal_graph.py rollback mutators (MutGenRollback.v) == implementation on {len(cs)} histories, '
               f'{steps} steps of which {rejected} rejected calls', not bad, detail)


def replay(run, path):
    c = json.loads(open(path).read())
    if 'call' in c:
        import random
        kind = c['kind']
        hit = None
        for it in range(400):                       # the malformed call picks its node / edge with random.Random(it)
            g = H.new_graph(kind)
            for op in c['ops']:
                H.apply_op(g, H._tup(op))
            for lab, f in malformed_calls(g, random.Random(it), kind):
                if lab != c['call']:
                    continue
                before = plain_snapshot(g, kind)
                try:
                    f()
                except Exception as e:  # noqa: BLE001
                    if plain_snapshot(g, kind) != before:
                        hit = f'{lab} raised {type(e).__name__} but the graph changed'
                break
            if hit:
                break
        print('off-model rejected call:', hit)
        if hit:
            run.violation(dict(c, why=hit), note=hit[:200])
        return 1 if run.violations else 0
    return HP.replay_file(run, path, unchanged, 'C03')


def search(run, tier, seed):
    _, mism, bad = HP.history_property(run, tier, seed + 11, pid='C03', oracle=unchanged, n_quick=800, n_thorough=8000,
                                       gen_factory=lambda rng, kind: ErrGen(rng, kind, True))
    return bool(bad)
