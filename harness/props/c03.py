"""C03 — a rejected mutation leaves the graph exactly as it was."""
from __future__ import annotations

import json
from collections import Counter

from .. import common as C
from .. import graph_hist as H
from .. import histprops as HP

LEVEL = 'proof'
NEEDS = ['SFMutators', 'Extracted', 'SourceFacts', 'Base', 'Names', 'Graph', 'GraphObs', 'GraphTS', 'GraphInv', 'GraphAtomicLemmas', 'GraphAtomicProofs']
SINGLE = {'add_node', 'add_node_obj', 'add_node_vl', 'delete_node', 'replace_node', 'add_edge', 'add_time_edge',
          'delete_edge', 'change_edge_type', 'replace_edge'}
CELLS = Counter()


def unchanged(g, kind, op, code, before, after, ctx):
    if code != 0 and op[0] in SINGLE:
        CELLS[(op[0], C.ERR_NAME.get(code, str(code)))] += 1
        if before != after:
            pos = next((i for i, (a, b) in enumerate(zip(before, after)) if a != b), min(len(before), len(after)))
            return (f'{op[0]} raised {C.ERR_NAME.get(code, code)} but the observable state changed '
                    f'(first difference at token {pos}; nodes now {g.get_node_names()}, edges now '
                    f'{[(e.source.identifier, str(e.get_edge_type()), e.destination.identifier) for e in g.get_edges()]})')
    return None


class ErrGen(H.Gen):
    """Error-seeking generator: small pools, many closing / reversing / re-lagging calls."""

    def op(self, g):
        r = self.rng
        x = r.random()
        es = g.get_edge_pairs()
        if es and x < 0.30:
            s, d = r.choice(es)
            y = r.random()
            if y < 0.25:
                return ('change_edge_type', s, d, '->')
            if y < 0.45:
                return ('add_edge', (d, None), (s, None), self.ety(), self.meta(), True, 'ids')
            if y < 0.70:
                return ('replace_edge', s, d, self.name(), self.name(), r.choice([None, '->', '--']), self.meta())
            if y < 0.85:
                return ('replace_node', s, self.name(), None, None, 'DEFAULT', None)
            if self.kind == 'TS':
                return ('replace_node', r.choice([s, d]), None, r.choice(self.lags), None, 'DEFAULT', None)
        return super().op(g)


def check(run, tier, seed):
    CELLS.clear()
    HP.history_property(run, tier, seed, pid='C03', oracle=unchanged, n_quick=240, n_thorough=4000,
                        gen_factory=lambda rng, kind: ErrGen(rng, kind, True),
                        describe='Error-seeking histories (calls that close cycles, reverse or duplicate existing edges, re-lag '
                                 'time-series nodes against time, name unparsable nodes) + exhaustive short histories; the full '
                                 'observation is snapshotted before and after EVERY raising single-element mutator on the real graph.')
    run.coverage['raising_calls_by_mutator_and_error'] = {f'{k[0]}/{k[1]}': v for k, v in sorted(CELLS.items())}
    run.coverage['raising_single_element_calls'] = sum(CELLS.values())


def replay(run, path):
    return HP.replay_file(run, path, unchanged, 'C03')


def search(run, tier, seed):
    _, mism, bad = HP.history_property(run, tier, seed + 11, pid='C03', oracle=unchanged, n_quick=800, n_thorough=8000,
                                       gen_factory=lambda rng, kind: ErrGen(rng, kind, True))
    return bool(bad)
