"""C14 — see DESIGN.md §7."""
from .. import tsprops as T

LEVEL = 'proof'
NEEDS = ['PyRtTSb', 'PyRtTSbLemmas', 'TSGenMinimal', 'TSGenMinimalProofs', 'CorrTSGenMinimal', 'Bridge', 'BridgeProofs', 'Base', 'Digraph', 'TSGraph', 'TSGraphProofs', 'MinimalProofs', 'ExtendProofs', 'StationaryProofs', 'SummaryProofs', 'StationaryProofs2', 'MinimalProofs2', 'CorrTS']
# the code translated from the source on every run: when the translator REFUSES the current source the run falls back to the
# hand-written model and its correspondence (harness/main.py)
GEN_SOFT = dict(generated=['TSGenMinimal'], modules=['PyRtTSb', 'PyRtTSbLemmas', 'TSGenMinimal', 'TSGenMinimalProofs', 'CorrTSGenMinimal'])
DESCRIBE = {
    'C14': 'get_minimal_graph / is_minimal_graph / adjacency_matrices compared with the model; the characterisation c14_check (proved equivalent to the membership statement) evaluated by Coq on the graph the implementation returned.',
    'C15': 'extend_graph over a grid of (backward_steps, forward_steps, include_all_parents) incl. None, 0 and negative values; c15_check evaluated on every returned graph.',
    'C16': 'get_stationary_graph / is_stationary_graph on DAGs over windows ending at 0 (partial and complete instantiations); c16_check and the is_stationary iff evaluated on the implementation outputs.',
    'C17': 'get_summary_graph on time-series DAGs biased to mutual lagged influence and cyclic summaries; c17_check evaluated on the returned graph; the call must succeed on every DAG.',
}


def check(run, tier, seed):
    T.ts_property(run, tier, seed, 'C14', describe=DESCRIBE['C14'])


def replay(run, path):
    return T.replay_ts(run, path, 'C14')


def search(run, tier, seed):
    T.ts_property(run, tier, seed + 41, 'C14')
    return bool(run.violations)
