"""C11 — d-separation answers match the graphical definition."""
from .. import sweepprops as S

LEVEL = 'proof'
NEEDS = ['SFSepSet', 'Extracted', 'SourceFacts', 'Moral', 'MoralProofs', 'Bridge', 'BridgeProofs', 'Base', 'Digraph', 'DSep', 'DSepProofs', 'CorrDag']


def check(run, tier, seed):
    S.sweep_property(run, tier, seed, 'C11',
                     describe='is_d_separated for every unordered pair and EVERY conditioning subset of the remaining nodes (singleton, list and '
                              'set argument forms, both argument orders), is_minimally_d_separated for every (pair, subset), and '
                              'get_d_separation_set for every non-adjacent pair checked by the Coq predicate min_sepb.')


def replay(run, path):
    S.replay_dag(run, path, 'C11')
    return 1 if run.violations else 0


def search(run, tier, seed):
    _, out, _, div = S.sweep_property(run, 'thorough', seed + 1, 'C11')
    return bool(run.violations)
