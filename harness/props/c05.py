"""C05 — dictionary / JSON serialisation round-trips to a deeply equal graph."""
from __future__ import annotations

import copy
import json
import random

from cai_causal_graph import CausalGraph, TimeSeriesCausalGraph
from cai_causal_graph.causal_graph import Skeleton
from cai_causal_graph.utils import get_variable_name_and_lag

from .. import common as C
from .. import graph_hist as H
from .. import serial_corr as SC
from .c07 import rebuild_ops

LEVEL = 'proof'
NEEDS = ['JsonText', 'CorrJsonText', 'JsonTextProofs', 'SFSerialEq', 'Extracted', 'SourceFacts', 'Base', 'Names', 'Graph', 'GraphObs', 'GraphTS', 'GraphInv', 'Serial', 'SerialProofs', 'Closed']
RES = ('time_lag', 'variable_name')


def jt(d):
    return json.loads(json.dumps(d))


def meta_key_order_free(o, in_meta=False):
    """the same tree with the keys INSIDE metadata dictionaries sorted: the key order of a metadata dictionary is the order the
    user supplied (not a construction order of the graph), so it is not what "to_dict does not depend on the order in which the
    graph was built" is about; the order of the node and edge entries is kept and compared"""
    if isinstance(o, dict):
        items = sorted(o.items()) if in_meta else list(o.items())
        return {k: meta_key_order_free(v, in_meta or k == 'meta') for k, v in items}
    if isinstance(o, list):
        return [meta_key_order_free(x, in_meta) for x in o]
    return o


def predicate(g, ops, rng):
    """the property evaluated on the implementation alone; returns None or a description"""
    cls = type(g)
    kind = 'TS' if isinstance(g, TimeSeriesCausalGraph) else 'Plain'
    for im in (True, False):
        d = jt(g.to_dict(include_meta=im))
        h = cls.from_dict(copy.deepcopy(d), validate=False)
        if type(h) is not cls:
            return f'from_dict(to_dict) has class {type(h).__name__}'
        if not (h == g and g == h):
            return f'from_dict(to_dict(include_meta={im})) != g'
        if im:
            if not (h.__eq__(g, True) and g.__eq__(h, True)):
                return 'from_dict(to_dict(g)) is not deeply equal to g'
            if h.meta != g.meta:
                return f'graph metadata not preserved: {h.meta} != {g.meta}'
            nodes_g = [(n.identifier, str(n.variable_type), n.meta) for n in g.get_nodes()]
            nodes_h = [(n.identifier, str(n.variable_type), n.meta) for n in h.get_nodes()]
            if nodes_g != nodes_h:
                return 'node identifiers / variable types / metadata differ after the round trip'
            eg = [(e.get_edge_pair(), str(e.get_edge_type()), e.meta) for e in g.get_edges()]
            eh = [(e.get_edge_pair(), str(e.get_edge_type()), e.meta) for e in h.get_edges()]
            if eg != eh:
                return 'edges (orientation / type / metadata) differ after the round trip'
        # (with include_meta=False the nested endpoint dictionaries of the edges still carry the endpoint nodes' metadata, which the
        #  rebuilt graph no longer has: the fixed-point clause is about the metadata-preserving round trip)
        if im and json.dumps(jt(h.to_dict(include_meta=im))) != json.dumps(d):
            return f'serialising the round-tripped graph again gives a different dictionary (include_meta={im})'
        if im and json.dumps(jt(h.to_dict(include_meta=False))) != json.dumps(jt(g.to_dict(include_meta=False))):
            return 'serialising the round-tripped graph without metadata gives a different dictionary'
    # order independence
    g2 = H.new_graph(kind)
    g2.meta = copy.deepcopy(g.meta)
    for op in rebuild_ops(g, rng, flip=False):
        H.apply_op(g2, op)
    if json.dumps(meta_key_order_free(jt(g2.to_dict()))) != json.dumps(meta_key_order_free(jt(g.to_dict()))):
        return 'to_dict depends on the order in which the graph was built'
    # skeleton
    sk = g.skeleton
    sk2 = Skeleton.from_dict(jt(sk.to_dict()), graph_class=cls)
    if not (sk2 == sk and sk == sk2 and sk2.__eq__(sk, True)):
        return 'Skeleton.from_dict(to_dict(skeleton)) is not deeply equal to the skeleton'
    if json.dumps(jt(sk2.to_dict())) != json.dumps(jt(sk.to_dict())):
        return 'Skeleton re-serialisation differs'
    c = sk.copy()
    if not (c == sk and sk == c) or json.dumps(jt(c.to_dict())) != json.dumps(jt(sk.to_dict())):
        return 'skeleton.copy() is not equal to the skeleton'
    # copy
    cp = g.copy()
    if type(cp) is not cls or not (cp.__eq__(g, True) and g.__eq__(cp, True)) or cp.meta != g.meta:
        return 'copy() is not deeply equal'
    # class conversions
    if kind == 'TS':
        # a graph that holds a directed cycle (reachable only with validate=False) is refused by every validating constructor: that
        # refusal is C02's clause and is checked there; the conversion clause is evaluated without validation on such a graph
        from .c02 import acyclic
        cyclic = not acyclic(g.get_node_names(), [e.get_edge_pair() for e in g.get_edges() if str(e.get_edge_type()) == '->'])
        p = CausalGraph.from_dict(jt(g.to_dict()), validate=not cyclic)
        if [n.identifier for n in p.get_nodes()] != g.get_node_names() or [str(n.variable_type) for n in p.get_nodes()] != [str(n.variable_type) for n in g.get_nodes()]:
            return 'TS -> plain conversion loses identifiers / variable types'
        if [(e.get_edge_pair(), str(e.get_edge_type()), e.meta) for e in p.get_edges()] != [(e.get_edge_pair(), str(e.get_edge_type()), e.meta) for e in g.get_edges()]:
            return 'TS -> plain conversion loses edges'
        try:
            back = TimeSeriesCausalGraph.from_causal_graph(p)
        except Exception as e:  # noqa: BLE001
            if cyclic and type(e).__name__ == 'CyclicConnectionError':
                return None
            raise
        if not (back.__eq__(g, True) and g.__eq__(back, True)):
            return 'TS -> plain -> TS is not deeply equal'
    else:
        lag = {}
        ok = True
        for n in g.get_node_names():
            try:
                lag[n] = get_variable_name_and_lag(n)[1]
            except ValueError:
                ok = False
        against = [e for e in g.get_edges() if ok and str(e.get_edge_type()) == '->' and lag[e.source.identifier] > lag[e.destination.identifier]]
        from .c02 import acyclic
        cyclic = not acyclic(g.get_node_names(), [e.get_edge_pair() for e in g.get_edges() if str(e.get_edge_type()) == '->'])
        try:
            t = TimeSeriesCausalGraph.from_causal_graph(g)
        except Exception as e:  # noqa: BLE001
            if cyclic and type(e).__name__ == 'CyclicConnectionError':
                return None                    # a directed cycle (validate=False) is refused by the validating conversion: C02's clause
            if not isinstance(e, ValueError):
                raise
            if ok and not against:
                return 'from_causal_graph refused a graph whose names parse and whose directed edges respect time'
            return None
        if not ok or against:
            return 'from_causal_graph accepted an unparsable name or a directed edge against time'
        if t.get_node_names() != g.get_node_names():
            return 'from_causal_graph changed the identifiers'
        for a, b in zip(g.get_nodes(), t.get_nodes()):
            if str(a.variable_type) != str(b.variable_type) or {k: v for k, v in b.meta.items() if k not in RES} != {k: v for k, v in a.meta.items() if k not in RES}:
                return f'from_causal_graph changed variable type / user metadata of {a.identifier!r}'
        te = {frozenset(e.get_edge_pair()): e for e in t.get_edges()}
        for e in g.get_edges():
            f = te.get(frozenset(e.get_edge_pair()))
            if f is None or str(f.get_edge_type()) != str(e.get_edge_type()) or f.meta != e.meta:
                return f'from_causal_graph lost or changed edge {e.get_edge_pair()}'
            s, d = e.get_edge_pair()
            exp = (d, s) if lag[s] > lag[d] else (s, d)
            if f.get_edge_pair() != exp:
                return f'from_causal_graph stored edge {e.get_edge_pair()} as {f.get_edge_pair()}'
    return None


def random_tree(rng, depth=0):
    """JSON-representable values with hostile strings (quotes, backslashes, control characters, non-ASCII, astral characters)"""
    strs = ['', 'a', 'he said "hi"', 'back\\slash', 'tab\there', 'line\nbreak', 'nul\x00', 'del\x7f', '\u00e9\u4e2d', '\U0001f600 astral', '/slash', "it's", '\x1f']
    r = rng.random()
    if depth > 2 or r < 0.45:
        return rng.choice([None, True, False, 0, -1, 7, 12345678901234567890, rng.choice(strs), rng.choice(strs)])
    if r < 0.7:
        return [random_tree(rng, depth + 1) for _ in range(rng.randint(0, 3))]
    return {rng.choice(strs) + str(i): random_tree(rng, depth + 1) for i in range(rng.randint(0, 3))}


def json_text_correspondence(run, tier, seed, trees):
    """the TEXT level: json.dumps(tree) must be, character for character, what the model's json_print gives; json.loads of that text
    must be what the model's json_parse gives, and the tree itself for well-formed trees (JsonText.v)"""
    rng = random.Random(seed + 55)
    trees = list(trees) + [random_tree(rng) for _ in range(150 if tier == 'quick' else 2000)]
    rows = []
    for t in trees:
        text = json.dumps(t)
        back = json.loads(text)
        rows.append('{| jc_tree := %s; jc_text := %s; jc_back := Some %s |}' % (SC.cq_any(t), C.cq_name(text), SC.cq_any(back)))
    wd = C.workdir()
    files = []
    chunk = 40
    for i in range(0, len(rows), chunk):
        f = wd / f'jt_{i // chunk}.v'
        f.write_text(C.COQ_HEADER + 'From CG Require Import Base JsonText CorrJsonText.\nLocal Open Scope N_scope.\n'
                     'Definition cs : list jcase := [\n ' + ';\n '.join(rows[i:i + chunk]) + '\n].\nEval vm_compute in (map N.of_nat (jmismatches cs)).\n')
        files.append((i, f))
    bad = []
    for (base, f), (_, rc, so, se) in zip(files, C.run_coq_files([f for _, f in files], timeout=1800)):
        if rc != 0:
            raise RuntimeError(f'coqc failed on {f}: {se[-1500:]}')
        bad += [base + j for j in C.parse_N_list(C.parse_eval_blocks(so)[0])]
    run.coverage['json_text_cases'] = len(rows)
    run.oblige(f'correspondence: json.dumps / json.loads at the text level == JsonText model on {len(rows)} trees (graph dictionaries + hostile values)',
               not bad, '' if not bad else f'first disagreement on the tree {json.dumps(trees[bad[0]])[:300]}')


def check(run, tier, seed):
    rng = random.Random(seed)
    n = 100 if tier == 'quick' else 1500
    total, bad, stats, cases = SC.run(seed, n)
    for c in cases:
        run.count(('g', repr(c['ops'])), nontrivial=c['nedges'] >= 2)
    run.coverage.update(graphs=len(cases), individual_comparisons=total, comparisons_by_kind={k: v[0] for k, v in stats.items()},
                        flavours={f: sum(1 for c in cases if c['flavour'] == f) for f in ('default', 'hostile', 'tsnames', 'casefold')})
    run.coverage['rule'] = ('Random graphs of both classes and their skeletons (hostile identifiers: spaces, newlines, quotes, the words lag / future; all '
                            'variable and edge types; nested metadata; floating nodes; graph metadata; plain graphs over time-series style names incl. '
                            'time-violating edges and unparsable names), serialised through real JSON text with include_meta on/off; model and '
                            'implementation are compared on to_dict (ordered tree), from_dict (full observation hash + error class), copy, Skeleton '
                            'round trips, class conversions and three hostile variants of every dictionary; the property itself (deep equality, same class, '
                            'idempotent re-serialisation, order independence, conversions) is evaluated on the implementation. non-trivial = >= 2 edges.')
    run.samples.append(dict(kind=cases[0]['kind'], flavour=cases[0]['flavour'], checks=cases[0]['labels'][:6]))
    run.oblige(f'correspondence: {total} comparisons on {len(cases)} graphs, model == implementation', not bad,
               '' if not bad else f'{len(bad)} mismatches; first: {bad[0]["check"]} kind={bad[0]["kind"]}')
    # the property on the implementation
    viol = 0
    npred = 0
    jtrees = []
    for c in cases + [None] * (50 if tier == 'quick' else 400):
        if c is None:
            kind = rng.choice(['Plain', 'TS'])
            g, ops, gen, gm = SC.build_graph(rng, kind, rng.choice(['default', 'hostile', 'tsnames', 'casefold'] if kind == 'Plain' else ['default', 'hostile', 'casefold']))
        else:
            kind = c['kind']
            g = (CausalGraph if kind == 'Plain' else TimeSeriesCausalGraph)(meta=copy.deepcopy(c['gmeta']))
            ops = c['ops']
            for op in ops:
                H.apply_op(g, H._tup(op))
            gm = c['gmeta']
        npred += 1
        try:
            jtrees.append(jt(g.to_dict()))
        except Exception:  # noqa: BLE001
            pass
        try:
            why = predicate(g, ops, rng)
        except Exception as e:  # noqa: BLE001
            why = f'round trip raised {type(e).__name__}: {e}'
        if why and viol < 2:
            viol += 1
            run.violation(dict(kind=kind, ops=ops, gmeta=gm, why=why, replay_cmd='./check C05 --replay <this file>'), note=why[:200])
    run.coverage['graphs_checked_by_the_property_predicate'] = npred
    json_text_correspondence(run, tier, seed, jtrees)
    if bad and not viol:
        run.coverage['first_divergence'] = bad[0]


def replay(run, path):
    c = json.loads(open(path).read())
    g = (CausalGraph if c['kind'] == 'Plain' else TimeSeriesCausalGraph)(meta=copy.deepcopy(c.get('gmeta') or {}))
    for op in c['ops']:
        H.apply_op(g, H._tup(op))
    try:
        why = predicate(g, c['ops'], random.Random(0))
    except Exception as e:  # noqa: BLE001
        why = f'round trip raised {type(e).__name__}: {e}'
    print('predicate:', why)
    if why:
        run.violation(dict(c, why=why), note=why[:200])
    return 1 if run.violations else 0


def search(run, tier, seed):
    return False
