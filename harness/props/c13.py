"""C13 — time-series graphs never point a directed edge backwards in time."""
from __future__ import annotations

import itertools
import json
import random

from .. import common as C
from .. import graph_hist as H
from .. import histprops as HP
from . import c12

LEVEL = 'proof'
NEEDS = ['CorrTopoSort', 'TopoSort', 'TopoSortProofs', 'SFTopo', 'Extracted', 'SourceFacts', 'Bridge', 'BridgeProofs', 'Base', 'Names', 'Graph', 'GraphObs', 'GraphTS', 'GraphInv', 'GraphLemmas', 'GraphInvProofs', 'Queries', 'QueriesProofs']


def name_lag(identifier):
    """the time a node NAME stands for, read off the identifier alone (independent of the library's parser and of the node's tag)"""
    m = __import__('re').search(r' (lag|future)\(n=(\d+)\)\n?$', identifier)
    if not m:
        return 0
    return -int(m.group(2)) if m.group(1) == 'lag' else int(m.group(2))


def time_ok(g):
    for e in g.get_edges():
        s, d = e.source, e.destination
        if name_lag(s.identifier) > name_lag(d.identifier):
            return (f'stored edge {s.identifier!r} {e.get_edge_type()} {d.identifier!r} points backwards in time by the node names '
                    f'({name_lag(s.identifier)} > {name_lag(d.identifier)})')
        if s.time_lag > d.time_lag:
            return f'stored edge {s.identifier!r} {e.get_edge_type()} {d.identifier!r} points backwards in time ({s.time_lag} > {d.time_lag})'
    return None


def brute_time_topo(g):
    names = g.get_node_names()
    lag = {n: g.get_node(n).time_lag for n in names}
    arcs = [e.get_edge_pair() for e in g.get_edges()]
    res = []
    for p in itertools.permutations(names):
        pos = {n: i for i, n in enumerate(p)}
        if all(pos[a] < pos[b] for a, b in arcs) and all(lag[p[i]] <= lag[p[i + 1]] for i in range(len(p) - 1)):
            res.append(list(p))
    return res


def topo_ok(g):
    if not g.is_dag():
        return None
    names = g.get_node_names()
    lag = {n: g.get_node(n).time_lag for n in names}
    arcs = [e.get_edge_pair() for e in g.get_edges()]
    order = g.get_topological_order()
    pos = {n: i for i, n in enumerate(order)}
    if sorted(order) != names or not all(pos[a] < pos[b] for a, b in arcs):
        return f'default order {order} is not a topological order of {arcs}'
    if not all(lag[order[i]] <= lag[order[i + 1]] for i in range(len(order) - 1)):
        return f'default order {order} is not sorted by time (lags {[lag[n] for n in order]})'
    if len(names) <= 6:
        allo = g.get_topological_order(return_all=True)
        exp = brute_time_topo(g)
        if sorted(allo) != sorted(exp):
            return f'return_all gives {len(allo)} orders, the time-sorted topological orders are {len(exp)}: nodes {names} arcs {arcs}'
    return None


def oracle(g, kind, op, code, before, after, ctx):
    if kind != 'TS':
        return None
    return time_ok(g) or topo_ok(g)


def check(run, tier, seed):
    from .. import topocorr
    topocorr.exact_default_order(run, 'C13', tier, seed)
    rng = random.Random(seed + 3)
    HP.history_property(run, tier, seed, pid='C13', kinds=('TS',), oracle=oracle, n_quick=160, n_thorough=2500,
                        describe='Time-series histories (all edge types, lags of both signs, every route: add_edge / by pair / node and edge '
                                 'objects / add_time_edge / bulk adders / change_edge_type / replace_edge / replace_node re-lagging); after '
                                 'every step every stored edge is checked against time on the real graph and, on DAG states, the default and '
                                 'return_all topological orders against brute force over permutations.')
    bad = c12.constructor_stream(run, tier, rng, pred=lambda g: time_ok(g) or topo_ok(g))
    # empty graph and tiny graphs explicitly
    from cai_causal_graph import TimeSeriesCausalGraph
    g = TimeSeriesCausalGraph()
    why = topo_ok(g)
    if why:
        bad.append(dict(constructor='TimeSeriesCausalGraph()', why=why))
    for b in bad[:3]:
        run.violation(dict(b, replay_cmd='./check C13 --replay <this file>'), note=b['why'][:200])
    run.oblige('constructors: from_dict / from_adjacency_matrix / from_causal_graph / from_adjacency_matrices on lagged names', not bad, '')


def replay(run, path):
    case = json.loads(open(path).read())
    if 'ops' in case:
        return HP.replay_file(run, path, oracle, 'C13')
    print('constructor replay: re-run ./check C13 (constructor inputs are regenerated from the seed)')
    return 0


def search(run, tier, seed):
    _, mism, bad = HP.history_property(run, tier, seed + 17, pid='C13', kinds=('TS',), oracle=oracle, n_quick=600, n_thorough=5000)
    return bool(bad)
