"""C09 — the skeleton is a live, purely undirected image of the graph."""
from __future__ import annotations

import json
import random

import numpy

from cai_causal_graph import Skeleton

from .. import common as C
from .. import graph_hist as H
from .. import histprops as HP

LEVEL = 'proof'
NEEDS = ['SubGraph', 'SubGraphProofs', 'SkeletonDict', 'Base', 'Names', 'Graph', 'GraphObs', 'GraphTS', 'GraphInv', 'Matrix', 'Skeleton', 'SkeletonProofs', 'Closed', 'CorrMatrix']
MEMBERS_SEEN = set()


def gml_safe(names):
    return all(n and n.isprintable() and '"' not in n and '&' not in n and n.isascii() for n in names)


class Oracle:
    def init(self, g, kind, ctx):
        ctx['sk'] = g.skeleton     # obtained BEFORE the history
        ctx['n'] = 0

    def __call__(self, g, kind, op, code, before, after, ctx):
        sk = ctx['sk']
        ctx['n'] += 1
        names = g.get_node_names()
        pairs = [e.get_edge_pair() for e in g.get_edges()]
        adj = {frozenset(p) for p in pairs}
        M = MEMBERS_SEEN
        # nodes
        M.update(['nodes', 'get_node_names', 'node_exists', 'get_node', 'is_empty'])
        if [(n.identifier, str(n.variable_type)) for n in sk.nodes] != [(n.identifier, str(n.variable_type)) for n in g.get_nodes()]:
            return f'skeleton nodes {[(n.identifier, str(n.variable_type)) for n in sk.nodes]} != graph nodes'
        if sk.get_node_names() != names:
            return 'skeleton.get_node_names() != graph node names'
        for n in names[:3]:
            if not sk.node_exists(n) or sk.get_node(n).identifier != n:
                return f'skeleton.node_exists/get_node({n!r}) wrong'
        if sk.node_exists('__absent__'):
            return 'skeleton.node_exists of an absent node'
        if sk.is_empty() != (not names and not pairs):
            return 'skeleton.is_empty() wrong'
        # edges
        M.update(['edges', 'get_edge_pairs', 'edge_exists', 'is_edge_by_pair', 'get_edge', 'get_edge_by_pair'])
        sedges = sk.edges
        if [e.get_edge_pair() for e in sedges] != pairs or sk.get_edge_pairs() != pairs:
            return f'skeleton edges {[e.get_edge_pair() for e in sedges]} != graph edge pairs {pairs}'
        if any(str(e.get_edge_type()) != '--' for e in sedges):
            return 'skeleton edge that is not undirected'
        for s in names:
            for d in names:
                a = frozenset((s, d)) in adj and s != d
                if sk.edge_exists(s, d) != a or sk.is_edge_by_pair((s, d)) != a:
                    return f'skeleton.edge_exists({s!r},{d!r}) = {sk.edge_exists(s, d)}, adjacent = {a}'
                if a:
                    e = sk.get_edge(s, d)
                    if frozenset(e.get_edge_pair()) != frozenset((s, d)) or sk.get_edge_by_pair((s, d)).get_edge_pair() != e.get_edge_pair():
                        return f'skeleton.get_edge({s!r},{d!r}) wrong'
        # adjacency
        M.update(['adjacency_matrix', 'to_numpy'])
        A, order = sk.to_numpy()
        if order != names or not numpy.array_equal(A, sk.adjacency_matrix):
            return 'skeleton.to_numpy() inconsistent'
        if not numpy.array_equal(A, A.T):
            return 'skeleton adjacency not symmetric'
        for i, s in enumerate(names):
            for j, d in enumerate(names):
                if int(A[i, j]) != int(frozenset((s, d)) in adj and s != d):
                    return f'skeleton adjacency[{s!r},{d!r}] = {A[i, j]}'
        # neighbours
        M.update(['get_neighbors', 'get_neighbor_nodes'])
        for n in names:
            exp = sorted({p[1] for p in pairs if p[0] == n} | {p[0] for p in pairs if p[1] == n})
            if sorted(sk.get_neighbors(n)) != exp or sorted(x.identifier for x in sk.get_neighbor_nodes(n)) != exp:
                return f'skeleton.get_neighbors({n!r}) = {sorted(sk.get_neighbors(n))}, expected {exp}'
        # rebuilds (every few steps: they are the expensive part)
        if ctx['n'] % 4 == 0:
            M.update(['to_dict', 'from_dict', 'from_adjacency_matrix', 'to_networkx', 'from_networkx', 'copy', '__eq__', '__ne__', '__iter__'])
            cls = type(g)
            try:
                if not (Skeleton.from_dict(json.loads(json.dumps(sk.to_dict())), graph_class=cls) == sk):
                    return 'Skeleton.from_dict(to_dict()) != skeleton'
                if dict(sk) != sk.to_dict():
                    return 'dict(skeleton) != to_dict()'
                if not (Skeleton.from_adjacency_matrix(A, list(order), graph_class=cls) == sk):
                    return 'Skeleton.from_adjacency_matrix(*to_numpy()) != skeleton'
                if not (Skeleton.from_networkx(sk.to_networkx(), graph_class=cls) == sk):
                    return 'Skeleton.from_networkx(to_networkx()) != skeleton'
                if not (sk.copy() == sk) or (sk.copy() != sk):
                    return 'skeleton.copy() != skeleton'
                if gml_safe(names):
                    M.update(['to_gml_string', 'from_gml_string'])
                    if not (Skeleton.from_gml_string(sk.to_gml_string(), graph_class=cls) == sk):
                        return 'Skeleton.from_gml_string(to_gml_string()) != skeleton'
            except Exception as e:  # noqa: BLE001
                return f'skeleton rebuild raised {type(e).__name__}: {e}'
        return None


oracle = Oracle()


def check(run, tier, seed):
    MEMBERS_SEEN.clear()
    HP.history_property(run, tier, seed, pid='C09', oracle=oracle, n_quick=120, n_thorough=2000, exhaustive=(tier == 'thorough'),
                        describe='The skeleton object is taken from the empty graph BEFORE the history; after every mutation every public '
                                 'Skeleton member is compared with the current graph (nodes, undirected edges, symmetric adjacency, '
                                 'orientation-blind queries) and every 4th step the skeleton is rebuilt from its dict / matrix / networkx / GML form.')
    run.coverage['skeleton_members_exercised'] = sorted(MEMBERS_SEEN)
    # every Skeleton member against the Coq model of the skeleton views (Skeleton.v), the skeleton object taken before the history
    from . import c08
    rng = random.Random(seed + 77)
    cases = c08.state_cases(rng, 200 if tier == 'quick' else 3000)
    out = c08.run_mcases(cases, tag='sk')
    div = [i for i, o in enumerate(out) if not o & 2]
    run.coverage['skeleton_states_compared_with_model'] = len(cases)
    run.oblige(f'correspondence: all skeleton views on {len(cases)} graph states (skeleton taken before the history) == Skeleton.v model', not div,
               '' if not div else f'first divergence: {cases[div[0]]["kind"]} {cases[div[0]]["ops"]!r}'[:480])


def replay(run, path):
    return HP.replay_file(run, path, oracle, 'C09')


def search(run, tier, seed):
    _, mism, bad = HP.history_property(run, tier, seed + 19, pid='C09', oracle=oracle, n_quick=500, n_thorough=4000, exhaustive=False)
    return bool(bad)
