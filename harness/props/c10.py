"""C10 — structural queries agree with their graph-theoretic definitions."""
import random

from .. import common as C
from .. import dagsweep as D
from .. import sweepprops as S

LEVEL = 'proof'
NEEDS = ['PyRt', 'PyRtLoop', 'TraversalGenLemmas', 'TraversalGenQ', 'TraversalGenQProofs', 'CorrTraversalBase', 'CorrTraversalGenQ', 'CorrTopoSort', 'TopoSort', 'TopoSortProofs', 'SFTopo', 'SubGraph', 'SubGraphProofs', 'Extracted', 'SourceFacts', 'Bridge', 'BridgeProofs', 'Base', 'Digraph', 'DigraphProofs', 'Queries', 'QueriesProofs', 'CorrDag']
# the code translated from the source on every run: when the translator REFUSES the current source the run falls back to the
# hand-written model and its correspondence (harness/main.py)
GEN_SOFT = dict(generated=['TraversalGenQ'], modules=['TraversalGenQ', 'TraversalGenQProofs', 'CorrTraversalGenQ'])


def dpe_tokens(g, n):
    t = []
    for x in range(n):
        for y in range(n):
            if x != y:
                t += C.tk_bool(g.directed_path_exists(D.NAMES[x], D.NAMES[y]))
    return t


def check(run, tier, seed):
    from .. import topocorr
    topocorr.exact_default_order(run, 'C10', tier, seed)
    from .. import travcorr
    travcorr.traversal_correspondence(run, 'C10', tier, seed)
    S.sweep_property(run, tier, seed, 'C10',
                     describe='ancestors / descendants / is_ancestor / is_descendant (single, list, set, empty forms) / common ancestors and '
                              'descendants / all causal paths / nodes between / directed_path_exists / all topological orders / the four '
                              'sub-graph builders for every node and ordered pair; the default topological order is checked by the Coq predicate is_topo.')
    rng = random.Random(seed + 9)
    cases = []
    for n in (2, 3):
        cases += [(n, mg) for mg in D.all_mixed(n, ['->', '--', '<>'])]
    cases += [(4, D.random_mixed(rng, 4, C.ETYPES, 0.6)) for _ in range(500 if tier == 'quick' else 6000)]
    cases += [(5, D.random_mixed(rng, 5, C.ETYPES, 0.5)) for _ in range(200 if tier == 'quick' else 3000)]
    # the real method does not terminate on a directed cycle (validate=False graphs): outside the property
    cases = [(n, mg) for n, mg in cases if D.is_acyclic_bits(n, [(s, d) for s, d, t in mg if t == '->'])]
    bad = D.mixed_sweep(cases, 1, dpe_tokens, tag='dpe')
    run.coverage['mixed_graphs_for_directed_path_exists'] = len(cases)
    run.oblige(f'correspondence: directed_path_exists on {len(cases)} mixed graphs (directed part acyclic), all ordered pairs', not bad,
               '' if not bad else f'first divergence: n={cases[bad[0]][0]} edges={cases[bad[0]][1]}')
    for i in bad[:2]:
        n, mg = cases[i]
        # property predicate on the implementation: reachability over directed edges only
        arcs = [(s, d) for s, d, t in mg if t == '->']
        reach = {v: set() for v in range(n)}
        for _ in range(n):
            for s, d in arcs:
                reach[s] |= {d} | reach[d]
        g = D.build_mixed(n, mg)
        for x in range(n):
            for y in range(n):
                if x != y and g.directed_path_exists(D.NAMES[x], D.NAMES[y]) != (y in reach[x]):
                    run.violation(dict(n=n, mixed_edges=mg, source=D.NAMES[x], destination=D.NAMES[y],
                                       why='directed_path_exists disagrees with reachability over the directed edges'), note='directed_path_exists')
                    return


def replay(run, path):
    import json
    case = json.loads(open(path).read())
    if case.get('kind') == 'traversal':
        from .. import travcorr
        return travcorr.replay(run, 'C10', case)
    S.replay_dag(run, path, 'C10')
    return 1 if run.violations else 0


def search(run, tier, seed):
    S.sweep_property(run, 'thorough', seed + 1, 'C10')
    return bool(run.violations)
