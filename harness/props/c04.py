"""C04 — cached and derived answers always reflect the current graph."""
from __future__ import annotations

import inspect
import json
import random
from collections import Counter

import networkx
import numpy

from cai_causal_graph import CausalGraph, TimeSeriesCausalGraph

from .. import common as C
from .. import graph_hist as H
from .. import histprops as HP

LEVEL = 'proof'
NEEDS = ['Cache', 'Extracted', 'Facts', 'Base', 'Names', 'Graph', 'GraphObs', 'GraphTS']
TABLE = Counter()


def _try(thunk):
    try:
        return ('ok', thunk())
    except Exception as e:  # noqa: BLE001
        return ('err', type(e).__name__)


def nx_view(x):
    return (x.is_directed(), sorted(x.nodes()), sorted(map(tuple, x.edges())) if x.is_directed() else sorted(tuple(sorted(e)) for e in x.edges()))


READERS = {
    'is_dag': lambda g: g.is_dag(),
    'to_networkx': lambda g: nx_view(g.to_networkx()),
    'adjacency_matrix': lambda g: g.adjacency_matrix.tolist(),
    'to_numpy': lambda g: (g.to_numpy()[0].tolist(), g.to_numpy()[1]),
    'skeleton.adjacency_matrix': lambda g: g.skeleton.adjacency_matrix.tolist(),
    'skeleton.edges': lambda g: g.skeleton.get_edge_pairs(),
    'skeleton.nodes': lambda g: [(n.identifier, str(n.variable_type)) for n in g.skeleton.nodes],
    'skeleton.to_networkx': lambda g: nx_view(g.skeleton.to_networkx()),
    'is_empty': lambda g: g.is_empty(),
    '_is_fully_directed': lambda g: g._is_fully_directed(),
    '_is_fully_undirected': lambda g: g._is_fully_undirected(),
}
TS_READERS = {
    'variables': lambda g: g.variables,
    'is_minimal_graph': lambda g: g.is_minimal_graph(),
    'is_stationary_graph': lambda g: g.is_stationary_graph(),
    'max_backward_lag': lambda g: g.max_backward_lag,
    'max_forward_lag': lambda g: g.max_forward_lag,
    'maxlag': lambda g: g.maxlag,
    'adjacency_matrices': lambda g: {int(k): v.tolist() for k, v in g.adjacency_matrices.items()},
    'get_all_variable_names': lambda g: g.get_all_variable_names(),
}


def valid_multi(g):
    """answers for which several values are right: valid for the current node and edge set"""
    names = g.get_node_names()
    arcs = [e.get_edge_pair() for e in g.get_edges()]
    dag = all(str(e.get_edge_type()) == '->' for e in g.get_edges())
    if dag:
        from .c02 import acyclic
        dag = acyclic(names, arcs)
    ident = g.identifier
    if dag:
        order = g.get_topological_order()
        pos = {n: i for i, n in enumerate(order)}
        if sorted(order) != names or not all(pos[a] < pos[b] for a, b in arcs):
            return f'get_topological_order() {order} is not valid for the current graph {arcs}'
        if len(names) == len(set(names)) and not any('>_<' in n for n in names):
            parts = ident[1:-1].split('>_<') if names else []
            p2 = {n: i for i, n in enumerate(parts)}
            if sorted(parts) != names or not all(p2[a] < p2[b] for a, b in arcs):
                return f'identifier {ident!r} is not a topological order of the current graph'
    else:
        if ident != '<' + '>_<'.join(sorted(names)) + '>':
            return f'identifier {ident!r} is not the sorted node list of the current (non-DAG) graph'
    r = _try(lambda: g.to_gml_string())
    only = all(str(e.get_edge_type()) in ('->', '--') for e in g.get_edges())
    if r[0] == 'ok' and all(n.isascii() and n.isprintable() and '"' not in n and '&' not in n and n for n in names):
        try:
            back = networkx.parse_gml(r[1])
            if sorted(map(str, back.nodes())) != names:
                return f'GML text lists nodes {sorted(back.nodes())}, graph has {names}'
            ge = {frozenset(map(str, e)) for e in back.edges()}
            if ge != {frozenset(p) for p in arcs}:
                return 'GML text edge set differs from the current graph'
        except Exception:  # noqa: BLE001  (networkx cannot parse some names; not this property)
            pass
    return None


def fresh_copy(g):
    return type(g).from_dict(json.loads(json.dumps(g.to_dict())), validate=False)


class Oracle:
    def init(self, g, kind, ctx):
        ctx['warm'] = set()
        ctx['rng'] = random.Random(12345)

    def __call__(self, g, kind, op, code, before, after, ctx):
        rng = ctx['rng']
        readers = dict(READERS)
        if kind == 'TS':
            readers.update(TS_READERS)
        for r in ctx['warm']:
            TABLE[(op[0], r)] += 1
        fresh = fresh_copy(g)
        chosen = [r for r in readers if rng.random() < 0.55]
        ctx['warm'] = set(chosen) if code == 0 else (ctx['warm'] | set(chosen))
        for r in chosen:
            a = _try(lambda: readers[r](g))
            b = _try(lambda: readers[r](fresh_copy(g)) if r.startswith('skeleton') else readers[r](fresh))
            if a != b:
                return f'{r} = {str(a)[:150]} on the live graph but {str(b)[:150]} on a freshly reconstructed copy (after {op[0]}, outcome {C.ERR_NAME.get(code, "ok")})'
        # clauses that do not go through a second copy of the library (a memo shared between objects would fool the fresh copy too)
        if kind == 'TS' and any(str(e.get_edge_type()) != '->' for e in g.get_edges()):
            if _try(lambda: g.is_stationary_graph()) == ('ok', True):
                return 'is_stationary_graph() is True on a graph with a non-directed edge (not a DAG)'
        if any(str(e.get_edge_type()) != '->' for e in g.get_edges()) and _try(lambda: g.is_dag()) == ('ok', True):
            return 'is_dag() is True on a graph with a non-directed edge'
        if rng.random() < 0.3:
            why = valid_multi(g)
            if why:
                return why
        return None


oracle = Oracle()


def api_inventory():
    """fail-closed inventory: every public callable of the two classes is either a known mutator,
    a known reader, or explicitly listed as not touching cached state"""
    known_mut = {'add_node', 'add_nodes_from', 'add_fully_connected_nodes', 'delete_node', 'remove_node', 'replace_node',
                 'add_edge', 'add_edges_from', 'add_edges_from_paths', 'add_edge_by_pair', 'remove_edge_by_pair', 'delete_edge',
                 'remove_edge', 'replace_edge', 'change_edge_type', 'add_time_edge'}
    out = {}
    for cls in (CausalGraph, TimeSeriesCausalGraph):
        pub = sorted(n for n, v in inspect.getmembers(cls) if not n.startswith('_') and callable(v))
        out[cls.__name__] = dict(public_callables=len(pub), mutators=sorted(set(pub) & known_mut))
    return out


def retype_scenarios(run, tier, seed):
    """Stationary time-series DAGs (and plain DAGs) with every reader warm; one edge is then retyped to each non-directed type and
    back (same node names, same edge pairs: a memo keyed on names and pairs, wherever it lives, now answers for the wrong graph);
    after every retyping every reader is compared with a fresh copy and with the clauses that need no second copy."""
    from .. import tsprops as T
    rng = random.Random(seed + 71)
    n = 40 if tier == 'quick' else 400
    readers = dict(READERS)
    readers.update(TS_READERS)
    done = 0
    for it in range(n):
        steps, gm = T.gen_ts_graph(rng, 'dag0')
        try:
            g = T.build(steps, gm).get_stationary_graph()
        except Exception:  # noqa: BLE001
            continue
        es = g.get_edge_pairs()
        if not es:
            continue
        for r in readers:
            _try(lambda: readers[r](g))
        s, d = rng.choice(es)
        for ty in rng.sample(C.ETYPES[1:], 3) + ['->']:
            try:
                g.change_edge_type(s, d, H.ET[ty])
            except Exception:  # noqa: BLE001
                continue
            done += 1
            why = None
            if ty != '->' and _try(lambda: g.is_stationary_graph()) == ('ok', True):
                why = f'is_stationary_graph() is True after retyping {s!r} {ty} {d!r} (not a DAG any more)'
            if ty != '->' and _try(lambda: g.is_dag()) == ('ok', True):
                why = f'is_dag() is True after retyping {s!r} {ty} {d!r}'
            fresh = fresh_copy(g)
            for r in readers:
                a = _try(lambda: readers[r](g))
                b = _try(lambda: readers[r](fresh_copy(g)) if r.startswith('skeleton') else readers[r](fresh))
                if a != b and why is None:
                    why = f'{r} = {str(a)[:120]} on the live graph but {str(b)[:120]} on a fresh copy after retyping {s!r} {ty} {d!r}'
            if why:
                run.violation(dict(steps=steps, gmeta=gm, retyped=[s, d, ty], why=why), note=why[:200])
                return
    run.coverage['retype_scenarios'] = done


def check(run, tier, seed):
    TABLE.clear()
    HP.history_property(run, tier, seed, pid='C04', oracle=oracle, n_quick=90, n_thorough=1500, exhaustive=False, length=30,
                        describe='Interleavings query* . mutate . query*: after every public mutation (accepted or rejected) a random subset of '
                                 'the cached / derived readers is evaluated on the live graph (so every reader meets every mutator both warm and '
                                 'cold) and compared with the same reader on from_dict(to_dict(g)), which has never been queried; '
                                 'topological order / identifier / GML are validated against the current node and edge set.')
    muts = sorted({k[0] for k in TABLE})
    rds = sorted({k[1] for k in TABLE})
    run.coverage['warm_reader_x_mutator_pairs_exercised'] = len(TABLE)
    run.coverage['mutators'] = muts
    run.coverage['readers'] = rds
    run.coverage['api_inventory'] = api_inventory()
    if not run.violations:
        retype_scenarios(run, tier, seed)


def replay(run, path):
    c = json.loads(open(path).read())
    if 'retyped' in c:
        from .. import tsprops as T
        g = T.build([tuple(x) for x in c['steps']], c.get('gmeta')).get_stationary_graph()
        readers = dict(READERS)
        readers.update(TS_READERS)
        for r in readers:
            _try(lambda: readers[r](g))
        s, d, ty = c['retyped']
        g.change_edge_type(s, d, H.ET[ty])
        why = None
        if ty != '->' and _try(lambda: g.is_stationary_graph()) == ('ok', True):
            why = f'is_stationary_graph() is True after retyping {s!r} {ty} {d!r}'
        fresh = fresh_copy(g)
        for r in readers:
            a = _try(lambda: readers[r](g))
            b = _try(lambda: readers[r](fresh_copy(g)) if r.startswith('skeleton') else readers[r](fresh))
            if a != b and why is None:
                why = f'{r} differs from a fresh copy after retyping'
        print('retype scenario:', why)
        if why:
            run.violation(dict(c, why=why), note=why[:200])
        return 1 if run.violations else 0
    return HP.replay_file(run, path, oracle, 'C04')


def search(run, tier, seed):
    _, mism, bad = HP.history_property(run, tier, seed + 23, pid='C04', oracle=oracle, n_quick=400, n_thorough=3000, exhaustive=False, length=30)
    return bool(bad)
