"""C02 — validated graphs never hold a directed cycle; is_dag() reports exactly that."""
from __future__ import annotations

import itertools
import json
import random

import networkx
import numpy

from cai_causal_graph import CausalGraph, TimeSeriesCausalGraph
from cai_causal_graph.exceptions import CausalGraphErrors

from .. import common as C
from .. import graph_hist as H
from .. import histprops as HP

LEVEL = 'proof'
NEEDS = ['PyRtMut', 'PyRtAdd', 'MutGenAdd', 'MutGenAddProofs', 'CorrMutGenAdd', 'PyRt', 'PyRtLoop', 'TraversalGenLemmas', 'TraversalGenCyc', 'TraversalGenCycProofs', 'CorrTraversalBase', 'CorrTraversalGenCyc', 'SFValidate', 'CtorAcyclicProofs', 'CtorAcyclicLag', 'Extracted', 'SourceFacts', 'Base', 'Digraph', 'DigraphProofs', 'Names', 'Graph', 'GraphObs', 'GraphTS', 'GraphInv', 'GraphAcyclicLemmas', 'GraphAcyclicProofs']
# the code translated from the source on every run: when the translator REFUSES the current source the run falls back to the
# hand-written model and its correspondence (harness/main.py)
GEN_SOFT = dict(generated=['TraversalGenCyc', 'MutGenAdd'], modules=['TraversalGenCyc', 'TraversalGenCycProofs', 'CorrTraversalGenCyc', 'MutGenAdd', 'MutGenAddProofs', 'CorrMutGenAdd'])


def acyclic(nodes, arcs):
    indeg = {n: 0 for n in nodes}
    out = {n: [] for n in nodes}
    for a, b in arcs:
        indeg[b] += 1
        out[a].append(b)
    stack = [n for n in nodes if indeg[n] == 0]
    seen = 0
    while stack:
        n = stack.pop()
        seen += 1
        for m in out[n]:
            indeg[m] -= 1
            if indeg[m] == 0:
                stack.append(m)
    return seen == len(nodes)


def dir_arcs(g):
    return [e.get_edge_pair() for e in g.get_edges() if str(e.get_edge_type()) == '->']


def is_dag_expected(g):
    es = g.get_edges()
    return all(str(e.get_edge_type()) == '->' for e in es) and acyclic(g.get_node_names(), dir_arcs(g))


def oracle(g, kind, op, code, before, after, ctx):
    if op[0] in ('add_edge', 'add_edges_from', 'add_path', 'add_time_edge'):
        v = {'add_edge': 5, 'add_edges_from': 2, 'add_path': 2, 'add_time_edge': 6}[op[0]]
        if not op[v]:
            ctx['unvalidated'] = True
    ok = acyclic(g.get_node_names(), dir_arcs(g))
    if not ctx.get('unvalidated') and not ok:
        return f'validated history produced a directed cycle: {dir_arcs(g)}'
    if g.is_dag() != is_dag_expected(g):
        return f'is_dag() = {g.is_dag()} but all-directed-and-acyclic = {is_dag_expected(g)} (edges {[(e.source.identifier, str(e.get_edge_type()), e.destination.identifier) for e in g.get_edges()]})'
    if code == C.ERR_CODE['CyclicConnectionError'] and op[0] == 'add_edge' and not ctx.get('unvalidated'):
        # the refused edge must really close a cycle (or be a self loop): "acyclic input is accepted"
        s, d, ty = op[1][0], op[2][0], op[3]
        if ty == '->' and s != d and g.node_exists(s) and g.node_exists(d):
            if acyclic(g.get_node_names(), dir_arcs(g) + [(s, d)]):
                return f'add_edge({s!r}->{d!r}) was refused with CyclicConnectionError although it closes no cycle'
    return None


class CloseGen(H.Gen):
    """biased to cycle-closing calls"""

    def op(self, g):
        r = self.rng
        arcs = dir_arcs(g)
        if arcs and r.random() < 0.3:
            a, b = r.choice(arcs)
            # find something downstream of b and close back to a
            y = r.random()
            if y < 0.4:
                return ('add_edge', (b, None), (self.name(), None), '->', None, r.random() < 0.9, 'ids')
            if y < 0.6:
                es = [e.get_edge_pair() for e in g.get_edges() if str(e.get_edge_type()) != '->']
                if es:
                    s, d = r.choice(es)
                    return ('change_edge_type', s, d, '->')
            if y < 0.8:
                s, d = r.choice(g.get_edge_pairs())
                return ('replace_edge', s, d, self.name(), self.name(), '->', None)
            return ('add_path', [self.name() for _ in range(r.randint(2, 4))], True)
        return super().op(g)


# ---- constructors ---------------------------------------------------------------------------

DTYPES = [numpy.int64, numpy.int64, numpy.uint8, numpy.bool_, numpy.float64, numpy.int8, numpy.uint64]


def all_binary_matrices(n):
    for bits in itertools.product([0, 1], repeat=n * n):
        # the same binary matrix under different numpy dtypes (signed, unsigned, boolean, float)
        yield numpy.array(bits).reshape(n, n).astype(DTYPES[(sum(bits) + 3 * bits[1 % len(bits)]) % len(DTYPES)])


def matrix_dir_arcs(a, names):
    n = a.shape[0]
    return [(names[i], names[j]) for i in range(n) for j in range(n) if i != j and a[i, j] != 0 and a[j, i] == 0]


def expect_ctor(run, label, thunk, cyclic, validate, inputs):
    """cyclic directed part + validate => CyclicConnectionError; otherwise accepted and is_dag consistent."""
    try:
        g = thunk()
    except CausalGraphErrors.CyclicConnectionError:
        if cyclic and validate:
            return None
        return dict(constructor=label, input=inputs, why='CyclicConnectionError on input whose directed edges are acyclic' if not cyclic else 'raised although validate=False')
    except Exception as e:  # noqa: BLE001
        return dict(constructor=label, input=inputs, why=f'unexpected {type(e).__name__}: {e}')
    if cyclic and validate:
        return dict(constructor=label, input=inputs, why='a graph with a directed cycle was constructed with validation on')
    if g.is_dag() != is_dag_expected(g):
        return dict(constructor=label, input=inputs, why=f'is_dag()={g.is_dag()} but expected {is_dag_expected(g)}')
    return None


def constructor_stream(run, tier, rng):
    bad = []
    n_checked = 0
    # every zero-diagonal 4x4 (quick) / 5x5 sample (thorough) matrix through the validating matrix constructor: the order of the
    # rows decides which node the deferred validation starts from, so ALL labelled digraphs are needed, not one per shape
    names4 = ['a', 'b', 'c', 'd']
    offd = [(i, j) for i in range(4) for j in range(4) if i != j]
    for mask in range(1 << 12):
        a = numpy.zeros((4, 4), dtype=int)
        for k, (i, j) in enumerate(offd):
            if mask >> k & 1:
                a[i, j] = 1
        cyc = not acyclic(names4, matrix_dir_arcs(a, names4))
        n_checked += 1
        b = expect_ctor(run, 'CausalGraph.from_adjacency_matrix', lambda: CausalGraph.from_adjacency_matrix(a, list(names4), validate=True), cyc, True,
                        dict(matrix=a.tolist(), names=names4, validate=True))
        if b:
            bad.append(b)
    names5 = ['a', 'b', 'c', 'd', 'e']
    for _ in range(1500 if tier == 'quick' else 40000):
        a = numpy.array([[int(i != j and rng.random() < 0.3) for j in range(5)] for i in range(5)])
        cyc = not acyclic(names5, matrix_dir_arcs(a, names5))
        n_checked += 1
        cls = rng.choice([CausalGraph, TimeSeriesCausalGraph])
        b = expect_ctor(run, f'{cls.__name__}.from_adjacency_matrix', lambda: cls.from_adjacency_matrix(a, list(names5), validate=True), cyc, True,
                        dict(matrix=a.tolist(), names=names5, validate=True))
        if b:
            bad.append(b)
    sizes = [1, 2, 3, 4]
    for n in sizes:
        mats = list(all_binary_matrices(n))
        if n == 4:
            rng.shuffle(mats)
            mats = mats[:6000] if tier == 'thorough' else mats[:250]
        for a in mats:
            names = [chr(ord('a') + i) for i in range(n)]
            arcs = matrix_dir_arcs(a, names)
            cyc = not acyclic(names, arcs)
            lst = a.tolist()
            for validate in (True, False):
                for cls in (CausalGraph, TimeSeriesCausalGraph):
                    n_checked += 1
                    b = expect_ctor(run, f'{cls.__name__}.from_adjacency_matrix', lambda: cls.from_adjacency_matrix(a, list(names), validate=validate), cyc, validate, dict(matrix=lst, names=names, validate=validate))
                    if b:
                        bad.append(b)
            # dict / networkx / gml forms of the same graph (built unvalidated)
            src = CausalGraph.from_adjacency_matrix(a, list(names), validate=False)
            d = json.loads(json.dumps(src.to_dict()))
            for validate in (True, False):
                n_checked += 1
                b = expect_ctor(run, 'from_dict', lambda: CausalGraph.from_dict(d, validate=validate), cyc, validate, dict(matrix=lst, validate=validate))
                if b:
                    bad.append(b)
            fully_directed = all(str(e.get_edge_type()) == '->' for e in src.get_edges())
            if fully_directed:
                nxg = networkx.DiGraph()
                nxg.add_nodes_from(names)
                nxg.add_edges_from(arcs)
                for validate in (True, False):
                    n_checked += 2
                    b = expect_ctor(run, 'from_networkx', lambda: CausalGraph.from_networkx(nxg, validate=validate), cyc, validate, dict(arcs=arcs, validate=validate))
                    if b:
                        bad.append(b)
                    gml = '\n'.join(networkx.generate_gml(nxg))
                    b = expect_ctor(run, 'from_gml_string', lambda: CausalGraph.from_gml_string(gml, validate=validate), cyc, validate, dict(arcs=arcs, validate=validate))
                    if b:
                        bad.append(b)
            n_checked += 1
            b = expect_ctor(run, 'from_skeleton', lambda: CausalGraph.from_skeleton(src.skeleton), False, True, dict(matrix=lst))
            if b:
                bad.append(b)
    # lagged matrices
    for _ in range(150 if tier == 'quick' else 1500):
        k = rng.choice([2, 3])
        vars_ = ['x', 'y', 'z'][:k]
        mats = {0: numpy.array([[int(rng.random() < 0.35) for _ in range(k)] for _ in range(k)])}
        for dlt in (1, 2):
            if rng.random() < 0.6:
                mats[-dlt] = numpy.array([[int(rng.random() < 0.3) for _ in range(k)] for _ in range(k)])
        numpy.fill_diagonal(mats[0], 0)
        arcs0 = matrix_dir_arcs(mats[0], vars_)
        cyc = not acyclic(vars_, arcs0)
        n_checked += 1
        b = expect_ctor(run, 'from_adjacency_matrices', lambda: TimeSeriesCausalGraph.from_adjacency_matrices(mats, list(vars_)), cyc, True,
                        dict(matrices={str(kk): v.tolist() for kk, v in mats.items()}, variables=vars_))
        if b:
            bad.append(b)
    run.coverage['constructor_inputs_checked'] = n_checked
    return bad


def self_loop_forms():
    """a self-loop is the shortest directed cycle: in every argument form (identifiers, Node objects, one of each, an Edge object,
    a pair), on both classes, for a node that exists and for one that does not, the call raises CyclicConnectionError and leaves no
    node behind (F18: the mixed forms used to raise NodeDuplicatedError)"""
    from cai_causal_graph import CausalGraph, TimeSeriesCausalGraph
    from cai_causal_graph.exceptions import CausalGraphErrors
    from cai_causal_graph.graph_components import Edge, Node, TimeSeriesNode
    problems = []
    for cls, ncls, names in ((CausalGraph, Node, ['a', 'b']), (TimeSeriesCausalGraph, TimeSeriesNode, ['x lag(n=1)', 'y'])):
        for present in (False, True):
            for nm in names:
                forms = {'ids': lambda g: g.add_edge(nm, nm), 'nodes': lambda g: g.add_edge(ncls(nm), ncls(nm)),
                         'node,id': lambda g: g.add_edge(ncls(nm), nm), 'id,node': lambda g: g.add_edge(nm, ncls(nm)),
                         'plain node,id': lambda g: g.add_edge(Node(nm), nm), 'pair': lambda g: g.add_edge_by_pair((nm, nm)),
                         'undirected ids': lambda g: g.add_edge(nm, nm, edge_type='--'), 'unvalidated node,id': lambda g: g.add_edge(ncls(nm), nm, validate=False)}
                for label, f in forms.items():
                    g = cls()
                    g.add_node('other' if cls is CausalGraph else 'z')
                    if present:
                        g.add_node(nm)
                    before = (g.get_node_names(), [e.get_edge_pair() for e in g.get_edges()])
                    try:
                        f(g)
                        problems.append(f'{cls.__name__}: self-loop on {nm!r} ({label}) was accepted')
                        continue
                    except CausalGraphErrors.CyclicConnectionError:
                        pass
                    except Exception as e:  # noqa: BLE001
                        problems.append(f'{cls.__name__}: self-loop on {nm!r} given as {label} raises {type(e).__name__} instead of CyclicConnectionError')
                    if (g.get_node_names(), [e.get_edge_pair() for e in g.get_edges()]) != before:
                        problems.append(f'{cls.__name__}: refused self-loop on {nm!r} ({label}) changed the graph')
    return problems[:3]


def check(run, tier, seed):
    from .. import travcorr
    travcorr.traversal_correspondence(run, 'C02', tier, seed)
    rng = random.Random(seed + 2)
    _hist = HP.history_property(run, tier, seed, pid='C02', oracle=oracle, n_quick=200, n_thorough=3000,
                        gen_factory=lambda r, kind: CloseGen(r, kind),
                        describe='Histories biased to cycle-closing calls (closing arcs, change_edge_type turning -- into the closing arc, '
                                 'replace_edge / replace_node / bulk adders), validate on and off; after every step the directed edges of the '
                                 'real graph are checked for acyclicity and is_dag() against "all directed and acyclic".')
    from .. import addgencorr
    addgencorr.translated_adders(run, _hist[0])
    for why in self_loop_forms():
        run.violation(dict(kind_of_case='self_loop_forms', why=why, replay_cmd='./check C02 --replay <this file>'), note=why)
    bad = constructor_stream(run, tier, rng)
    for b in bad[:3]:
        run.violation(dict(b, replay_cmd='./check C02 --replay <this file>'), note=b['why'][:200])
    run.oblige('constructors: every binary matrix up to the bound through every constructor, validate on/off', not bad,
               f'{len(bad)} failing constructor inputs' if bad else '')


def replay(run, path):
    case = json.loads(open(path).read())
    if case.get('kind_of_case') == 'self_loop_forms':
        ps = self_loop_forms()
        print('self-loop forms:', ps or 'all refused with CyclicConnectionError')
        for why in ps:
            run.violation(dict(case, why=why), note=why)
        return 1 if run.violations else 0
    if case.get('kind') == 'traversal':
        from .. import travcorr
        return travcorr.replay(run, 'C02', case)
    if 'ops' in case:
        return HP.replay_file(run, path, oracle, 'C02')
    if 'matrix' in case.get('input', {}):
        a = numpy.array(case['input']['matrix'])
        names = case['input'].get('names') or [chr(ord('a') + i) for i in range(a.shape[0])]
        cyc = not acyclic(names, matrix_dir_arcs(a, names))
        v = case['input'].get('validate', True)
        b = expect_ctor(run, 'from_adjacency_matrix', lambda: CausalGraph.from_adjacency_matrix(a, names, validate=v), cyc, v, case['input'])
        if b:
            run.violation(b, note=b['why'])
    print('replayed', path, 'violations', len(run.violations))
    return 1 if run.violations else 0


def search(run, tier, seed):
    _, mism, bad = HP.history_property(run, tier, seed + 13, pid='C02', oracle=oracle, n_quick=800, n_thorough=6000,
                                       gen_factory=lambda r, kind: CloseGen(r, kind))
    return bool(bad)
