"""C01 — mutations behave as an abstract mixed graph: one typed edge per node pair."""
from __future__ import annotations

from .. import common as C
from .. import graph_hist as H
from .. import histprops as HP

LEVEL = 'proof'
NEEDS = ['SFMutators', 'Extracted', 'SourceFacts', 'Base', 'Names', 'NamesProofs', 'Graph', 'GraphObs', 'GraphTS', 'GraphInv', 'GraphLemmas', 'GraphInvProofs', 'Spec', 'SpecProofs']


def consistent(g, kind, op, code, before, after, ctx):
    """Model-independent part of the property, evaluated on the implementation: every read view
    reports one state with at most one edge per unordered pair."""
    names = g.get_node_names()
    if len(set(names)) != len(names) or names != sorted(names):
        return f'node names not unique/sorted: {names}'
    edges = g.get_edges()
    pairs = [e.get_edge_pair() for e in edges]
    if pairs != sorted(pairs):
        return f'get_edges() not sorted: {pairs}'
    seen = set()
    for s, d in pairs:
        if s == d:
            return f'self loop {s}'
        if frozenset((s, d)) in seen:
            return f'two edges between {s!r} and {d!r}'
        seen.add(frozenset((s, d)))
        if s not in names or d not in names:
            return f'edge ({s!r},{d!r}) has an endpoint that is not a node'
    for n in names:
        out = [e.get_edge_pair() for e in g.get_edges(source=n)]
        inn = [e.get_edge_pair() for e in g.get_edges(destination=n)]
        if out != [p for p in pairs if p[0] == n]:
            return f'get_edges(source={n!r}) = {out} disagrees with get_edges()'
        if inn != sorted(p for p in pairs if p[1] == n):
            return f'get_edges(destination={n!r}) = {inn} disagrees with get_edges()'
        par = sorted(g.get_parents(n))
        chi = sorted(g.get_children(n))
        if par != sorted(e.source.identifier for e in edges if e.destination.identifier == n and str(e.get_edge_type()) == '->'):
            return f'get_parents({n!r}) = {par} disagrees with the directed edges into it'
        if chi != sorted(e.destination.identifier for e in edges if e.source.identifier == n and str(e.get_edge_type()) == '->'):
            return f'get_children({n!r}) = {chi} disagrees with the directed edges out of it'
        nb = sorted(g.get_neighbors(n))
        if nb != sorted({p[1] for p in pairs if p[0] == n} | {p[0] for p in pairs if p[1] == n}):
            return f'get_neighbors({n!r}) = {nb} disagrees with get_edges()'
    if [x.identifier for x in g.get_inputs()] != [n for n in names if not any(p[1] == n for p in pairs)]:
        return 'get_inputs() disagrees with get_edges()'
    if [x.identifier for x in g.get_outputs()] != [n for n in names if not any(p[0] == n for p in pairs)]:
        return 'get_outputs() disagrees with get_edges()'
    for getter, t in zip(H.TYPE_GETTERS, C.ETYPES):
        if [e.get_edge_pair() for e in getattr(g, getter)()] != [e.get_edge_pair() for e in edges if str(e.get_edge_type()) == t]:
            return f'{getter}() disagrees with get_edges()'
    for s in names:
        for d in names:
            if g.edge_exists(s, d) != ((s, d) in pairs):
                return f'edge_exists({s!r},{d!r}) disagrees with get_edges()'
    return None


_mix = [0]


def mixed_gen(rng, kind):
    """mostly the uniform generator; every other history is cycle-seeking (C02's generator) or error-seeking (C03's), so that
    the rejection paths of the reference model (cycle closed through a retyped / replaced edge, ...) are compared too"""
    from .c02 import CloseGen
    from .c03 import ErrGen
    _mix[0] += 1
    if _mix[0] % 4 == 2:
        return CloseGen(rng, kind)
    if _mix[0] % 4 == 3:
        return ErrGen(rng, kind)
    return H.Gen(rng, kind)


def check(run, tier, seed):
    HP.history_property(run, tier, seed, pid='C01', oracle=consistent, divergence_is_violation=True,
                        n_quick=240, n_thorough=4000, gen_factory=mixed_gen,
                        describe='Random histories of all public mutators (all argument forms, all six edge types, both classes, '
                                 'lags of both signs) plus exhaustive short histories over a 3-name alphabet.')


def replay(run, path):
    return HP.replay_file(run, path, consistent, 'C01', divergence_is_violation=True)


def search(run, tier, seed):
    _, mism, bad = HP.history_property(run, 'thorough' if tier == 'thorough' else 'quick', seed + 7, pid='C01', oracle=consistent,
                                       divergence_is_violation=True, n_quick=600, n_thorough=6000)
    return bool(mism or bad)
