"""C01 — mutations behave as an abstract mixed graph: one typed edge per node pair."""
from __future__ import annotations

from .. import common as C
from .. import graph_hist as H
from .. import histprops as HP

LEVEL = 'proof'
NEEDS = ['PyRtMut', 'PyRtAdd', 'MutGenAdd', 'MutGenAddProofs', 'CorrMutGenAdd', 'SFMutators', 'Extracted', 'SourceFacts', 'Base', 'Names', 'NamesProofs', 'Graph', 'GraphObs', 'GraphTS', 'GraphInv', 'GraphLemmas', 'GraphInvProofs', 'Spec', 'SpecProofs']
# the code translated from the source on every run: when the translator REFUSES the current source the run falls back to the
# hand-written model and its correspondence (harness/main.py)
GEN_SOFT = dict(generated=['MutGenAdd'], modules=['MutGenAdd', 'MutGenAddProofs', 'CorrMutGenAdd'])


def consistent(g, kind, op, code, before, after, ctx):
    """Model-independent part of the property, evaluated on the implementation: every read view
    reports one state with at most one edge per unordered pair."""
    names = g.get_node_names()
    if len(set(names)) != len(names) or names != sorted(names):
        return f'node names not unique/sorted: {names}'
    edges = g.get_edges()
    pairs = [e.get_edge_pair() for e in edges]
    if pairs != sorted(pairs):
        return f'get_edges() not sorted: {pairs}'
    seen = set()
    for s, d in pairs:
        if s == d:
            return f'self loop {s}'
        if frozenset((s, d)) in seen:
            return f'two edges between {s!r} and {d!r}'
        seen.add(frozenset((s, d)))
        if s not in names or d not in names:
            return f'edge ({s!r},{d!r}) has an endpoint that is not a node'
    for n in names:
        out = [e.get_edge_pair() for e in g.get_edges(source=n)]
        inn = [e.get_edge_pair() for e in g.get_edges(destination=n)]
        if out != [p for p in pairs if p[0] == n]:
            return f'get_edges(source={n!r}) = {out} disagrees with get_edges()'
        if inn != sorted(p for p in pairs if p[1] == n):
            return f'get_edges(destination={n!r}) = {inn} disagrees with get_edges()'
        par = sorted(g.get_parents(n))
        chi = sorted(g.get_children(n))
        if par != sorted(e.source.identifier for e in edges if e.destination.identifier == n and str(e.get_edge_type()) == '->'):
            return f'get_parents({n!r}) = {par} disagrees with the directed edges into it'
        if chi != sorted(e.destination.identifier for e in edges if e.source.identifier == n and str(e.get_edge_type()) == '->'):
            return f'get_children({n!r}) = {chi} disagrees with the directed edges out of it'
        nb = sorted(g.get_neighbors(n))
        if nb != sorted({p[1] for p in pairs if p[0] == n} | {p[0] for p in pairs if p[1] == n}):
            return f'get_neighbors({n!r}) = {nb} disagrees with get_edges()'
    if [x.identifier for x in g.get_inputs()] != [n for n in names if not any(p[1] == n for p in pairs)]:
        return 'get_inputs() disagrees with get_edges()'
    if [x.identifier for x in g.get_outputs()] != [n for n in names if not any(p[0] == n for p in pairs)]:
        return 'get_outputs() disagrees with get_edges()'
    for getter, t in zip(H.TYPE_GETTERS, C.ETYPES):
        if [e.get_edge_pair() for e in getattr(g, getter)()] != [e.get_edge_pair() for e in edges if str(e.get_edge_type()) == t]:
            return f'{getter}() disagrees with get_edges()'
    for s in names:
        for d in names:
            if g.edge_exists(s, d) != ((s, d) in pairs):
                return f'edge_exists({s!r},{d!r}) disagrees with get_edges()'
    return None


_mix = [0]


def mixed_gen(rng, kind):
    """mostly the uniform generator; every other history is cycle-seeking (C02's generator) or error-seeking (C03's), so that
    the rejection paths of the reference model (cycle closed through a retyped / replaced edge, ...) are compared too"""
    from .c02 import CloseGen
    from .c03 import ErrGen
    _mix[0] += 1
    if _mix[0] % 4 == 2:
        return CloseGen(rng, kind)
    if _mix[0] % 4 == 3:
        return ErrGen(rng, kind)
    return H.Gen(rng, kind)


def check(run, tier, seed):
    _hist = HP.history_property(run, tier, seed, pid='C01', oracle=consistent, divergence_is_violation=True,
                        n_quick=240, n_thorough=4000, gen_factory=mixed_gen,
                        describe='Random histories of all public mutators (all argument forms, all six edge types, both classes, '
                                 'lags of both signs) plus exhaustive short histories over a 3-name alphabet.')
    bulk_equals_singles(run, tier, seed)
    from .. import addgencorr
    addgencorr.translated_adders(run, _hist[0])


def _bulk_case(rng, kind):
    """a pre-state and the arguments of one bulk call, as plain data (objects are built afresh for every graph)"""
    names = ['a', 'b', 'c', 'd', 'e'] if kind == 'Plain' else ['x', 'x lag(n=1)', 'y', 'y lag(n=1)', 'z lag(n=2)', 'z']
    vts = list(H.VT)
    pre_nodes = [(n, rng.choice(vts), rng.choice([None, {'p': n}])) for n in names if rng.random() < 0.4]
    pre_edges = [(a, b) for a in names for b in names if a < b and rng.random() < 0.15]

    def arg(n):
        form = rng.choice(['str', 'str', 'node', 'node', 'tsnode' if kind == 'TS' else 'node'])
        return (form, n, rng.choice(vts), rng.choice([None, {'unit': 'kg'}, {'w': [1, {'k': n}]}]))
    which = rng.choice(['add_fully_connected_nodes', 'add_fully_connected_nodes', 'add_nodes_from'])
    pool = names[:]
    rng.shuffle(pool)
    k = rng.randint(1, 2)
    return dict(kind=kind, pre_nodes=pre_nodes, pre_edges=pre_edges, which=which, ins=[arg(n) for n in pool[:k]],
                outs=[arg(n) for n in pool[k:k + rng.randint(1, 3)]])


def _bulk_run(case, bulk):
    import copy
    from cai_causal_graph import CausalGraph, TimeSeriesCausalGraph
    from cai_causal_graph.graph_components import Node, TimeSeriesNode
    from .c03 import plain_snapshot
    g = (CausalGraph if case['kind'] == 'Plain' else TimeSeriesCausalGraph)()
    for n, vt, m in case['pre_nodes']:
        g.add_node(n, variable_type=H.VT[vt], meta=copy.deepcopy(m))
    for a, b in case['pre_edges']:
        try:
            g.add_edge(a, b)
        except Exception:  # noqa: BLE001
            pass

    def obj(a):
        form, n, vt, m = a
        if form == 'str':
            return n
        return (TimeSeriesNode if form == 'tsnode' else Node)(n, variable_type=H.VT[vt], meta=copy.deepcopy(m))
    ins, outs = [obj(a) for a in case['ins']], [obj(a) for a in case['outs']]
    err = None
    try:
        if case['which'] == 'add_fully_connected_nodes':
            if bulk:
                g.add_fully_connected_nodes(ins, outs)
            else:
                for i in ins:
                    for o in outs:
                        g.add_edge(i, o)
        else:
            if bulk:
                g.add_nodes_from(ins + outs)
            else:
                for x in ins + outs:
                    g.add_node(x)
    except Exception as e:  # noqa: BLE001
        err = type(e).__name__
    return err, plain_snapshot(g, case['kind'])


def bulk_equals_singles(run, tier, seed):
    """Bulk adders given Node / TimeSeriesNode OBJECTS (variable type, nested metadata) among plain identifiers: the state they leave and
    the error class they raise must be those of the equivalent sequence of single add_edge / add_node calls (which the history check
    compares with the model call by call)."""
    import random
    rng = random.Random(seed + 91)
    n = 300 if tier == 'quick' else 4000
    nbad = 0
    for it in range(n):
        case = _bulk_case(rng, 'Plain' if it % 3 else 'TS')
        b, s = _bulk_run(case, True), _bulk_run(case, False)
        if b != s:
            nbad += 1
            if nbad <= 2:
                why = (f'{case["which"]} with Node objects leaves a different graph (or raises a different error: {b[0]} / {s[0]}) than the '
                       f'equivalent sequence of single calls')
                run.violation(dict(kind_of_case='bulk', case=case, why=why, replay_cmd='./check C01 --replay <this file>'), note=why)
    run.coverage['bulk_calls_with_node_objects'] = n
    run.oblige(f'bulk adders with Node objects == the equivalent single calls on {n} cases (state and error class)', nbad == 0,
               '' if not nbad else f'{nbad} cases differ')


def replay(run, path):
    import json as _json
    _c = _json.loads(open(path).read())
    if _c.get('kind_of_case') == 'bulk':
        case = _c['case']
        for k in ('pre_nodes', 'pre_edges', 'ins', 'outs'):
            case[k] = [tuple(x) for x in case[k]]
        b, s = _bulk_run(case, True), _bulk_run(case, False)
        print('bulk:', b[0], ' singles:', s[0], ' equal states:', b[1] == s[1])
        if b != s:
            run.violation(dict(_c), note='bulk adder differs from single calls')
        return 1 if run.violations else 0
    return HP.replay_file(run, path, consistent, 'C01', divergence_is_violation=True)


def search(run, tier, seed):
    _, mism, bad = HP.history_property(run, 'thorough' if tier == 'thorough' else 'quick', seed + 7, pid='C01', oracle=consistent,
                                       divergence_is_violation=True, n_quick=600, n_thorough=6000)
    return bool(mism or bad)
