"""C06 — exports, copies and derived graphs never alias the graph or each other."""
from __future__ import annotations

import copy
import json
import random

import networkx
import numpy

from cai_causal_graph import CausalGraph, TimeSeriesCausalGraph

from .. import common as C
from .. import graph_hist as H

LEVEL = 'proof'
NEEDS = ['Base', 'Alias', 'AliasProofs']
KNOWN_F9 = ('F9: to_dict() shares NESTED metadata values with the graph (documented shallow copy; call site to_dict, '
            'level "nested values inside node / edge / graph metadata")')


def nested(v, acc):
    """ids of every mutable container strictly inside a metadata value"""
    if isinstance(v, dict):
        for x in v.values():
            if isinstance(x, (dict, list)):
                acc.add(id(x))
            nested(x, acc)
    elif isinstance(v, list):
        for x in v:
            if isinstance(x, (dict, list)):
                acc.add(id(x))
            nested(x, acc)
    return acc


def graph_holders(g):
    """[(label, meta dict)] of a CausalGraph: graph, nodes, edges"""
    hs = [('graph', g.meta)]
    hs += [(f'node {n.identifier}', n.meta) for n in g._nodes_by_identifier.values()]
    hs += [(f'edge {e._source.identifier}->{e._destination.identifier}', e.meta) for d in g._edges_by_source.values() for e in d.values()]
    return hs


def dict_holders(d):
    hs = []
    if 'meta' in d:
        hs.append(('graph', d['meta']))
    for k, nd in d['nodes'].items():
        if 'meta' in nd:
            hs.append((f'node {k}', nd['meta']))
    for s, dd in d['edges'].items():
        for t, ed in dd.items():
            if 'meta' in ed:
                hs.append((f'edge {s}->{t}', ed['meta']))
            for side in ('source', 'destination'):
                if 'meta' in ed[side]:
                    hs.append((f'edge {s}->{t} {side}', ed[side]['meta']))
    return hs


def ids_of(holders, skip_graph=False):
    outer, inner = set(), set()
    for lab, m in holders:
        if skip_graph and lab == 'graph':
            continue
        outer.add(id(m))
        nested(m, inner)
    return outer, inner


def level(res_holders, src_holders, which):
    """alias / shallow / deep for the node+edge metadata ('ne') or the graph metadata ('g')"""
    pick = (lambda h: [x for x in h if x[0] != 'graph']) if which == 'ne' else (lambda h: [x for x in h if x[0] == 'graph'])
    ro, ri = ids_of(pick(res_holders))
    so, si = ids_of(src_holders)     # compare against EVERYTHING the source owns
    if not ro:
        return 'none'
    if ro & so:
        return 'alias'
    if ri & si:
        return 'shallow'
    return 'deep'


NESTED_META = lambda tag: {'a': [1, {'b': 2}], 'tag': tag}  # noqa: E731


def make_graphs(rng):
    """a time-series DAG (latest lag 0) and a plain DAG; nested mutable metadata on the graph and on most nodes and edges, the
    others carry no metadata, an explicitly passed empty dictionary or a null-valued tag (an empty container can be shared
    between two holders just as well as a full one)"""
    count = [0]

    def NESTED_META(tag):
        count[0] += 1
        r = rng.random()
        if count[0] <= 3 or tag in ('g', 'z0') or r < 0.55:
            return {'a': [1, {'b': 2}], 'tag': tag}
        if r < 0.75:
            return None
        if r < 0.9:
            return {}
        return {'k': None}
    ts = TimeSeriesCausalGraph(meta=NESTED_META('g'))
    vars_ = rng.sample(['x', 'y', 'z'], rng.choice([2, 3]))
    names = [H.ts_name(v, l) for v in vars_ for l in (-2, -1, 0)]
    for n in rng.sample(names, rng.randint(3, len(names))):
        ts.add_node(n, meta=NESTED_META(n))
    order = {v: i for i, v in enumerate(vars_)}
    present = ts.get_node_names()
    for _ in range(rng.randint(2, 6)):
        a, b = rng.sample(present, 2)
        na, nb = ts.get_node(a), ts.get_node(b)
        if (na.time_lag, order[na.variable_name]) > (nb.time_lag, order[nb.variable_name]):
            a, b = b, a
        try:
            ts.add_edge(a, b, meta=NESTED_META(f'{a}>{b}'))
        except Exception:  # noqa: BLE001
            pass
    if not any(n.time_lag == 0 for n in ts.get_nodes()):
        ts.add_node(vars_[0], meta=NESTED_META('z0'))
    pl = CausalGraph(meta=NESTED_META('g'))
    pn = ['a', 'b', 'c', 'd', 'e'][:rng.randint(3, 5)]
    for n in pn:
        pl.add_node(n, meta=NESTED_META(n))
    for i in range(len(pn)):
        for j in range(i + 1, len(pn)):
            if rng.random() < 0.5:
                pl.add_edge(pn[i], pn[j], meta=NESTED_META(f'{pn[i]}>{pn[j]}'))
    return ts, pl


# operation table: name -> (which graph, thunk, kind of result)
def ops_table(ts, pl, rng):
    tn = rng.choice(ts.get_node_names())
    pn = rng.choice(pl.get_node_names())
    lag0 = ts.get_node(tn).time_lag
    var0 = ts.get_node(tn).variable_name
    return {
        'to_networkx': (pl, lambda g: g.to_networkx(), 'nx'),
        'adjacency_matrix': (pl, lambda g: g.adjacency_matrix, 'array'),
        'to_numpy': (pl, lambda g: g.to_numpy(), 'array_names'),
        'to_dict': (ts, lambda g: g.to_dict(), 'dict'),
        'variables': (ts, lambda g: g.variables, 'list'),
        'get_nodes_at_lag': (ts, lambda g: g.get_nodes_at_lag(lag0), 'nodelist'),
        'get_nodes_for_variable_name': (ts, lambda g: g.get_nodes_for_variable_name(var0), 'nodelist'),
        'get_node_names': (ts, lambda g: g.get_node_names(), 'list'),
        'copy': (ts, lambda g: g.copy(), 'graph'),
        'get_minimal_graph': (ts, lambda g: g.get_minimal_graph(), 'graph'),
        'extend_graph': (ts, lambda g: g.extend_graph(2, 1), 'graph'),
        'get_stationary_graph': (ts, lambda g: g.get_stationary_graph(), 'graph'),
        'get_summary_graph': (ts, lambda g: g.get_summary_graph(), 'graph'),
        'get_ancestral_graph': (pl, lambda g: g.get_ancestral_graph(pn), 'graph'),
        'get_descendant_graph': (pl, lambda g: g.get_descendant_graph(pn), 'graph'),
        'get_parents_graph': (pl, lambda g: g.get_parents_graph(pn), 'graph'),
        'get_children_graph': (pl, lambda g: g.get_children_graph(pn), 'graph'),
        'from_causal_graph': (pl, lambda g: TimeSeriesCausalGraph.from_causal_graph(g), 'graph'),
        'CausalGraph.from_dict(ts.to_dict())': (ts, lambda g: CausalGraph.from_dict(g.to_dict()), 'graph'),
    }


def cells_level(name, g, r, kind):
    """is the returned container one of the graph's own containers?"""
    own = [g._networkx, g._adjacency, getattr(g, '_variables', None)]
    own += list(getattr(g, '_lag_to_nodes', {}).values()) + list(getattr(g, '_variable_name_to_nodes', {}).values())
    own += [g._nodes_by_identifier, g._edges_by_source, g._edges_by_destination, g.meta]
    objs = [r] + (list(r) if isinstance(r, tuple) else [])
    for o in objs:
        if any(o is x for x in own if x is not None):
            return 'alias'
        if isinstance(o, numpy.ndarray) and g._adjacency is not None and numpy.shares_memory(o, g._adjacency):
            return 'alias'
        if isinstance(o, networkx.Graph) and g._networkx is not None and (o._adj is g._networkx._adj or o._node is g._networkx._node):
            return 'alias'
    return 'deep'


def measure_row(name, g, thunk, kind):
    src = graph_holders(g)
    r = thunk(g)
    if kind == 'graph':
        if r is g:
            return ('alias', 'alias'), r
        res = graph_holders(r)
        gm = level(res, src, 'g')
        return (level(res, src, 'ne'), gm), r
    if kind == 'dict':
        res = dict_holders(r)
        return (level(res, src, 'ne'), level(res, src, 'g')), r
    if kind == 'nodelist':
        own_nodes = {id(n) for n in g._nodes_by_identifier.values()}
        ne = 'handle' if all(id(n) in own_nodes for n in r) else 'deep'
        return (ne, cells_level(name, g, r, kind)), r
    return ('none', cells_level(name, g, r, kind)), r


# ---- behavioural part of the property ---------------------------------------------------------
def snapshot(g):
    """deep, identity-free content of a graph (nested metadata included)"""
    if isinstance(g, TimeSeriesCausalGraph):
        idx = (sorted((k, [n.identifier for n in v]) for k, v in g._lag_to_nodes.items() if v),
               sorted((k, [n.identifier for n in v]) for k, v in g._variable_name_to_nodes.items() if v))
    else:
        idx = None
    return json.dumps([g.to_dict(), idx, sorted((d, sorted(x)) for d, x in g._edges_by_destination.items() if x)], sort_keys=True, default=str)


def canon_result(r, kind):
    if kind == 'graph':
        return snapshot(r)
    if kind == 'nx':
        return json.dumps([r.is_directed(), sorted(r.nodes()), sorted(map(list, r.edges()))])
    if kind == 'array':
        return json.dumps(r.tolist())
    if kind == 'array_names':
        return json.dumps([r[0].tolist(), list(r[1])])
    if kind == 'dict':
        return json.dumps(r, sort_keys=True, default=str)
    if kind == 'nodelist':
        return json.dumps([n.identifier for n in r])
    return json.dumps(list(r))


def mutate_nested(v):
    if isinstance(v, dict):
        for x in list(v.values()):
            mutate_nested(x)
            if isinstance(x, list):
                x.append('MUT')
            elif isinstance(x, dict):
                x['MUT'] = 1
    elif isinstance(v, list):
        for x in v:
            mutate_nested(x)
            if isinstance(x, list):
                x.append('MUT')
            elif isinstance(x, dict):
                x['MUT'] = 1


def mutate_result(r, kind, level_):
    """change the export in every way its type allows; level_ 'outer' touches containers only, 'all' also nested values"""
    if kind == 'graph':
        for lab, m in graph_holders(r):
            if level_ == 'all':
                mutate_nested(m)
            m['MUT'] = 1
        try:
            r.add_node('MUT' if not isinstance(r, TimeSeriesCausalGraph) else 'MUT lag(n=9)')
            for s, d in list(r.get_edge_pairs())[:2]:
                r.delete_edge(s, d)
        except Exception:  # noqa: BLE001
            pass
    elif kind == 'nx':
        r.add_node('MUT')
        r.remove_edges_from(list(r.edges()))
    elif kind == 'array':
        r.fill(7)
    elif kind == 'array_names':
        r[0].fill(7)
        r[1].append('MUT')
    elif kind == 'dict':
        for lab, m in dict_holders(r):
            if level_ == 'all':
                mutate_nested(m)
            m['MUT'] = 1
        r['nodes']['MUT'] = {}
        r['edges'].clear()
    elif kind == 'nodelist':
        r.clear()
    else:
        r.append('MUT')


def behavioural(run, name, g, thunk, kind, rng):
    """export -> mutate the export -> the graph and a later export are unchanged; later graph changes do not reach an earlier export"""
    problems = []
    # distinct nodes / edges of a derived graph never share a metadata container (checked first, on the untouched source:
    # empty containers can be shared just as well as full ones)
    if kind == 'graph':
        r0 = thunk(g)
        if r0 is not g:
            seen_o = {}
            for lab, m in graph_holders(r0):
                if id(m) in seen_o:
                    problems.append(('outer', f'{name}: {lab} and {seen_o[id(m)]} share one metadata dict'))
                seen_o[id(m)] = lab
            own = {id(m): lab for lab, m in graph_holders(g)}
            for lab, m in graph_holders(r0):
                if id(m) in own:
                    problems.append(('outer', f'{name}: {lab} of the result IS the metadata dict of {own[id(m)]} of the source graph'))
    for level_ in ('outer', 'all'):
        g0 = snapshot(g)
        expected = canon_result(thunk(g.copy() if kind != 'graph' or name != 'from_causal_graph' else g.copy()), kind) if False else None
        r1 = thunk(g)
        before = canon_result(thunk(g), kind)
        mutate_result(r1, kind, level_)
        if snapshot(g) != g0:
            problems.append((level_, f'mutating the result of {name} changed the graph'))
            # restore a clean graph for the remaining checks
            return problems
        after = canon_result(thunk(g), kind)
        if after != before:
            problems.append((level_, f'mutating the result of {name} changed a later {name}'))
    # later graph mutation must not reach an earlier export
    r2 = thunk(g)
    c2 = canon_result(r2, kind)
    for lab, m in graph_holders(g):
        mutate_nested(m)
        m['LATER'] = 1
    if kind != 'nodelist' and canon_result(r2, kind) != c2:
        problems.append(('all', f'a later change to the graph reached an earlier result of {name}'))
    # distinct nodes / edges of a derived graph never share a metadata container
    if kind == 'graph' and r2 is not g:
        hs = graph_holders(thunk(g))
        seen_o, seen_i = {}, {}
        for lab, m in hs:
            if id(m) in seen_o:
                problems.append(('outer', f'{name}: {lab} and {seen_o[id(m)]} share one metadata dict'))
            seen_o[id(m)] = lab
            for i in nested(m, set()):
                if i in seen_i and seen_i[i] != lab:
                    problems.append(('all', f'{name}: {lab} and {seen_i[i]} share a nested metadata value'))
                seen_i[i] = lab
    return problems


LIST_EXPORTS = {
    'get_edges()': lambda g: g.get_edges(), 'edges': lambda g: g.edges, 'get_nodes()': lambda g: g.get_nodes(), 'nodes': lambda g: g.nodes,
    'get_edge_pairs()': lambda g: g.get_edge_pairs(), 'get_inputs()': lambda g: g.get_inputs(), 'get_outputs()': lambda g: g.get_outputs(),
    'get_node_names()': lambda g: g.get_node_names(), 'get_directed_edges()': lambda g: g.get_directed_edges(),
    'get_nondirected_edges()': lambda g: g.get_nondirected_edges(), 'get_parents(n)': lambda g: g.get_parents(g.get_node_names()[-1]),
    'get_children(n)': lambda g: g.get_children(g.get_node_names()[0]), 'get_neighbors(n)': lambda g: g.get_neighbors(g.get_node_names()[0]),
    'get_neighbor_nodes(n)': lambda g: g.get_neighbor_nodes(g.get_node_names()[0]), 'get_edges(source=n)': lambda g: g.get_edges(source=g.get_node_names()[0]),
    'get_all_causal_paths': lambda g: g.get_all_causal_paths(g.get_node_names()[0], g.get_node_names()[-1]),
    'get_topological_order()': lambda g: g.get_topological_order(), 'skeleton.edges': lambda g: g.skeleton.edges, 'skeleton.nodes': lambda g: g.skeleton.nodes,
    'skeleton.get_edge_pairs()': lambda g: g.skeleton.get_edge_pairs(),
}


def list_exports_are_snapshots(g):
    """every list / set the graph hands out is a snapshot at the CONTAINER level: emptying, reversing or extending it changes
    neither the graph nor the next export (the Node / Edge objects inside are handles by design)"""
    def canon(r):
        return sorted(repr(getattr(x, 'identifier', x)) for x in r) if isinstance(r, (set, frozenset)) else [repr(getattr(x, 'identifier', x)) for x in r]
    problems = []
    for name, f in LIST_EXPORTS.items():
        try:
            g0 = snapshot(g)
            first = f(g)
            before = canon(f(g))
            if isinstance(first, list):
                first.reverse()
                first.append('MUT')
                del first[:1]
            elif isinstance(first, set):
                first.clear()
                first.add('MUT')
            else:
                continue
        except Exception:  # noqa: BLE001  (queries that do not apply to this graph)
            continue
        try:
            changed = snapshot(g) != g0
            later = canon(f(g))
        except Exception as e:  # noqa: BLE001
            problems.append(f'after mutating the list returned by {name} the graph can no longer be exported ({type(e).__name__}: {e}): the list is an internal container')
            return problems
        if changed:
            problems.append(f'mutating the list returned by {name} changed the graph')
        elif later != before:
            problems.append(f'mutating the list returned by {name} changed a later {name}')
        elif any(canon(h(g)) != b for h, b in EXTRA_BASELINE.get(id(g), [])):
            problems.append(f'mutating the list returned by {name} changed another export')
    return problems


EXTRA_BASELINE = {}


def _deep_holders(g):
    """every nested mutable value held in graph / node / edge metadata (the lists and inner dictionaries)"""
    hs = []

    def walk(v):
        if isinstance(v, dict):
            for x in v.values():
                walk(x)
            hs.append(v)
        elif isinstance(v, list):
            for x in v:
                walk(x)
            hs.append(v)
    walk(g.meta)
    for n in g.get_nodes():
        walk(n.meta)
    for e in g.get_edges():
        walk(e.meta)
    return hs


def copies_of_mixed_graphs_do_not_alias(rng):
    """copy(), copy.copy, copy.deepcopy, from_dict(to_dict()) and the skeleton round trip of a graph with edges of ALL types (plain and
    time series), nested metadata on the graph, on every node and on every edge: no nested value of the result is the same object as
    one of the source, and scribbling over the result leaves the source unchanged."""
    import copy as _copy
    from cai_causal_graph import Skeleton
    from cai_causal_graph.type_definitions import EdgeType
    problems = []
    for kind in ('Plain', 'TS'):
        g = (CausalGraph if kind == 'Plain' else TimeSeriesCausalGraph)(meta={'a': [1, {'b': 2}], 'tag': 'g'})
        names = ['a', 'b', 'c', 'd', 'e'] if kind == 'Plain' else ['x', 'y', 'z', 'x lag(n=1)', 'y lag(n=1)']
        for n in names:
            g.add_node(n, meta={'a': [1, {'b': n}], 'tag': n} if rng.random() < 0.8 else {})
        types = list(EdgeType)
        rng.shuffle(types)
        k = 0
        for i in range(len(names)):
            for j in range(i + 1, len(names)):
                if rng.random() < 0.6:
                    a, b = (names[j], names[i]) if kind == 'TS' and ' lag' in names[j] else (names[i], names[j])
                    try:
                        g.add_edge(a, b, edge_type=types[k % len(types)], meta={'a': [k, {'b': k}], 'tag': f'{a}|{b}'}, validate=False)
                        k += 1
                    except Exception:  # noqa: BLE001
                        pass
        ops = {'copy()': lambda x: x.copy(), 'copy(include_meta=True)': lambda x: x.copy(include_meta=True), 'copy.copy': _copy.copy,
               'copy.deepcopy': _copy.deepcopy, 'from_dict(to_dict())': lambda x: type(x).from_dict(x.to_dict()),
               'from_dict(deepcopy(to_dict()))': lambda x: type(x).from_dict(_copy.deepcopy(x.to_dict()))}
        for name, f in ops.items():
            before = snapshot(g)
            try:
                h = f(g)
            except Exception as e:  # noqa: BLE001
                problems.append(f'{name} raised {type(e).__name__} on a {kind} graph with every edge type')
                continue
            mine = {id(v) for v in _deep_holders(g)}
            shared = [v for v in _deep_holders(h) if id(v) in mine]
            if shared:
                problems.append(f'{name} of a {kind} graph shares {len(shared)} nested metadata value(s) with its source, e.g. {shared[0]!r}')
                continue
            for v in _deep_holders(h):
                if isinstance(v, list):
                    v.append('MUT')
                else:
                    v['MUT'] = 1
            if snapshot(g) != before:
                problems.append(f'scribbling over the result of {name} changed the source ({kind})')
    return problems


# arrays, dictionaries of arrays and networkx graphs the graph hands out
ARRAY_EXPORTS = {
    'adjacency_matrix': lambda g: g.adjacency_matrix, 'to_numpy()': lambda g: g.to_numpy(), 'to_networkx()': lambda g: g.to_networkx(),
    'skeleton.adjacency_matrix': lambda g: g.skeleton.adjacency_matrix, 'skeleton.to_numpy()': lambda g: g.skeleton.to_numpy(),
    'skeleton.to_networkx()': lambda g: g.skeleton.to_networkx(),
    'adjacency_matrices': lambda g: g.adjacency_matrices, 'to_numpy_by_lag()': lambda g: g.to_numpy_by_lag(),
}


def _canon_any(r):
    if isinstance(r, numpy.ndarray):
        return ['arr', r.tolist()]
    if isinstance(r, dict):
        return ['dict', [[repr(k), _canon_any(v)] for k, v in sorted(r.items(), key=lambda kv: repr(kv[0]))]]
    if isinstance(r, (list, tuple)):
        return ['seq', [_canon_any(x) for x in r]]
    if isinstance(r, networkx.Graph):
        return ['nx', r.is_directed(), sorted((repr(n), json.dumps(d, sort_keys=True, default=str)) for n, d in r.nodes(data=True)),
                sorted((repr(a), repr(b), json.dumps(d, sort_keys=True, default=str)) for a, b, d in r.edges(data=True))]
    return repr(r)


def _scribble(r):
    """edit everything reachable in an exported value in place"""
    if isinstance(r, numpy.ndarray):
        if r.flags.writeable:
            r[...] = 7
    elif isinstance(r, dict):
        for v in list(r.values()):
            _scribble(v)
        r['MUT'] = 1
    elif isinstance(r, list):
        for v in r:
            _scribble(v)
        r.append('MUT')
    elif isinstance(r, tuple):
        for v in r:
            _scribble(v)
    elif isinstance(r, networkx.Graph):
        for _, d in r.nodes(data=True):
            d['MUT'] = 1
        for _, _, d in r.edges(data=True):
            d['MUT'] = 1
        r.add_edge('MUT', 'MUT2')


def array_exports_are_snapshots(g):
    """matrices, dictionaries of matrices, (matrix, names) pairs and networkx graphs are snapshots all the way down: writing into
    the returned arrays / attribute dictionaries changes neither the graph nor any later export"""
    problems = []
    avail = {}
    for name, f in ARRAY_EXPORTS.items():
        try:
            avail[name] = _canon_any(f(g))
        except Exception:  # noqa: BLE001  (does not apply to this graph / class)
            continue
    for name in avail:
        f = ARRAY_EXPORTS[name]
        g0 = snapshot(g)
        try:
            _scribble(f(g))
            changed = snapshot(g) != g0
            later = {m: _canon_any(ARRAY_EXPORTS[m](g)) for m in avail}
        except Exception as e:  # noqa: BLE001
            problems.append(f'after writing into the value returned by {name} an export raised {type(e).__name__}: {e}')
            return problems
        if changed:
            problems.append(f'writing into the value returned by {name} changed the graph')
            return problems
        for m in avail:
            if later[m] != avail[m]:
                problems.append(f'writing into the value returned by {name} changed a later {m}')
                return problems
    return problems


def transplants_do_not_alias(pl, rng):
    """Nodes and edges handed out by one graph are given to ANOTHER graph (add_node(node=...), add_edge(Node, Node),
    add_edge(edge=...), add_edges_from with Node objects), to a graph of the same class and to a time-series graph; afterwards
    changing a nested metadata value on either side must not show on the other side (two graphs never share a container)."""
    from cai_causal_graph.graph_components import Node
    problems = []
    names = pl.get_node_names()
    edges = pl.get_edges()
    for cls in (CausalGraph, TimeSeriesCausalGraph):
        for form in ('node', 'ends', 'edge'):
            tgt = cls()
            try:
                if form == 'node':
                    for nm in names:
                        tgt.add_node(node=pl.get_node(nm))
                elif form == 'ends':
                    if not edges:
                        continue
                    for e in edges:
                        tgt.add_edge(pl.get_node(e.source.identifier), pl.get_node(e.destination.identifier), edge_type=e.get_edge_type())
                else:
                    if not edges:
                        continue
                    for e in edges:
                        tgt.add_edge(edge=e)
            except Exception:  # noqa: BLE001  (e.g. a name the time-series class cannot parse)
                continue
            before_src = snapshot(pl)
            for lab, m in graph_holders(tgt):
                mutate_nested(m)
                m['MUT'] = 1
            if snapshot(pl) != before_src:
                problems.append(f'{cls.__name__}: nodes / edges of another graph added through {form}: changing the new graph\'s metadata changed the source graph')
                return problems
            before_tgt = snapshot(tgt)
            pl2 = pl.copy()
            for lab, m in graph_holders(pl):
                mutate_nested(m)
                m['LATER'] = 1
            changed = snapshot(tgt) != before_tgt
            # restore the source for the next round
            pl._nodes_by_identifier, pl._edges_by_source, pl._edges_by_destination, pl.meta = pl2._nodes_by_identifier, pl2._edges_by_source, pl2._edges_by_destination, pl2.meta
            pl._reset_cached_attributes()
            if changed:
                problems.append(f'{cls.__name__}: nodes / edges of another graph added through {form}: a later change to the source graph reached the new graph')
                return problems
    return problems


def check(run, tier, seed):
    rng = random.Random(seed)
    n = 12 if tier == 'quick' else 120
    measured = {}
    nbeh = 0
    viol = 0
    for it in range(n):
        ts, pl = make_graphs(rng)
        table = ops_table(ts, pl, rng)
        for name, (g, thunk, kind) in table.items():
            for call in (1, 2):       # first call (fills the cache) and a later call
                try:
                    lv, _ = measure_row(name, g, thunk, kind)
                except Exception as e:  # noqa: BLE001
                    raise RuntimeError(f'{name} raised {type(e).__name__}: {e}') from e
                measured.setdefault(name, set()).add(lv)
        ts3, pl3 = make_graphs(rng)
        for why in transplants_do_not_alias(pl3, rng):
            if viol < 3:
                viol += 1
                run.violation(dict(operation='transplant', why=why, seed=seed, iteration=it), note=why)
        for why in copies_of_mixed_graphs_do_not_alias(rng):
            if viol < 3:
                viol += 1
                run.violation(dict(operation='mixed copy', why=why, seed=seed, iteration=it), note=why)
        for gx in (ts, pl):
            for why in list_exports_are_snapshots(gx):
                if viol < 3:
                    viol += 1
                    run.violation(dict(operation='list export', why=why, seed=seed, iteration=it), note=why)
            for why in array_exports_are_snapshots(gx):
                if viol < 3:
                    viol += 1
                    run.violation(dict(operation='array export', why=why, seed=seed, iteration=it), note=why)
        # behavioural checks on fresh graphs (mutations are destructive)
        for name in table:
            ts2, pl2 = make_graphs(rng)
            t2 = ops_table(ts2, pl2, rng)
            g, thunk, kind = t2[name]
            nbeh += 1
            for level_, why in behavioural(run, name, g, thunk, kind, rng):
                if name == 'to_dict' and level_ == 'all':
                    run.known_finding(KNOWN_F9)
                elif viol < 3:
                    viol += 1
                    run.violation(dict(operation=name, level=level_, why=why, seed=seed, iteration=it,
                                       replay_cmd='./check C06 --replay <this file>'), note=why)
            run.count((name, it), nontrivial=True)
    # measured copy discipline vs the table the Coq model is defined from
    rows = []
    unstable = []
    for name, lvs in measured.items():
        if len(lvs) != 1:
            unstable.append((name, sorted(lvs)))
        worst = sorted(lvs, key=lambda lv: (['deep', 'none', 'handle', 'shallow', 'alias'].index(lv[0]), ['deep', 'shallow', 'alias'].index(lv[1])))[-1]
        rows.append((name, worst[0], worst[1]))
    wd = C.workdir()
    f = wd / 'alias_table.v'
    body = '; '.join(f'("{n}", "{a}", "{b}")' for n, a, b in rows)
    f.write_text(C.COQ_HEADER + 'From CG Require Import Base Alias.\nFrom Coq Require Import String.\nOpen Scope string_scope.\n'
                 f'Definition measured : list (string * string * string) := [{body}].\n'
                 'Definition row_ok (r : string * string * string) : bool := let \'(n, a, b) := r in '
                 'match find_row n copy_discipline with Some (a\', b\') => String.eqb a a\' && String.eqb b b\' | None => false end.\n'
                 'Eval vm_compute in (map (fun r => if row_ok r then 1%N else 0%N) measured, List.length copy_discipline).\n')
    r = C.coqc(f)
    if r.returncode != 0:
        raise RuntimeError(r.stderr[-1500:])
    nums = C.parse_N_list(C.parse_eval_blocks(r.stdout)[0])
    oks, nrows = nums[:-1], nums[-1]
    badrows = [rows[i] for i, o in enumerate(oks) if o != 1]
    run.coverage.update(operations=len(rows), graphs_measured=2 * n, behavioural_cases=nbeh,
                        measured_copy_discipline={n_: [a, b] for n_, a, b in rows}, model_table_rows=nrows)
    run.coverage['rule'] = ('For every export / copy / derived-graph operation (first and later calls) on random time-series and plain DAGs whose graph, node and '
                            'edge metadata hold nested mutable values: (1) the identity partition of metadata containers and nested values between source and '
                            'result is measured by id() and compared with the copy-discipline table the Coq model is defined from; (2) the result is mutated in '
                            'every way its type allows (containers only, then nested values too) and the graph, a later result, an earlier result after later '
                            'graph changes, and sharing between distinct nodes / edges of a derived graph are checked.')
    run.samples.append(dict(operation=rows[3][0], node_edge_level=rows[3][1], graph_level=rows[3][2]))
    run.coverage['array_and_networkx_exports_scribbled'] = sorted(ARRAY_EXPORTS)
    run.oblige(f'correspondence: measured copy discipline of {len(rows)} operations == Alias.copy_discipline ({nrows} rows)',
               not badrows and not unstable and len(rows) == nrows, f'differing rows: {badrows} unstable: {unstable}')
    for b in badrows[:2]:
        if b[0] == 'to_dict':
            continue
        if b[1] in ('alias', 'shallow') or b[2] in ('alias', 'shallow'):
            run.violation(dict(operation=b[0], measured=b[1:], why=f'{b[0]} hands out containers shared with the graph (measured {b[1]}/{b[2]})'), note=f'{b[0]} aliases')


def replay(run, path):
    c = json.loads(open(path).read())
    rng = random.Random(c.get('seed', 0))
    ok = True
    if c.get('operation') == 'transplant':
        for it in range(40):
            ts, pl = make_graphs(rng)
            for why in transplants_do_not_alias(pl, rng):
                run.violation(dict(c, why=why), note=why)
                print('replayed', path, 'violations', len(run.violations))
                return 1
        print('replayed', path, 'violations', 0)
        return 0
    if c.get('operation') == 'mixed copy':
        for it in range(40):
            for why in copies_of_mixed_graphs_do_not_alias(rng):
                run.violation(dict(c, why=why), note=why)
                print('replayed', path, 'violations', len(run.violations))
                return 1
        print('replayed', path, 'violations', 0)
        return 0
    if c.get('operation') == 'array export':
        for it in range(40):
            ts, pl = make_graphs(rng)
            for gx in (ts, pl):
                for why in array_exports_are_snapshots(gx):
                    run.violation(dict(c, why=why), note=why)
                    print('replayed', path, 'violations', len(run.violations))
                    return 1
        print('replayed', path, 'violations', 0)
        return 0
    if c.get('operation') == 'list export':
        for it in range(40):
            ts, pl = make_graphs(rng)
            for gx in (ts, pl):
                for why in list_exports_are_snapshots(gx):
                    run.violation(dict(c, why=why), note=why)
                    print('replayed', path, 'violations', len(run.violations))
                    return 1
        print('replayed', path, 'violations', 0)
        return 0
    for it in range(40):
        ts, pl = make_graphs(rng)
        g, thunk, kind = ops_table(ts, pl, rng)[c['operation']]
        for level_, why in behavioural(run, c['operation'], g, thunk, kind, rng):
            if not (c['operation'] == 'to_dict' and level_ == 'all'):
                run.violation(dict(c, why=why), note=why)
                ok = False
                break
        if not ok:
            break
    print('replayed', path, 'violations', len(run.violations))
    return 1 if run.violations else 0


def search(run, tier, seed):
    return False
