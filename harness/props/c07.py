"""C07 — graph equality is a structural equivalence relation."""
from __future__ import annotations

import copy
import json
import random

from .. import common as C
from .. import graph_hist as H

LEVEL = 'proof'
NEEDS = ['SFSerialEq', 'FactsEq', 'Extracted', 'SourceFacts', 'Base', 'Names', 'Graph', 'GraphObs', 'GraphTS', 'GraphInv', 'Equality', 'EqualityProofs', 'CorrEq', 'Extracted', 'Facts']
SYM = {'--', '<>', 'oo'}


def build(kind, ops):
    g = H.new_graph(kind)
    for op in ops:
        H.apply_op(g, H._tup(op))
    return g


def rb(thunk):
    try:
        return C.tk_bool(bool(thunk()))
    except Exception as e:  # noqa: BLE001
        return [10 + C.err_code(e)]


def impl_obs(g, h):
    sg, sh = g.skeleton, h.skeleton
    return (rb(lambda: g == h) + rb(lambda: h == g) + rb(lambda: g != h) + rb(lambda: g.__eq__(h, True)) + rb(lambda: h.__eq__(g, True))
            + rb(lambda: sg == sh) + rb(lambda: sh == sg) + rb(lambda: sg != sh) + rb(lambda: sg.__eq__(sh, True))
            + rb(lambda: g == g) + rb(lambda: h.__eq__(h, True)))


def structure(g):
    nodes = sorted(g.get_node_names())
    edges = sorted((tuple(sorted(e.get_edge_pair())) if str(e.get_edge_type()) in SYM else e.get_edge_pair(), str(e.get_edge_type()))
                   for e in g.get_edges())
    return nodes, edges


def norm_meta(v):
    """Python's == on metadata: True == 1, dict order-insensitive"""
    if isinstance(v, bool):
        return int(v)
    if isinstance(v, dict):
        return {k: norm_meta(x) for k, x in sorted(v.items())}
    if isinstance(v, (list, tuple)):
        return [norm_meta(x) for x in v]
    return v


def deep_structure(g):
    nodes = sorted((n.identifier, str(n.variable_type), json.dumps(norm_meta(n.meta), sort_keys=True)) for n in g.get_nodes())
    edges = sorted((tuple(sorted(e.get_edge_pair())) if str(e.get_edge_type()) in SYM else e.get_edge_pair(), str(e.get_edge_type()),
                    json.dumps(norm_meta(e.meta), sort_keys=True)) for e in g.get_edges())
    return nodes, edges


def predicate(g, h):
    """the property evaluated on the implementation alone"""
    try:
        eq, eq2, ne = (g == h), (h == g), (g != h)
        deq, deq2 = g.__eq__(h, True), h.__eq__(g, True)
        seq = g.skeleton == h.skeleton
    except Exception as e:  # noqa: BLE001
        return f'comparison raised {type(e).__name__}: {e}'
    if eq != (structure(g) == structure(h)):
        return f'g == h is {eq} but structural equality is {structure(g) == structure(h)}'
    if eq != eq2 or deq != deq2:
        return 'equality is not symmetric'
    if ne == eq:
        return '!= is not the negation of =='
    if deq != (deep_structure(g) == deep_structure(h)):
        return f'deep equality is {deq} but deep structural equality is {deep_structure(g) == deep_structure(h)}'
    if deq and not eq:
        return 'deep equality without shallow equality'
    if eq and not seq:
        return 'equal graphs with unequal skeletons'
    if not (g == g) or not g.__eq__(g, True):
        return 'equality is not reflexive'
    return None


def rebuild_ops(g, rng, flip=True):
    nodes = [(n.identifier, str(n.variable_type), {k: v for k, v in n.meta.items() if k not in ('time_lag', 'variable_name')}) for n in g.get_nodes()]
    edges = [(e.source.identifier, e.destination.identifier, str(e.get_edge_type()), copy.deepcopy(e.meta)) for e in g.get_edges()]
    rng.shuffle(nodes)
    rng.shuffle(edges)
    ops = [('add_node', i, vt, copy.deepcopy(m) or None) for i, vt, m in nodes]
    for s, d, t, m in edges:
        if flip and t in SYM and rng.random() < 0.5:
            s, d = d, s
        ops.append(('add_edge', (s, None), (d, None), t, m or None, False, 'ids'))
    return ops


def single_edit(ops, rng, gen):
    ops = copy.deepcopy(ops)
    nodes = [i for i, o in enumerate(ops) if o[0] == 'add_node']
    edges = [i for i, o in enumerate(ops) if o[0] == 'add_edge']
    kind = rng.choice(['drop_node', 'drop_edge', 'retype', 'reverse', 'vtype', 'nmeta', 'emeta', 'extra', 'boolint', 'move', 'nullkey', 'nullkey', 'dropkey'])
    if kind == 'drop_node' and nodes:
        i = rng.choice(nodes)
        name = ops[i][1]
        ops = [o for j, o in enumerate(ops) if j != i and not (o[0] == 'add_edge' and name in (o[1][0], o[2][0]))]
    elif kind == 'drop_edge' and edges:
        del ops[rng.choice(edges)]
    elif kind == 'retype' and edges:
        i = rng.choice(edges)
        o = list(ops[i])
        o[3] = rng.choice([t for t in C.ETYPES if t != o[3]])
        ops[i] = tuple(o)
    elif kind == 'reverse' and edges:
        i = rng.choice(edges)
        o = list(ops[i])
        o[1], o[2] = o[2], o[1]
        ops[i] = tuple(o)
    elif kind == 'vtype' and nodes:
        i = rng.choice(nodes)
        o = list(ops[i])
        o[2] = rng.choice([v for v in C.VTYPES if v != o[2]])
        ops[i] = tuple(o)
    elif kind == 'nmeta' and nodes:
        i = rng.choice(nodes)
        o = list(ops[i])
        o[3] = dict(o[3] or {}, edited=rng.randint(0, 3))
        ops[i] = tuple(o)
    elif kind == 'emeta' and edges:
        i = rng.choice(edges)
        o = list(ops[i])
        o[4] = dict(o[4] or {}, edited=[rng.randint(0, 3)])
        ops[i] = tuple(o)
    elif kind == 'nullkey' and (nodes or edges):
        # a tag that is present with a null / falsy value on one side and absent on the other
        i = rng.choice(nodes + edges)
        o = list(ops[i])
        k = 3 if o[0] == 'add_node' else 4
        o[k] = dict(o[k] or {}, **{rng.choice(['unit', 'a', 'zz']): rng.choice([None, None, 0, '', False, [], {}])})
        ops[i] = tuple(o)
    elif kind == 'dropkey' and (nodes or edges):
        cands = [i for i in nodes + edges if ops[i][3 if ops[i][0] == 'add_node' else 4]]
        if cands:
            i = rng.choice(cands)
            o = list(ops[i])
            k = 3 if o[0] == 'add_node' else 4
            m = dict(o[k])
            del m[rng.choice(sorted(m))]
            o[k] = m or None
            ops[i] = tuple(o)
    elif kind == 'boolint' and nodes:
        i = rng.choice(nodes)
        o = list(ops[i])
        o[3] = dict(o[3] or {}, flag=rng.choice([True, 1, False, 0]))
        ops[i] = tuple(o)
    elif kind == 'move' and edges:
        i = rng.choice(edges)
        o = list(ops[i])
        o[2] = (gen.name(), None)
        ops[i] = tuple(o)
    else:
        ops.append(('add_node', gen.name() + '_x' if gen.kind == 'Plain' else 'w', 'unspecified', None))
    return ops


def gen_pairs(rng, n, tier):
    pairs = []
    for i in range(n):
        kind = 'Plain' if i % 2 == 0 else 'TS'
        gen = H.Gen(rng, kind)
        g = H.new_graph(kind)
        base = []
        for _ in range(rng.randint(4, 22)):
            op = gen.op(g)
            if i % 4 == 1:
                H.warm_caches(g, rng, 0.25)
            H.apply_op(g, op)
            base.append(op)
        reb = rebuild_ops(g, rng)
        x = rng.random()
        if x < 0.25:
            other = reb
        elif x < 0.75:
            other = single_edit(reb, rng, gen)
            if rng.random() < 0.3:
                other = single_edit(other, rng, gen)
        elif x < 0.85:
            other = base + [gen.op(g) for _ in range(rng.randint(1, 4))]
        else:
            g2 = H.new_graph(kind)
            other = []
            for _ in range(rng.randint(3, 15)):
                op = gen.op(g2)
                H.apply_op(g2, op)
                other.append(op)
        first = base if rng.random() < 0.6 else rebuild_ops(g, rng)
        pairs.append((kind, first, other))
    return pairs


def cq_ecase(kind, a, b, exp):
    f = lambda ops: C.cq_list(lambda o: '(' + H.cq_op(H._tup(o)) + ')', ops)  # noqa: E731
    return '{| ec_kind := %s; ec_g := %s; ec_h := %s; ec_expected := %s |}' % (kind, f(a), f(b), '[' + '; '.join(map(str, exp)) + ']')


def check_pairs(pairs, tag='eq', chunk=60):
    wd = C.workdir()
    rows, bad = [], []
    for kind, a, b in pairs:
        g, h = build(kind, a), build(kind, b)
        rows.append(cq_ecase(kind, a, b, impl_obs(g, h)))
        why = predicate(g, h)
        if why:
            bad.append(dict(kind=kind, ops_g=a, ops_h=b, why=why))
    files = []
    for i in range(0, len(rows), chunk):
        f = wd / f'{tag}_{i // chunk}.v'
        f.write_text(C.COQ_HEADER + 'From CG Require Import Base Graph GraphObs Tok Names GraphTS Equality CorrEq.\nLocal Open Scope N_scope.\n'
                     'Definition cs : list ecase := [\n ' + ';\n '.join(rows[i:i + chunk]) + '\n].\nEval vm_compute in (emismatches cs).\n')
        files.append((i, f))
    res = C.run_coq_files([f for _, f in files])
    mism = []
    for (base, f), (_, rc, so, se) in zip(files, res):
        if rc != 0:
            raise RuntimeError(f'coqc failed on {f}: {se[-1500:]}')
        mism += [base + j for j in C.parse_N_list(C.parse_eval_blocks(so)[0])]
    return mism, bad


def check(run, tier, seed):
    rng = random.Random(seed)
    pairs = []
    cdir = C.VERIF / 'corpus' / 'C07'
    if cdir.exists():
        for f in sorted(cdir.glob('*.json')):
            c = json.loads(f.read_text())
            pairs.append((c['kind'], c['ops_g'], c['ops_h']))
    pairs += gen_pairs(rng, 400 if tier == 'quick' else 5000, tier)
    mism, bad = check_pairs(pairs)
    # transitivity on triples (implementation alone)
    ntr = 0
    for _ in range(150 if tier == 'quick' else 2000):
        kind, a, b = rng.choice(pairs)
        g, h = build(kind, a), build(kind, b)
        i = build(kind, rebuild_ops(h, rng))
        ntr += 1
        if (g == h) and (h == i) and not (g == i):
            bad.append(dict(kind=kind, ops_g=a, ops_h=b, why='equality is not transitive (g == h, h == rebuilt(h), g != rebuilt(h))'))
    neq = sum(1 for k, a, b in pairs[:300] if build(k, a) == build(k, b))
    for k, a, b in pairs:
        run.count((k, repr(a), repr(b)), nontrivial=len(a) >= 3)
    run.coverage.update(pairs=len(pairs), triples=ntr, equal_among_first_300=neq)
    run.coverage['rule'] = ('Pairs of same-class graphs: a random history against its permuted rebuild (symmetric edges flipped), against single- and '
                            'double-edit neighbours of the rebuild (node / edge / orientation / type / variable type / metadata value / bool-vs-int), '
                            'against an extended or an independent history; ==, !=, deep, both argument orders, Skeleton ==/!=/deep are compared '
                            'with the Coq model and with a structural predicate evaluated on the implementation. non-trivial = base history of >= 3 ops.')
    run.samples.append(dict(kind=pairs[-1][0], ops_g=[repr(o) for o in pairs[-1][1][:4]], ops_h=[repr(o) for o in pairs[-1][2][:4]]))
    run.oblige(f'correspondence: {len(pairs)} graph pairs, 11 comparisons each, model == implementation', not mism,
               '' if not mism else f'first divergence: pair {mism[0]}: {pairs[mism[0]]!r}'[:480])
    for b in bad[:2]:
        run.violation(dict(b, replay_cmd='./check C07 --replay <this file>'), note=b['why'][:200])
    if mism and not bad:
        run.coverage['first_divergence'] = dict(kind=pairs[mism[0]][0], ops_g=pairs[mism[0]][1], ops_h=pairs[mism[0]][2])


def replay(run, path):
    c = json.loads(open(path).read())
    g, h = build(c['kind'], c['ops_g']), build(c['kind'], c['ops_h'])
    why = predicate(g, h)
    print('predicate:', why)
    if why:
        run.violation(dict(c, why=why), note=why[:200])
    return 1 if run.violations else 0


def search(run, tier, seed):
    rng = random.Random(seed + 31)
    _, bad = check_pairs(gen_pairs(rng, 1500, tier), tag='eqs')
    for b in bad[:2]:
        run.violation(b, note=b['why'][:200])
    return bool(bad)
