"""C19 — identified instruments and mediators satisfy their graphical criteria."""
import json
import os
import subprocess
import sys

from .. import common as C
from .. import dagsweep as D
from .. import sweepprops as S

LEVEL = 'proof'
NEEDS = ['CorrIdentifyGen', 'CorrIdentifyGenIM', 'PyRt', 'IdentifyGenLemmas', 'IdentifyGenConf', 'IdentifyGenIM', 'IdentifyGenConfProofs', 'IdentifyGenIMProofs', 'InstrumentsGen', 'SFIdentify', 'Extracted', 'SourceFacts', 'Base', 'Digraph', 'DigraphProofs', 'Identify', 'IdentifyProofs', 'DSep', 'DSepProofs', 'CorrDag']
# the code translated from the source on every run: when the translator REFUSES the current source the run falls back to the
# hand-written model and its correspondence (harness/main.py)
GEN_SOFT = dict(generated=['IdentifyGenConf', 'IdentifyGenIM'], modules=['CorrIdentifyGenIM', 'IdentifyGenConf', 'IdentifyGenIM', 'IdentifyGenConfProofs', 'IdentifyGenIMProofs'])

WORKER = r'''
import sys, json, logging
logging.disable(logging.CRITICAL)
sys.path.insert(0, "/verif")
from harness import dagsweep as D
from cai_causal_graph.identify_utils import identify_instruments, identify_mediators, identify_confounders
dags = json.load(sys.stdin)
out = []
for n, arcs, names in dags:
    g = D.build(n, [tuple(a) for a in arcs], names)
    row = []
    for x in range(n):
        for y in range(n):
            if x != y:
                row.append([sorted(identify_instruments(g, names[x], names[y])), sorted(identify_mediators(g, names[x], names[y])),
                            sorted(identify_confounders(g, names[x], names[y]))])
    out.append(row)
json.dump(out, sys.stdout)
'''
LONG = ['alpha', 'beta', 'al', 'm', 'xm', 'yd', 'node_1', 'a b']


def hash_seed_stream(run, tier, seed):
    """The answers must not depend on set iteration order: same DAGs under several string-hash seeds,
    with multi-character identifiers."""
    import random
    rng = random.Random(seed + 3)
    dags = [(5, D.random_dag(rng, 5)) for _ in range(120 if tier == 'quick' else 1200)]
    dags += [(6, D.random_dag(rng, 6)) for _ in range(40 if tier == 'quick' else 400)]
    payload = []
    for n, a in dags:
        names = rng.sample(LONG, n) if n <= len(LONG) else LONG[:n]
        payload.append([n, a, names])
    results = {}
    for hs in ('0', '1', '7', '12345')[:3 if tier == 'quick' else 4]:
        env = dict(os.environ, PYTHONHASHSEED=hs)
        r = subprocess.run([sys.executable, '-W', 'ignore', '-c', WORKER], input=json.dumps(payload), capture_output=True, text=True, env=env)
        if r.returncode != 0:
            raise RuntimeError(r.stderr[-1500:])
        results[hs] = json.loads(r.stdout)
    seeds = list(results)
    bad = []
    for i, (n, a, names) in enumerate(payload):
        if any(results[s][i] != results[seeds[0]][i] for s in seeds[1:]):
            bad.append(dict(n=n, arcs=a, names=names, answers={s: results[s][i] for s in seeds},
                            why='identify_instruments / identify_mediators answer depends on the string hash seed'))
    # multi-character identifiers must give the same answer as single letters (up to renaming)
    for i, (n, a, names) in enumerate(payload):
        g = D.build(n, [tuple(x) for x in a])
        from cai_causal_graph.identify_utils import identify_instruments, identify_mediators
        k = 0
        for x in range(n):
            for y in range(n):
                if x != y:
                    ins = sorted(names[D.NAMES.index(v)] for v in identify_instruments(g, D.NAMES[x], D.NAMES[y]))
                    med = sorted(names[D.NAMES.index(v)] for v in identify_mediators(g, D.NAMES[x], D.NAMES[y]))
                    if [ins, med] != results[seeds[0]][i][k][:2] and len(bad) < 5:
                        bad.append(dict(n=n, arcs=a, names=names, source=names[x], destination=names[y], single_letter_answer=[ins, med],
                                        answer=results[seeds[0]][i][k][:2], why='the answer changes when the nodes are renamed'))
                    k += 1
    run.coverage['dags_under_several_hash_seeds'] = len(payload)
    run.coverage['hash_seeds'] = seeds
    run.oblige(f'set-order independence: {len(payload)} DAGs x {len(seeds)} PYTHONHASHSEED values, multi-character identifiers', not bad, '')
    for b in bad[:2]:
        run.violation(dict(b, replay_cmd='./check C19 --replay <this file>'), note=b['why'])


def check(run, tier, seed):
    from .. import gencorr
    gencorr.gen_correspondence(run, 'C19', tier, seed)
    S.sweep_property(run, tier, seed, 'C19',
                     describe='identify_instruments and identify_mediators for every ordered pair: compared with the model (proved to meet the '
                              'declarative mediator / instrument characterisations); every returned instrument is checked by the Coq predicate '
                              '(ancestor of the source and d-separated from the destination once the edges leaving the source are removed).')
    hash_seed_stream(run, tier, seed)
    D.order_independence(run, 'C19', order_fns(), sizes=(4, 5), sample6=0 if tier == 'quick' else 300, rng=__import__('random').Random(seed + 43))


def order_fns():
    from cai_causal_graph.identify_utils import identify_instruments, identify_mediators
    return [('identify_instruments', identify_instruments, 2), ('identify_mediators', identify_mediators, 2)]


def replay(run, path):
    import json as _json
    _c = _json.loads(open(path).read())
    if _c.get('kind') == 'order_dependence':
        return D.replay_order(run, _c, order_fns())
    if 'max_num_paths' in _c:
        from .. import gencorr
        why = gencorr.explain('C19', _c)
        print('declarative mediator clause:', why)
        if why:
            run.violation(dict(_c, why=why), note=why[:200])
        return 1 if run.violations else 0
    c = json.loads(open(path).read())
    if 'names' in c:
        run2 = run
        payload = [[c['n'], c['arcs'], c['names']]]
        outs = []
        for hs in ('0', '1', '7'):
            r = subprocess.run([sys.executable, '-W', 'ignore', '-c', WORKER], input=json.dumps(payload), capture_output=True, text=True,
                               env=dict(os.environ, PYTHONHASHSEED=hs))
            outs.append(json.loads(r.stdout))
        print(outs)
        if any(o != outs[0] for o in outs):
            run2.violation(dict(c), note='hash-seed dependence')
    else:
        S.replay_dag(run, path, 'C19')
    return 1 if run.violations else 0


def search(run, tier, seed):
    S.sweep_property(run, 'thorough', seed + 1, 'C19')
    return bool(run.violations)
