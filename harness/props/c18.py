"""C18 — identified confounders are common causes that close every back-door path."""
import json

from cai_causal_graph import CausalGraph
from cai_causal_graph.exceptions import CausalGraphErrors
from cai_causal_graph.identify_utils import identify_confounders

from .. import common as C
from .. import dagsweep as D
from .. import sweepprops as S

LEVEL = 'proof'
NEEDS = ['CorrIdentifyGen', 'CorrIdentifyGenConf', 'PyRt', 'IdentifyGenLemmas', 'IdentifyGenConf', 'IdentifyGenConfProofs', 'Bridge', 'BridgeProofs', 'Base', 'Digraph', 'DigraphProofs', 'Identify', 'IdentifyProofs', 'DSep', 'DSepProofs', 'CorrDag', 'IdentifyDSep']
# the code translated from the source on every run: when the translator REFUSES the current source the run falls back to the
# hand-written model and its correspondence (harness/main.py)
GEN_SOFT = dict(generated=['IdentifyGenConf'], modules=['CorrIdentifyGenConf', 'IdentifyGenConf', 'IdentifyGenConfProofs'])
KNOWN = 'F12: identify_confounders is not always a sufficient adjustment set (algorithmic; call site identify_confounders, clause "sufficient adjustment set")'

ORDER_FNS = [('identify_confounders', identify_confounders, 2)]


def refusals():
    """Non-DAG input, unknown nodes and x = y are refused."""
    bad = []
    g = CausalGraph()
    g.add_edge('a', 'b')
    g.add_edge('b', 'c', edge_type='--')
    for thunk, exc, what in [
        (lambda: identify_confounders(g, 'a', 'c'), TypeError, 'mixed graph'),
    ]:
        try:
            thunk()
            bad.append(f'{what} accepted')
        except exc:
            pass
        except Exception as e:  # noqa: BLE001
            bad.append(f'{what}: {type(e).__name__} instead of {exc.__name__}')
    cyc = CausalGraph()
    cyc.add_edges_from([('a', 'b'), ('b', 'c')])
    cyc.add_edge('c', 'a', validate=False)
    d = CausalGraph()
    d.add_edges_from([('a', 'b'), ('a', 'c')])
    for thunk, exc, what in [
        (lambda: identify_confounders(cyc, 'a', 'b'), TypeError, 'cyclic graph'),
        (lambda: identify_confounders(d, 'a', 'zz'), CausalGraphErrors.NodeDoesNotExistError, 'unknown node'),
        (lambda: identify_confounders(d, 'zz', 'a'), CausalGraphErrors.NodeDoesNotExistError, 'unknown node'),
        (lambda: identify_confounders(d, 'b', 'b'), ValueError, 'x = y'),
    ]:
        try:
            thunk()
            bad.append(f'{what} accepted')
        except exc:
            pass
        except Exception as e:  # noqa: BLE001
            bad.append(f'{what}: {type(e).__name__} instead of {exc.__name__}')
    return bad


def known_list():
    p = C.VERIF / 'known_findings_C18_le5.json'
    return set(json.loads(p.read_text())['instances']) if p.exists() else set()


def key(n, arcs, x, y):
    return f'{n}|' + ','.join(f'{a}>{b}' for a, b in sorted(arcs)) + f'|{x}|{y}'


def check(run, tier, seed):
    from .. import gencorr
    gencorr.gen_correspondence(run, 'C18', tier, seed)
    dags, out, impl, diverging = S.sweep_property(
        run, tier, seed, 'C18',
        describe='identify_confounders for every ordered pair of every DAG: compared with the model (search as written), every returned node '
                 'checked to be a common ancestor, symmetry in (x, y), and back-door sufficiency evaluated by the Coq d-separation checker on the '
                 'implementation\'s answer for every pair with y not an ancestor of x.')
    listed = known_list()
    n_insuff = n_known = 0
    for (n, arcs), r in zip(dags, out):
        mask = r[7]
        if not mask:
            continue
        opairs = [(x, y) for x in range(n) for y in range(n) if x != y]
        for i, (x, y) in enumerate(opairs):
            if mask >> i & 1:
                n_insuff += 1
                agrees = r[2] == 1   # implementation's answer equals the faithful model's answer on this DAG
                is_known = (key(n, arcs, x, y) in listed) if n <= 5 else agrees
                if is_known:
                    n_known += 1
                    run.known_finding(KNOWN)
                else:
                    run.violation(dict(n=n, arcs=arcs, edges=S.names(arcs), x=D.NAMES[x], y=D.NAMES[y],
                                       why='the reported confounder set is not a sufficient adjustment set and this instance is not covered by the '
                                           'recorded finding (not in the <=5-node list / implementation differs from the faithful model)',
                                       replay_cmd='./check C18 --replay <this file>'), note='insufficient adjustment set (new instance)')
                    if len(run.violations) > 3:
                        break
    run.coverage['insufficient_sets_seen'] = n_insuff
    run.coverage['of_which_recorded_known_finding'] = n_known
    D.order_independence(run, 'C18', ORDER_FNS, sizes=(4, 5) if tier == 'quick' else (4, 5), sample6=0 if tier == 'quick' else 400,
                         rng=__import__('random').Random(seed + 41))
    bad = refusals()
    run.oblige('refusals: non-DAG input / unknown nodes / x = y', not bad, '; '.join(bad))
    for b in bad[:1]:
        run.violation(dict(why=b), note=b)


def replay(run, path):
    c = json.loads(open(path).read())
    if c.get('kind') == 'order_dependence':
        return D.replay_order(run, c, ORDER_FNS)
    r = S.replay_dag(run, path, 'C18')
    if r[7]:
        print('insufficient-adjustment mask', r[7])
    return 1 if run.violations else 0


def search(run, tier, seed):
    return False
