"""C08 — matrix, networkx, GML and skeleton interchange reconstruct an equal graph."""
from __future__ import annotations

import itertools
import json
import random

import networkx
import numpy

from cai_causal_graph import CausalGraph, TimeSeriesCausalGraph
from cai_causal_graph.exceptions import CausalGraphErrors

from .. import common as C
from .. import graph_hist as H
from .. import tsprops as T

LEVEL = 'proof'
NEEDS = ['SFMatrix', 'Extracted', 'SourceFacts', 'Base', 'Names', 'Graph', 'GraphObs', 'GraphTS', 'GraphInv', 'Matrix', 'MatrixProofs', 'Skeleton', 'SkeletonProofs', 'Closed', 'CorrMatrix',
         'TSGraph', 'LagMatrix', 'LagMatrixProofs', 'CorrLagMatrix']


def tk_matrix(a):
    return C.tk_list(lambda row: C.tk_list(lambda x: C.tk_Z(int(x)), row), a)


def tk_pairs(l):
    return C.tk_list(lambda p: C.tk_name(p[0]) + C.tk_name(p[1]), l)


def tk_nx_of(x, ordered_pairs):
    """networkx graph -> (directed?, nodes in order, edges listed in the order / orientation of ordered_pairs)"""
    es = []
    for s, d in ordered_pairs:
        if x.has_edge(s, d):
            es.append((s, d))
    t = C.tk_bool(x.is_directed()) + C.tk_names(list(x.nodes())) + tk_pairs(es)
    if len(es) != x.number_of_edges():
        t += [999]
    return t


def obs_matrix(g):
    pairs = g.get_edge_pairs()
    t = C.tk_try(tk_matrix, lambda: g.adjacency_matrix.tolist())
    t += C.tk_try(lambda r: tk_matrix(r[0].tolist()) + C.tk_names(r[1]), lambda: g.to_numpy())
    t += C.tk_try(lambda x: tk_nx_of(x, pairs), lambda: g.to_networkx())
    t += C.tk_try(lambda _: tk_nx_of(g.to_networkx(), pairs), lambda: g.to_gml_string())
    return t


def tk_n3(n):
    return C.tk_name(n.identifier) + C.tk_vtype(n.variable_type) + C.tk_meta(C.canon_json(n.meta))


def tk_edge4(e):
    s, d = e.get_edge_pair()
    return C.tk_name(s) + C.tk_name(d) + C.tk_etype(e.get_edge_type()) + C.tk_meta(C.canon_json(e.meta))


def obs_skeleton(g, pool, sk=None):
    sk = sk or g.skeleton
    t = C.tk_try(lambda ns: C.tk_list(tk_n3, ns), lambda: sk.nodes)
    t += C.tk_names(sk.get_node_names())
    t += C.tk_list(tk_edge4, sk.edges)
    t += tk_pairs(sk.get_edge_pairs())
    t += C.tk_try(C.tk_bool, sk.is_empty)
    t += C.tk_try(tk_matrix, lambda: sk.adjacency_matrix.tolist())
    t += C.tk_try(lambda r: tk_matrix(r[0].tolist()) + C.tk_names(r[1]), lambda: sk.to_numpy())
    t += tk_nx_of(sk.to_networkx(), sk.get_edge_pairs())
    for n in pool:
        t += C.tk_bool(sk.node_exists(n))
        t += C.tk_try(tk_n3, lambda: sk.get_node(n))
        t += C.tk_try(C.tk_names, lambda: sorted(sk.get_neighbors(n)))
        t += C.tk_try(lambda ns: C.tk_list(tk_n3, ns), lambda: sk.get_neighbor_nodes(n))
    for s in pool:
        for d in pool:
            t += C.tk_bool(sk.edge_exists(s, d))
            t += C.tk_try(tk_edge4, lambda: sk.get_edge(s, d))
    return t


class DUGen(H.Gen):
    """mostly directed / undirected edges so that the formats apply"""

    def ety(self):
        r = self.rng.random()
        return '->' if r < 0.6 else ('--' if r < 0.92 else self.rng.choice(C.ETYPES[2:]))


def state_cases(rng, n, skeleton_first=False):
    cases = []
    for i in range(n):
        kind = 'Plain' if i % 2 == 0 else 'TS'
        gen = DUGen(rng, kind) if rng.random() < 0.8 else H.Gen(rng, kind)
        mode = rng.random()
        g = H.new_graph(kind)
        sk = g.skeleton
        ops = []
        for _ in range(rng.randint(1, 22)):
            op = gen.op(g)
            if mode < 0.35 and op[0] == 'add_edge':            # fully directed
                op = op[:3] + ('->',) + op[4:]
            elif mode < 0.5 and op[0] == 'add_edge':           # fully undirected
                op = op[:3] + ('--',) + op[4:]
            if i % 3:
                H.warm_caches(g, rng, 0.3)        # exports taken before / between the mutations (incl. failing bulk adders)
            H.apply_op(g, op)
            ops.append(op)
        cases.append(dict(kind=kind, ops=ops, pool=gen.pool, hmat=C.hash_tokens(obs_matrix(g)),
                          hsk=C.hash_tokens(obs_skeleton(g, gen.pool, sk)), graph=g))
    return cases


def cq_mcase(c):
    return ('{| mc_kind := %s; mc_ops := %s; mc_pool := %s; mc_hmat := %d%%uint63; mc_hsk := %d%%uint63 |}'
            % (c['kind'], C.cq_list(lambda o: '(' + H.cq_op(H._tup(o)) + ')', c['ops']), C.cq_names(c['pool']), c['hmat'], c['hsk']))


def run_mcases(cases, tag='mat', chunk=40):
    wd = C.workdir()
    files = []
    for i in range(0, len(cases), chunk):
        f = wd / f'{tag}_{i // chunk}.v'
        f.write_text(C.COQ_HEADER + 'From CG Require Import Base Graph GraphObs Tok Names GraphTS Matrix Skeleton CorrMatrix.\nFrom Coq Require Import Uint63.\nLocal Open Scope N_scope.\n'
                     'Definition cs : list mcase := [\n ' + ';\n '.join(cq_mcase(c) for c in cases[i:i + chunk]) + '\n].\nEval vm_compute in (check_mcases cs).\n')
        files.append(f)
    out = []
    for f, rc, so, se in C.run_coq_files(files):
        if rc != 0:
            raise RuntimeError(f'coqc failed on {f}: {se[-1500:]}')
        out += C.parse_N_list(C.parse_eval_blocks(so)[0])
    return out   # per case: bit0 = matrix views agree, bit1 = skeleton views agree


# ---- from_adjacency_matrix on explicit matrices -------------------------------------------------
def matrix_inputs(rng, tier):
    inputs = []
    for n in (0, 1, 2, 3):
        for bits in itertools.product([0, 1], repeat=n * n):
            inputs.append([list(bits[i * n:(i + 1) * n]) for i in range(n)])
    for _ in range(300 if tier == 'quick' else 6000):
        n = rng.choice([4, 4, 5])
        inputs.append([[int(rng.random() < 0.3) for _ in range(n)] for _ in range(n)])
    bad = [[[0, 2], [0, 0]], [[0, -1], [1, 0]], [[0, 1, 0], [0, 0, 1]], [[0, 1], [0, 0], [1, 0]], [[0, 3, 0], [0, 0, 0], [0, 0, 0]], [[1]], [[2]]]
    return inputs, bad


def entry_clause(g, a, names):
    """the property's clause evaluated on an accepted matrix: an edge i->j exactly for a[i][j]=1, a[j][i]=0 and i--j exactly for
    both entries 1 (the diagonal is ignored, O5); None if it holds"""
    n = len(a)
    if names is None:
        names = [f'node_{i}' for i in range(n)]
    if len(names) != n or len(set(names)) != n or any(len(r) != n for r in a):
        return None
    want = set()
    for i in range(n):
        for j in range(n):
            if i != j and a[i][j]:
                want.add((names[i], names[j], '->') if not a[j][i] else (min(names[i], names[j]), max(names[i], names[j]), '--'))
    got = set()
    for e in g.get_edges():
        s, d = e.get_edge_pair()
        t = str(e.get_edge_type())
        got.add((s, d, t) if t == '->' else (min(s, d), max(s, d), t))
    if got != want:
        return f'edges {sorted(got)} but the matrix entries say {sorted(want)}'
    return None


def from_matrix_cases(rng, tier):
    inputs, bad = matrix_inputs(rng, tier)
    cases = []
    for a in inputs + bad * 6:
        n = len(a)
        kind = rng.choice(['Plain', 'Plain', 'TS'])
        cls = CausalGraph if kind == 'Plain' else TimeSeriesCausalGraph
        r = rng.random()
        if r < 0.15:
            names = None
        elif kind == 'TS':
            pool = [H.ts_name(v, l) for v in ('x', 'y') for l in (-1, 0, 1)] + ['bad lag(n=1) lag(n=2)']
            names = rng.sample(pool, min(n, len(pool))) if n <= len(pool) else pool
            if rng.random() < 0.08 and n:
                names = names[:-1]
        else:
            names = rng.sample(['a', 'b', 'c', 'd', 'e', 'X\n', 'a b'], min(n, 7))
            x = rng.random()
            if x < 0.06 and n:
                names = names[:-1]            # wrong count
            elif x < 0.12 and n >= 2:
                names[1] = names[0]            # duplicate
        validate = rng.random() < 0.7
        try:
            dt = None
            arr = numpy.array(a) if a else numpy.zeros((0, 0), dtype=int)
            if a and arr.ndim == 2 and arr.dtype != object and ((arr == 0) | (arr == 1)).all() and rng.random() < 0.4:
                # a binary matrix is a binary matrix whatever its numpy dtype (unsigned, boolean, float ...)
                dt = rng.choice(['uint8', 'bool', 'float64', 'int8', 'uint64', 'float32'])
                arr = arr.astype(dt)
            g = cls.from_adjacency_matrix(arr, None if names is None else list(names), validate=validate)
            pool = (g.get_node_names() + ['zz'])[:6]
            code, h = 0, C.hash_tokens(H.observe(g, kind, pool, [], []))
        except Exception as e:  # noqa: BLE001
            code, h, pool = C.err_code(e), 0, []
            g = None
        cases.append(dict(kind=kind, matrix=a, names=names, validate=validate, pool=pool, code=code, hash=h, dtype=dt,
                          entry_clause=entry_clause(g, a, names) if g is not None else None))
    return cases


def cq_fcase(c):
    m = C.cq_list(lambda row: C.cq_list(C.cq_Z, row), c['matrix'])
    return ('{| fc_kind := %s; fc_matrix := %s; fc_names := %s; fc_validate := %s; fc_pool := %s; fc_code := %d; fc_hash := %d%%uint63 |}'
            % (c['kind'], m, C.cq_opt(C.cq_names, c['names']), C.cq_bool(c['validate']), C.cq_names(c['pool']), c['code'], c['hash']))


def run_fcases(cases, chunk=150):
    wd = C.workdir()
    files = []
    for i in range(0, len(cases), chunk):
        f = wd / f'fm_{i // chunk}.v'
        f.write_text(C.COQ_HEADER + 'From CG Require Import Base Graph GraphObs Tok Names GraphTS Matrix CorrMatrix.\nFrom Coq Require Import Uint63.\nLocal Open Scope N_scope.\n'
                     'Definition cs : list fcase := [\n ' + ';\n '.join(cq_fcase(c) for c in cases[i:i + chunk]) + '\n].\nEval vm_compute in (fmismatches cs).\n')
        files.append((i, f))
    bad = []
    for (base, f), (_, rc, so, se) in zip(files, C.run_coq_files([f for _, f in files])):
        if rc != 0:
            raise RuntimeError(f'coqc failed on {f}: {se[-1500:]}')
        bad += [base + j for j in C.parse_N_list(C.parse_eval_blocks(so)[0])]
    return bad


# ---- the property on the implementation ---------------------------------------------------------
def gml_safe(names):
    return all(n and n.isascii() and n.isprintable() and '"' not in n and '&' not in n for n in names)


def predicate(g):
    cls = type(g)
    types = {str(e.get_edge_type()) for e in g.get_edges()}
    names = g.get_node_names()
    if types <= {'->', '--'}:
        try:
            a, order = g.to_numpy()
        except Exception as e:  # noqa: BLE001
            return f'to_numpy raised {type(e).__name__} on a graph with only -> / -- edges'
        if order != names:
            return 'to_numpy node order is not the sorted node list'
        ix = {n: i for i, n in enumerate(order)}
        exp = numpy.zeros((len(order), len(order)), dtype=int)
        for e in g.get_edges():
            s, d = e.get_edge_pair()
            exp[ix[s], ix[d]] = 1
            if str(e.get_edge_type()) == '--':
                exp[ix[d], ix[s]] = 1
        if not numpy.array_equal(a, exp):
            return 'A[i,j] = 1 is not exactly "edge i->j or i--j"'
        arcs = [e.get_edge_pair() for e in g.get_edges() if str(e.get_edge_type()) == '->']
        from .c02 import acyclic
        if acyclic(names, arcs):
            try:
                h = cls.from_adjacency_matrix(a, order)
            except Exception as e:  # noqa: BLE001
                return f'from_adjacency_matrix(*to_numpy()) raised {type(e).__name__}: {e}'
            if not (h == g and g == h):
                return 'from_adjacency_matrix(*to_numpy()) != g'
        if len(types) <= 1:
            try:
                x = g.to_networkx()
                h = cls.from_networkx(x, validate=False)
                if not (h == g and g == h):
                    return 'from_networkx(to_networkx()) != g'
                if gml_safe(names):
                    h2 = cls.from_gml_string(g.to_gml_string(), validate=False)
                    if not (h2 == g and g == h2):
                        return 'from_gml_string(to_gml_string()) != g'
            except Exception as e:  # noqa: BLE001
                return f'networkx / GML round trip raised {type(e).__name__}: {e}'
        else:
            try:
                g.to_networkx()
                return 'to_networkx accepted a mix of directed and undirected edges'
            except CausalGraphErrors.GraphConversionError:
                pass
    else:
        for what, thunk, exc in (('to_numpy', g.to_numpy, TypeError), ('adjacency_matrix', lambda: g.adjacency_matrix, TypeError),
                                 ('to_networkx', g.to_networkx, CausalGraphErrors.GraphConversionError),
                                 ('to_gml_string', g.to_gml_string, CausalGraphErrors.GraphConversionError)):
            try:
                thunk()
                return f'{what} converted a graph containing an unrepresentable edge type {sorted(types - {"->", "--"})}'
            except exc:
                pass
            except Exception as e:  # noqa: BLE001
                return f'{what} raised {type(e).__name__} instead of {exc.__name__}'
    return None


def by_lag_predicate(g):
    """from_adjacency_matrices(*to_numpy_by_lag()) equals the minimal graph (time-series graphs with at least one edge, undirected edges contemporaneous)"""
    es = g.get_edges()
    if not es or any(str(e.get_edge_type()) not in ('->', '--') for e in es):
        return None
    if any(str(e.get_edge_type()) == '--' and e.source.time_lag != e.destination.time_lag for e in es):
        return None
    try:
        m = g.get_minimal_graph()
    except Exception:  # noqa: BLE001  (inconsistent template sets are outside the property)
        return None
    from .c02 import acyclic
    if not acyclic(m.get_node_names(), [e.get_edge_pair() for e in m.get_edges() if str(e.get_edge_type()) == '->']):
        return None
    try:
        mats, vars_ = g.to_numpy_by_lag()
        h = TimeSeriesCausalGraph.from_adjacency_matrices(mats, vars_)
    except Exception as e:  # noqa: BLE001
        return f'lagged-matrix round trip raised {type(e).__name__}: {e}'
    if not (h == m and m == h):
        return (f'from_adjacency_matrices(*to_numpy_by_lag()) != minimal graph: got edges {[(e.source.identifier, str(e.get_edge_type()), e.destination.identifier) for e in h.get_edges()]}, '
                f'minimal graph has {[(e.source.identifier, str(e.get_edge_type()), e.destination.identifier) for e in m.get_edges()]}')
    return None


# ---- lagged matrices: to_numpy_by_lag / from_adjacency_matrices against LagMatrix.v ---------------------
LCOLS = ['to_numpy_by_lag_eq', 'roundtrip_validated_eq', 'roundtrip_unvalidated_eq', 'oracle_unvalidated', 'oracle_validated']


def cq_bmat(a):
    return C.cq_list(lambda row: C.cq_list(lambda x: C.cq_bool(bool(x)), row), numpy.asarray(a).tolist())


def cq_lagdict(d):
    return C.cq_list(lambda kv: f'({C.cq_Z(int(kv[0]))}, {cq_bmat(kv[1])})', list(d.items()))


def cq_lcase(g):
    def rt(v):
        return T.cq_res(T.cq_tsg, lambda: TimeSeriesCausalGraph.from_adjacency_matrices(*g.to_numpy_by_lag(), validate=v))[0]
    np_ = T.cq_res(lambda r: f'({cq_lagdict(r[0])}, {C.cq_names(r[1])})', g.to_numpy_by_lag)[0]
    return ('{| lc_g := %s; lc_numpy := %s; lc_rt_true := %s; lc_rt_false := %s; lc_min := %s |}'
            % (T.cq_tsg(g), np_, rt(True), rt(False), T.cq_res(T.cq_tsg, g.get_minimal_graph)[0]))


def gen_lagdict(rng):
    """an explicit dictionary of matrices for from_adjacency_matrices: mostly well formed, sometimes hostile"""
    r = rng.choice([1, 2, 2, 3, 3])
    keys = rng.sample([0, -1, -2, -3, -4], rng.randint(1, 3))
    if rng.random() < 0.12:
        keys[rng.randrange(len(keys))] = rng.choice([1, 2])        # future lag
    dens = rng.choice([0.15, 0.3, 0.5])
    d = {}
    for k in keys:
        rows = r if rng.random() > 0.06 else r + rng.choice([-1, 1])   # shape mismatch between keys
        d[k] = [[int(rng.random() < dens) for _ in range(max(rows, 0))] for _ in range(max(rows, 0))]
    x = rng.random()
    pool = ['X', 'Y', 'Z', 'a b', 'lag', 'X lag(n=1)', 'v\n', 'future']
    if x < 0.7:
        names = rng.sample(pool[:5], r) if r <= 5 else None
    elif x < 0.8:
        names = None
    elif x < 0.88:
        names = rng.sample(pool, r)
    elif x < 0.94:
        names = [pool[0]] * r                                           # duplicates
    else:
        names = rng.sample(pool[:5], max(r - 1, 0) if rng.random() < 0.5 else min(r + 1, 5))
    return d, names, rng.random() < 0.7, rng.random() < 0.7


def cq_fdcase(d, names, cm, val):
    exp = T.cq_res(T.cq_tsg, lambda: TimeSeriesCausalGraph.from_adjacency_matrices(
        {k: numpy.array(v).reshape(len(v), len(v)) for k, v in d.items()}, names, construct_minimal=cm, validate=val))[0]
    return ('{| fd_pairs := %s; fd_names := %s; fd_minimal := %s; fd_validate := %s; fd_expected := %s |}'
            % (cq_lagdict(d), C.cq_opt(C.cq_names, names), C.cq_bool(cm), C.cq_bool(val), exp))


def run_lag_cases(lrows, frows, chunk=40):
    import re
    wd = C.workdir()
    files = []
    hdr = C.COQ_HEADER + 'From CG Require Import Base TSGraph CorrTS LagMatrix CorrLagMatrix.\nLocal Open Scope N_scope.\n'
    for i in range(0, len(lrows), chunk):
        f = wd / f'lagl_{i // chunk}.v'
        f.write_text(hdr + 'Definition cs : list lcase := [\n ' + ';\n '.join(lrows[i:i + chunk]) + '\n].\nEval vm_compute in (check_lcases cs).\n')
        files.append(('l', i, f))
    for i in range(0, len(frows), chunk):
        f = wd / f'lagf_{i // chunk}.v'
        f.write_text(hdr + 'Definition cs : list fdcase := [\n ' + ';\n '.join(frows[i:i + chunk]) + '\n].\nEval vm_compute in (fd_mismatches cs).\n')
        files.append(('f', i, f))
    res = C.run_coq_files([f for _, _, f in files], timeout=1800)
    lout, fbad = [], []
    for (kind, base, f), (_, rc, so, se) in zip(files, res):
        if rc != 0:
            raise RuntimeError(f'coqc failed on {f}: {se[-2000:]}')
        blk = C.parse_eval_blocks(so)[0]
        if kind == 'l':
            for row in re.findall(r'\[([^\[\]]*)\]', blk):
                lout.append([int(x) for x in re.findall(r'\d+', re.sub(r'%\w+', '', row))])
        else:
            fbad += [base + j for j in C.parse_N_list(blk)]
    if len(lout) != len(lrows):
        raise RuntimeError(f'Coq returned {len(lout)} rows for {len(lrows)} lagged-matrix cases')
    return lout, fbad


def malformed_refused():
    bad = []
    for a, names, exc in [
        (numpy.zeros((2, 3)), None, CausalGraphErrors.InvalidAdjacencyMatrixError),
        (numpy.zeros((2, 2, 2)), None, CausalGraphErrors.InvalidAdjacencyMatrixError),
        (numpy.zeros(3), None, CausalGraphErrors.InvalidAdjacencyMatrixError),
        (numpy.array([[0, 2], [0, 0]]), None, CausalGraphErrors.InvalidAdjacencyMatrixError),
        (numpy.array([[0, -1], [0, 0]]), None, CausalGraphErrors.InvalidAdjacencyMatrixError),
        (numpy.array([[0, 0.5], [0, 0]]), None, CausalGraphErrors.InvalidAdjacencyMatrixError),
        (numpy.array([[0, 1], [0, 0]]), ['a'], AssertionError),
        (numpy.array([[0, 1], [0, 0]]), ['a', 'b', 'c'], AssertionError),
    ]:
        for cls in (CausalGraph, TimeSeriesCausalGraph):
            try:
                cls.from_adjacency_matrix(a, names)
                bad.append(f'{cls.__name__}.from_adjacency_matrix accepted a malformed input shape={a.shape} names={names}')
            except exc:
                pass
            except Exception as e:  # noqa: BLE001
                bad.append(f'malformed input shape={a.shape}: {type(e).__name__} instead of {exc.__name__}')
    return bad


def check(run, tier, seed):
    rng = random.Random(seed)
    cases = state_cases(rng, 240 if tier == 'quick' else 3000)
    out = run_mcases(cases)
    div = [i for i, o in enumerate(out) if not o & 1]
    fcases = from_matrix_cases(rng, tier)
    fbad = run_fcases(fcases)
    for c in cases:
        run.count(('s', repr(c['ops'])), nontrivial=len(c['graph'].get_edges()) >= 2)
    for c in fcases:
        run.count(('m', repr(c['matrix']), repr(c['names']), c['validate'], c['kind']), nontrivial=len(c['matrix']) >= 2)
    from collections import Counter
    run.coverage.update(graph_states=len(cases), matrices_through_from_adjacency_matrix=len(fcases),
                        from_matrix_outcomes=dict(Counter(C.ERR_NAME.get(c['code'], 'ok') for c in fcases)))
    run.coverage['rule'] = ('(1) graph states from random histories (biased to fully directed / fully undirected / mixed ->,-- graphs, plus other edge types), both '
                            'classes: adjacency_matrix, to_numpy, to_networkx, to_gml_string compared with the model; (2) every binary matrix up to 3x3, sampled '
                            '4x4 / 5x5, malformed matrices (entries 2 / -1, ragged, wrong name count, duplicate names, unparsable time-series names), names '
                            'given or default, validate on/off, both classes through from_adjacency_matrix compared with the model (error class + full observation); '
                            '(3) the round-trip / refusal clauses and the lagged-matrix round trip evaluated on the implementation.')
    run.samples.append(dict(matrix=fcases[40]['matrix'], names=fcases[40]['names'], outcome=C.ERR_NAME.get(fcases[40]['code'], 'ok')))
    run.oblige(f'correspondence: matrix / networkx / GML views on {len(cases)} graph states', not div,
               '' if not div else f'first divergence: {cases[div[0]]["kind"]} {cases[div[0]]["ops"]!r}'[:480])
    for c in fcases:
        if c.get('entry_clause') and len(run.violations) < 2:
            why = f'from_adjacency_matrix(dtype={c["dtype"] or "int64"}): {c["entry_clause"]}'
            run.violation(dict(kind=c['kind'], matrix=c['matrix'], names=c['names'], dtype=c['dtype'], validate=c['validate'], why=why), note=why[:200])
    run.oblige(f'correspondence: from_adjacency_matrix on {len(fcases)} matrices', not fbad,
               '' if not fbad else f'first divergence: {({k: v for k, v in fcases[fbad[0]].items() if k != "hash"})!r}'[:480])
    viol = 0
    npred = 0
    for c in cases:
        g = c['graph']
        npred += 1
        why = predicate(g)
        if not why and c['kind'] == 'TS':
            why = by_lag_predicate(g)
        if why and viol < 2:
            viol += 1
            run.violation(dict(kind=c['kind'], ops=c['ops'], why=why, replay_cmd='./check C08 --replay <this file>'), note=why[:200])
    # lagged matrices on template graphs: implementation-side predicate + model (LagMatrix.v) correspondence + Coq oracles
    nlag = 0
    lspecs, lrows = [], []
    for i in range(120 if tier == 'quick' else 2000):
        steps, gm = T.gen_ts_graph(rng, rng.choice(['dag', 'dag0', 'consistent', 'dag'] + (['wild'] if i % 5 == 0 else [])))
        g = T.build(steps, gm)
        nlag += 1
        why = by_lag_predicate(g)
        if why and viol < 2:
            viol += 1
            run.violation(dict(steps=steps, gmeta=gm, why=why, replay_cmd='./check C08 --replay <this file>'), note=why[:200])
        lspecs.append((steps, gm))
        lrows.append(cq_lcase(g))
    fspecs = [gen_lagdict(rng) for _ in range(150 if tier == 'quick' else 2500)]
    frows = [cq_fdcase(*f) for f in fspecs]
    lout, fbad = run_lag_cases(lrows, frows)
    ldiv = [(i, LCOLS[c]) for i, r in enumerate(lout) for c in (0, 1, 2) if r[c] == 0]
    run.oblige(f'correspondence: to_numpy_by_lag and the lagged round trip (validate on/off) on {len(lrows)} time-series graphs', not ldiv,
               '' if not ldiv else f'first divergence: column {ldiv[0][1]} steps={lspecs[ldiv[0][0]][0]!r}'[:480])
    run.oblige(f'correspondence: from_adjacency_matrices on {len(frows)} explicit matrix dictionaries (incl. malformed)', not fbad,
               '' if not fbad else f'first divergence: {fspecs[fbad[0]]!r}'[:480])
    from collections import Counter as _Cn
    run.coverage['lagged_oracle_outcomes'] = {f'{LCOLS[c]}={["fails", "holds", "premises-not-met"][k]}': v
                                              for c in (3, 4) for k, v in _Cn(r[c] for r in lout).items()}
    for i, r in enumerate(lout):
        for c, why in ((3, 'from_adjacency_matrices(*to_numpy_by_lag(), validate=False) is not the minimal graph (Coq oracle)'),
                       (4, 'from_adjacency_matrices(*to_numpy_by_lag()) is neither the minimal graph nor the refusal of a cyclic minimal graph (Coq oracle)')):
            if r[c] == 0 and viol < 2:
                viol += 1
                run.violation(dict(steps=lspecs[i][0], gmeta=lspecs[i][1], why=why, replay_cmd='./check C08 --replay <this file>'), note=why)
    for j in fbad[:1]:
        d, names, cm, val = fspecs[j]
        if viol < 2 and names is not None and len(set(names)) == len(names) and all(len(m) == len(names) for m in d.values()) and all(k <= 0 for k in d):
            # a well-formed dictionary on which implementation and model disagree: check the entry clause directly
            try:
                h = TimeSeriesCausalGraph.from_adjacency_matrices({k: numpy.array(v).reshape(len(v), len(v)) for k, v in d.items()}, names,
                                                                   construct_minimal=False, validate=False)
                want = set()
                for k, m in d.items():
                    for a in range(len(names)):
                        for b in range(len(names)):
                            if m[a][b] and not (k == 0 and a == b):
                                want.add(frozenset([(names[a], k), (names[b], 0)]))
                got = {frozenset([(e.source.variable_name, e.source.time_lag), (e.destination.variable_name, e.destination.time_lag)]) for e in h.get_edges()}
                if got != want:
                    viol += 1
                    run.violation(dict(matrices={str(k): v for k, v in d.items()}, names=names, why='from_adjacency_matrices does not create exactly one edge per non-zero entry',
                                       got=sorted(map(sorted, got)), want=sorted(map(sorted, want))), note='from_adjacency_matrices: edges differ from the non-zero entries')
            except Exception:  # noqa: BLE001
                pass
    mal = malformed_refused()
    run.oblige('malformed matrices refused (non-square, 1-D, 3-D, entries 2 / -1 / 0.5, wrong name count)', not mal, '; '.join(mal)[:400])
    for m in mal[:1]:
        run.violation(dict(why=m), note=m[:200])
    run.coverage['states_checked_by_the_property_predicate'] = npred
    run.coverage['template_graphs_for_lagged_matrices'] = nlag


def replay(run, path):
    c = json.loads(open(path).read())
    if 'ops' in c:
        g = H.new_graph(c['kind'])
        for op in c['ops']:
            H.apply_op(g, H._tup(op))
        why = predicate(g) or (by_lag_predicate(g) if c['kind'] == 'TS' else None)
    elif 'steps' in c:
        g = T.build([tuple(s) for s in c['steps']], c.get('gmeta'))
        why = by_lag_predicate(g)
    elif 'matrix' in c and 'dtype' in c:
        arr = numpy.array(c['matrix'])
        if c['dtype']:
            arr = arr.astype(c['dtype'])
        cls = CausalGraph if c['kind'] == 'Plain' else TimeSeriesCausalGraph
        try:
            g = cls.from_adjacency_matrix(arr, c['names'], validate=c.get('validate', True))
            why = entry_clause(g, c['matrix'], c['names'])
        except Exception as e:  # noqa: BLE001
            why = None
            print('from_adjacency_matrix raised', type(e).__name__)
    else:
        why = '; '.join(malformed_refused()) or None
    print('predicate:', why)
    if why:
        run.violation(dict(c, why=why), note=why[:200])
    return 1 if run.violations else 0


def search(run, tier, seed):
    return False
