"""C20 — Markov boundaries shield their node; colliders are the nodes with two arrowheads."""
import json
import random

from cai_causal_graph.identify_utils import identify_colliders, identify_markov_boundary

from .. import common as C
from .. import dagsweep as D
from .. import sweepprops as S

LEVEL = 'proof'
NEEDS = ['CorrIdentifyGen', 'CorrIdentifyGenMB', 'PyRt', 'IdentifyGenLemmas', 'IdentifyGenConf', 'IdentifyGenMB', 'IdentifyGenMBProofs', 'SFIdentify', 'Extracted', 'SourceFacts', 'Bridge', 'BridgeProofs', 'Base', 'Digraph', 'DSep', 'DSepProofs', 'Markov', 'MarkovProofs', 'CorrDag']
# the code translated from the source on every run: when the translator REFUSES the current source the run falls back to the
# hand-written model and its correspondence (harness/main.py)
GEN_SOFT = dict(generated=['IdentifyGenConf', 'IdentifyGenMB'], modules=['CorrIdentifyGenMB', 'IdentifyGenConf', 'IdentifyGenMB', 'IdentifyGenMBProofs'])
TYPES = ['->', '<>', '--']


def collider_tokens(g, n):
    ix = {D.NAMES[i]: i for i in range(n)}
    return D.tk_set([ix[x] for x in identify_colliders(g)]) + D.tk_set([ix[x] for x in identify_colliders(g, unshielded_only=True)])


def declarative_colliders(n, mg, unshielded):
    into = {v: set() for v in range(n)}
    adj = set()
    for s, d, t in mg:
        adj.add(frozenset((s, d)))
        if t == '->':
            into[d].add(s)
        elif t == '<>':
            into[d].add(s)
            into[s].add(d)
    res = []
    for v in range(n):
        if len(into[v]) >= 2:
            if not unshielded or all(frozenset((a, b)) not in adj for a in into[v] for b in into[v] if a < b):
                res.append(v)
    return res


def check(run, tier, seed):
    from .. import gencorr
    gencorr.gen_correspondence(run, 'C20', tier, seed)
    S.sweep_property(run, tier, seed, 'C20',
                     describe='identify_markov_boundary for every node (and for the Skeleton: the neighbours); the shielding and minimality '
                              'criteria are evaluated by the Coq d-separation checker on the set the implementation returned.')
    rng = random.Random(seed + 5)
    D.order_independence(run, 'C20', ORDER_FNS, sizes=(4, 5), sample6=0 if tier == 'quick' else 300, rng=random.Random(seed + 47))
    cases = []
    for n in (2, 3):
        cases += [(n, mg) for mg in D.all_mixed(n, TYPES)]
    n4 = list(D.all_mixed(4, TYPES)) if tier == 'thorough' else []
    if n4:
        rng.shuffle(n4)
        cases += [(4, mg) for mg in n4[:20000]]
    cases += [(4, D.random_mixed(rng, 4, C.ETYPES)) for _ in range(400 if tier == 'quick' else 3000)]
    cases += [(5, D.random_mixed(rng, 5, C.ETYPES)) for _ in range(150 if tier == 'quick' else 1500)]
    bad = D.mixed_sweep(cases, 0, collider_tokens, tag='coll')
    run.coverage['mixed_graphs_for_colliders'] = len(cases)
    run.oblige(f'correspondence: identify_colliders (all / unshielded) on {len(cases)} mixed graphs, both stored orientations of <>', not bad,
               '' if not bad else f'first divergence: n={cases[bad[0]][0]} edges={cases[bad[0]][1]}')
    # the property's own predicate on the implementation
    viol = 0
    for n, mg in cases:
        g = D.build_mixed(n, mg)
        ix = {D.NAMES[i]: i for i in range(n)}
        for u in (False, True):
            got = sorted(ix[x] for x in identify_colliders(g, unshielded_only=u))
            exp = declarative_colliders(n, mg, u)
            if got != exp and viol < 2:
                viol += 1
                run.violation(dict(n=n, mixed_edges=mg, unshielded_only=u, got=got, expected=exp,
                                   why='identify_colliders differs from "at least two arrowheads pointing in"'), note='colliders')
    # the same graphs reached through an edit history (re-typed, removed and re-added, extra edges added and removed)
    n_edit = n_skip = 0
    for n, mg in cases:
        g, steps = D.build_mixed_edited(n, mg, rng)
        if g is None:
            n_skip += 1
            continue
        n_edit += 1
        ix = {D.NAMES[i]: i for i in range(n)}
        for u in (False, True):
            try:
                got = sorted(ix[x] for x in identify_colliders(g, unshielded_only=u))
            except Exception as e:  # noqa: BLE001
                got = f'raised {type(e).__name__}'
            exp = declarative_colliders(n, mg, u)
            if got != exp and viol < 2:
                viol += 1
                run.violation(dict(n=n, mixed_edges=mg, edit_steps=steps, unshielded_only=u, got=got, expected=exp,
                                   why='identify_colliders on a graph reached through an edit history differs from "at least two arrowheads '
                                       'pointing in" on its final edges', replay_cmd='./check C20 --replay <this file>'), note='colliders after edits')
    run.coverage['mixed_graphs_reached_by_edit_histories'] = n_edit
    run.coverage['edit_histories_refused_by_the_library'] = n_skip
    run.oblige(f'identify_colliders on {n_edit} mixed graphs reached through edit histories = the declarative colliders of the final edges',
               viol == 0, '')
    # for a Skeleton the Markov boundary is exactly the neighbours, whatever the edge types of the graph behind it
    from cai_causal_graph.identify_utils import identify_markov_boundary
    for n, mg in cases[:600]:
        g = D.build_mixed(n, mg)
        sk = g.skeleton
        adj = {v: set() for v in range(n)}
        for s_, d_, _t in mg:
            adj[s_].add(d_)
            adj[d_].add(s_)
        for v in range(n):
            try:
                got = sorted(identify_markov_boundary(sk, D.NAMES[v]))
            except Exception as e:  # noqa: BLE001
                got = f'raised {type(e).__name__}'
            exp = sorted(D.NAMES[u] for u in adj[v])
            if got != exp and viol < 2:
                viol += 1
                run.violation(dict(n=n, mixed_edges=mg, node=D.NAMES[v], got=got, expected=exp,
                                   why='identify_markov_boundary on the Skeleton differs from the neighbours'), note='skeleton markov boundary')
    for c in cases[:2000]:
        run.count(('mixed', c[0], tuple(c[1])), nontrivial=len(c[1]) >= 2)


ORDER_FNS = [('identify_markov_boundary', identify_markov_boundary, 1)]


def replay(run, path):
    _c = json.loads(open(path).read())
    if _c.get('kind') == 'order_dependence':
        return D.replay_order(run, _c, ORDER_FNS)
    c = _c
    if 'edit_steps' in c:
        g = D.replay_mixed_steps(c['n'], c['edit_steps'])
        ix = {D.NAMES[i]: i for i in range(c['n'])}
        got = sorted(ix[x] for x in identify_colliders(g, unshielded_only=c['unshielded_only']))
        exp = declarative_colliders(c['n'], [tuple(e) for e in c['mixed_edges']], c['unshielded_only'])
        print('colliders after the edit history', got, 'declarative', exp)
        if got != exp:
            run.violation(dict(c, got=got), note='colliders after edits')
        return 1 if run.violations else 0
    if 'mixed_edges' in c and 'node' in c:
        from cai_causal_graph.identify_utils import identify_markov_boundary
        mg = [tuple(e) for e in c['mixed_edges']]
        g = D.build_mixed(c['n'], mg)
        try:
            got = sorted(identify_markov_boundary(g.skeleton, c['node']))
        except Exception as e:  # noqa: BLE001
            got = f'raised {type(e).__name__}'
        print('skeleton markov boundary', got, 'expected', c['expected'])
        if got != c['expected']:
            run.violation(dict(c, got=got), note='skeleton markov boundary')
        return 1 if run.violations else 0
    if 'mixed_edges' in c:
        g = D.build_mixed(c['n'], [tuple(e) for e in c['mixed_edges']])
        ix = {D.NAMES[i]: i for i in range(c['n'])}
        got = sorted(ix[x] for x in identify_colliders(g, unshielded_only=c['unshielded_only']))
        exp = declarative_colliders(c['n'], [tuple(e) for e in c['mixed_edges']], c['unshielded_only'])
        if got != exp:
            run.violation(dict(c, got=got), note='colliders')
        print('colliders', got, 'expected', exp)
    else:
        S.replay_dag(run, path, 'C20')
    return 1 if run.violations else 0


def search(run, tier, seed):
    S.sweep_property(run, 'thorough', seed + 1, 'C20')
    return bool(run.violations)
