"""Correspondence of the GENERATED rollback mutators (coq/theories/MutGenRollback.v, written by
tools/translate_mutators.py: change_edge_type, replace_edge, delete_node, delete_edge) with the implementation: the same
generator and the same case format ([hcase], built by graph_hist.cq_case) as the history rows of histprops.py (C03),
evaluated by CorrMutGenRollback.gen_mismatches (every step that is one of the four methods is executed by the generated
code; outcome code + hash of the observation after every step are compared with what the library showed) and
CorrMutGenRollback.gen_last_agrees.

usage (stand-alone):  PYTHONPATH=<repo>:<verif> python -m harness.mutgencorr [n] [seed]
prints / returns the number of diverging histories (0 = the generated code answered exactly like the library)."""
from __future__ import annotations

import random
import sys

from . import common as C
from . import graph_hist as H
from . import histprops as HP

TRANSLATED = ('change_edge_type', 'replace_edge', 'delete_node', 'delete_edge')


def check_cases_against_generated(cases, chunk=40, tag='mutgen'):
    """-> list of (case index, first diverging step) of the GENERATED code against the implementation."""
    wd = C.workdir()
    files = []
    for i in range(0, len(cases), chunk):
        f = wd / f'{tag}_{i // chunk}.v'
        body = ';\n  '.join(H.cq_case(c) for c in cases[i:i + chunk])
        f.write_text(C.COQ_HEADER
                     + 'From CG Require Import Base Graph GraphObs Tok Names GraphTS CorrMutGenRollback.\n'
                     + 'From Coq Require Import Uint63.\nLocal Open Scope N_scope.\n'
                     + f'Definition cases : list hcase := [\n  {body}\n].\n'
                     + 'Eval vm_compute in (gen_mismatches cases).\n')
        files.append((i, f))
    mism = []
    for (base, f), (_, rc, out, err) in zip(files, C.run_coq_files([f for _, f in files])):
        if rc != 0:
            raise RuntimeError(f'coqc failed on {f}: {err[-2000:]}')
        for ci, si in C.parse_nat_pairs(out):
            mism.append((base + ci, si))
    return mism


def main(argv):
    n = int(argv[1]) if len(argv) > 1 else 120
    rng = random.Random(int(argv[2]) if len(argv) > 2 else 1)
    cases, steps, failing = [], 0, 0
    for i in range(n):
        kind = 'Plain' if i % 3 else 'TS'
        gen = H.Gen(rng, kind, error_seeking=(i % 2 == 0))
        c, _ = HP.run_history(rng, kind, rng.choice([6, 10, 14]), gen=gen, warm=(i % 4 == 0))
        steps += sum(1 for o in c['ops'] if o[0] in TRANSLATED)
        failing += sum(1 for o, code in zip(c['ops'], c['outcomes']) if code and o[0] in TRANSLATED)
        cases.append(c)
    bad = check_cases_against_generated(cases)
    print(f'mutgencorr: {n} histories, {steps} steps run by generated code ({failing} of them rejected calls), '
          f'diverging histories: {len(bad)}')
    for ci, si in bad[:5]:
        print('  case', ci, 'step', si, cases[ci]['ops'][si])
    return 1 if bad else 0


if __name__ == '__main__':
    sys.exit(main(sys.argv))
