"""Histories of public mutations on CausalGraph / TimeSeriesCausalGraph: generator, runner
against the real implementation, observation mirror of coq/theories/GraphObs.v, and the
emitter of Coq case files evaluated against the model (coq/theories/GraphTS.v)."""
from __future__ import annotations

import copy
import random
import re
from pathlib import Path

from cai_causal_graph import CausalGraph, TimeSeriesCausalGraph
from cai_causal_graph.graph_components import Edge, Node
from cai_causal_graph.type_definitions import EdgeType, NodeVariableType

from . import common as C

ET = {s: EdgeType(s) for s in C.ETYPES}
VT = {s: NodeVariableType(s) for s in C.VTYPES}

# ------------------------------------------------------------------------------------------
# applying one operation to the real implementation
# ------------------------------------------------------------------------------------------


def _mk_node(ep):
    name, attr = ep
    if attr is None:
        return name
    vt, meta = attr
    return Node(name, meta=copy.deepcopy(meta), variable_type=VT[vt])


_kw_calls = [0]


def _kw(**kw):
    """Keyword arguments for a call; on every other call the ones equal to the DOCUMENTED default are left out, so that the
    defaults themselves (validate=True, edge_type='->', meta=None, variable_type=unspecified) are exercised as well."""
    _kw_calls[0] += 1
    if _kw_calls[0] % 2:
        return kw
    out = {}
    for k, v in kw.items():
        if k == 'validate' and v is True:
            continue
        if k == 'meta' and v is None:
            continue
        if k == 'edge_type' and v == ET['->']:
            continue
        if k == 'variable_type' and v == VT['unspecified']:
            continue
        out[k] = v
    return out


def apply_op(g, op):
    """Apply op to the implementation graph; returns the error code (0 = no exception)."""
    k = op[0]
    try:
        if k == 'add_node':
            _, i, vt, m = op
            g.add_node(i, **_kw(variable_type=VT[vt], meta=copy.deepcopy(m)))
        elif k == 'add_node_obj':
            _, i, vt, m = op
            g.add_node(node=Node(i, meta=copy.deepcopy(m), variable_type=VT[vt]))
        elif k == 'add_node_vl':
            _, v, l, vt, m = op
            g.add_node(variable_name=v, time_lag=l, **_kw(variable_type=VT[vt], meta=copy.deepcopy(m)))
        elif k == 'add_nodes_from':
            g.add_nodes_from(list(op[1]))
        elif k == 'add_fully_connected':
            g.add_fully_connected_nodes(list(op[1]), list(op[2]))
        elif k == 'delete_node':
            (g.remove_node if op[2] else g.delete_node)(op[1])
        elif k == 'set_attr':
            # a node attribute edited IN PLACE through the Node handle (no graph mutator is called): for the model this is the
            # in-place form of replace_node; every cached / derived view must follow it all the same
            _, i, _new, _lag, _var, vt, m = op
            node = g.get_node(i)
            if vt is not None:
                node.variable_type = VT[vt]
            if m is not None:
                node.meta = copy.deepcopy(m)
        elif k == 'replace_node':
            _, i, new, lag, var, vt, m = op
            kw = {}
            if vt != 'DEFAULT':
                kw['variable_type'] = None if vt is None else VT[vt]
            if m is not None:
                kw['meta'] = copy.deepcopy(m)
            if lag is not None:
                kw['time_lag'] = lag
            if var is not None:
                kw['variable_name'] = var
            if new is not None:
                g.replace_node(i, new, **kw)
            else:
                g.replace_node(i, **kw)
        elif k == 'add_edge':
            _, sp, dp, ty, m, validate, form = op
            m = copy.deepcopy(m)
            if form == 'ids':
                g.add_edge(sp[0], dp[0], **_kw(edge_type=ET[ty], meta=m, validate=validate))
            elif form == 'pair':
                g.add_edge_by_pair((sp[0], dp[0]), **_kw(edge_type=ET[ty], meta=m, validate=validate))
            elif form == 'nodes':
                g.add_edge(_mk_node(sp), _mk_node(dp), **_kw(edge_type=ET[ty], meta=m, validate=validate))
            elif form == 'edgeobj':
                e = Edge(_mk_node(sp), _mk_node(dp), edge_type=ET[ty], meta=m)
                g.add_edge(edge=e, **_kw(validate=validate))
            else:
                raise RuntimeError(form)
        elif k == 'add_edges_from':
            g.add_edges_from([tuple(p) for p in op[1]], **_kw(validate=op[2]))
        elif k == 'add_path':
            g.add_edges_from_paths(list(op[1]), **_kw(validate=op[2]))
        elif k == 'add_paths':
            g.add_edges_from_paths([list(p) for p in op[1]])
        elif k == 'add_time_edge':
            _, sv, st, dv, dt, m, validate = op
            g.add_time_edge(sv, st, dv, dt, **_kw(meta=copy.deepcopy(m), validate=validate))
        elif k == 'delete_edge':
            _, s, d, oty, form = op
            et = None if oty is None else ET[oty]
            if form == 'delete_edge':
                g.delete_edge(s, d, edge_type=et)
            elif form == 'remove_edge':
                g.remove_edge(s, d, edge_type=et)
            else:
                g.remove_edge_by_pair((s, d), edge_type=et)
        elif k == 'change_edge_type':
            g.change_edge_type(op[1], op[2], ET[op[3]])
        elif k == 'replace_edge':
            _, s, d, s2, d2, oty, om = op
            g.replace_edge(s, d, s2, d2, edge_type=None if oty is None else ET[oty], meta=copy.deepcopy(om))
        else:
            raise RuntimeError(f'unknown op {k}')
    except Exception as e:  # noqa: BLE001
        return C.err_code(e), e
    return 0, None


# ------------------------------------------------------------------------------------------
# printing an operation as a Coq term (Graph.op)
# ------------------------------------------------------------------------------------------

def cq_endpoint(ep):
    name, attr = ep
    if attr is None:
        return f'({C.cq_name(name)}, None)'
    vt, meta = attr
    return f'({C.cq_name(name)}, Some ({C.cq_vtype(vt)}, {C.cq_meta(meta)}))'


def cq_ometa(m):
    return C.cq_opt(C.cq_meta, m)


def cq_op(op):
    k = op[0]
    n = C.cq_name
    if k == 'add_node':
        return f'OAddNode {n(op[1])} {C.cq_vtype(op[2])} {cq_ometa(op[3])}'
    if k == 'add_node_obj':
        return f'OAddNodeObj {n(op[1])} {C.cq_vtype(op[2])} {C.cq_meta(op[3])}'
    if k == 'add_node_vl':
        return f'OAddNodeVL {n(op[1])} {C.cq_Z(op[2])} {C.cq_vtype(op[3])} {cq_ometa(op[4])}'
    if k == 'add_nodes_from':
        return f'OAddNodesFrom {C.cq_names(op[1])}'
    if k == 'add_fully_connected':
        return f'OAddFullyConnected {C.cq_names(op[1])} {C.cq_names(op[2])}'
    if k == 'delete_node':
        return f'ODeleteNode {n(op[1])}'
    if k in ('replace_node', 'set_attr'):
        _, i, new, lag, var, vt, m = op
        vt_t = '(Some VUnspec)' if vt == 'DEFAULT' else C.cq_opt(C.cq_vtype, vt)
        return (f'OReplaceNode {n(i)} {C.cq_opt(n, new)} {C.cq_opt(C.cq_Z, lag)} {C.cq_opt(n, var)} '
                f'{vt_t} {cq_ometa(m)}')
    if k == 'add_edge':
        _, sp, dp, ty, m, validate, form = op
        if form == 'edgeobj' and m is None:
            m = {}
        return (f'OAddEdge {cq_endpoint(sp)} {cq_endpoint(dp)} {C.cq_etype(ty)} {cq_ometa(m)} '
                f'{C.cq_bool(validate)}')
    if k == 'add_edges_from':
        return (f'OAddEdgesFrom {C.cq_list(lambda p: C.cq_pair(n, n, p), op[1])} {C.cq_bool(op[2])}')
    if k == 'add_path':
        return f'OAddPath {C.cq_names(op[1])} {C.cq_bool(op[2])}'
    if k == 'add_paths':
        return f'OAddPaths {C.cq_list(C.cq_names, op[1])}'
    if k == 'add_time_edge':
        _, sv, st, dv, dt, m, validate = op
        return (f'OAddTimeEdge {n(sv)} {C.cq_Z(st)} {n(dv)} {C.cq_Z(dt)} {cq_ometa(m)} {C.cq_bool(validate)}')
    if k == 'delete_edge':
        return f'ODeleteEdge {n(op[1])} {n(op[2])} {C.cq_opt(C.cq_etype, op[3])}'
    if k == 'change_edge_type':
        return f'OChangeEdgeType {n(op[1])} {n(op[2])} {C.cq_etype(op[3])}'
    if k == 'replace_edge':
        _, s, d, s2, d2, oty, om = op
        return (f'OReplaceEdge {n(s)} {n(d)} {n(s2)} {n(d2)} {C.cq_opt(C.cq_etype, oty)} {cq_ometa(om)}')
    raise RuntimeError(k)


# ------------------------------------------------------------------------------------------
# observation of the implementation (mirror of GraphObs.observe)
# ------------------------------------------------------------------------------------------
TYPE_GETTERS = ['get_directed_edges', 'get_undirected_edges', 'get_bidirected_edges', 'get_unknown_edges',
                'get_unknown_directed_edges', 'get_unknown_undirected_edges']


def tk_edge(e):
    s, d = e.get_edge_pair()
    return C.tk_name(s) + C.tk_name(d) + C.tk_etype(e.get_edge_type()) + C.tk_meta(C.canon_json(e.meta))


def tk_key(e):
    s, d = e.get_edge_pair()
    return C.tk_name(s) + C.tk_name(d) + C.tk_etype(e.get_edge_type())


def tk_node3(n):
    return C.tk_name(n.identifier) + C.tk_vtype(n.variable_type) + C.tk_meta(C.canon_json(n.meta))


def _same_outcome(f1, f2):
    def run(f):
        try:
            return ('ok', f())
        except Exception as e:  # noqa: BLE001
            return ('err', type(e).__name__)
    return run(f1) == run(f2)


def obs_core(g, pool):
    t = C.tk_list(tk_node3, g.get_nodes())
    if [n.identifier for n in g.get_nodes()] != g.get_node_names() or [n.identifier for n in g.nodes] != g.get_node_names():
        t += [999]
    edges = g.get_edges()
    t += C.tk_list(tk_edge, edges)
    if [e.get_edge_pair() for e in g.edges] != g.get_edge_pairs() or [e.get_edge_pair() for e in edges] != g.get_edge_pairs():
        t += [999]
    for n in pool:
        t += C.tk_bool(g.node_exists(n))
        t += C.tk_list(tk_key, g.get_edges(source=n))
        t += C.tk_list(tk_key, g.get_edges(destination=n))
        t += C.tk_try(C.tk_names, lambda: sorted(g.get_parents(n)))
        t += C.tk_try(C.tk_names, lambda: sorted(g.get_children(n)))
        t += C.tk_try(C.tk_names, lambda: sorted(g.get_neighbors(n)))
        if not _same_outcome(lambda: sorted(x.identifier for x in g.get_parent_nodes(n)), lambda: sorted(g.get_parents(n))):
            t += [999]
        if not _same_outcome(lambda: sorted(x.identifier for x in g.get_neighbor_nodes(n)), lambda: sorted(g.get_neighbors(n))):
            t += [999]
        # item access and list-valued get_nodes are wrappers of get_node
        if not _same_outcome(lambda: g[n].identifier, lambda: g.get_node(n).identifier) or \
                (g.node_exists(n) and [x.identifier for x in g.get_nodes([n])] != [n]):
            t += [999]
    t += C.tk_names([n.identifier for n in g.get_inputs()])
    t += C.tk_names([n.identifier for n in g.get_outputs()])
    for getter in TYPE_GETTERS:
        t += C.tk_list(tk_key, getattr(g, getter)())
    t += C.tk_list(tk_key, g.get_nondirected_edges())
    for s in pool:
        for d in pool:
            t += C.tk_bool(g.is_edge_by_pair((s, d)))
            t += [C.mask_of([g.edge_exists(s, d, edge_type=ET[x]) for x in C.ETYPES])]
            t += C.tk_try(C.tk_etype, lambda: g.get_edge(s, d).get_edge_type())
            if g.edge_exists(s, d) != g.is_edge_by_pair((s, d)) or not _same_outcome(
                    lambda: g.get_edge_by_pair((s, d)).get_edge_type(), lambda: g.get_edge(s, d).get_edge_type()):
                t += [999]
            if not _same_outcome(lambda: g[(s, d)].get_edge_type(), lambda: g.get_edge(s, d).get_edge_type()):
                t += [999]
            # the typed form of get_edge answers exactly when the typed existence check does
            for x in C.ETYPES[:3]:
                try:
                    ok = g.get_edge(s, d, edge_type=ET[x]).get_edge_type() == ET[x]
                except Exception:  # noqa: BLE001
                    ok = False
                if ok != g.edge_exists(s, d, edge_type=ET[x]):
                    t += [999]
    if dict(g) != g.to_dict():
        t += [999]
    return t


def obs_private(g):
    ent = []
    for dst, dd in g._edges_by_destination.items():
        for src, e in dd.items():
            ent.append((src, dst, str(e.get_edge_type())))
    ent.sort(key=lambda x: (x[0], x[1]))
    t = C.tk_list(lambda x: C.tk_name(x[0]) + C.tk_name(x[1]) + C.tk_etype(x[2]), ent)
    for n in g.get_nodes():
        t += C.tk_names(sorted(e._source.identifier for e in n._inbound_edges))
        t += C.tk_names(sorted(e._destination.identifier for e in n._outbound_edges))
    return t


def obs_ts(g, pool, lags, vars_):
    t = []
    for n in g.get_nodes():
        v = n.meta.get('variable_name')
        l = n.meta.get('time_lag')
        t += C.tk_opt(C.tk_name, v if isinstance(v, str) else None)
        t += C.tk_opt(C.tk_Z, l if isinstance(l, int) and not isinstance(l, bool) else None)
    for l in lags:
        t += C.tk_names([x.identifier for x in g.get_nodes_at_lag(l)])
    for v in vars_:
        t += C.tk_names([x.identifier for x in g.get_nodes_for_variable_name(v)])
    for n in pool:
        t += C.tk_try(C.tk_names, lambda: [x.identifier for x in g.get_contemporaneous_nodes(n)])
    t += C.tk_try(C.tk_names, lambda: g.variables)
    t += C.tk_try(C.tk_names, lambda: g.get_all_variable_names())
    t += C.tk_try(lambda o: C.tk_opt(C.tk_Z, o), lambda: g.max_backward_lag)
    t += C.tk_try(lambda o: C.tk_opt(C.tk_Z, o), lambda: g.max_forward_lag)
    lag_ent = sorted(((l, n.identifier) for l, ns in g._lag_to_nodes.items() for n in ns), key=lambda x: x[1])
    var_ent = sorted(((v, n.identifier) for v, ns in g._variable_name_to_nodes.items() for n in ns), key=lambda x: x[1])
    t += C.tk_list(lambda x: C.tk_Z(x[0]) + C.tk_name(x[1]), lag_ent)
    t += C.tk_list(lambda x: C.tk_name(x[0]) + C.tk_name(x[1]), var_ent)
    return t


def observe(g, kind, pool, lags, vars_):
    t = obs_core(g, pool) + obs_private(g)
    if kind == 'TS':
        t += obs_ts(g, pool, lags, vars_)
    return t


# cached readers used to warm caches between operations (their results are not compared here)
def warm_caches(g, rng, p=0.4):
    """Call a random subset of the cached / derived readers (results are not compared here): every state-based check interleaves
    this with its mutations so that a cache that is not invalidated along some path shows up as a wrong later answer."""
    readers = ['is_dag', 'to_networkx', 'adjacency_matrix', 'to_numpy', 'identifier', 'is_empty', 'to_gml_string',
               'get_topological_order', 'to_dict', 'get_node_names', 'get_edge_pairs']
    if isinstance(g, TimeSeriesCausalGraph):
        readers += ['variables', 'is_minimal_graph', 'is_stationary_graph', 'adjacency_matrices', 'max_backward_lag',
                    'max_forward_lag', 'maxlag', 'get_minimal_graph', 'get_summary_graph', 'get_all_variable_names']
    for r in readers:
        if rng.random() < p:
            try:
                a = getattr(g, r)
                if callable(a):
                    a()
            except Exception:  # noqa: BLE001
                pass
    if rng.random() < p:
        try:
            sk = g.skeleton
            sk.edges, sk.nodes, sk.adjacency_matrix, sk.to_networkx(), sk.get_edge_pairs()
        except Exception:  # noqa: BLE001
            pass


# ------------------------------------------------------------------------------------------
# generator
# ------------------------------------------------------------------------------------------
METAS = [None, None, None, {}, {'a': 1}, {'w': [1, {'x': None}], 'b': True}, {'color': 'red', 'n': -3}, {'unit': None},
         {'k': None, 'z': 0, 'e': '', 'f': False, 'l': [], 'd': {}}]
PLAIN_POOL = ['a', 'b', 'c', 'd', 'e']
HOSTILE = ['X\n', 'a b', 'é', 'lag', 'node_1', '']


def ts_name(v, l):
    if l == 0:
        return v
    return f'{v} future(n={l})' if l > 0 else f'{v} lag(n={-l})'


class Gen:
    def __init__(self, rng: random.Random, kind: str, error_seeking: bool = False):
        self.rng, self.kind, self.err = rng, kind, error_seeking
        if kind == 'Plain':
            self.pool = list(PLAIN_POOL)
            if rng.random() < 0.2:
                self.pool[rng.randrange(len(self.pool))] = rng.choice(HOSTILE[:5])
            self.vars, self.lags = [], []
            self.bad = []
        else:
            nv = rng.choice([2, 2, 3])
            self.vars = ['x', 'y', 'z'][:nv]
            if rng.random() < 0.12:
                self.vars = ['X2', 'X10', 'X9'][:nv]       # natural vs lexicographic order
            if rng.random() < 0.15:
                self.vars[0] = rng.choice(['X 1', 'lag', 'v\n'])
            self.lags = [-2, -1, 0, 1, 2] if rng.random() < 0.5 else [-1, 0, 1]
            allp = [ts_name(v, l) for v in self.vars for l in self.lags]
            rng.shuffle(allp)
            self.pool = allp[:6]
            self.bad = ['x lag(n=1) lag(n=2)', 'y lag(n=1) future(n=1)', 'x lag(n=0)', 'x lag(n=01)']

    def name(self):
        r = self.rng
        if self.kind == 'TS' and r.random() < 0.04:
            return r.choice(self.bad)
        return r.choice(self.pool)

    def meta(self):
        if self.kind == 'TS' and self.rng.random() < 0.12:
            # user metadata that itself carries the two reserved time-series tags (e.g. copied from another node): the class
            # must let the identifier win
            return copy.deepcopy(self.rng.choice([{'time_lag': 7}, {'variable_name': 'q', 'time_lag': -3, 'u': 1},
                                                  {'variable_name': 'x'}, {'time_lag': 0, 'variable_name': 'y lag(n=1)'}]))
        return copy.deepcopy(self.rng.choice(METAS))

    def ety(self):
        r = self.rng
        return '->' if r.random() < 0.55 else r.choice(C.ETYPES[1:])

    def vt(self):
        return self.rng.choice(C.VTYPES)

    def endpoint(self, with_attr):
        n = self.name()
        if with_attr:
            return (n, (self.vt(), self.meta() or {}))
        return (n, None)

    def existing_edge(self, g):
        es = g.get_edge_pairs()
        if es and self.rng.random() < 0.85:
            return self.rng.choice(es)
        return (self.name(), self.name())

    def op(self, g):
        r = self.rng
        x = r.random()
        validate = r.random() < 0.92
        if x < 0.10:
            return ('add_node', self.name(), self.vt(), self.meta())
        if x < 0.13:
            return ('add_node_obj', self.name(), self.vt(), self.meta() or {})
        if x < 0.16 and self.kind == 'TS':
            v = r.choice(self.vars + ['x lag(n=1)'])
            return ('add_node_vl', v, r.choice(self.lags), self.vt(), self.meta())
        if x < 0.19:
            return ('add_nodes_from', [self.name() for _ in range(r.randint(0, 3))])
        if x < 0.22:
            return ('add_fully_connected', [self.name() for _ in range(r.randint(0, 2))],
                    [self.name() for _ in range(r.randint(0, 2))])
        if x < 0.29:
            return ('delete_node', self.name(), r.random() < 0.5)
        if x < 0.315 and g.get_node_names():
            i = r.choice(g.get_node_names())
            if self.kind == 'Plain' and r.random() < 0.4:
                return ('set_attr', i, None, None, None, r.choice([None, self.vt()]), self.meta() or {})
            return ('set_attr', i, None, None, None, self.vt(), None)
        if x < 0.39:
            i = self.name()
            mode = r.random()
            vt = r.choice(['DEFAULT', None, self.vt()])
            if mode < 0.35:
                return ('replace_node', i, None, None, None, vt, self.meta())
            if mode < 0.75 or self.kind == 'Plain':
                return ('replace_node', i, self.name(), None, None, vt, self.meta())
            lag = r.choice([None] + self.lags)
            var = r.choice([None, None] + self.vars)
            new = self.name() if r.random() < 0.1 else None
            return ('replace_node', i, new, lag, var, vt, self.meta())
        if x < 0.66:
            form = r.choice(['ids', 'ids', 'pair', 'nodes', 'edgeobj'])
            attr = form in ('nodes', 'edgeobj')
            return ('add_edge', self.endpoint(attr), self.endpoint(attr), self.ety(), self.meta(), validate, form)
        if x < 0.69:
            return ('add_edges_from', [(self.name(), self.name()) for _ in range(r.randint(0, 3))], validate)
        if x < 0.73:
            return ('add_path', [self.name() for _ in range(r.randint(0, 4))], validate)
        if x < 0.75:
            return ('add_paths', [[self.name() for _ in range(r.randint(0, 3))] for _ in range(r.randint(0, 2))])
        if x < 0.79 and self.kind == 'TS':
            return ('add_time_edge', r.choice(self.vars), r.choice(self.lags), r.choice(self.vars),
                    r.choice(self.lags), self.meta(), validate)
        if x < 0.87:
            s, d = self.existing_edge(g)
            if r.random() < 0.15:
                s, d = d, s
            oty = None if r.random() < 0.6 else self.ety()
            return ('delete_edge', s, d, oty, r.choice(['delete_edge', 'remove_edge', 'remove_edge_by_pair']))
        if x < 0.94:
            s, d = self.existing_edge(g)
            if r.random() < 0.1:
                s, d = d, s
            return ('change_edge_type', s, d, self.ety())
        s, d = self.existing_edge(g)
        return ('replace_edge', s, d, self.name(), self.name(), r.choice([None, None, self.ety()]), self.meta())


def new_graph(kind):
    return CausalGraph() if kind == 'Plain' else TimeSeriesCausalGraph()


def gen_history(rng, kind, length, error_seeking=False, warm=True):
    """Generate a history by driving the real implementation; returns a case dict."""
    gen = Gen(rng, kind, error_seeking)
    g = new_graph(kind)
    ops, expected, outcomes = [], [], []
    for _ in range(length):
        op = gen.op(g)
        if warm:
            warm_caches(g, rng)
        code, _ = apply_op(g, op)
        ops.append(op)
        outcomes.append(code)
        expected.append((code, C.hash_tokens(observe(g, kind, gen.pool, gen.lags, gen.vars))))
    return dict(kind=kind, ops=ops, pool=gen.pool, lags=gen.lags, vars=gen.vars, expected=expected,
                outcomes=outcomes)


def replay_history(case, upto=None, warm_rng=None):
    """Re-run a stored history on the implementation; returns (graph, [(code, hash)], [tokens])."""
    g = new_graph(case['kind'])
    out, toks = [], []
    for op in case['ops'][:upto]:
        if warm_rng is not None:
            warm_caches(g, warm_rng)
        code, _ = apply_op(g, _tup(op))
        t = observe(g, case['kind'], case['pool'], case['lags'], case['vars'])
        out.append((code, C.hash_tokens(t)))
        toks.append(t)
    return g, out, toks


def _tup(op):
    """JSON round trip turns tuples into lists; normalise back."""
    def fix(x):
        if isinstance(x, list):
            return [fix(y) for y in x]
        return x
    op = list(op)
    k = op[0]
    if k == 'add_edge':
        for i in (1, 2):
            ep = op[i]
            op[i] = (ep[0], None if ep[1] is None else (ep[1][0], ep[1][1]))
    if k == 'add_edges_from':
        op[1] = [tuple(p) for p in op[1]]
    return tuple(op)


def cq_case(case):
    exp = '[' + '; '.join(f'({c}, {h}%uint63)' for c, h in case['expected']) + ']'
    return ('{| hc_kind := %s; hc_ops := %s; hc_pool := %s; hc_lags := %s; hc_vars := %s; hc_expected := %s |}'
            % (case['kind'], C.cq_list(lambda o: '(' + cq_op(_tup(o)) + ')', case['ops']), C.cq_names(case['pool']),
               C.cq_list(C.cq_Z, case['lags']), C.cq_names(case['vars']), exp))


def write_case_file(path: Path, cases):
    body = ';\n  '.join(cq_case(c) for c in cases)
    path.write_text(
        C.COQ_HEADER
        + 'From CG Require Import Base Graph GraphObs Tok Names GraphTS.\nFrom Coq Require Import Uint63.\n'
        + 'Local Open Scope N_scope.\n'
        + f'Definition cases : list hcase := [\n  {body}\n].\n'
        + 'Eval vm_compute in (mismatches cases).\n')


def check_cases_against_model(cases, chunk=40, tag='hist'):
    """Evaluate the model on every case inside Coq; returns list of (case index, step index)."""
    wd = C.workdir()
    files = []
    for i in range(0, len(cases), chunk):
        f = wd / f'{tag}_{i // chunk}.v'
        write_case_file(f, cases[i:i + chunk])
        files.append((i, f))
    res = C.run_coq_files([f for _, f in files])
    mism = []
    for (base, f), (_, rc, out, err) in zip(files, res):
        if rc != 0:
            raise RuntimeError(f'coqc failed on {f}: {err[-2000:]}')
        for ci, si in C.parse_nat_pairs(out):
            mism.append((base + ci, si))
    return mism


def model_tokens(case, upto):
    """Full observation tokens of the model after the first `upto` operations (diagnosis)."""
    wd = C.workdir()
    f = wd / 'diag.v'
    sub = dict(case)
    f.write_text(
        C.COQ_HEADER
        + 'From CG Require Import Base Graph GraphObs Tok Names GraphTS.\nLocal Open Scope N_scope.\n'
        + 'Eval vm_compute in (g_run_tokens %s (empty_graph []) %s %s %s %s).\n'
        % (case['kind'], C.cq_list(lambda o: '(' + cq_op(_tup(o)) + ')', case['ops'][:upto]),
           C.cq_names(case['pool']), C.cq_list(C.cq_Z, case['lags']), C.cq_names(case['vars'])))
    r = C.coqc(f)
    if r.returncode != 0:
        raise RuntimeError(r.stderr[-2000:])
    blocks = C.parse_eval_blocks(r.stdout)
    return C.parse_N_list(blocks[0])
