"""Correspondence between the Gallina code that tools/translate_traversal.py GENERATES from causal_graph.py on every run
(TraversalGen.v: _assert_node_does_not_depend_on_itself, get_nodes_between with its memoised helper, directed_path_exists)
and the real methods: the generated definitions are evaluated inside Coq on the graphs the implementation ran (DAGs, mixed
graphs over all six edge types, directed cycles built with validate=False, unknown identifiers) and every answer is compared —
results, exception classes, and the inputs on which Python recurses without end.  A disagreement is a broken correspondence;
the declarative clauses below (brute force over the edge list) turn it into a failing input where they can."""
from __future__ import annotations

import random
import sys

from cai_causal_graph import CausalGraph
from cai_causal_graph.type_definitions import EdgeType

from . import common as C
from . import dagsweep as D

CODES = {'KeyError': 2, 'AssertionError': 6, 'IndexError': 7}


def build(n, edges):
    g = CausalGraph()
    g.add_nodes_from([str(i) for i in range(n)])
    for s, d, t in edges:
        g.add_edge(str(s), str(d), edge_type=EdgeType(t), validate=False)
    return g


def tok(thunk, kind):
    try:
        r = thunk()
    except RecursionError:
        return [2]
    except Exception as e:  # noqa: BLE001
        name = type(e).__name__
        if name not in CODES:
            raise
        return [1, CODES[name]]
    if kind == 'none':
        return [0]
    if kind == 'bool':
        return [0, 1 if r else 0]
    return [0] + sorted(int(x.identifier) for x in r)


def answers(n, edges):
    g = build(n, edges)
    ids = [str(i) for i in range(n + 1)]          # the last one is not in the graph
    old = sys.getrecursionlimit()
    sys.setrecursionlimit(400)
    try:
        cyc = [tok(lambda v=v: g._assert_node_does_not_depend_on_itself(v), 'none') for v in ids]
        dpe = [[tok(lambda a=a, b=b: g.directed_path_exists(a, b), 'bool') for b in ids] for a in ids]
        nb = [[tok(lambda a=a, b=b: g.get_nodes_between(a, b), 'set') for b in ids] for a in ids]
    finally:
        sys.setrecursionlimit(old)
    return cyc, dpe, nb


def gen_case(rng):
    r = rng.random()
    n = rng.choice([2, 3, 4, 4, 5, 5, 6])
    if r < 0.35:
        edges = [(a, b, '->') for a, b in D.random_dag(rng, n)]
    elif r < 0.7:
        edges = D.random_mixed(rng, n, C.ETYPES)
    else:                                          # directed graphs that may contain cycles (only reachable with validate=False)
        edges = [(a, b, rng.choice(['->', '->', '->', '--', '<>'])) for a in range(n) for b in range(n)
                 if a < b and rng.random() < 0.5]
        edges = [(b, a, t) if rng.random() < 0.35 else (a, b, t) for a, b, t in edges]
        rng.shuffle(edges)
    return n, [tuple(e) for e in edges]


def cq_l(l):
    return '[' + '; '.join(map(str, l)) + ']'


def cq_ll(l):
    return '[' + '; '.join(cq_l(x) for x in l) + ']'


def cq_lll(l):
    return '[' + '; '.join(cq_ll(x) for x in l) + ']'


PRELUDE = '''From CG Require Import Base PyRt Markov CorrIdentifyGen CorrTraversalBase MODULE.
Fixpoint leq (a b : list nat) : bool := match a, b with [], [] => true | x :: a', y :: b' => Nat.eqb x y && leq a' b' | _, _ => false end.
Fixpoint lleq (a b : list (list nat)) : bool := match a, b with [], [] => true | x :: a', y :: b' => leq x y && lleq a' b' | _, _ => false end.
Fixpoint llleq (a b : list (list (list nat))) : bool := match a, b with [], [] => true | x :: a', y :: b' => lleq x y && llleq a' b' | _, _ => false end.
Definition ok (c : nat * list (nat * nat * etype) * list (list nat) * list (list (list nat)) * list (list (list nat))) : nat :=
  let '(n, es, e1, e2, e3) := c in
  BODY.
'''
BODY = {'C02': '(if lleq (map (ctgt_assert_no_self_dependency n es) (seq 0 (S n))) e1 then 0 else 1)',
        'C10': '(if llleq (map (fun a => map (ctgt_directed_path_exists n es a) (seq 0 (S n))) (seq 0 (S n))) e2 then 0 else 2)\n'
               '  + (if llleq (map (fun a => map (ctgt_nodes_between n es a) (seq 0 (S n))) (seq 0 (S n))) e3 then 0 else 4)'}
MODULE = {'C02': 'CorrTraversalGenCyc', 'C10': 'CorrTraversalGenQ'}


def declarative(n, edges):
    """brute force from the edge list: reachability over '->' edges only"""
    arcs = [(s, d) for s, d, t in edges if t == '->']
    reach = {v: set() for v in range(n)}
    ch = True
    while ch:
        ch = False
        for a, b in arcs:
            new = {b} | reach[b]
            if not new <= reach[a]:
                reach[a] |= new
                ch = True
    return arcs, reach


def explain(pid, n, edges, which, got):
    """the property's clause on the implementation's answers; returns a description of a failing input or None"""
    arcs, reach = declarative(n, edges)
    cyc, dpe, nb = got
    show = [(str(s), str(d), t) for s, d, t in edges]
    if pid == 'C02' and which & 1:
        for v in range(n):
            exp = [1, 6] if v in reach[v] else [0]
            if cyc[v] != exp:
                return (f'_assert_node_does_not_depend_on_itself({str(v)!r}) on edges {show}: '
                        f'{"raised" if cyc[v] != [0] else "returned"} although the node is {"" if v in reach[v] else "not "}on a directed cycle')
    if pid == 'C10':
        fully_directed_dag = all(t == '->' for _, _, t in edges) and all(v not in reach[v] for v in range(n))
        if which & 2:
            for a in range(n):
                for b in range(n):
                    if dpe[a][b] == [2]:
                        continue                      # unbounded recursion on a directed cycle: outside the property's quantifier
                    exp = [0, 1 if b in reach[a] else 0]
                    if dpe[a][b] != exp:
                        return f'directed_path_exists({str(a)!r}, {str(b)!r}) = {dpe[a][b]} on edges {show}, a directed path {"exists" if b in reach[a] else "does not exist"}'
        if which & 4 and fully_directed_dag:
            for a in range(n):
                for b in range(n):
                    on = sorted(v for v in range(n) if (v == a or v in reach[a]) and (v == b or b in reach[v])) if (a == b or b in reach[a]) else []
                    if nb[a][b] != [0] + on:
                        return f'get_nodes_between({str(a)!r}, {str(b)!r}) = {nb[a][b][1:]} on edges {show}, the nodes on directed paths are {on}'
    return None


def traversal_correspondence(run, pid, tier, seed):
    import os
    if os.environ.get('VERIF_TRANSLATOR_REFUSED') == '1':      # main.py: the translator refused the current source; nothing generated to evaluate
        run.coverage['translated_source_cases'] = 0
        return
    rng = random.Random(seed + 1409)
    ncase = 220 if tier == 'quick' else 3000
    cases = [gen_case(rng) for _ in range(ncase)]
    got = [answers(n, e) for n, e in cases]
    wd = C.workdir()
    files = []
    chunk = 110 if tier == 'quick' else 250
    for i in range(0, ncase, chunk):
        f = wd / f'trav_{pid.lower()}_{i // chunk}.v'
        rows = []
        for (n, es), (cyc, dpe, nb) in zip(cases[i:i + chunk], got[i:i + chunk]):
            e = '[' + '; '.join(f'({s}, {d}, {C.cq_etype(t)})' for s, d, t in es) + ']'
            rows.append(f'({n}, {e}, {cq_ll(cyc)}, {cq_lll(dpe)}, {cq_lll(nb)})')
        f.write_text(C.COQ_HEADER + PRELUDE.replace('MODULE', MODULE[pid]).replace('BODY', BODY[pid]) + 'Definition cs := [\n ' + ';\n '.join(rows) + '\n].\n'
                     'Eval vm_compute in (map (fun c => N.of_nat (ok c)) cs).\n')
        files.append((i, f))
    bad = []
    detail = ''
    try:
        for (base, f), (_, rc, so, se) in zip(files, C.run_coq_files([f for _, f in files], timeout=1800)):
            if rc != 0:
                detail = f'the generated definitions could not be evaluated: {se[-400:]}'
                bad.append(None)
                break
            for j, w in enumerate(C.parse_N_list(C.parse_eval_blocks(so)[0])):
                if w:
                    bad.append((base + j, w))
    except Exception as e:  # noqa: BLE001
        detail = f'{type(e).__name__}: {e}'[:400]
        bad.append(None)
    mine = {'C02': 1, 'C10': 6}[pid]
    relevant = [b for b in bad if b is None or b[1] & mine]
    for b in [b for b in relevant if b][:20]:
        i, w = b
        why = explain(pid, cases[i][0], cases[i][1], w, got[i])
        if why:
            run.violation(dict(kind='traversal', n=cases[i][0], typed_edges=[list(e) for e in cases[i][1]], why=why,
                               replay_cmd=f'./check {pid} --replay <this file>'), note=why[:200])
            break
    kinds = dict(dag=sum(1 for n, e in cases if all(t == '->' for _, _, t in e)), total=ncase,
                 recursion_without_end=sum(1 for g in got for row in g[1] for t in row if t == [2]),
                 assertion_raised=sum(1 for g in got for t in g[0] if t == [1, 6]))
    run.coverage['translated_traversal_cases'] = kinds
    what = {'C02': '_assert_node_does_not_depend_on_itself', 'C10': 'get_nodes_between / directed_path_exists'}[pid]
    run.oblige(f'correspondence: translated causal_graph.py ({what}, {MODULE[pid].replace('Corr', '')}.v) == implementation on {ncase} graphs, every node / ordered pair '
               f'and an unknown identifier', not relevant,
               detail or (f'first disagreement: n={cases[relevant[0][0]][0]} edges={cases[relevant[0][0]][1]} part={relevant[0][1]}'[:480] if relevant else ''))


def replay(run, pid, c):
    n, edges = c['n'], [tuple(e) for e in c['typed_edges']]
    got = answers(n, edges)
    why = explain(pid, n, edges, 7, got)
    print('declarative clause:', why)
    if why:
        run.violation(dict(c, why=why), note=why[:200])
    return 1 if run.violations else 0
