"""Correspondence between the Gallina code that tools/translate_identify.py GENERATES from identify_utils.py on every run
(IdentifyGenConf / IM / MB) and the real functions: validates the translator's runtime table (PyRt.v) — the generated
definitions are evaluated inside Coq under two set-iteration orders on the cases the implementation ran (results, exception
classes, the max_num_paths limit, unknown / equal nodes)."""
from __future__ import annotations

import random

from cai_causal_graph import CausalGraph
from cai_causal_graph.identify_utils import (identify_colliders, identify_confounders, identify_instruments,
                                              identify_markov_boundary, identify_mediators)
from cai_causal_graph.type_definitions import EdgeType

from . import common as C
from . import dagsweep as D

EXC = {'TypeError': 'PyTypeError', 'ValueError': 'PyValueError', 'KeyError': 'PyKeyError', 'NodeDoesNotExistError': 'PyNodeDoesNotExistError',
       'EdgeDoesNotExistError': 'PyEdgeDoesNotExistError', 'NetworkXError': 'PyNetworkXError'}
FILES = {'C18': ('CorrIdentifyGenConf', 'cig_check_dag_conf'), 'C19': ('CorrIdentifyGenIM', 'cig_check_dag_im'), 'C20': ('CorrIdentifyGenMB', 'cig_check_dag_mb')}


def out(thunk, ix):
    try:
        return 'Ret ' + D.cq_nats(sorted(ix[v] for v in thunk()))
    except Exception as e:  # noqa: BLE001
        name = type(e).__name__
        if name not in EXC:
            raise
        return 'Exc ' + EXC[name]


def dag_case(rng):
    n = rng.choice([3, 4, 4, 5, 5, 6, 7])
    arcs = D.random_dag(rng, n)
    N = D.NAMES
    g = CausalGraph()
    g.add_nodes_from([N[i] for i in range(n)])
    for a, b in arcs:
        g.add_edge(N[a], N[b])
    ix = {N[i]: i for i in range(n)}
    x, y = rng.randrange(n), rng.randrange(n)
    r = rng.random()
    if r < 0.05:
        y = x                                    # equal nodes
    nx_, ny_ = N[x], N[y]
    if 0.05 <= r < 0.1:
        y, ny_ = n + 2, 'zz'                     # unknown node
    mx = rng.choice([25, 25, 25, 0, 1, 2, 3])
    ec = out(lambda: identify_confounders(g, nx_, ny_), ix)
    ei = out(lambda: identify_instruments(g, nx_, ny_, max_num_paths=mx), ix)
    em = out(lambda: identify_mediators(g, nx_, ny_, max_num_paths=mx), ix)
    emb = out(lambda: identify_markov_boundary(g, nx_), ix)
    arcs_s = '[' + '; '.join(f'({a}, {b})' for a, b in arcs) + ']'
    return f'({n}, {arcs_s}, {x}, {y}, {mx}, ({ec}, {ei}, {em}), {emb})', dict(n=n, arcs=arcs, x=x, y=y, max_num_paths=mx)


def mixed_case(rng):
    n = rng.choice([3, 4, 5])
    mg = D.random_mixed(rng, n, C.ETYPES)
    g = D.build_mixed(n, mg)
    ix = {D.NAMES[i]: i for i in range(n)}
    e1 = out(lambda: identify_colliders(g), ix)
    e2 = out(lambda: identify_colliders(g, unshielded_only=True), ix)
    es = '[' + '; '.join(f'({s}, {d}, {C.cq_etype(t)})' for s, d, t in mg) + ']'
    return f'({n}, {es}, {e1}, {e2})', dict(n=n, mixed_edges=mg)


def explain(pid, info):
    """the property's declarative clause on one DAG case (independent of the translation): returns a description or None"""
    from .refdefs import closure, simple_paths
    n, arcs, x, y, mx = info['n'], info['arcs'], info['x'], info['y'], info['max_num_paths']
    if pid != 'C19' or x == y or y >= n:
        return None
    N = D.NAMES
    g = CausalGraph()
    g.add_nodes_from([N[i] for i in range(n)])
    for a, b in arcs:
        g.add_edge(N[a], N[b])
    ix = {N[i]: i for i in range(n)}
    reach = closure(n, arcs)
    try:
        got = sorted(ix[v] for v in identify_mediators(g, N[x], N[y], max_num_paths=mx))
    except Exception:  # noqa: BLE001  (the documented ValueError beyond the path limit is an allowed outcome)
        return None
    if x in reach[y]:
        exp = []
    else:
        paths = [p for p in simple_paths(n, arcs, x, y) if len(p) > 2]
        if not paths:
            exp = []
        else:
            cand = set.intersection(*[set(p) - {x, y} for p in paths])
            conf = [ix[v] for v in identify_confounders(g, N[x], N[y])]
            pruned = closure(n, [(a, b) for a, b in arcs if a != x])
            exp = sorted(m for m in cand if not any(m in pruned[z] for z in conf))
    if got != exp:
        return (f'identify_mediators({N[x]!r},{N[y]!r}, max_num_paths={mx}) = {[N[v] for v in got]} on edges {[(N[a], N[b]) for a, b in arcs]}, '
                f'the nodes inside every directed path (and not reached by a confounder) are {[N[v] for v in exp]}')
    return None


def gen_correspondence(run, pid, tier, seed):
    import os
    if os.environ.get('VERIF_TRANSLATOR_REFUSED') == '1':      # main.py: the translator refused the current source; nothing generated to evaluate
        run.coverage['translated_source_cases'] = 0
        return
    rng = random.Random(seed + 977)
    ncase = 250 if tier == 'quick' else 3000
    mod, fn = FILES[pid]
    rows, infos = zip(*[dag_case(rng) for _ in range(ncase)])
    wd = C.workdir()
    files = []
    chunk = 250
    for i in range(0, len(rows), chunk):
        f = wd / f'gen_{pid.lower()}_{i // chunk}.v'
        body = ';\n '.join(rows[i:i + chunk])
        f.write_text(C.COQ_HEADER + f'From CG Require Import Base PyRt CorrIdentifyGen {mod}.\n'
                     f'Definition cs := [\n {body}\n].\n'
                     'Fixpoint bad (i : nat) (l : list _) : list nat := match l with [] => [] | c :: t => '
                     f'if {fn} pyorder_id c && {fn} pyorder_alt c then bad (S i) t else i :: bad (S i) t end.\n'
                     'Eval vm_compute in (map N.of_nat (bad 0 cs)).\n')
        files.append((i, f))
    mixed_rows, mixed_infos = [], []
    if pid == 'C20':
        mixed_rows, mixed_infos = map(list, zip(*[mixed_case(rng) for _ in range(ncase)]))
        f = wd / 'gen_c20_mixed.v'
        f.write_text(C.COQ_HEADER + f'From CG Require Import Base PyRt CorrIdentifyGen {mod}.\n'
                     'Definition cs := [\n ' + ';\n '.join(mixed_rows) + '\n].\n'
                     'Fixpoint bad (i : nat) (l : list _) : list nat := match l with [] => [] | c :: t => '
                     'if cig_check_mixed pyorder_id c && cig_check_mixed pyorder_alt c then bad (S i) t else i :: bad (S i) t end.\n'
                     'Eval vm_compute in (map N.of_nat (bad 0 cs)).\n')
        files.append((-1, f))
    bad = []
    detail = ''
    try:
        for (base, f), (_, rc, so, se) in zip(files, C.run_coq_files([f for _, f in files], timeout=1800)):
            if rc != 0:
                detail = f'the generated definitions could not be evaluated: {se[-400:]}'
                bad.append(None)
                break
            for j in C.parse_N_list(C.parse_eval_blocks(so)[0]):
                bad.append(mixed_infos[j] if base == -1 else infos[base + j])
    except Exception as e:  # noqa: BLE001
        detail = f'{type(e).__name__}: {e}'[:400]
        bad.append(None)
    # a disagreement is a broken correspondence; turn it into a failing input where the property's own clause can be evaluated
    for info in [b for b in bad if b and 'arcs' in b][:20]:
        why = explain(pid, info)
        if why:
            run.violation(dict(info, why=why), note=why[:200])
            break
    run.coverage['translated_source_cases'] = len(rows) + len(mixed_rows)
    run.oblige(f'correspondence: translated identify_utils.py ({mod}) == implementation on {len(rows) + len(mixed_rows)} cases, two set-iteration orders',
               not bad, detail or (f'first disagreement: {bad[0]!r}'[:480] if bad else ''))
