"""Common driver of the DAG-sweep properties C10 C11 C18 C19 C20."""
from __future__ import annotations

import json
import random

from . import common as C
from . import dagsweep as D

IDX = {'C10': 0, 'C11': 1, 'C18': 2, 'C19': 3, 'C20': 4}
# result vector layout (CorrDag.check_dcase): cmp[5], topo_ok, dsets_ok, insufficient-mask, conf_anc, inst_ok, mb_ok
PRED = {'C10': [(5, 'the default topological order is not a topological order of the graph')],
        'C11': [(6, 'get_d_separation_set returned a set that is not a minimal d-separator of a non-adjacent pair')],
        'C18': [(8, 'identify_confounders returned a node that is not a common ancestor')],
        'C19': [(9, 'identify_instruments returned a node violating the instrument criterion')],
        'C20': [(10, 'identify_markov_boundary does not shield its node or is not minimal')]}


def names(arcs):
    return [(D.NAMES[a], D.NAMES[b]) for a, b in arcs]


def sweep_property(run, tier, seed, pid, extra_dags=(), describe=''):
    rng = random.Random(seed)
    dags, n_exh = D.dag_set(tier, rng)
    # construction order independence: shuffle the order in which the edges are added
    dags = [(n, rng.sample(a, len(a))) for n, a in dags] + list(extra_dags)
    cdir = C.VERIF / 'corpus' / pid
    corpus = []
    if cdir.exists():
        for f in sorted(cdir.glob('*.json')):
            c = json.loads(f.read_text())
            if 'arcs' in c:
                corpus.append((c['n'], [tuple(a) for a in c['arcs']]))
    dags = corpus + dags
    which = [s == pid for s in D.SECTIONS]
    out, impl = D.sweep(dags, which, tag=pid.lower())
    k = IDX[pid]
    diverging = [i for i, r in enumerate(out) if r[k] != 1]
    by_n = {}
    for (n, a), r in zip(dags, out):
        by_n[n] = by_n.get(n, 0) + 1
        run.count((n, tuple(sorted(a))), nontrivial=len(a) >= 2)
    run.coverage.update(dags=len(dags), dags_by_node_count=by_n, exhaustive_up_to_nodes=4 if tier == 'quick' else 5,
                        exhaustive_dags=n_exh, corpus_cases=len(corpus), exhaustive=False)
    run.coverage['rule'] = (describe + ' Every labelled DAG up to the stated node count, plus sampled larger DAGs (random densities, random '
                            'construction orders); all nodes / ordered pairs / conditioning subsets per DAG. non-trivial = at least 2 edges; distinct by edge set.')
    n0, a0 = dags[len(dags) // 2]
    run.samples.append(dict(n=n0, edges=names(a0), result_vector=out[len(dags) // 2]))
    run.oblige(f'correspondence: model == implementation on {len(dags)} DAGs (section {pid})', not diverging,
               '' if not diverging else f'{len(diverging)} diverging DAGs; first: n={dags[diverging[0]][0]} edges={names(dags[diverging[0]][1])}')
    found = False
    raised = {(n, tuple(map(tuple, a))) for n, a, _ in D.EXCEPTIONS}
    for n, a, msg in D.EXCEPTIONS[:2]:
        why = f'a query raised {msg} on a DAG whose nodes all exist (node names {list(D.names_for(n, a)[:n])!r})'
        run.violation(dict(n=n, arcs=a, edges=names(a), why=why, replay_cmd=f'./check {pid} --replay <this file>'), note=why[:200])
        found = True
    del D.EXCEPTIONS[:]
    for pos, why in PRED[pid]:
        bad = [i for i, r in enumerate(out) if r[pos] != 1 and (dags[i][0], tuple(map(tuple, dags[i][1]))) not in raised]
        for i in bad[:2]:
            n, a = dags[i]
            run.violation(dict(n=n, arcs=a, edges=names(a), why=why, replay_cmd=f'./check {pid} --replay <this file>'), note=why)
            found = True
    if diverging and not found:
        # search: explain the divergence on a concrete DAG with the textbook definition (smallest diverging DAGs first)
        from .refdefs import REFERENCE
        ref = REFERENCE.get(pid)
        for i in sorted(diverging, key=lambda i: (dags[i][0], len(dags[i][1])))[:40]:
            n, a = dags[i]
            try:
                why = ref(n, a) if ref else None
            except Exception as e:  # noqa: BLE001  (on a DAG with existing nodes every query of these properties must answer)
                why = f'a query raised {type(e).__name__}: {e} (node names {list(D.names_for(n, a)[:n])!r})'
            if why:
                run.violation(dict(n=n, arcs=a, edges=names(a), why=why, replay_cmd=f'./check {pid} --replay <this file>'), note=why[:200])
                found = True
                break
        if not found:
            i = diverging[0]
            n, a = dags[i]
            mt = D.model_tokens(k, n, a)
            run.coverage['first_divergence'] = dict(n=n, arcs=a, edges=names(a), model_tokens=mt[:80])
    return dags, out, impl, diverging


def replay_dag(run, path, pid):
    c = json.loads(open(path).read())
    dags = [(c['n'], [tuple(a) for a in c['arcs']])]
    which = [s == pid for s in D.SECTIONS]
    out, impl = D.sweep(dags, which, tag='replay')
    r = out[0]
    print('result vector', r)
    if r[IDX[pid]] != 1:
        print('model/implementation divergence on this DAG')
    for pos, why in PRED[pid]:
        if r[pos] != 1:
            run.violation(dict(c, why=why), note=why)
    from .refdefs import REFERENCE
    if pid in REFERENCE and not run.violations:
        try:
            why = REFERENCE[pid](*dags[0])
        except Exception as e:  # noqa: BLE001
            why = f'a query raised {type(e).__name__}: {e} (node names {list(D.names_for(*dags[0])[:dags[0][0]])!r})'
        print('reference definition check:', why)
        if why:
            run.violation(dict(c, why=why), note=why[:200])
    return r
