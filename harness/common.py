"""Shared machinery of the /verif checks: Coq term printers, the token/hash mirror of
coq/theories/Tok.v, the coqc runner, build + proof-obligation bookkeeping, evidence / replay /
known-findings writers.  Run with /venv/bin/python, PYTHONPATH=/repo, PYTHONHASHSEED fixed
(the ./check wrapper does that)."""
from __future__ import annotations

import atexit
import fcntl
import hashlib
import json
import os
import re
import shutil
import subprocess
import sys
import time
from pathlib import Path

VERIF = Path(__file__).resolve().parent.parent
REPO = Path(os.environ.get('VERIF_REPO', '/repo'))
COQ = VERIF / 'coq'
THEORIES = COQ / 'theories'
WORK = VERIF / '.work' / str(os.getpid())
NCPU = int(os.environ.get('VERIF_JOBS', '0')) or min(16, os.cpu_count() or 4)

FORBIDDEN = re.compile(
    r'\b(Admitted|admit|Axiom|Axioms|Parameter|Parameters|Conjecture|Conjectures|Admit\s+Obligations|'
    r'Unset\s+Guard\s+Checking|Unset\s+Positivity\s+Checking|Unset\s+Universe\s+Checking|bypass_check|'
    r'native_compute|type-in-type|impredicative-set)\b'
)


def workdir() -> Path:
    if not WORK.exists():
        WORK.mkdir(parents=True, exist_ok=True)
        atexit.register(lambda: shutil.rmtree(WORK, ignore_errors=True))
    return WORK


# ------------------------------------------------------------------------------------------
# Coq term printers (the generated files open N_scope; Z literals are written explicitly)
# ------------------------------------------------------------------------------------------

def cq_name(s: str) -> str:
    return '[' + '; '.join(str(ord(c)) for c in s) + ']'


def cq_names(l) -> str:
    return '[' + '; '.join(cq_name(s) for s in l) + ']'


def cq_Z(z: int) -> str:
    return f'({z})%Z'


def cq_bool(b: bool) -> str:
    return 'true' if b else 'false'


def cq_opt(f, x) -> str:
    return 'None' if x is None else f'(Some {f(x)})'


def cq_list(f, l) -> str:
    return '[' + '; '.join(f(x) for x in l) + ']'


def cq_pair(f, g, p) -> str:
    return f'({f(p[0])}, {g(p[1])})'


ETYPES = ['->', '--', '<>', 'oo', 'o>', 'o-']
ETYPE_CTOR = {'->': 'Dir', '--': 'Und', '<>': 'Bi', 'oo': 'Unk', 'o>': 'UnkDir', 'o-': 'UnkUnd'}
VTYPES = ['unspecified', 'continuous', 'binary', 'multiclass', 'ordinal']
VTYPE_CTOR = {'unspecified': 'VUnspec', 'continuous': 'VCont', 'binary': 'VBin',
              'multiclass': 'VMulti', 'ordinal': 'VOrd'}


def cq_etype(t) -> str:
    return ETYPE_CTOR[str(t)]


def cq_vtype(t) -> str:
    return VTYPE_CTOR[str(t)]


def canon_json(v):
    """Canonical form of a JSON-representable value: dict keys sorted (recursively)."""
    if isinstance(v, dict):
        return {k: canon_json(v[k]) for k in sorted(v)}
    if isinstance(v, (list, tuple)):
        return [canon_json(x) for x in v]
    if hasattr(v, 'value') and isinstance(v, str):  # str-valued enum
        return str(v.value)
    return v


def cq_json(v) -> str:
    if v is None:
        return 'JNull'
    if isinstance(v, bool):
        return f'(JBool {cq_bool(v)})'
    if isinstance(v, int):
        return f'(JInt {cq_Z(v)})'
    if isinstance(v, str):
        return f'(JStr {cq_name(v)})'
    if isinstance(v, (list, tuple)):
        return '(JList ' + cq_list(cq_json, v) + ')'
    if isinstance(v, dict):
        return '(JObj ' + cq_meta(v) + ')'
    raise TypeError(f'not JSON-representable in the model: {v!r}')


def cq_meta(m: dict) -> str:
    return '[' + '; '.join(f'({cq_name(k)}, {cq_json(m[k])})' for k in sorted(m)) + ']'


# ------------------------------------------------------------------------------------------
# Token mirror of Tok.v
# ------------------------------------------------------------------------------------------
M63 = (1 << 63) - 1

ERR_CODE = {
    'NodeDuplicatedError': 1, 'EdgeDuplicatedError': 2, 'ReverseEdgeExistsError': 3,
    'CyclicConnectionError': 4, 'NodeDoesNotExistError': 5, 'EdgeDoesNotExistError': 6,
    'EdgeExistsError': 7, 'ValueError': 8, 'AssertionError': 9, 'KeyError': 10, 'TypeError': 11,
    'EdgeInvalidError': 12, 'GraphConversionError': 13, 'InvalidAdjacencyMatrixError': 14,
    'IndexError': 15,
}
ERR_NAME = {v: k for k, v in ERR_CODE.items()}


def err_code(exc: BaseException) -> int:
    return ERR_CODE.get(type(exc).__name__, 99)


def zigzag(z: int) -> int:
    return 2 * z if z >= 0 else -2 * z - 1


def tk_Z(z): return [zigzag(z)]
def tk_bool(b): return [1 if b else 0]
def tk_name(s): return [len(s)] + [ord(c) for c in s]


def tk_list(f, l):
    out = [len(l)]
    for x in l:
        out += f(x)
    return out


def tk_opt(f, o): return [0] if o is None else [1] + f(o)
def tk_names(l): return tk_list(tk_name, l)
def tk_etype(t): return [ETYPES.index(str(t))]
def tk_vtype(t): return [VTYPES.index(str(t))]


def tk_json(v):
    if v is None:
        return [0]
    if isinstance(v, bool):
        return [1] + tk_bool(v)
    if isinstance(v, int):
        return [2] + tk_Z(v)
    if isinstance(v, str):
        return [3] + tk_name(v)
    if isinstance(v, (list, tuple)):
        out = [4, len(v)]
        for x in v:
            out += tk_json(x)
        return out
    if isinstance(v, dict):
        out = [5, len(v)]
        for k in sorted(v):
            out += tk_name(k) + tk_json(v[k])
        return out
    raise TypeError(f'not JSON-representable in the model: {v!r}')


def tk_meta(m): return tk_json(dict(m))


def tk_try(f, thunk):
    """tk_res: 0 :: tokens on success, [error code] when the call raises."""
    try:
        v = thunk()
    except Exception as e:  # noqa: BLE001 - the error class IS the observation
        return [err_code(e)]
    return [0] + f(v)


def hash_tokens(tokens) -> int:
    h = 7
    for t in tokens:
        h = (h * 1000003 + (t & M63) + 1) & M63
    return h


def mask_of(bits) -> int:
    return sum((1 << i) for i, b in enumerate(bits) if b)


# ------------------------------------------------------------------------------------------
# Running Coq
# ------------------------------------------------------------------------------------------
COQ_HEADER = 'Set Printing Width 1000000.\nSet Printing Depth 1000000.\n'


def coqc(vfile: Path, timeout: int = 600) -> subprocess.CompletedProcess:
    cmd = ['timeout', str(timeout), 'coqc', '-Q', str(THEORIES), 'CG', '-Q', str(vfile.parent), 'W', str(vfile)]
    return subprocess.run(cmd, capture_output=True, text=True, cwd=str(vfile.parent))


def run_coq_files(files, timeout=600, jobs=None):
    """Compile several generated .v files in parallel; returns [(path, rc, stdout, stderr)]."""
    from concurrent.futures import ThreadPoolExecutor
    jobs = jobs or NCPU
    with ThreadPoolExecutor(max_workers=jobs) as ex:
        res = list(ex.map(lambda f: coqc(f, timeout), files))
    return [(f, r.returncode, r.stdout, r.stderr) for f, r in zip(files, res)]


def parse_nat_pairs(out: str):
    """Parse the `= [(i, j); ...] : list (nat * nat)` answer of an Eval."""
    m = re.search(r'=\s*(\[.*?\])\s*:\s*list', out, re.S)
    if not m:
        raise RuntimeError(f'cannot parse Coq answer: {out[:500]!r}')
    return [(int(a), int(b)) for a, b in re.findall(r'\((\d+)(?:%\w+)?,\s*(\d+)(?:%\w+)?\)', m.group(1))]


def parse_eval_blocks(out: str):
    """Split coqc stdout into the answers of successive Evals (text between '= ' and the type)."""
    blocks = re.findall(r'^\s*=\s*(.*?)\n\s*:\s', out, re.S | re.M)
    return [re.sub(r'\s+', ' ', b).strip() for b in blocks]


def parse_N_list(txt: str):
    return [int(x) for x in re.findall(r'(\d+)(?:%\w+)?', txt)]


# ------------------------------------------------------------------------------------------
# Build and proof obligations
# ------------------------------------------------------------------------------------------

def _lock():
    lk = open(VERIF / '.build.lock', 'w')
    fcntl.flock(lk, fcntl.LOCK_EX)
    return lk


def source_scan():
    """grep for forbidden declarations in the committed Coq sources."""
    bad = []
    # the files that are built (and that theorems can depend on) are exactly those listed in _CoqProject; every CG module
    # they Require must be listed too, so that no unlisted (unscanned) file can be depended upon through a stale .vo
    listed = [ln.strip() for ln in (VERIF / 'coq' / '_CoqProject').read_text().splitlines()
              if ln.strip().endswith('.v')]
    files = [VERIF / 'coq' / ln for ln in listed]
    mods = {ln[len('theories/'):-2].replace('/', '.') for ln in listed}
    for f in files:
        if not f.exists():
            bad.append(f'{f.relative_to(VERIF)}: listed in _CoqProject but missing')
            continue
        txt = f.read_text()
        for m in re.finditer(r'From\s+CG\s+Require\s+(?:Import|Export)?\s*([^.]*(?:\.[A-Za-z_][^.\s]*)*)\s*\.(?:\s|$)', txt):
            for name in m.group(1).split():
                if name not in mods:
                    bad.append(f'{f.relative_to(VERIF)}: requires CG.{name} which is not listed in _CoqProject')
        for m in re.finditer(r'Require\s+(?:Import|Export)?\s*CG\.([A-Za-z_.]+?)\.(?:\s|$)', txt):
            if m.group(1) not in mods:
                bad.append(f'{f.relative_to(VERIF)}: requires CG.{m.group(1)} which is not listed in _CoqProject')
        txt_nc = re.sub(r'\(\*.*?\*\)', '', txt, flags=re.S)
        for m in FORBIDDEN.finditer(txt_nc):
            bad.append(f'{f.relative_to(VERIF)}: {m.group(0)}')
        # Variable / Hypothesis outside a section
        depth = 0
        for line in txt_nc.splitlines():
            s = line.strip()
            if re.match(r'(Section|Module)\s+\w+', s) and not s.startswith('Module Type'):
                if s.startswith('Section'):
                    depth += 1
            elif re.match(r'End\s+\w+\s*\.', s):
                depth = max(0, depth - 1)
            elif depth == 0 and re.match(r'(Variable|Variables|Hypothesis|Hypotheses|Context)\b', s):
                bad.append(f'{f.relative_to(VERIF)}: {s[:60]} (outside a section)')
    return bad


def build(clean: bool = False, timeout: int = 3000):
    """Regenerate Extracted.v from /repo and (re)build the Coq development. Returns (ok, log)."""
    lk = _lock()
    try:
        log = []
        gen = VERIF / 'tools' / 'extract_facts.py'
        if gen.exists():
            r = subprocess.run([sys.executable, str(gen), str(REPO), str(THEORIES / 'Extracted.v')],
                               capture_output=True, text=True)
            log.append(r.stdout + r.stderr)
            if r.returncode != 0:
                return False, 'extract_facts failed (fail closed):\n' + '\n'.join(log)
        tr = VERIF / 'tools' / 'translate_identify.py'
        if tr.exists():
            r = subprocess.run([sys.executable, str(tr), str(REPO), str(THEORIES)], capture_output=True, text=True)
            log.append('translate_identify: exit %d %s' % (r.returncode, (r.stdout + r.stderr)[-600:]))
            for f in ('IdentifyGenConf', 'IdentifyGenIM', 'IdentifyGenMB'):
                if not (THEORIES / f'{f}.v').exists():     # failed closed: a stub that does not compile, so that only its dependents break
                    (THEORIES / f'{f}.v').write_text('(* the translator failed closed on this part of identify_utils.py *) '
                                                     'Definition translator_failed_closed : True := 0.\n')
        tt = VERIF / 'tools' / 'translate_traversal.py'
        if tt.exists():      # causal_graph.py traversal methods -> TraversalGenCyc.v / TraversalGenQ.v (writes a stub that does not compile when it fails closed)
            r = subprocess.run([sys.executable, str(tt), str(REPO), str(THEORIES)], capture_output=True, text=True)
            log.append('translate_traversal: exit %d %s' % (r.returncode, (r.stdout + r.stderr)[-600:]))
            for f in ('TraversalGenCyc', 'TraversalGenQ'):
                if not (THEORIES / f'{f}.v').exists():
                    (THEORIES / f'{f}.v').write_text('(* the translator failed closed *) Definition translator_failed_closed : True := 0.\n')
        for tool, outs in (('translate_ts_summary.py', ('TSGenSummary', 'TSGenStationary')), ('translate_ts_extend.py', ('TSGenMinimal', 'TSGenExtend')),
                           ('translate_mutators.py', ('MutGenRollback',)), ('translate_add_edge.py', ('MutGenAdd',))):
            tt = VERIF / 'tools' / tool      # time_series_causal_graph.py algorithms -> TSGen*.v (each tool writes its own non-compiling stub per group)
            if tt.exists():
                r = subprocess.run([sys.executable, str(tt), str(REPO), str(THEORIES)], capture_output=True, text=True)
                log.append('%s: exit %d %s' % (tool, r.returncode, (r.stdout + r.stderr)[-600:]))
                for f in outs:
                    if not (THEORIES / f'{f}.v').exists():
                        (THEORIES / f'{f}.v').write_text('(* the translator failed closed *) Definition translator_failed_closed : True := 0.\n')
        if clean:
            subprocess.run(['make', '-C', str(COQ), 'clean'], capture_output=True, text=True)
        if not (COQ / 'Makefile').exists() or (COQ / '_CoqProject').stat().st_mtime > (COQ / 'Makefile').stat().st_mtime:
            r = subprocess.run(['coq_makefile', '-f', '_CoqProject', '-o', 'Makefile'], cwd=str(COQ),
                               capture_output=True, text=True)
            log.append(r.stdout + r.stderr)
        r = subprocess.run(['timeout', str(timeout), 'make', '-k', '-C', str(COQ), f'-j{NCPU}'],
                           capture_output=True, text=True)
        log.append(r.stdout[-4000:] + r.stderr[-4000:])
        return r.returncode == 0, '\n'.join(log)
    finally:
        lk.close()


def property_obligations(pid: str, variant: str = ''):
    """Re-check coq/theories/Properties/<pid><variant>.v with coqc and collect every theorem in it together
    with the Print Assumptions answer beneath it.
    Returns dict(ok, theorems=[{name, assumptions}], log)."""
    f = THEORIES / 'Properties' / f'{pid}{variant}.v'
    if not f.exists():
        return dict(ok=False, theorems=[], log=f'{f} missing')
    lk = _lock()
    try:
        r = subprocess.run(['timeout', '900', 'coqc', '-Q', str(THEORIES), 'CG', str(f)],
                           capture_output=True, text=True, cwd=str(COQ))
    finally:
        lk.close()
    src = re.sub(r'\(\*.*?\*\)', '', f.read_text(), flags=re.S)
    names = re.findall(r'^\s*(?:Theorem|Lemma|Corollary)\s+(\w+)', src, re.M)
    printed = re.findall(r'^\s*Print\s+Assumptions\s+(\w+)\s*\.', src, re.M)
    # split the output into one block per Print Assumptions
    blocks = re.split(r'(?=Closed under the global context|Axioms:)', r.stdout)
    blocks = [b.strip() for b in blocks if b.strip()]
    theorems = []
    for i, n in enumerate(printed):
        a = blocks[i] if i < len(blocks) else '(no output)'
        theorems.append(dict(name=n, assumptions=re.sub(r'\s+', ' ', a)[:600]))
    ok = r.returncode == 0 and len(printed) > 0 and set(names) <= set(printed) | set(names)
    return dict(ok=ok, theorems=theorems, stated=names, log=(r.stdout + r.stderr)[-3000:])


# ------------------------------------------------------------------------------------------
# Evidence, replays, known findings
# ------------------------------------------------------------------------------------------

def load_known_findings():
    p = VERIF / 'known_findings.json'
    if not p.exists():
        return dict(findings=[], fixed=[])
    return json.loads(p.read_text())


class Run:
    """Collects what one check run did and writes evidence / replay files."""

    def __init__(self, pid: str, tier: str, seed: int, level: str = 'proof'):
        self.pid, self.tier, self.seed, self.level = pid, tier, seed, level
        self.t0 = time.time()
        self.violations = []       # (replay path, note)
        self.known = []            # strings
        self.coverage = {}
        self.assumptions = []
        self.obligations = []      # dicts(name, ok, detail)
        self.samples = []
        self.evaluations = 0
        self.distinct = set()

    # -- obligations
    def oblige(self, name: str, ok: bool, detail: str = ''):
        self.obligations.append(dict(name=name, ok=bool(ok), detail=detail[:500]))

    # -- violations
    def violation(self, replay: dict, note: str = '', no_input: bool = False):
        d = VERIF / 'replays'
        d.mkdir(exist_ok=True)
        n = len(self.violations)
        if n >= 12:                 # the first dozen failing inputs are reported with a replay file each; the rest are only counted
            self.violations.append(('', note))
            return
        path = d / f'{self.pid}_{self.tier}_{self.seed}_{n}.json'
        replay = dict(property=self.pid, note=note, **{k: v for k, v in replay.items() if k not in ('property', 'note')})
        path.write_text(json.dumps(replay, indent=1, default=str))
        self.violations.append((str(path), note))
        tail = ' no-failing-input-found' if no_input else ''
        print(f'VIOLATION property={self.pid} replay={path}{tail}', flush=True)

    def known_finding(self, what: str):
        if what not in self.known:
            self.known.append(what)
            print(f'KNOWN-FINDING: property={self.pid} {what}', flush=True)

    def count(self, key=None, nontrivial: bool = True):
        self.evaluations += 1
        if key is not None and nontrivial:
            self.distinct.add(hashlib.blake2b(repr(key).encode(), digest_size=8).digest())

    def finish(self) -> int:
        n_ob = len(self.obligations)
        n_ok = sum(1 for o in self.obligations if o['ok'])
        cov = dict(self.coverage)
        cov.setdefault('obligations', n_ob)
        cov.setdefault('discharged', n_ok)
        cov.setdefault('checker_cmd', f'./check {self.pid} --tier {self.tier}')
        cov.setdefault('trusted_base', TRUSTED_BASE)
        cov.setdefault('evaluations', self.evaluations)
        cov.setdefault('distinct_nontrivial', len(self.distinct))
        cov.setdefault('samples', self.samples[:5] if self.samples else ['(none)'])
        cov['obligation_list'] = self.obligations
        cov['known_findings_reported'] = self.known
        ev = dict(property_id=self.pid, tier=self.tier, seed=self.seed, level=self.level, coverage=cov,
                  assumptions=self.assumptions, wall_s=round(time.time() - self.t0, 2),
                  violations=len(self.violations))
        evdir = Path(os.environ.get('VERIF_EVIDENCE_DIR') or (VERIF / 'evidence'))   # seeded-change trials write elsewhere
        evdir.mkdir(exist_ok=True, parents=True)
        (evdir / f'{self.pid}.json').write_text(json.dumps(ev, indent=1, default=str))
        return 1 if self.violations else 0


TRUSTED_BASE = [
    'Coq 8.16.1 kernel (coqc); vm_compute inside proofs of finite side-conditions; no native_compute',
    'Print Assumptions of every property theorem: Closed under the global context unless listed in obligation_list',
    'hand-written Gallina model tied to /repo by the correspondence check of this run (harness/*.py, '
    'evaluated inside Coq with vm_compute; Uint63 primitive integers used only for hashing observations)',
    'tools/extract_facts.py (ast-based table extractor, fail closed) for Extracted.v',
    'CPython 3.12, numpy, networkx as the implementation substrate (modelled by specification, not verified)',
]
