(** MatrixProofs.v — proofs about Matrix.v (property C08).

    What is taken from colleagues' files is taken as clearly named Section hypotheses of the
    exact shape of the [..._statement]s of GraphInv.v (Section [WithGraphInv] at the end). *)
From CG Require Import Base Digraph Graph GraphObs GraphInv Matrix.
From Coq Require Import Relations.Relation_Operators.
Set Implicit Arguments.

(** * Lists *)

Lemma set_nth_some {A} (v : A) l i : i < length l -> exists l', set_nth i v l = Some l'.
Proof.
  revert i; induction l as [|x l IH]; intros i Hi; simpl in Hi; [lia|].
  destruct i as [|i]; simpl; [eexists; reflexivity|].
  destruct (IH i) as [l' Hl']; [lia|]. rewrite Hl'. eexists; reflexivity.
Qed.

Lemma set_nth_length {A} (v : A) l i l' : set_nth i v l = Some l' -> length l' = length l.
Proof.
  revert i l'; induction l as [|x l IH]; intros i l' H; destruct i as [|i]; simpl in H;
    try discriminate.
  - injection H as <-. reflexivity.
  - destruct (set_nth i v l) as [r|] eqn:E; [|discriminate].
    injection H as <-. simpl. f_equal. eapply IH; exact E.
Qed.

Lemma set_nth_lt {A} (v : A) l i l' : set_nth i v l = Some l' -> i < length l.
Proof.
  revert i l'; induction l as [|x l IH]; intros i l' H; destruct i as [|i]; simpl in *;
    try discriminate; [lia|].
  destruct (set_nth i v l) as [r|] eqn:E; [|discriminate].
  apply IH in E. lia.
Qed.

Lemma set_nth_get {A} (v : A) l i l' j :
  set_nth i v l = Some l' ->
  nth_error l' j = if Nat.eqb i j then Some v else nth_error l j.
Proof.
  revert i l' j; induction l as [|x l IH]; intros i l' j H; destruct i as [|i]; simpl in H;
    try discriminate.
  - injection H as <-. destruct j; reflexivity.
  - destruct (set_nth i v l) as [r|] eqn:E; [|discriminate].
    injection H as <-. destruct j as [|j]; simpl; [reflexivity|].
    apply IH; exact E.
Qed.

Lemma index_of_nth x l i : index_of x l = Some i -> nth_error l i = Some x.
Proof.
  revert i; induction l as [|y l IH]; intros i H; simpl in *; [discriminate|].
  destruct (name_eqb_spec x y) as [->|Hn].
  - injection H as <-. reflexivity.
  - destruct (index_of x l) as [i'|]; [|discriminate].
    injection H as <-. simpl. apply IH; reflexivity.
Qed.

Lemma index_of_in x l : In x l -> exists i, index_of x l = Some i.
Proof.
  induction l as [|y l IH]; simpl; [tauto|]. intros H.
  destruct (name_eqb_spec x y) as [->|Hn]; [eexists; reflexivity|].
  destruct H as [H|H]; [congruence|].
  destruct (IH H) as [i Hi]. rewrite Hi. eexists; reflexivity.
Qed.

Lemma index_of_lt x l i : index_of x l = Some i -> i < length l.
Proof. intros H. apply index_of_nth in H. apply nth_error_Some. congruence. Qed.

Lemma index_of_nodup x l i : NoDup l -> nth_error l i = Some x -> index_of x l = Some i.
Proof.
  revert i; induction l as [|y l IH]; intros i Hnd H; [destruct i; discriminate|].
  inversion Hnd as [|? ? Hy Hnd']; subst.
  destruct i as [|i]; simpl in *.
  - injection H as ->. rewrite name_eqb_refl. reflexivity.
  - destruct (name_eqb_spec x y) as [->|Hn].
    + exfalso. apply Hy. eapply nth_error_In; exact H.
    + rewrite (IH i Hnd' H). reflexivity.
Qed.

(** * Matrices *)

Definition dims (n : nat) (a : matrix) : Prop :=
  length a = n /\ forall r, In r a -> length r = n.

Lemma nth_error_repeat_some {A} (x : A) n i : i < n -> nth_error (repeat x n) i = Some x.
Proof.
  revert i; induction n as [|n IH]; intros i Hi; [lia|].
  destruct i as [|i]; simpl; [reflexivity|]. apply IH; lia.
Qed.

Lemma zeros_dims n : dims n (zeros n).
Proof.
  unfold zeros; split; [apply repeat_length|].
  intros r Hr. apply repeat_spec in Hr. subst r. apply repeat_length.
Qed.

Lemma zeros_entry n i j : i < n -> j < n -> entry (zeros n) i j = Some 0%Z.
Proof.
  intros Hi Hj. unfold entry, zeros. rewrite (nth_error_repeat_some _ Hi).
  apply nth_error_repeat_some; exact Hj.
Qed.

Lemma entry_some n a i j : dims n a -> i < n -> j < n -> exists z, entry a i j = Some z.
Proof.
  intros [Hl Hr] Hi Hj. unfold entry.
  destruct (nth_error a i) as [r|] eqn:E.
  - assert (Hlen : length r = n) by (apply Hr; eapply nth_error_In; exact E).
    destruct (nth_error r j) as [z|] eqn:Ez; [eexists; reflexivity|].
    apply nth_error_None in Ez. lia.
  - apply nth_error_None in E. lia.
Qed.

Lemma entry_lt n a i j z : dims n a -> entry a i j = Some z -> i < n /\ j < n.
Proof.
  intros [Hl Hr] H. unfold entry in H.
  destruct (nth_error a i) as [r|] eqn:E; [|discriminate].
  assert (Hlen : length r = n) by (apply Hr; eapply nth_error_In; exact E).
  split.
  - rewrite <- Hl. apply nth_error_Some. congruence.
  - rewrite <- Hlen. apply nth_error_Some. congruence.
Qed.

Lemma mset_some n a i j v : dims n a -> i < n -> j < n -> exists a', mset a i j v = Some a'.
Proof.
  intros [Hl Hr] Hi Hj. unfold mset.
  destruct (nth_error a i) as [r|] eqn:E.
  - assert (Hlen : length r = n) by (apply Hr; eapply nth_error_In; exact E).
    destruct (@set_nth_some _ v r j) as [r' Hr']; [lia|]. rewrite Hr'.
    apply set_nth_some. lia.
  - apply nth_error_None in E. lia.
Qed.

Lemma mset_dims n a i j v a' : dims n a -> mset a i j v = Some a' -> dims n a'.
Proof.
  intros [Hl Hr] H. unfold mset in H.
  destruct (nth_error a i) as [r|] eqn:E; [|discriminate].
  destruct (set_nth j v r) as [r'|] eqn:Er; [|discriminate].
  assert (Hlen : length r = n) by (apply Hr; eapply nth_error_In; exact E).
  split.
  - rewrite (set_nth_length _ _ _ H). exact Hl.
  - intros r0 Hr0. apply In_nth_error in Hr0. destruct Hr0 as [i0 Hi0].
    rewrite (set_nth_get _ _ _ i0 H) in Hi0.
    destruct (Nat.eqb i i0).
    + injection Hi0 as <-. rewrite (set_nth_length _ _ _ Er). exact Hlen.
    + apply Hr. eapply nth_error_In; exact Hi0.
Qed.

Lemma mset_get a i j v a' i' j' :
  mset a i j v = Some a' ->
  entry a' i' j' = if Nat.eqb i i' && Nat.eqb j j' then Some v else entry a i' j'.
Proof.
  intros H. unfold mset in H.
  destruct (nth_error a i) as [r|] eqn:E; [|discriminate].
  destruct (set_nth j v r) as [r'|] eqn:Er; [|discriminate].
  unfold entry. rewrite (set_nth_get _ _ _ i' H).
  destruct (Nat.eqb_spec i i') as [<-|Hn]; simpl.
  - rewrite E. apply (set_nth_get _ _ _ j' Er).
  - reflexivity.
Qed.

(** * The loop of [adjacency_matrix] *)

Section ToMatrix.
  Variable names : list name.
  Let n := length names.

  (** edge [e] makes the loop write a 1 at [i, j] *)
  Definition hit (e : edge) (i j : nat) : Prop :=
    (index_of (esrc e) names = Some i /\ index_of (edst e) names = Some j
     /\ (ety e = Dir \/ ety e = Und))
    \/ (index_of (edst e) names = Some i /\ index_of (esrc e) names = Some j /\ ety e = Und).

  Definition binary_m (a : matrix) : Prop :=
    forall i j, i < n -> j < n -> entry a i j = Some 0%Z \/ entry a i j = Some 1%Z.

  Lemma to_matrix_fold_err es x : fold_left (to_matrix_step names) es (Err x) = Err x.
  Proof. induction es as [|e es IH]; simpl; [reflexivity|exact IH]. Qed.

  Lemma to_matrix_step_char a e a' :
    dims n a -> binary_m a -> to_matrix_step names (Ok a) e = Ok a' ->
    dims n a' /\ binary_m a' /\ dir_or_und (ety e) = true
    /\ forall i j, i < n -> j < n ->
         (entry a' i j = Some 1%Z <-> entry a i j = Some 1%Z \/ hit e i j).
  Proof.
    intros Hd Hb H. unfold to_matrix_step in H; simpl in H.
    destruct (ety e) eqn:Ety; try discriminate.
    - (* Dir *)
      destruct (index_of (esrc e) names) as [i0|] eqn:Ei; [|discriminate].
      destruct (index_of (edst e) names) as [j0|] eqn:Ej; [|discriminate].
      destruct (mset a i0 j0 1%Z) as [a1|] eqn:E1; [|discriminate].
      injection H as <-.
      split; [eapply mset_dims; eassumption|].
      split; [|split; [reflexivity|]].
      + intros i j Hi Hj. rewrite (mset_get _ _ _ _ i j E1).
        destruct (Nat.eqb i0 i && Nat.eqb j0 j); [right; reflexivity|apply Hb; assumption].
      + intros i j Hi Hj. rewrite (mset_get _ _ _ _ i j E1). unfold hit. rewrite Ei, Ej, Ety.
        destruct (Nat.eqb_spec i0 i) as [Ea|Ea]; destruct (Nat.eqb_spec j0 j) as [Eb|Eb]; simpl;
          (split;
           [ intros Hx;
             first [ solve [left; exact Hx]
                   | solve [right; left; repeat split; first [congruence | left; reflexivity]] ]
           | intros [Hx|[(Hx1 & Hx2 & _)|(Hx1 & Hx2 & Hx3)]];
             first [exact Hx | reflexivity | exfalso; congruence] ]).
    - (* Und *)
      destruct (index_of (esrc e) names) as [i0|] eqn:Ei; [|discriminate].
      destruct (index_of (edst e) names) as [j0|] eqn:Ej; [|discriminate].
      destruct (mset a i0 j0 1%Z) as [a1|] eqn:E1; [|discriminate].
      destruct (mset a1 j0 i0 1%Z) as [a2|] eqn:E2; [|discriminate].
      injection H as <-.
      assert (Hd1 : dims n a1) by (eapply mset_dims; eassumption).
      split; [eapply mset_dims; eassumption|].
      split; [|split; [reflexivity|]].
      + intros i j Hi Hj. rewrite (mset_get _ _ _ _ i j E2), (mset_get _ _ _ _ i j E1).
        destruct (Nat.eqb j0 i && Nat.eqb i0 j); [right; reflexivity|].
        destruct (Nat.eqb i0 i && Nat.eqb j0 j); [right; reflexivity|apply Hb; assumption].
      + intros i j Hi Hj. rewrite (mset_get _ _ _ _ i j E2), (mset_get _ _ _ _ i j E1).
        unfold hit. rewrite Ei, Ej, Ety.
        destruct (Nat.eqb_spec j0 i) as [Ea|Ea]; destruct (Nat.eqb_spec i0 j) as [Eb|Eb];
          destruct (Nat.eqb_spec i0 i) as [Ec|Ec]; destruct (Nat.eqb_spec j0 j) as [Ed|Ed]; simpl;
          (split;
           [ intros Hx;
             first [ solve [left; exact Hx]
                   | solve [right; left; repeat split; first [congruence | right; reflexivity]]
                   | solve [right; right; repeat split; congruence] ]
           | intros [Hx|[(Hx1 & Hx2 & _)|(Hx1 & Hx2 & _)]];
             first [exact Hx | reflexivity | exfalso; congruence] ]).
  Qed.

  Lemma to_matrix_fold_char es : forall a0 a,
    dims n a0 -> binary_m a0 -> fold_left (to_matrix_step names) es (Ok a0) = Ok a ->
    dims n a /\ binary_m a /\ (forall e, In e es -> dir_or_und (ety e) = true)
    /\ forall i j, i < n -> j < n ->
         (entry a i j = Some 1%Z <-> entry a0 i j = Some 1%Z \/ exists e, In e es /\ hit e i j).
  Proof.
    induction es as [|e es IH]; intros a0 a Hd Hb H; cbn [fold_left] in H.
    - injection H as <-. split; [exact Hd|]. split; [exact Hb|]. split; [intros e []|].
      intros i j _ _. split; [tauto|]. intros [H|(e & [] & _)]. exact H.
    - destruct (to_matrix_step names (Ok a0) e) as [a1|x] eqn:E1;
        [|rewrite to_matrix_fold_err in H; discriminate].
      destruct (to_matrix_step_char _ Hd Hb E1) as (Hd1 & Hb1 & Hty & Hc1).
      destruct (IH _ _ Hd1 Hb1 H) as (Hd2 & Hb2 & Htys & Hc2).
      split; [exact Hd2|]. split; [exact Hb2|]. split.
      + intros e' [<-|He']; [exact Hty|apply Htys; exact He'].
      + intros i j Hi Hj. rewrite (Hc2 i j Hi Hj), (Hc1 i j Hi Hj). split.
        * intros [[H0|H0]|(e' & He' & Hh)]; [left; exact H0| |].
          -- right. exists e. split; [left; reflexivity|exact H0].
          -- right. exists e'. split; [right; exact He'|exact Hh].
        * intros [H0|(e' & [<-|He'] & Hh)]; [left; left; exact H0| |].
          -- left; right; exact Hh.
          -- right. exists e'. split; assumption.
  Qed.

  Lemma to_matrix_step_ok a e :
    dims n a -> In (esrc e) names -> In (edst e) names -> dir_or_und (ety e) = true ->
    exists a', to_matrix_step names (Ok a) e = Ok a'.
  Proof.
    intros Hd Hs Hdst Hty. unfold to_matrix_step; simpl.
    destruct (index_of_in _ _ Hs) as [i Hi]. destruct (index_of_in _ _ Hdst) as [j Hj].
    pose proof (index_of_lt _ _ Hi) as Hil. pose proof (index_of_lt _ _ Hj) as Hjl.
    rewrite Hi, Hj.
    destruct (mset_some 1%Z Hd Hil Hjl) as [a1 Ha1].
    destruct (ety e); try discriminate; rewrite Ha1.
    - eexists; reflexivity.
    - assert (Hd1 : dims n a1) by (eapply mset_dims; eassumption).
      destruct (mset_some 1%Z Hd1 Hjl Hil) as [a2 Ha2]. rewrite Ha2. eexists; reflexivity.
  Qed.

  Lemma to_matrix_fold_ok es : forall a0,
    dims n a0 -> binary_m a0 ->
    (forall e, In e es -> In (esrc e) names /\ In (edst e) names /\ dir_or_und (ety e) = true) ->
    exists a, fold_left (to_matrix_step names) es (Ok a0) = Ok a.
  Proof.
    induction es as [|e es IH]; intros a0 Hd Hb Hes; cbn [fold_left]; [eexists; reflexivity|].
    destruct (Hes e (or_introl eq_refl)) as (Hs & Hdst & Hty).
    destruct (to_matrix_step_ok _ Hd Hs Hdst Hty) as [a1 Ha1]. rewrite Ha1.
    destruct (to_matrix_step_char _ Hd Hb Ha1) as (Hd1 & Hb1 & _ & _).
    apply IH; [exact Hd1|exact Hb1|]. intros e' He'. apply Hes. right; exact He'.
  Qed.

  Lemma to_matrix_fold_refuse es : forall a0,
    dims n a0 -> binary_m a0 ->
    (forall e, In e es -> In (esrc e) names /\ In (edst e) names) ->
    (exists e, In e es /\ dir_or_und (ety e) = false) ->
    fold_left (to_matrix_step names) es (Ok a0) = Err EType.
  Proof.
    induction es as [|e es IH]; intros a0 Hd Hb Hes (b & Hb_in & Hbad); [destruct Hb_in|].
    cbn [fold_left]. destruct (dir_or_und (ety e)) eqn:Hty.
    - destruct (Hes e (or_introl eq_refl)) as (Hs & Hdst).
      destruct (to_matrix_step_ok _ Hd Hs Hdst Hty) as [a1 Ha1]. rewrite Ha1.
      destruct (to_matrix_step_char _ Hd Hb Ha1) as (Hd1 & Hb1 & _ & _).
      apply IH; [exact Hd1|exact Hb1| |].
      + intros e' He'. apply Hes. right; exact He'.
      + destruct Hb_in as [<-|Hin]; [congruence|]. exists b. split; assumption.
    - replace (to_matrix_step names (Ok a0) e) with (@Err matrix EType).
      + apply to_matrix_fold_err.
      + unfold to_matrix_step; simpl. destruct (ety e); try discriminate; reflexivity.
  Qed.
End ToMatrix.

(** * The read views under the invariant *)

Lemma v_node_names_perm g : Permutation (node_ids g) (v_node_names g).
Proof.
  unfold node_ids, v_node_names, nodes_sorted. apply Permutation_map. apply isort_perm.
Qed.

Lemma v_node_names_in g x : In x (v_node_names g) <-> In x (node_ids g).
Proof.
  split; apply Permutation_in; [symmetry|]; apply v_node_names_perm.
Qed.

Lemma v_node_names_length g : length (v_node_names g) = length (gnodes g).
Proof. unfold v_node_names, nodes_sorted. rewrite map_length. apply isort_length. Qed.

Lemma v_edges_in g e : In e (v_edges g) <-> In e (gsrc g).
Proof. unfold v_edges, sorted_edges. apply isort_in. Qed.

Lemma v_edges_perm g : Permutation (gsrc g) (v_edges g).
Proof. unfold v_edges, sorted_edges. apply isort_perm. Qed.

Section UnderInv.
  Variable parse : name -> option (name * Z).
  Variable k : kind.
  Variable g : graph.
  Hypothesis HI : Inv parse k g.

  Lemma v_node_names_nodup : NoDup (v_node_names g).
  Proof.
    eapply Permutation_NoDup; [apply v_node_names_perm|]. apply (inv_nodup_nodes HI).
  Qed.

  Lemma names_index ni i :
    nth_error (v_node_names g) i = Some ni <-> index_of ni (v_node_names g) = Some i.
  Proof.
    split; [apply index_of_nodup, v_node_names_nodup|apply index_of_nth].
  Qed.

  Lemma v_edges_endpoints e :
    In e (v_edges g) -> In (esrc e) (v_node_names g) /\ In (edst e) (v_node_names g).
  Proof.
    intros He. apply v_edges_in in He. rewrite !v_node_names_in.
    apply (inv_endpoints HI); exact He.
  Qed.
End UnderInv.

(** * C08: the adjacency matrix *)

(** [A[i, j] = 1] exactly when there is an edge [n_i -> n_j], [n_i -- n_j] or [n_j -- n_i],
    under the node order returned by [to_numpy]; every entry is 0 or 1 and the matrix is
    [n x n]. *)
Theorem matrix_entry parse k g a :
  Inv parse k g -> to_matrix g = Ok a ->
  forall i j ni nj,
    nth_error (v_node_names g) i = Some ni -> nth_error (v_node_names g) j = Some nj ->
    (entry a i j = Some 1%Z <->
     exists e, In e (gsrc g) /\
       ((edge_key e = (ni, nj) /\ (ety e = Dir \/ ety e = Und))
        \/ (edge_key e = (nj, ni) /\ ety e = Und))).
Proof.
  intros HI Ha i j ni nj Hi Hj. unfold to_matrix in Ha.
  pose proof (nth_error_Some (v_node_names g) i) as Hil.
  pose proof (nth_error_Some (v_node_names g) j) as Hjl.
  assert (Hi' : i < length (v_node_names g)) by (apply Hil; congruence).
  assert (Hj' : j < length (v_node_names g)) by (apply Hjl; congruence).
  destruct (@to_matrix_fold_char (v_node_names g) (v_edges g) _ _ (zeros_dims _)
              (fun i j Hi Hj => or_introl (zeros_entry Hi Hj)) Ha) as (_ & _ & _ & Hc).
  rewrite (Hc i j Hi' Hj'). rewrite (zeros_entry Hi' Hj').
  split.
  - intros [H|(e & He & Hh)]; [discriminate|].
    exists e. split; [apply v_edges_in; exact He|].
    unfold hit in Hh. rewrite <- !(names_index HI) in Hh. unfold edge_key.
    destruct Hh as [(H1 & H2 & H3)|(H1 & H2 & H3)]; [left|right]; split; try exact H3;
      f_equal; congruence.
  - intros (e & He & Hh). right. exists e. split; [apply v_edges_in; exact He|].
    unfold hit. rewrite <- !(names_index HI). unfold edge_key in Hh.
    destruct Hh as [(H1 & H3)|(H1 & H3)]; injection H1 as H1 H2; [left|right]; subst; auto.
Qed.

Theorem matrix_shape parse k g a :
  Inv parse k g -> to_matrix g = Ok a ->
  dims (length (v_node_names g)) a
  /\ forall i j, i < length (v_node_names g) -> j < length (v_node_names g) ->
       entry a i j = Some 0%Z \/ entry a i j = Some 1%Z.
Proof.
  intros HI Ha. unfold to_matrix in Ha.
  destruct (@to_matrix_fold_char (v_node_names g) (v_edges g) _ _ (zeros_dims _)
              (fun i j Hi Hj => or_introl (zeros_entry Hi Hj)) Ha) as (Hd & Hb & _ & _).
  split; assumption.
Qed.

Definition only_dir_und (g : graph) : Prop :=
  forall e, In e (gsrc g) -> ety e = Dir \/ ety e = Und.

Lemma dir_or_und_true t : dir_or_und t = true <-> t = Dir \/ t = Und.
Proof. destruct t; simpl; split; intros H; try discriminate; auto; destruct H; discriminate. Qed.

Lemma dir_or_und_false t : dir_or_und t = false <-> t <> Dir /\ t <> Und.
Proof.
  destruct t; simpl; split; intros H; try discriminate; try (split; discriminate);
    destruct H as [H1 H2]; congruence.
Qed.

(** a representable graph is converted *)
Theorem to_matrix_total parse k g :
  Inv parse k g -> only_dir_und g -> exists a, to_matrix g = Ok a.
Proof.
  intros HI Ho. unfold to_matrix.
  apply to_matrix_fold_ok; [apply zeros_dims|intros i j Hi Hj; left; apply zeros_entry; assumption|].
  intros e He. destruct (v_edges_endpoints HI _ He) as [Hs Hd].
  split; [exact Hs|]. split; [exact Hd|]. apply dir_or_und_true, Ho, v_edges_in, He.
Qed.

Theorem to_numpy_total parse k g :
  Inv parse k g -> only_dir_und g -> exists a, to_numpy g = Ok (a, v_node_names g).
Proof.
  intros HI Ho. destruct (to_matrix_total HI Ho) as [a Ha]. exists a. unfold to_numpy.
  replace (existsb (fun e => negb (dir_or_und (ety e))) (v_edges g)) with false.
  - rewrite Ha. reflexivity.
  - symmetry. apply not_true_is_false. intros H. apply existsb_exists in H.
    destruct H as (e & He & Hb). apply v_edges_in in He. apply Ho, dir_or_und_true in He.
    rewrite He in Hb. discriminate.
Qed.

Lemma to_numpy_ok_inv g a names :
  to_numpy g = Ok (a, names) ->
  to_matrix g = Ok a /\ names = v_node_names g
  /\ forall e, In e (gsrc g) -> ety e = Dir \/ ety e = Und.
Proof.
  unfold to_numpy. intros H.
  destruct (existsb (fun e => negb (dir_or_und (ety e))) (v_edges g)) eqn:E; [discriminate|].
  destruct (to_matrix g) as [a'|x]; simpl in H; [|discriminate].
  injection H as <- <-. split; [reflexivity|]. split; [reflexivity|].
  intros e He. apply dir_or_und_true.
  destruct (dir_or_und (ety e)) eqn:Hd; [reflexivity|]. exfalso.
  assert (Hex : existsb (fun e => negb (dir_or_und (ety e))) (v_edges g) = true).
  { apply existsb_exists. exists e. split; [apply v_edges_in; exact He|]. rewrite Hd. reflexivity. }
  congruence.
Qed.

(** a graph holding an edge that is neither [->] nor [--] is refused with TypeError: by
    [to_numpy] whatever the state, by [adjacency_matrix] in every state satisfying the
    invariant (so no edge is ever dropped or retyped) *)
Theorem unrepresentable_refused g :
  (exists e, In e (gsrc g) /\ ety e <> Dir /\ ety e <> Und) -> to_numpy g = Err EType.
Proof.
  intros (e & He & Hty). unfold to_numpy.
  replace (existsb (fun e => negb (dir_or_und (ety e))) (v_edges g)) with true; [reflexivity|].
  symmetry. apply existsb_exists. exists e. split; [apply v_edges_in; exact He|].
  apply dir_or_und_false in Hty. rewrite Hty. reflexivity.
Qed.

Theorem unrepresentable_refused_matrix parse k g :
  Inv parse k g ->
  (exists e, In e (gsrc g) /\ ety e <> Dir /\ ety e <> Und) -> to_matrix g = Err EType.
Proof.
  intros HI (e & He & Hty). unfold to_matrix.
  apply to_matrix_fold_refuse; [apply zeros_dims|intros i j Hi Hj; left; apply zeros_entry; assumption| |].
  - intros e' He'. apply (v_edges_endpoints HI _ He').
  - exists e. split; [apply v_edges_in; exact He|apply dir_or_und_false; exact Hty].
Qed.

(** networkx / GML: anything but a fully directed or fully undirected graph is refused with
    GraphConversionError *)
Lemma forallb_false_of {A} (p : A -> bool) l x : In x l -> p x = false -> forallb p l = false.
Proof.
  intros Hx Hp. apply not_true_is_false. intros H. rewrite forallb_forall in H.
  rewrite (H x Hx) in Hp. discriminate.
Qed.

Theorem unrepresentable_refused_nx g :
  (exists e, In e (gsrc g) /\ ety e <> Dir /\ ety e <> Und)
  \/ (exists e1 e2, In e1 (gsrc g) /\ In e2 (gsrc g) /\ ety e1 = Dir /\ ety e2 = Und) ->
  to_nx g = Err EConv /\ to_gml_nx g = Err EConv.
Proof.
  intros H.
  assert (Hfd : fully_directed g = false /\ fully_undirected g = false).
  { destruct H as [(e & He & H1 & H2)|(e1 & e2 & He1 & He2 & H1 & H2)].
    - apply v_edges_in in He. split; eapply forallb_false_of; try exact He;
        destruct (ety e); simpl; congruence.
    - apply v_edges_in in He1, He2. split; eapply forallb_false_of.
      + exact He2. + rewrite H2; reflexivity. + exact He1. + rewrite H1; reflexivity. }
  destruct Hfd as [Hfd Hfu].
  assert (Hnx : to_nx g = Err EConv) by (unfold to_nx; rewrite Hfd, Hfu; reflexivity).
  split; [exact Hnx|]. unfold to_gml_nx. rewrite Hnx. destruct (gml_message_nonempty g); reflexivity.
Qed.

(** [to_gml_string] refuses exactly when [to_networkx] does *)
Theorem to_gml_refuses_iff g x : to_gml_nx g = Err x <-> to_nx g = Err x.
Proof.
  unfold to_gml_nx, gml_message_nonempty, to_nx.
  destruct (fully_directed g), (fully_undirected g); simpl; try tauto.
  destruct (existsb _ _); tauto.
Qed.

Theorem to_nx_ok g :
  (forall e, In e (gsrc g) -> ety e = Dir) \/ (forall e, In e (gsrc g) -> ety e = Und) ->
  exists dir, to_nx g = Ok (dir, v_node_names g, map edge_key (v_edges g))
    /\ (dir = true -> forall e, In e (gsrc g) -> ety e = Dir)
    /\ (dir = false -> forall e, In e (gsrc g) -> ety e = Und).
Proof.
  intros H. unfold to_nx.
  destruct (fully_directed g) eqn:Hfd.
  - exists true. simpl. split; [reflexivity|]. split; [|discriminate].
    intros _ e He. unfold fully_directed in Hfd. rewrite forallb_forall in Hfd.
    apply v_edges_in in He. specialize (Hfd e He). destruct (etype_eqb_spec (ety e) Dir); congruence.
  - destruct (fully_undirected g) eqn:Hfu.
    + exists false. simpl. split; [reflexivity|]. split; [discriminate|].
      intros _ e He. unfold fully_undirected in Hfu. rewrite forallb_forall in Hfu.
      apply v_edges_in in He. specialize (Hfu e He). destruct (etype_eqb_spec (ety e) Und); congruence.
    + exfalso. destruct H as [H|H].
      * assert (fully_directed g = true); [|congruence].
        apply forallb_forall. intros e He. apply v_edges_in in He. rewrite (H e He). reflexivity.
      * assert (fully_undirected g = true); [|congruence].
        apply forallb_forall. intros e He. apply v_edges_in in He. rewrite (H e He). reflexivity.
Qed.

(** * C08: malformed matrices are refused (for ALL such inputs, both classes) *)

Lemma is_square_true_iff a : is_square a = true <-> dims (length a) a.
Proof.
  unfold is_square, dims. rewrite forallb_forall. split.
  - intros H. split; [reflexivity|]. intros r Hr. apply Nat.eqb_eq, H, Hr.
  - intros [_ H] r Hr. apply Nat.eqb_eq, H, Hr.
Qed.

Lemma forallb_false_ex {A} (p : A -> bool) l :
  forallb p l = false -> exists x, In x l /\ p x = false.
Proof.
  induction l as [|x l IH]; simpl; [discriminate|].
  destruct (p x) eqn:E; simpl.
  - intros H. destruct (IH H) as (y & Hy & Hp). exists y. split; [right; exact Hy|exact Hp].
  - intros _. exists x. split; [left; reflexivity|exact E].
Qed.

Lemma is_square_false_iff a :
  is_square a = false <-> exists r, In r a /\ length r <> length a.
Proof.
  split.
  - intros H. unfold is_square in H. apply forallb_false_ex in H.
    destruct H as (r & Hr & Hl). exists r. split; [exact Hr|]. apply Nat.eqb_neq; exact Hl.
  - intros (r & Hr & Hl). apply not_true_is_false. intros H.
    apply is_square_true_iff in H. destruct H as [_ H]. apply Hl, H, Hr.
Qed.

Lemma is_binary_false_iff a :
  is_binary a = false <->
  exists i j z, entry a i j = Some z /\ z <> 0%Z /\ z <> 1%Z.
Proof.
  split.
  - intros H. unfold is_binary in H. apply forallb_false_ex in H.
    destruct H as (r & Hr & Hrb). apply forallb_false_ex in Hrb.
    destruct Hrb as (z & Hz & Hzb).
    apply In_nth_error in Hr. destruct Hr as [i Hi].
    apply In_nth_error in Hz. destruct Hz as [j Hj].
    exists i, j, z. unfold entry. rewrite Hi. split; [exact Hj|].
    apply orb_false_iff in Hzb. destruct Hzb as [H0 H1].
    apply Z.eqb_neq in H0, H1. split; assumption.
  - intros (i & j & z & He & H0 & H1). apply not_true_is_false. intros H.
    unfold is_binary in H. rewrite forallb_forall in H. unfold entry in He.
    destruct (nth_error a i) as [r|] eqn:Er; [|discriminate].
    specialize (H r (nth_error_In _ _ Er)). rewrite forallb_forall in H.
    specialize (H z (nth_error_In _ _ He)).
    apply orb_true_iff in H. destruct H as [H|H]; apply Z.eqb_eq in H; contradiction.
Qed.

Section Malformed.
  Variable parse : name -> option (name * Z).
  Variable fmt : name -> Z -> option name.
  Variable k : kind.

  Theorem malformed_not_square a names v :
    is_square a = false -> from_matrix parse fmt k a names v = Err EInvalidAdj.
  Proof. intros H. unfold from_matrix. rewrite H. reflexivity. Qed.

  Theorem malformed_not_binary a names v :
    is_binary a = false -> from_matrix parse fmt k a names v = Err EInvalidAdj.
  Proof.
    intros H. unfold from_matrix. rewrite H. destruct (is_square a); reflexivity.
  Qed.

  Theorem malformed_name_count a l v :
    is_square a = true -> is_binary a = true -> length l <> length a ->
    from_matrix parse fmt k a (Some l) v = Err EAssert.
  Proof.
    intros Hs Hb Hl. unfold from_matrix. rewrite Hs, Hb. simpl.
    apply Nat.eqb_neq in Hl. rewrite Hl. reflexivity.
  Qed.

  (** the three refusals in the order the code performs them; stated on the matrix itself:
      a row of the wrong length, an entry other than 0 and 1, a wrong number of names *)
  Theorem malformed_refused a names v :
    (exists r, In r a /\ length r <> length a)
    \/ (exists i j z, entry a i j = Some z /\ z <> 0%Z /\ z <> 1%Z)
    \/ (exists l, names = Some l /\ length l <> length a) ->
    from_matrix parse fmt k a names v = Err EInvalidAdj
    \/ from_matrix parse fmt k a names v = Err EAssert.
  Proof.
    intros [H|[H|(l & -> & H)]].
    - left. apply malformed_not_square, is_square_false_iff, H.
    - left. apply malformed_not_binary, is_binary_false_iff, H.
    - destruct (is_square a) eqn:Hs; [|left; apply malformed_not_square; exact Hs].
      destruct (is_binary a) eqn:Hb; [|left; apply malformed_not_binary; exact Hb].
      right. apply malformed_name_count; assumption.
  Qed.

  (** conversely, whatever [from_matrix] accepts is a square binary matrix with the right
      number of names *)
  Theorem from_matrix_ok_wellformed a names v g :
    from_matrix parse fmt k a names v = Ok g ->
    dims (length a) a
    /\ (forall i j z, entry a i j = Some z -> z = 0%Z \/ z = 1%Z)
    /\ (forall l, names = Some l -> length l = length a).
  Proof.
    intros H. split; [|split].
    - apply is_square_true_iff. destruct (is_square a) eqn:E; [reflexivity|].
      rewrite (@malformed_not_square a names v E) in H. discriminate.
    - intros i j z He. destruct (Z.eq_dec z 0) as [|H0]; [left; assumption|].
      destruct (Z.eq_dec z 1) as [|H1]; [right; assumption|]. exfalso.
      assert (Hb : is_binary a = false)
        by (apply is_binary_false_iff; exists i, j, z; repeat split; assumption).
      rewrite (@malformed_not_binary a names v Hb) in H. discriminate.
    - intros l ->. destruct (Nat.eq_dec (length l) (length a)) as [|Hn]; [assumption|]. exfalso.
      destruct (is_square a) eqn:Hs; [|rewrite (@malformed_not_square a (Some l) v Hs) in H; discriminate].
      destruct (is_binary a) eqn:Hb; [|rewrite (@malformed_not_binary a (Some l) v Hb) in H; discriminate].
      rewrite (@malformed_name_count a l v Hs Hb Hn) in H. discriminate.
  Qed.
End Malformed.

(** * Lookups on the state *)

Lemma find_node_some_in id ns n : find_node id ns = Some n -> In n ns /\ nid n = id.
Proof.
  induction ns as [|x ns IH]; simpl; [discriminate|].
  destruct (name_eqb_spec id (nid x)) as [->|Hn].
  - intros [= ->]. split; [left; reflexivity|reflexivity].
  - intros H. destruct (IH H) as [H1 H2]. split; [right; exact H1|exact H2].
Qed.

Lemma find_node_none id ns : find_node id ns = None <-> ~ In id (map nid ns).
Proof.
  induction ns as [|x ns IH]; simpl; [tauto|].
  destruct (name_eqb_spec id (nid x)) as [->|Hn].
  - split; [discriminate|]. intros H. exfalso. apply H. left; reflexivity.
  - rewrite IH. split; [intros H [E|E]; [congruence|contradiction]|tauto].
Qed.

Lemma node_exists_in g id : node_exists g id = true <-> In id (node_ids g).
Proof.
  unfold node_exists, get_node, node_ids.
  destruct (find_node id (gnodes g)) as [n|] eqn:E.
  - split; [intros _|reflexivity]. apply find_node_some_in in E. destruct E as [Hin <-].
    apply in_map; exact Hin.
  - apply find_node_none in E. split; [discriminate|contradiction].
Qed.

Lemma find_edge_none s d es : find_edge s d es = None <-> ~ In (s, d) (map edge_key es).
Proof.
  induction es as [|e es IH]; simpl; [tauto|]. unfold edge_key at 1.
  destruct (name_eqb_spec s (esrc e)) as [->|Hn]; simpl.
  - destruct (name_eqb_spec d (edst e)) as [->|Hn2].
    + split; [discriminate|]. intros H. exfalso. apply H. left; reflexivity.
    + rewrite IH. split; [intros H [E|E]; [congruence|contradiction]|tauto].
  - rewrite IH. split; [intros H [E|E]; [congruence|contradiction]|tauto].
Qed.

Lemma edge_at_none g s d : edge_at g s d = None <-> ~ In (s, d) (edge_keys g).
Proof. apply find_edge_none. Qed.

Lemma update_node_ids f id ns :
  (forall n, nid (f n) = nid n) -> map nid (update_node f id ns) = map nid ns.
Proof.
  intros Hf. unfold update_node. rewrite map_map. apply map_ext. intros n.
  destruct (name_eqb id (nid n)); [apply Hf|reflexivity].
Qed.

Lemma insert_edge_ids g e : node_ids (insert_edge g e) = node_ids g.
Proof.
  unfold node_ids, insert_edge; simpl. destruct (etype_eqb (ety e) Dir); [|reflexivity].
  rewrite !update_node_ids; reflexivity || (intros n; reflexivity).
Qed.

Lemma insert_edge_src g e : gsrc (insert_edge g e) = gsrc g ++ [e].
Proof. reflexivity. Qed.

(** * The plain class: what the construction loop of [from_adjacency_matrix] builds *)

Definition fresh_node (id : name) : node :=
  {| nid := id; nvt := VUnspec; nmeta := []; ninb := []; noutb := [] |}.

Definition mk_edge (s d : name) (ty : etype) : edge :=
  {| esrc := s; edst := d; ety := ty; emeta := [] |}.

(** the edge (if any) that the pair [(i, j)] of the loop contributes *)
Definition edge_of (a : matrix) (nodes : list name) (p : nat * nat) : list edge :=
  match entry a (fst p) (snd p), entry a (snd p) (fst p),
        nth_error nodes (fst p), nth_error nodes (snd p) with
  | Some x, Some y, Some ni, Some nj =>
      if negb (Z.eqb x 0) && Z.eqb y 0 then [mk_edge ni nj Dir]
      else if Z.eqb x 0 && negb (Z.eqb y 0) then [mk_edge nj ni Dir]
      else if negb (Z.eqb x 0) && negb (Z.eqb y 0) then [mk_edge ni nj Und]
      else []
  | _, _, _, _ => []
  end.

Section PlainLoop.
  Variable parse : name -> option (name * Z).
  Variable fmt : name -> Z -> option name.

  Lemma add_nodes_plain ids : forall g,
    NoDup ids -> (forall x, In x ids -> ~ In x (node_ids g)) ->
    exists g', add_nodes_from parse Plain g ids = (Ok g', g')
               /\ gnodes g' = gnodes g ++ map fresh_node ids
               /\ gsrc g' = gsrc g /\ gdst g' = gdst g.
  Proof.
    unfold add_nodes_from.
    induction ids as [|x ids IH]; intros g Hnd Hfresh.
    - exists g. simpl. rewrite app_nil_r. auto.
    - inversion Hnd as [|? ? Hx Hnd']; subst. cbn [fold_left].
      assert (Hne : node_exists g x = false).
      { apply not_true_is_false. rewrite node_exists_in. apply Hfresh. left; reflexivity. }
      unfold add_node_id at 2. rewrite Hne. cbn [mk_node bind].
      destruct (IH (push_node g (fresh_node x)) Hnd') as (g' & Hg' & Hn' & Hs' & Hd').
      + intros y Hy. unfold node_ids, push_node; simpl. rewrite map_app, in_app_iff. simpl.
        intros [H|[H|[]]]; [apply (Hfresh y (or_intror Hy)); exact H|].
        subst y. apply Hx; exact Hy.
      + exists g'. split; [exact Hg'|]. split; [|split; assumption].
        rewrite Hn'. simpl. rewrite <- app_assoc. reflexivity.
  Qed.

  Lemma add_edge_plain g s d ty :
    In s (node_ids g) -> In d (node_ids g) -> s <> d ->
    ~ In (s, d) (edge_keys g) -> ~ In (d, s) (edge_keys g) ->
    add_edge_op parse fmt Plain g s d ty = Ok (insert_edge g (mk_edge s d ty)).
  Proof.
    intros Hs Hd Hne H1 H2.
    unfold add_edge_op, run_op, add_edge, add_edge_try. cbn [fst snd str_ep].
    apply name_eqb_neq in Hne. rewrite Hne.
    apply edge_at_none in H1. apply edge_at_none in H2. rewrite H1.
    unfold add_endpoint, str_ep. cbn [fst snd].
    rewrite (proj2 (node_exists_in g s) Hs), (proj2 (node_exists_in g d) Hd).
    cbn [orient]. unfold set_edge. rewrite H1, H2. reflexivity.
  Qed.
End PlainLoop.

(** [itertools.combinations(range(n), 2)] *)
Lemma in_pairs n i j : In (i, j) (pairs n) <-> i < j < n.
Proof.
  unfold pairs. rewrite in_flat_map. split.
  - intros (x & Hx & Hin). apply in_map_iff in Hin. destruct Hin as (y & E & Hy).
    injection E as <- <-. apply in_seq in Hx, Hy. lia.
  - intros H. exists i. split; [apply in_seq; lia|]. apply in_map_iff.
    exists j. split; [reflexivity|apply in_seq; lia].
Qed.

Lemma NoDup_app_intro {A} (l1 l2 : list A) :
  NoDup l1 -> NoDup l2 -> (forall z, In z l1 -> ~ In z l2) -> NoDup (l1 ++ l2).
Proof.
  induction l1 as [|x l1 IH]; intros H1 H2 Hd; simpl; [exact H2|].
  inversion H1 as [|? ? Hx H1']; subst. constructor.
  - rewrite in_app_iff. intros [H|H]; [contradiction|]. apply (Hd x (or_introl eq_refl) H).
  - apply IH; [exact H1'|exact H2|]. intros z Hz. apply Hd. right; exact Hz.
Qed.

Lemma NoDup_flat_map {A B} (f : A -> list B) l :
  NoDup l -> (forall x, In x l -> NoDup (f x)) ->
  (forall x y z, In x l -> In y l -> In z (f x) -> In z (f y) -> x = y) ->
  NoDup (flat_map f l).
Proof.
  induction l as [|x l IH]; intros Hnd Hf Hdis; simpl; [constructor|].
  inversion Hnd as [|? ? Hx Hnd']; subst. apply NoDup_app_intro.
  - apply Hf. left; reflexivity.
  - apply IH; [exact Hnd'| |].
    + intros y Hy. apply Hf. right; exact Hy.
    + intros y1 y2 z H1 H2. apply Hdis; right; assumption.
  - intros z Hz Hz'. apply in_flat_map in Hz'. destruct Hz' as (y & Hy & Hzy).
    assert (x = y) by (eapply Hdis; [left; reflexivity|right; exact Hy|exact Hz|exact Hzy]).
    subst y. contradiction.
Qed.

Lemma pairs_nodup n : NoDup (pairs n).
Proof.
  unfold pairs. apply NoDup_flat_map.
  - apply seq_NoDup.
  - intros i _. generalize (seq_NoDup (n - S i) (S i)). generalize (seq (S i) (n - S i)).
    intros l Hl. induction Hl as [|j l Hj Hl IH]; simpl; constructor; [|exact IH].
    rewrite in_map_iff. intros (j' & E & Hj'). injection E as ->. contradiction.
  - intros x y z _ _ Hx Hy. apply in_map_iff in Hx, Hy.
    destruct Hx as (j1 & <- & _). destruct Hy as (j2 & E & _). injection E as -> _. reflexivity.
Qed.

Lemma nodup_nth_inj (l : list name) i j x :
  NoDup l -> nth_error l i = Some x -> nth_error l j = Some x -> i = j.
Proof.
  intros Hnd Hi Hj. apply (proj1 (NoDup_nth_error l) Hnd).
  - apply nth_error_Some. congruence.
  - congruence.
Qed.

Section PlainLoop2.
  Variable parse : name -> option (name * Z).
  Variable fmt : name -> Z -> option name.
  Variable a : matrix.
  Variable nodes : list name.
  Hypothesis Hdims : dims (length nodes) a.
  Hypothesis Hnodup : NoDup nodes.

  Lemma edge_of_key p e :
    In e (edge_of a nodes p) ->
    exists ni nj, nth_error nodes (fst p) = Some ni /\ nth_error nodes (snd p) = Some nj
                  /\ (edge_key e = (ni, nj) \/ edge_key e = (nj, ni)).
  Proof.
    unfold edge_of.
    destruct (entry a (fst p) (snd p)) as [x|]; [|intros []].
    destruct (entry a (snd p) (fst p)) as [y|]; [|intros []].
    destruct (nth_error nodes (fst p)) as [ni|]; [|intros []].
    destruct (nth_error nodes (snd p)) as [nj|]; [|intros []].
    intros He. exists ni, nj. split; [reflexivity|]. split; [reflexivity|].
    destruct (negb (Z.eqb x 0) && Z.eqb y 0); [destruct He as [<-|[]]; left; reflexivity|].
    destruct (Z.eqb x 0 && negb (Z.eqb y 0)); [destruct He as [<-|[]]; right; reflexivity|].
    destruct (negb (Z.eqb x 0) && negb (Z.eqb y 0)); [destruct He as [<-|[]]; left; reflexivity|].
    destruct He.
  Qed.

  Lemma edge_step_plain g p :
    fst p < snd p -> snd p < length nodes ->
    (forall x, In x nodes -> In x (node_ids g)) ->
    (forall e ni nj, In e (gsrc g) ->
       nth_error nodes (fst p) = Some ni -> nth_error nodes (snd p) = Some nj ->
       edge_key e <> (ni, nj) /\ edge_key e <> (nj, ni)) ->
    exists g', edge_step parse fmt Plain a nodes (Ok g) p = Ok g'
               /\ gsrc g' = gsrc g ++ edge_of a nodes p /\ node_ids g' = node_ids g.
  Proof.
    intros Hlt Hj Hin Hfresh. unfold edge_step, edge_of. cbn [bind].
    destruct (entry_some Hdims (i:=fst p) (j:=snd p)) as [x Hx]; [lia|lia|].
    destruct (entry_some Hdims (i:=snd p) (j:=fst p)) as [y Hy]; [lia|lia|].
    rewrite Hx, Hy.
    destruct (nth_error nodes (fst p)) as [ni|] eqn:Eni;
      [|apply nth_error_None in Eni; lia].
    destruct (nth_error nodes (snd p)) as [nj|] eqn:Enj;
      [|apply nth_error_None in Enj; lia].
    assert (Hne : ni <> nj).
    { intros ->. assert (fst p = snd p) by (eapply nodup_nth_inj; eassumption). lia. }
    assert (Hni : In ni (node_ids g)) by (apply Hin; eapply nth_error_In; exact Eni).
    assert (Hnj : In nj (node_ids g)) by (apply Hin; eapply nth_error_In; exact Enj).
    assert (Hk1 : ~ In (ni, nj) (edge_keys g)).
    { unfold edge_keys. rewrite in_map_iff. intros (e & Hk & He).
      destruct (Hfresh e ni nj He eq_refl eq_refl) as [H _]. contradiction. }
    assert (Hk2 : ~ In (nj, ni) (edge_keys g)).
    { unfold edge_keys. rewrite in_map_iff. intros (e & Hk & He).
      destruct (Hfresh e ni nj He eq_refl eq_refl) as [_ H]. contradiction. }
    destruct (negb (Z.eqb x 0) && Z.eqb y 0).
    { rewrite (@add_edge_plain parse fmt g ni nj Dir Hni Hnj Hne Hk1 Hk2). eexists. split; [reflexivity|].
      split; [apply insert_edge_src|apply insert_edge_ids]. }
    destruct (Z.eqb x 0 && negb (Z.eqb y 0)).
    { rewrite (@add_edge_plain parse fmt g nj ni Dir Hnj Hni (not_eq_sym Hne) Hk2 Hk1).
      eexists. split; [reflexivity|]. split; [apply insert_edge_src|apply insert_edge_ids]. }
    destruct (negb (Z.eqb x 0) && negb (Z.eqb y 0)).
    { rewrite (@add_edge_plain parse fmt g ni nj Und Hni Hnj Hne Hk1 Hk2). eexists. split; [reflexivity|].
      split; [apply insert_edge_src|apply insert_edge_ids]. }
    exists g. split; [reflexivity|]. split; [rewrite app_nil_r; reflexivity|reflexivity].
  Qed.
End PlainLoop2.

Section PlainLoop3.
  Variable parse : name -> option (name * Z).
  Variable fmt : name -> Z -> option name.
  Variable a : matrix.
  Variable nodes : list name.
  Hypothesis Hdims : dims (length nodes) a.
  Hypothesis Hnodup : NoDup nodes.

  (** invariant of the double loop: the edges stored so far are exactly those contributed by
      the pairs already visited, in that order; the nodes do not change *)
  Lemma loop_plain P : forall g,
    (forall p, In p P -> fst p < snd p /\ snd p < length nodes) -> NoDup P ->
    (forall x, In x nodes -> In x (node_ids g)) ->
    (forall e p ni nj, In e (gsrc g) -> In p P ->
       nth_error nodes (fst p) = Some ni -> nth_error nodes (snd p) = Some nj ->
       edge_key e <> (ni, nj) /\ edge_key e <> (nj, ni)) ->
    exists g', fold_left (edge_step parse fmt Plain a nodes) P (Ok g) = Ok g'
               /\ gsrc g' = gsrc g ++ flat_map (edge_of a nodes) P
               /\ node_ids g' = node_ids g.
  Proof.
    induction P as [|p P IH]; intros g HP Hnd Hin Hfresh.
    - exists g. simpl. rewrite app_nil_r. auto.
    - inversion Hnd as [|? ? Hp Hnd']; subst.
      destruct (HP p (or_introl eq_refl)) as [Hlt Hj].
      destruct (@edge_step_plain parse fmt a nodes Hdims Hnodup g p Hlt Hj Hin) as (g1 & Hg1 & Hs1 & Hn1).
      { intros e ni nj He. apply Hfresh; [exact He|left; reflexivity]. }
      cbn [fold_left]. rewrite Hg1.
      destruct (IH g1) as (g' & Hg' & Hs' & Hn').
      + intros q Hq. apply HP. right; exact Hq.
      + exact Hnd'.
      + intros x Hx. rewrite Hn1. apply Hin; exact Hx.
      + intros e q ni' nj' He Hq Hni' Hnj'. rewrite Hs1 in He. apply in_app_iff in He.
        destruct He as [He|He]; [apply (Hfresh e q); [exact He|right; exact Hq|exact Hni'|exact Hnj']|].
        destruct (@edge_of_key a nodes p e He) as (ni & nj & Hni & Hnj & Hk).
        destruct (HP q (or_intror Hq)) as [Hltq Hjq].
        assert (Hpq : p <> q) by (intros ->; contradiction).
        split; intros Hkey.
        * destruct Hk as [Hk|Hk]; rewrite Hk in Hkey; injection Hkey as -> ->.
          -- apply Hpq. destruct p, q; simpl in *.
             f_equal; eapply nodup_nth_inj; eassumption.
          -- assert (snd p = fst q) by (eapply nodup_nth_inj; eassumption).
             assert (fst p = snd q) by (eapply nodup_nth_inj; eassumption). lia.
        * destruct Hk as [Hk|Hk]; rewrite Hk in Hkey; injection Hkey as -> ->.
          -- assert (fst p = snd q) by (eapply nodup_nth_inj; eassumption).
             assert (snd p = fst q) by (eapply nodup_nth_inj; eassumption). lia.
          -- apply Hpq. destruct p, q; simpl in *.
             f_equal; eapply nodup_nth_inj; eassumption.
      + exists g'. split; [exact Hg'|]. split; [|congruence].
        rewrite Hs', Hs1. simpl. rewrite <- app_assoc. reflexivity.
  Qed.
End PlainLoop3.

Lemma map_nid_fresh l : map nid (map fresh_node l) = l.
Proof. rewrite map_map. simpl. apply map_id. Qed.

(** the unvalidated construction from a well-formed matrix with distinct names always
    succeeds; its nodes are the names, its edges those of the upper-triangle scan *)
Theorem from_matrix_plain_ok parse fmt a names :
  dims (length a) a -> is_binary a = true -> length names = length a -> NoDup names ->
  exists g', from_matrix parse fmt Plain a (Some names) false = Ok g'
             /\ node_ids g' = names
             /\ gsrc g' = flat_map (edge_of a names) (pairs (length names)).
Proof.
  intros Hd Hb Hl Hnd. unfold from_matrix.
  rewrite (proj2 (is_square_true_iff a) Hd), Hb. cbn [negb].
  rewrite (proj2 (Nat.eqb_eq _ _) Hl). cbn [bind run_op].
  destruct (@add_nodes_plain parse names (empty_graph []) Hnd) as (g0 & Hg0 & Hn0 & Hs0 & _).
  { intros x _ []. }
  rewrite Hg0. cbn [fst bind].
  assert (Hids : node_ids g0 = names).
  { unfold node_ids. rewrite Hn0. simpl. apply map_nid_fresh. }
  rewrite <- Hl in Hd.
  destruct (@loop_plain parse fmt a names Hd Hnd (pairs (length names)) g0) as (g' & Hg' & Hs' & Hn').
  - intros [i j] Hp. apply in_pairs in Hp. simpl. lia.
  - apply pairs_nodup.
  - intros x Hx. rewrite Hids. exact Hx.
  - intros e p ni nj He. rewrite Hs0 in He. destruct He.
  - rewrite Hg'. cbn [bind]. exists g'. split; [reflexivity|]. split; [congruence|].
    rewrite Hs', Hs0. reflexivity.
Qed.

Lemma NoDup_map_inj {A B} (f : A -> B) l x y :
  NoDup (map f l) -> In x l -> In y l -> f x = f y -> x = y.
Proof.
  induction l as [|z l IH]; intros Hnd Hx Hy E; [destruct Hx|].
  simpl in Hnd. inversion Hnd as [|? ? Hz Hnd']; subst.
  destruct Hx as [->|Hx]; destruct Hy as [->|Hy]; try reflexivity.
  - exfalso. apply Hz. rewrite E. apply in_map; exact Hy.
  - exfalso. apply Hz. rewrite <- E. apply in_map; exact Hx.
  - apply IH; assumption.
Qed.

(** * C08: the matrix round trip (plain class) *)

Definition has_edge (g : graph) (s d : name) (t : etype) : Prop :=
  exists e, In e (gsrc g) /\ edge_key e = (s, d) /\ ety e = t.

(** What [CausalGraph.__eq__] compares, on graphs whose edges are all [->] or [--]: the same
    node identifiers; the same directed edges with the same orientation; the same undirected
    edges up to orientation. *)
Definition same_graph (g h : graph) : Prop :=
  (forall x, In x (node_ids g) <-> In x (node_ids h))
  /\ (forall s d, has_edge g s d Dir <-> has_edge h s d Dir)
  /\ (forall s d, has_edge g s d Und \/ has_edge g d s Und
                  <-> has_edge h s d Und \/ has_edge h d s Und)
  /\ only_dir_und g /\ only_dir_und h.

Lemma binary_is_binary n a :
  dims n a -> (forall i j, i < n -> j < n -> entry a i j = Some 0%Z \/ entry a i j = Some 1%Z) ->
  is_binary a = true.
Proof.
  intros Hd Hb. destruct (is_binary a) eqn:E; [reflexivity|]. exfalso.
  apply is_binary_false_iff in E. destruct E as (i & j & z & He & H0 & H1).
  destruct (@entry_lt n a i j z Hd He) as [Hi Hj].
  destruct (Hb i j Hi Hj) as [H|H]; rewrite H in He; injection He as <-; contradiction.
Qed.

Definition entry_spec (g : graph) (a : matrix) (names : list name) : Prop :=
  forall i j ni nj,
    nth_error names i = Some ni -> nth_error names j = Some nj ->
    (entry a i j = Some 1%Z <->
     exists e, In e (gsrc g) /\
       ((edge_key e = (ni, nj) /\ (ety e = Dir \/ ety e = Und))
        \/ (edge_key e = (nj, ni) /\ ety e = Und))).

Section EntriesVsEdges.
  Variable parse : name -> option (name * Z).
  Variable k : kind.
  Variable g : graph.
  Variable a : matrix.
  Variable names : list name.
  Hypothesis HI : Inv parse k g.
  (** the matrix has the entries of [matrix_entry] under the node order [names] (this is so for
      [to_matrix g] and for [networkx.to_numpy_array(g.to_networkx())]) *)
  Hypothesis Hentry : entry_spec g a names.

  Variables (i j : nat) (ni nj : name).
  Hypothesis Hi : nth_error names i = Some ni.
  Hypothesis Hj : nth_error names j = Some nj.

  Let E_ij := Hentry i j Hi Hj.
  Let E_ji := Hentry j i Hj Hi.

  Lemma same_key_same_edge e1 e2 :
    In e1 (gsrc g) -> In e2 (gsrc g) -> edge_key e1 = edge_key e2 -> e1 = e2.
  Proof. intros H1 H2 E. eapply NoDup_map_inj; [apply (inv_nodup_keys HI)| | |]; eassumption. Qed.

  Lemma no_reverse_pair e1 e2 s d :
    In e1 (gsrc g) -> In e2 (gsrc g) -> edge_key e1 = (s, d) -> edge_key e2 = (d, s) -> False.
  Proof.
    intros H1 H2 K1 K2. apply (inv_noreverse HI e1 H1). unfold edge_key in K1.
    injection K1 as -> ->. unfold edge_keys. rewrite <- K2. apply in_map; exact H2.
  Qed.

  Lemma entries_dir : entry a i j = Some 1%Z -> entry a j i <> Some 1%Z -> has_edge g ni nj Dir.
  Proof.
    intros H1 H0. apply E_ij in H1. destruct H1 as (e & He & Hc).
    destruct Hc as [(Hk & [Ht|Ht])|(Hk & Ht)].
    - exists e. auto.
    - exfalso. apply H0, E_ji. exists e. split; [exact He|right; auto].
    - exfalso. apply H0, E_ji. exists e. split; [exact He|left; auto].
  Qed.

  Lemma entries_und :
    entry a i j = Some 1%Z -> entry a j i = Some 1%Z -> has_edge g ni nj Und \/ has_edge g nj ni Und.
  Proof.
    intros H1 H2. apply E_ij in H1. apply E_ji in H2.
    destruct H1 as (e1 & He1 & Hc1). destruct H2 as (e2 & He2 & Hc2).
    destruct Hc1 as [(Hk1 & [Ht1|Ht1])|(Hk1 & Ht1)].
    - exfalso. destruct Hc2 as [(Hk2 & _)|(Hk2 & Ht2)].
      + eapply no_reverse_pair; [exact He1|exact He2|exact Hk1|exact Hk2].
      + assert (e1 = e2) by (apply same_key_same_edge; congruence). subst e2. congruence.
    - left. exists e1. auto.
    - right. exists e1. auto.
  Qed.

  Lemma dir_entries : has_edge g ni nj Dir -> entry a i j = Some 1%Z /\ entry a j i <> Some 1%Z.
  Proof.
    intros (e & He & Hk & Ht). split.
    - apply E_ij. exists e. split; [exact He|left; auto].
    - intros H. apply E_ji in H. destruct H as (e2 & He2 & [(Hk2 & _)|(Hk2 & Ht2)]).
      + eapply no_reverse_pair; [exact He|exact He2|exact Hk|exact Hk2].
      + assert (e = e2) by (apply same_key_same_edge; congruence). subst e2. congruence.
  Qed.

  Lemma und_entries : has_edge g ni nj Und -> entry a i j = Some 1%Z /\ entry a j i = Some 1%Z.
  Proof.
    intros (e & He & Hk & Ht). split.
    - apply E_ij. exists e. split; [exact He|left; auto].
    - apply E_ji. exists e. split; [exact He|right; auto].
  Qed.
End EntriesVsEdges.

Lemma edge_of_eval a nodes i j x y ni nj :
  entry a i j = Some x -> entry a j i = Some y ->
  nth_error nodes i = Some ni -> nth_error nodes j = Some nj ->
  edge_of a nodes (i, j)
  = if negb (Z.eqb x 0) && Z.eqb y 0 then [mk_edge ni nj Dir]
    else if Z.eqb x 0 && negb (Z.eqb y 0) then [mk_edge nj ni Dir]
    else if negb (Z.eqb x 0) && negb (Z.eqb y 0) then [mk_edge ni nj Und]
    else [].
Proof. intros Hx Hy Hi Hj. unfold edge_of. cbn [fst snd]. rewrite Hx, Hy, Hi, Hj. reflexivity. Qed.

(** [e'] is the stored form of the edge [e0] the loop asked for: the same edge, or (the
    time-series class, undirected edges only) the same edge with its endpoints exchanged *)
Definition sim (e' e0 : edge) : Prop :=
  ety e' = ety e0
  /\ (edge_key e' = edge_key e0 \/ (ety e0 = Und /\ edge_key e' = (edst e0, esrc e0))).

Lemma sim_refl e : sim e e.
Proof. split; [reflexivity|left; reflexivity]. Qed.

Section RoundTrip.
  Variable parse : name -> option (name * Z).
  Variable k : kind.
  Variable g : graph.
  Variable a : matrix.
  Variable names : list name.
  Hypothesis HI : Inv parse k g.
  Hypothesis Honly : only_dir_und g.
  Hypothesis Hnames : forall x, In x names <-> In x (node_ids g).
  Let n := length names.
  Hypothesis Hshape :
    dims n a /\ (forall i j, i < n -> j < n -> entry a i j = Some 0%Z \/ entry a i j = Some 1%Z).
  Hypothesis Hentry : entry_spec g a names.

  (** the rebuilt graph holds exactly the edges of the upper-triangle scan, up to [sim] *)
  Variable g' : graph.
  Hypothesis Hback : forall e', In e' (gsrc g') ->
    exists i j e0, i < j /\ j < n /\ In e0 (edge_of a names (i, j)) /\ sim e' e0.
  Hypothesis Hforth : forall i j e0, i < j -> j < n -> In e0 (edge_of a names (i, j)) ->
    exists e', In e' (gsrc g') /\ sim e' e0.

  Lemma rt_cell i j :
    i < n -> j < n ->
    exists ni nj x y,
      nth_error names i = Some ni /\ nth_error names j = Some nj
      /\ entry a i j = Some x /\ entry a j i = Some y
      /\ (x = 0%Z \/ x = 1%Z) /\ (y = 0%Z \/ y = 1%Z).
  Proof.
    intros Hi Hj. destruct Hshape as [Hd Hb].
    destruct (nth_error names i) as [ni|] eqn:Eni; [|apply nth_error_None in Eni; unfold n in *; lia].
    destruct (nth_error names j) as [nj|] eqn:Enj; [|apply nth_error_None in Enj; unfold n in *; lia].
    exists ni, nj.
    destruct (Hb i j Hi Hj) as [Hx|Hx]; destruct (Hb j i Hj Hi) as [Hy|Hy];
      eexists; eexists; (split; [reflexivity|]); (split; [reflexivity|]);
      (split; [exact Hx|]); (split; [exact Hy|]); auto.
  Qed.

  (** every edge the scan asks for is an edge of the original *)
  Lemma rt_back0 i j e0 :
    i < j -> j < n -> In e0 (edge_of a names (i, j)) ->
    (ety e0 = Dir /\ has_edge g (esrc e0) (edst e0) Dir)
    \/ (ety e0 = Und /\ (has_edge g (esrc e0) (edst e0) Und \/ has_edge g (edst e0) (esrc e0) Und)).
  Proof.
    intros Hij Hj He.
    assert (Hi : i < n) by lia.
    destruct (rt_cell Hi Hj) as (ni & nj & x & y & Hni & Hnj & Hx & Hy & Hxb & Hyb).
    rewrite (edge_of_eval _ _ _ _ Hx Hy Hni Hnj) in He.
    destruct Hxb as [-> | ->]; destruct Hyb as [-> | ->]; simpl in He.
    - destruct He.
    - destruct He as [<-|[]]. left. split; [reflexivity|]. simpl.
      apply (@entries_dir g a names Hentry j i nj ni Hnj Hni Hy). rewrite Hx. discriminate.
    - destruct He as [<-|[]]. left. split; [reflexivity|]. simpl.
      apply (@entries_dir g a names Hentry i j ni nj Hni Hnj Hx). rewrite Hy. discriminate.
    - destruct He as [<-|[]]. right. split; [reflexivity|]. simpl.
      apply (@entries_und parse k g a names HI Hentry i j ni nj Hni Hnj Hx Hy).
  Qed.

  (** every edge of the rebuilt graph is an edge of the original *)
  Lemma rt_back e' :
    In e' (gsrc g') ->
    (ety e' = Dir /\ has_edge g (esrc e') (edst e') Dir)
    \/ (ety e' = Und /\ (has_edge g (esrc e') (edst e') Und \/ has_edge g (edst e') (esrc e') Und)).
  Proof.
    intros He. destruct (Hback e' He) as (i & j & e0 & Hij & Hj & He0 & Ht & Hk).
    unfold edge_key in Hk.
    destruct (@rt_back0 i j e0 Hij Hj He0) as [[Hd H]|[Hu H]].
    - left. rewrite Ht. split; [exact Hd|].
      destruct Hk as [Hk|[Hc _]]; [|congruence]. injection Hk as -> ->. exact H.
    - right. rewrite Ht. split; [exact Hu|].
      destruct Hk as [Hk|[_ Hk]]; injection Hk as -> ->; tauto.
  Qed.

  (** every edge of the original is an edge of the rebuilt graph, an undirected one possibly
      with its endpoints exchanged *)
  Lemma rt_forth e :
    In e (gsrc g) ->
    (ety e = Dir -> has_edge g' (esrc e) (edst e) Dir)
    /\ (ety e = Und -> has_edge g' (esrc e) (edst e) Und \/ has_edge g' (edst e) (esrc e) Und).
  Proof.
    intros He.
    destruct (inv_endpoints HI e He) as [Hs Hd].
    apply Hnames, In_nth_error in Hs. apply Hnames, In_nth_error in Hd.
    destruct Hs as [i Hni]. destruct Hd as [j Hnj].
    assert (Hi : i < n) by (apply nth_error_Some; congruence).
    assert (Hj : j < n) by (apply nth_error_Some; congruence).
    assert (Hij : i <> j).
    { intros ->. apply (inv_noloop HI e He). congruence. }
    destruct Hshape as [_ Hb].
    (* the stored form of a requested edge *)
    assert (Hdir : forall i0 j0 s d, i0 < j0 -> j0 < n -> In (mk_edge s d Dir) (edge_of a names (i0, j0)) ->
                                     has_edge g' s d Dir).
    { intros i0 j0 s d H1 H2 H3. destruct (@Hforth i0 j0 _ H1 H2 H3) as (e' & He' & Ht & Hk).
      exists e'. split; [exact He'|]. split; [|exact Ht].
      destruct Hk as [Hk|[Hc _]]; [exact Hk|discriminate]. }
    assert (Hund : forall i0 j0 s d, i0 < j0 -> j0 < n -> In (mk_edge s d Und) (edge_of a names (i0, j0)) ->
                                     has_edge g' s d Und \/ has_edge g' d s Und).
    { intros i0 j0 s d H1 H2 H3. destruct (@Hforth i0 j0 _ H1 H2 H3) as (e' & He' & Ht & Hk).
      destruct Hk as [Hk|[_ Hk]]; [left|right]; exists e'; auto. }
    split; intros Hty.
    - assert (Hh : has_edge g (esrc e) (edst e) Dir) by (exists e; auto).
      destruct (@dir_entries parse k g a names HI Hentry i j _ _ Hni Hnj Hh) as [H1 H0].
      assert (H0' : entry a j i = Some 0%Z) by (destruct (Hb j i Hj Hi); [assumption|contradiction]).
      destruct (Nat.lt_ge_cases i j) as [Hlt|Hge].
      + apply (Hdir i j); [exact Hlt|exact Hj|].
        rewrite (edge_of_eval _ _ _ _ H1 H0' Hni Hnj). simpl. left; reflexivity.
      + apply (Hdir j i); [lia|exact Hi|].
        rewrite (edge_of_eval _ _ _ _ H0' H1 Hnj Hni). simpl. left; reflexivity.
    - assert (Hh : has_edge g (esrc e) (edst e) Und) by (exists e; auto).
      destruct (@und_entries g a names Hentry i j _ _ Hni Hnj Hh) as [H1 H2].
      destruct (Nat.lt_ge_cases i j) as [Hlt|Hge].
      + apply (Hund i j); [exact Hlt|exact Hj|].
        rewrite (edge_of_eval _ _ _ _ H1 H2 Hni Hnj). simpl. left; reflexivity.
      + apply or_comm. apply (Hund j i); [lia|exact Hi|].
        rewrite (edge_of_eval _ _ _ _ H2 H1 Hnj Hni). simpl. left; reflexivity.
  Qed.

  Hypothesis Hids : forall x, In x (node_ids g') <-> In x names.

  Lemma rt_same_graph : same_graph g g'.
  Proof.
    split; [|split; [|split; [|split]]].
    - intros x. rewrite Hids. symmetry. apply Hnames.
    - intros s d. split.
      + intros (e & He & Hk & Hty). destruct (rt_forth e He) as [H _].
        unfold edge_key in Hk. injection Hk as <- <-. apply H; exact Hty.
      + intros (e' & He' & Hk & Hty). unfold edge_key in Hk. injection Hk as <- <-.
        destruct (rt_back e' He') as [[_ H]|[H _]]; [exact H|congruence].
    - intros s d. split.
      + intros [(e & He & Hk & Hty)|(e & He & Hk & Hty)];
          destruct (rt_forth e He) as [_ H]; unfold edge_key in Hk; injection Hk as <- <-;
          destruct (H Hty); auto.
      + intros [(e' & He' & Hk & Hty)|(e' & He' & Hk & Hty)];
          unfold edge_key in Hk; injection Hk as <- <-;
          (destruct (rt_back e' He') as [[H _]|[_ H]]; [congruence|]); destruct H; auto.
    - exact Honly.
    - intros e' He'. destruct (rt_back e' He') as [[H _]|[H _]]; auto.
  Qed.
End RoundTrip.

(** the exact edge list of the plain class satisfies the two scan hypotheses *)
Lemma scan_of_src a names g' :
  gsrc g' = flat_map (edge_of a names) (pairs (length names)) ->
  (forall e', In e' (gsrc g') ->
     exists i j e0, i < j /\ j < length names /\ In e0 (edge_of a names (i, j)) /\ sim e' e0)
  /\ (forall i j e0, i < j -> j < length names -> In e0 (edge_of a names (i, j)) ->
        exists e', In e' (gsrc g') /\ sim e' e0).
Proof.
  intros Hsrc. split.
  - intros e' He'. rewrite Hsrc in He'. apply in_flat_map in He'.
    destruct He' as ([i j] & Hp & He). apply in_pairs in Hp.
    exists i, j, e'. repeat split; try lia; try exact He. left; reflexivity.
  - intros i j e0 Hij Hj He0. exists e0. split; [|apply sim_refl].
    rewrite Hsrc. apply in_flat_map. exists (i, j). split; [apply in_pairs; lia|exact He0].
Qed.

(** [from_adjacency_matrix] applied to the two results of [g.to_numpy()] with validate=False succeeds and equals [g]
    (whatever class [g] itself has; the rebuilt graph is a plain one) *)
Theorem matrix_roundtrip_novalidate parse fmt k g a names :
  Inv parse k g -> to_numpy g = Ok (a, names) ->
  exists g', from_matrix parse fmt Plain a (Some names) false = Ok g'
             /\ node_ids g' = names /\ same_graph g g'.
Proof.
  intros HI Hnp. destruct (to_numpy_ok_inv _ Hnp) as (Ha & -> & Honly).
  pose proof (matrix_shape HI Ha) as Hshape. destruct Hshape as [Hd Hb].
  assert (Hla : length a = length (v_node_names g)) by apply Hd.
  destruct (@from_matrix_plain_ok parse fmt a (v_node_names g)) as (g' & Hg' & Hids & Hsrc).
  - rewrite Hla. exact Hd.
  - eapply binary_is_binary; eassumption.
  - symmetry; exact Hla.
  - apply (v_node_names_nodup HI).
  - exists g'. split; [exact Hg'|]. split; [exact Hids|].
    destruct (scan_of_src _ _ _ Hsrc) as [Hback Hforth].
    apply (@rt_same_graph parse k g a (v_node_names g) HI Honly (v_node_names_in g)
             (conj Hd Hb) (matrix_entry HI Ha) g' Hback Hforth).
    intros x. rewrite Hids. reflexivity.
Qed.

(** * General facts about the construction (both classes) *)

Section Construction.
  Variable parse : name -> option (name * Z).
  Variable fmt : name -> Z -> option name.
  Variable k : kind.

  Lemma edge_step_fold_err a nodes P x :
    fold_left (edge_step parse fmt k a nodes) P (Err x) = Err x.
  Proof. induction P as [|p P IH]; [reflexivity|exact IH]. Qed.

  Lemma add_edge_ok_snd g sp dp ty m v g' :
    fst (add_edge parse k g sp dp ty m v) = Ok g' -> snd (add_edge parse k g sp dp ty m v) = g'.
  Proof.
    unfold add_edge. destruct (add_edge_try parse k g sp dp ty m v) as [[g1|x] gl]; simpl.
    - intros [= ->]. reflexivity.
    - discriminate.
  Qed.

  Lemma add_nodes_ok_snd ids : forall acc,
    (forall g, fst acc = Ok g -> snd acc = g) ->
    forall g',
      fst (fold_left (fun (acc : res graph * graph) id =>
                        match acc with
                        | (Ok g', _) =>
                            match add_node_id parse k g' id VUnspec None with
                            | Ok g'' => (Ok g'', g'')
                            | Err x => (Err x, g')
                            end
                        | (Err x, gl) => (Err x, gl)
                        end) ids acc) = Ok g' ->
      snd (fold_left (fun (acc : res graph * graph) id =>
                        match acc with
                        | (Ok g', _) =>
                            match add_node_id parse k g' id VUnspec None with
                            | Ok g'' => (Ok g'', g'')
                            | Err x => (Err x, g')
                            end
                        | (Err x, gl) => (Err x, gl)
                        end) ids acc) = g'.
  Proof.
    induction ids as [|id ids IH]; intros acc Hacc g' H; [apply Hacc; exact H|].
    cbn [fold_left] in *. apply IH; [|exact H].
    destruct acc as [[g0|x] gl]; [|simpl; discriminate].
    destruct (add_node_id parse k g0 id VUnspec None); simpl; [intros g1 [= ->]; reflexivity|discriminate].
  Qed.

  Lemma check_nodes_ok g nodes :
    (forall n, In n nodes -> depends_on_itself g n = Some false) -> check_nodes g nodes = Ok tt.
  Proof.
    induction nodes as [|n ns IH]; intros H; simpl; [reflexivity|].
    rewrite (H n (or_introl eq_refl)). apply IH. intros m Hm. apply H. right; exact Hm.
  Qed.

  Lemma check_nodes_cyclic g nodes :
    (forall n, In n nodes -> exists b, depends_on_itself g n = Some b) ->
    (exists n, In n nodes /\ depends_on_itself g n = Some true) ->
    check_nodes g nodes = Err ECyclic.
  Proof.
    induction nodes as [|n ns IH]; intros Hall (c & Hc & Hct); [destruct Hc|]. simpl.
    destruct (Hall n (or_introl eq_refl)) as [b Hb]. rewrite Hb. destruct b; [reflexivity|].
    apply IH.
    - intros m Hm. apply Hall. right; exact Hm.
    - destruct Hc as [->|Hc]; [congruence|]. exists c. split; assumption.
  Qed.

  (** the validated construction is the unvalidated one followed by the cycle scan *)
  Lemma from_matrix_validated a names g1 :
    from_matrix parse fmt k a (Some names) false = Ok g1 ->
    from_matrix parse fmt k a (Some names) true = bind (check_nodes g1 names) (fun _ => Ok g1).
  Proof.
    unfold from_matrix.
    destruct (negb (is_square a)); [discriminate|].
    destruct (negb (is_binary a)); [discriminate|].
    destruct (Nat.eqb (length names) (length a)); cbn [bind]; [|discriminate].
    destruct (fst (run_op parse fmt k (empty_graph []) (OAddNodesFrom names))) as [g0|x];
      cbn [bind]; [|discriminate].
    destruct (fold_left (edge_step parse fmt k a names) (pairs (length names)) (Ok g0)) as [g2|x];
      cbn [bind]; [|discriminate].
    intros [= ->]. reflexivity.
  Qed.

  (** ** Taken from GraphInvProofs.v (colleague), in the exact shape of GraphInv.v *)
  Hypothesis inv_init : inv_init_statement parse.
  Hypothesis inv_step : inv_step_statement parse fmt.

  Lemma edge_step_inv a nodes g p g' :
    Inv parse k g -> edge_step parse fmt k a nodes (Ok g) p = Ok g' -> Inv parse k g'.
  Proof.
    intros HI. unfold edge_step. cbn [bind].
    destruct (entry a (fst p) (snd p)) as [x|]; [|discriminate].
    destruct (entry a (snd p) (fst p)) as [y|]; [|discriminate].
    destruct (nth_error nodes (fst p)) as [ni|]; [|discriminate].
    destruct (nth_error nodes (snd p)) as [nj|]; [|discriminate].
    assert (Hop : forall s d ty, add_edge_op parse fmt k g s d ty = Ok g' -> Inv parse k g').
    { intros s d ty H. unfold add_edge_op in H.
      replace g' with (step parse fmt k g (OAddEdge (str_ep s) (str_ep d) ty None false));
        [apply inv_step; exact HI|].
      unfold step. cbn [run_op] in *. apply add_edge_ok_snd; exact H. }
    destruct (negb (Z.eqb x 0) && Z.eqb y 0); [apply Hop|].
    destruct (Z.eqb x 0 && negb (Z.eqb y 0)); [apply Hop|].
    destruct (negb (Z.eqb x 0) && negb (Z.eqb y 0)); [apply Hop|].
    intros [= <-]. exact HI.
  Qed.

  Lemma loop_inv a nodes P : forall g g',
    Inv parse k g -> fold_left (edge_step parse fmt k a nodes) P (Ok g) = Ok g' -> Inv parse k g'.
  Proof.
    induction P as [|p P IH]; intros g g' HI H; cbn [fold_left] in H.
    - injection H as <-. exact HI.
    - destruct (edge_step parse fmt k a nodes (Ok g) p) as [g1|x] eqn:E;
        [|rewrite edge_step_fold_err in H; discriminate].
      eapply IH; [|exact H]. eapply edge_step_inv; eassumption.
  Qed.

  (** whatever [from_adjacency_matrix] returns satisfies the state invariant *)
  Theorem from_matrix_inv a names v g' :
    from_matrix parse fmt k a names v = Ok g' -> Inv parse k g'.
  Proof.
    unfold from_matrix.
    destruct (negb (is_square a)); [discriminate|].
    destruct (negb (is_binary a)); [discriminate|].
    destruct (match names with
              | Some l => if Nat.eqb (length l) (length a) then Ok l else Err EAssert
              | None => Ok (default_names (length a))
              end) as [nodes|x]; cbn [bind]; [|discriminate].
    destruct (fst (run_op parse fmt k (empty_graph []) (OAddNodesFrom nodes))) as [g0|x] eqn:E0;
      cbn [bind]; [|discriminate].
    assert (HI0 : Inv parse k g0).
    { replace g0 with (step parse fmt k (empty_graph []) (OAddNodesFrom nodes));
        [apply inv_step, inv_init|].
      unfold step. cbn [run_op] in *. unfold add_nodes_from in *.
      apply add_nodes_ok_snd; [intros g [= ->]; reflexivity|exact E0]. }
    destruct (fold_left (edge_step parse fmt k a nodes) (pairs (length nodes)) (Ok g0)) as [g1|x] eqn:E1;
      cbn [bind]; [|discriminate].
    assert (HI1 : Inv parse k g1) by (eapply loop_inv; eassumption).
    destruct v; [|intros [= <-]; exact HI1].
    destruct (check_nodes g1 nodes); cbn [bind]; [|discriminate]. intros [= <-]; exact HI1.
  Qed.
End Construction.

(** * Directed paths of equal graphs *)

Lemma arc_has_edge g s d : arc (dgraph g) s d <-> has_edge g s d Dir.
Proof.
  unfold arc, dgraph, has_edge; simpl. rewrite in_map_iff. split.
  - intros (e & Hk & He). apply filter_In in He. destruct He as [He Ht].
    exists e. split; [exact He|]. split; [exact Hk|]. destruct (etype_eqb_spec (ety e) Dir); congruence.
  - intros (e & He & Hk & Ht). exists e. split; [exact Hk|]. apply filter_In.
    split; [exact He|]. rewrite Ht. reflexivity.
Qed.

Lemma path_mono {A} (G H : digraph A) x y :
  (forall s d, arc G s d -> arc H s d) -> path G x y -> path H x y.
Proof.
  intros Hsub Hp. unfold path in *. induction Hp as [x y Hxy|x y z _ IH1 _ IH2].
  - apply t_step. apply Hsub; exact Hxy.
  - eapply t_trans; eassumption.
Qed.

Lemma same_graph_path g h x y : same_graph g h -> (path (dgraph g) x y <-> path (dgraph h) x y).
Proof.
  intros (_ & Hdir & _). split; apply path_mono; intros s d; rewrite !arc_has_edge; apply Hdir.
Qed.

Lemma same_graph_acyclic g h : same_graph g h -> (Acyclic g <-> Acyclic h).
Proof.
  intros Hs. unfold Acyclic, acyclic.
  split; intros H v Hp; apply (H v); apply (same_graph_path v v Hs); exact Hp.
Qed.

(** * C08: the validated round trips, on top of the colleagues' theorems *)

Section WithGraphInv.
  Variable parse : name -> option (name * Z).
  Variable fmt : name -> Z -> option name.

  (** GraphInvProofs.v: every reachable state satisfies the invariant *)
  Hypothesis inv_init : inv_init_statement parse.
  Hypothesis inv_step : inv_step_statement parse fmt.
  (** GraphAcyclicProofs.v: the cycle check terminates within its fuel and is correct *)
  Hypothesis cycle_check : cycle_check_statement parse.

  (** C08, matrix round trip with the default [validate=True]: for every graph made only of
      directed and undirected edges whose directed part is acyclic (as it is after validated
      mutations), [from_adjacency_matrix] applied to the results of [to_numpy()] succeeds and the
      result equals the graph; it satisfies the invariant and is acyclic *)
  Theorem matrix_roundtrip k g a names :
    Inv parse k g -> Acyclic g -> to_numpy g = Ok (a, names) ->
    exists g', from_matrix parse fmt Plain a (Some names) true = Ok g'
               /\ node_ids g' = names /\ same_graph g g'
               /\ Inv parse Plain g' /\ Acyclic g'.
  Proof.
    intros HI Hac Hnp.
    destruct (@matrix_roundtrip_novalidate parse fmt k g a names HI Hnp) as (g' & Hg' & Hids & Hsame).
    assert (HI' : Inv parse Plain g') by (eapply from_matrix_inv; eassumption).
    assert (Hac' : Acyclic g') by (apply (same_graph_acyclic Hsame); exact Hac).
    exists g'. rewrite (from_matrix_validated _ _ _ _ _ Hg').
    rewrite check_nodes_ok; [cbn [bind]; auto|].
    intros d Hd. rewrite <- Hids in Hd.
    destruct (@cycle_check Plain g' d HI' Hd) as (b & Hb & Hiff). rewrite Hb. destruct b; [|reflexivity].
    exfalso. apply (Hac' d). apply Hiff. reflexivity.
  Qed.

  (** ... and when the directed part of the graph has a cycle (possible only after
      [validate=False] mutations) the validated import refuses with CyclicConnectionError *)
  Theorem matrix_roundtrip_cyclic_refused k g a names :
    Inv parse k g -> ~ Acyclic g -> to_numpy g = Ok (a, names) ->
    from_matrix parse fmt Plain a (Some names) true = Err ECyclic.
  Proof.
    intros HI Hcyc Hnp.
    destruct (@matrix_roundtrip_novalidate parse fmt k g a names HI Hnp) as (g' & Hg' & Hids & Hsame).
    assert (HI' : Inv parse Plain g') by (eapply from_matrix_inv; eassumption).
    rewrite (from_matrix_validated _ _ _ _ _ Hg').
    rewrite check_nodes_cyclic; [reflexivity| |].
    - intros d Hd. rewrite <- Hids in Hd. destruct (@cycle_check Plain g' d HI' Hd) as (b & Hb & _).
      exists b; exact Hb.
    - (* some node of [g'] lies on a cycle *)
      assert (Hex : exists d, In d (node_ids g') /\ path (dgraph g') d d).
      { destruct (existsb (fun d => match depends_on_itself g' d with Some true => true | _ => false end)
                    (node_ids g')) eqn:E.
        - apply existsb_exists in E. destruct E as (d & Hd & Hb).
          destruct (@cycle_check Plain g' d HI' Hd) as (b & Hb' & Hiff). rewrite Hb' in Hb.
          destruct b; [|discriminate]. exists d. split; [exact Hd|apply Hiff; reflexivity].
        - exfalso. apply Hcyc. apply (same_graph_acyclic Hsame). intros v Hp.
          assert (Hv : In v (node_ids g')).
          { (* the first arc of the cycle has its source among the nodes *)
            assert (Hfirst : exists w, arc (dgraph g') v w).
            { clear -Hp. unfold path in Hp. remember v as v' in Hp at 2.
              clear Heqv'. induction Hp as [x y Hxy|x y z _ IH1 _ _]; [exists y; exact Hxy|exact IH1]. }
            destruct Hfirst as (w & Hw). apply arc_has_edge in Hw.
            destruct Hw as (e & He & Hk & _). unfold edge_key in Hk. injection Hk as <- _.
            apply (inv_endpoints HI' e He). }
          destruct (@cycle_check Plain g' v HI' Hv) as (b & Hb & Hiff).
          assert (b = true) by (apply Hiff; exact Hp). subst b.
          assert (Hcontra : existsb (fun d => match depends_on_itself g' d with
                                              | Some true => true | _ => false end)
                              (node_ids g') = true).
          { apply existsb_exists. exists v. split; [exact Hv|]. rewrite Hb. reflexivity. }
          congruence. }
      destruct Hex as (d & Hd & Hp). exists d. split; [rewrite <- Hids; exact Hd|].
      destruct (@cycle_check Plain g' d HI' Hd) as (b & Hb & Hiff). rewrite Hb. f_equal. apply Hiff; exact Hp.
  Qed.
End WithGraphInv.

(** * C08: the networkx round trip *)

Lemma to_nx_ok_inv g x :
  to_nx g = Ok x ->
  exists dir, x = (dir, v_node_names g, map edge_key (v_edges g))
    /\ (dir = true -> forall e, In e (gsrc g) -> ety e = Dir)
    /\ (dir = false -> forall e, In e (gsrc g) -> ety e = Und).
Proof.
  unfold to_nx. intros H.
  destruct (fully_directed g) eqn:Hfd; simpl in H.
  - injection H as <-. exists true. split; [reflexivity|]. split; [|discriminate].
    intros _ e He. unfold fully_directed in Hfd. rewrite forallb_forall in Hfd.
    apply v_edges_in in He. specialize (Hfd e He). destruct (etype_eqb_spec (ety e) Dir); congruence.
  - destruct (fully_undirected g) eqn:Hfu; simpl in H; [|discriminate].
    injection H as <-. exists false. split; [reflexivity|]. split; [discriminate|].
    intros _ e He. unfold fully_undirected in Hfu. rewrite forallb_forall in Hfu.
    apply v_edges_in in He. specialize (Hfu e He). destruct (etype_eqb_spec (ety e) Und); congruence.
Qed.

Lemma nx_to_matrix_dims x : dims (length (nx_nodes x)) (nx_to_matrix x).
Proof.
  unfold nx_to_matrix. split; [apply map_length|].
  intros r Hr. apply in_map_iff in Hr. destruct Hr as (u & <- & _). apply map_length.
Qed.

Lemma nx_to_matrix_entry x i j ni nj :
  nth_error (nx_nodes x) i = Some ni -> nth_error (nx_nodes x) j = Some nj ->
  entry (nx_to_matrix x) i j = Some (if nx_has x ni nj then 1%Z else 0%Z).
Proof.
  intros Hi Hj. unfold entry, nx_to_matrix.
  rewrite (map_nth_error _ _ _ Hi).
  apply (map_nth_error (fun v => if nx_has x ni v then 1%Z else 0%Z) _ _ Hj).
Qed.

Lemma nx_has_spec dir ns es u v :
  nx_has (dir, ns, es) u v = true <-> In (u, v) es \/ (dir = false /\ In (v, u) es).
Proof.
  unfold nx_has. rewrite existsb_exists. split.
  - intros (e & He & Hb). apply orb_true_iff in Hb. destruct Hb as [Hb|Hb].
    + destruct (pair_eqb_spec e (u, v)); [subst; left; exact He|discriminate].
    + apply andb_true_iff in Hb. destruct Hb as [Hd Hb].
      destruct (pair_eqb_spec e (v, u)); [subst|discriminate].
      right. split; [destruct dir; [discriminate|reflexivity]|exact He].
  - intros [H|[-> H]].
    + exists (u, v). split; [exact H|]. destruct (pair_eqb_spec (u, v) (u, v)); [reflexivity|congruence].
    + exists (v, u). split; [exact H|]. simpl.
      destruct (pair_eqb_spec (v, u) (v, u)); [apply orb_true_r|congruence].
Qed.

(** [from_networkx(g.to_networkx(), validate=False)] equals [g] for every fully directed and
    every fully undirected graph, isolated nodes included (the node sets are equal) *)
Theorem nx_roundtrip_novalidate parse fmt k g x :
  Inv parse k g -> to_nx g = Ok x ->
  exists g', from_nx parse fmt Plain x false = Ok g'
             /\ node_ids g' = nx_nodes x /\ same_graph g g'.
Proof.
  intros HI Hx. destruct (to_nx_ok_inv _ Hx) as (dir & -> & Hdir & Hund).
  set (x := (dir, v_node_names g, map edge_key (v_edges g))) in *.
  assert (Honly : only_dir_und g).
  { intros e He. destruct dir; [left; apply Hdir|right; apply Hund]; auto. }
  assert (Hnames : forall y, In y (nx_nodes x) <-> In y (node_ids g)).
  { intros y. unfold nx_nodes, x. rewrite dedup_in, in_app_iff, v_node_names_in. split; [|auto].
    intros [H|H]; [exact H|]. apply in_flat_map in H. destruct H as (p & Hp & Hy).
    apply in_map_iff in Hp. destruct Hp as (e & <- & He). apply v_edges_in in He.
    destruct (inv_endpoints HI e He) as [H1 H2]. simpl in Hy.
    destruct Hy as [<-|[<-|[]]]; assumption. }
  assert (Hnd : NoDup (nx_nodes x)) by (unfold nx_nodes, x; apply dedup_nodup).
  pose proof (nx_to_matrix_dims x) as Hd.
  assert (Hb : forall i j, i < length (nx_nodes x) -> j < length (nx_nodes x) ->
                           entry (nx_to_matrix x) i j = Some 0%Z \/ entry (nx_to_matrix x) i j = Some 1%Z).
  { intros i j Hi Hj.
    destruct (nth_error (nx_nodes x) i) as [ni|] eqn:Ei; [|apply nth_error_None in Ei; lia].
    destruct (nth_error (nx_nodes x) j) as [nj|] eqn:Ej; [|apply nth_error_None in Ej; lia].
    rewrite (nx_to_matrix_entry _ _ _ Ei Ej). destruct (nx_has x ni nj); auto. }
  assert (Hentry : entry_spec g (nx_to_matrix x) (nx_nodes x)).
  { intros i j ni nj Hi Hj. rewrite (nx_to_matrix_entry _ _ _ Hi Hj).
    assert (Hh : nx_has x ni nj = true <->
                 exists e, In e (gsrc g) /\
                   ((edge_key e = (ni, nj) /\ (ety e = Dir \/ ety e = Und))
                    \/ (edge_key e = (nj, ni) /\ ety e = Und))).
    { unfold x. rewrite nx_has_spec, !in_map_iff. split.
      - intros [(e & Hk & He)|(-> & e & Hk & He)]; apply v_edges_in in He; exists e; (split; [exact He|]).
        + left. split; [exact Hk|apply Honly; exact He].
        + right. split; [exact Hk|apply Hund; auto].
      - intros (e & He & [(Hk & _)|(Hk & Ht)]).
        + left. exists e. split; [exact Hk|apply v_edges_in; exact He].
        + right. split.
          * destruct dir; [|reflexivity]. rewrite (Hdir eq_refl e He) in Ht. discriminate.
          * exists e. split; [exact Hk|apply v_edges_in; exact He]. }
    rewrite <- Hh. destruct (nx_has x ni nj); split; intros H; congruence. }
  unfold from_nx.
  destruct (@from_matrix_plain_ok parse fmt (nx_to_matrix x) (nx_nodes x)) as (g' & Hg' & Hids & Hsrc).
  - replace (length (nx_to_matrix x)) with (length (nx_nodes x)) by (symmetry; apply Hd). exact Hd.
  - eapply binary_is_binary; eassumption.
  - symmetry. apply Hd.
  - exact Hnd.
  - exists g'. split; [exact Hg'|]. split; [exact Hids|].
    destruct (scan_of_src _ _ _ Hsrc) as [Hback Hforth].
    apply (@rt_same_graph parse k g (nx_to_matrix x) (nx_nodes x) HI Honly Hnames
             (conj Hd Hb) Hentry g' Hback Hforth).
    intros y. rewrite Hids. reflexivity.
Qed.

Section WithGraphInvNx.
  Variable parse : name -> option (name * Z).
  Variable fmt : name -> Z -> option name.
  Hypothesis inv_init : inv_init_statement parse.
  Hypothesis inv_step : inv_step_statement parse fmt.
  Hypothesis cycle_check : cycle_check_statement parse.

  (** the same with the default [validate=True], for graphs whose directed part is acyclic *)
  Theorem nx_roundtrip k g x :
    Inv parse k g -> Acyclic g -> to_nx g = Ok x ->
    exists g', from_nx parse fmt Plain x true = Ok g'
               /\ same_graph g g' /\ Inv parse Plain g' /\ Acyclic g'.
  Proof.
    intros HI Hac Hx.
    destruct (@nx_roundtrip_novalidate parse fmt k g x HI Hx) as (g' & Hg' & Hids & Hsame).
    unfold from_nx in *.
    assert (HI' : Inv parse Plain g') by (eapply from_matrix_inv; eassumption).
    assert (Hac' : Acyclic g') by (apply (same_graph_acyclic Hsame); exact Hac).
    exists g'. rewrite (from_matrix_validated _ _ _ _ _ Hg').
    rewrite check_nodes_ok; [cbn [bind]; auto|].
    intros d Hd. rewrite <- Hids in Hd.
    destruct (@cycle_check Plain g' d HI' Hd) as (b & Hb & Hiff). rewrite Hb. destruct b; [|reflexivity].
    exfalso. apply (Hac' d). apply Hiff. reflexivity.
  Qed.
End WithGraphInvNx.

(** * Both classes: adding the nodes and one edge *)

Lemma lookup_meta_set_eq k v m : lookup k (meta_set k v m) = Some v.
Proof.
  induction m as [|[k' v'] m IH]; simpl.
  - rewrite name_eqb_refl. reflexivity.
  - destruct (name_eqb_spec k k') as [->|Hn]; simpl.
    + rewrite name_eqb_refl. reflexivity.
    + destruct (name_ltb k k'); simpl.
      * rewrite name_eqb_refl. reflexivity.
      * destruct (name_eqb_spec k k'); [contradiction|exact IH].
Qed.

Lemma lookup_meta_set_neq k k2 v m : k2 <> k -> lookup k2 (meta_set k v m) = lookup k2 m.
Proof.
  intros Hn. induction m as [|[k' v'] m IH]; simpl.
  - destruct (name_eqb_spec k2 k); [contradiction|reflexivity].
  - destruct (name_eqb_spec k k') as [->|Hn']; simpl.
    + destruct (name_eqb_spec k2 k'); [contradiction|reflexivity].
    + destruct (name_ltb k k'); simpl.
      * destruct (name_eqb_spec k2 k); [contradiction|reflexivity].
      * destruct (name_eqb k2 k'); [reflexivity|exact IH].
Qed.

Lemma set_tags_var v l m : meta_var (set_tags v l m) = Some v.
Proof. unfold meta_var, meta_get, set_tags. rewrite lookup_meta_set_eq. reflexivity. Qed.

Lemma set_tags_lag v l m : meta_lag (set_tags v l m) = Some l.
Proof.
  unfold meta_lag, meta_get, set_tags.
  rewrite lookup_meta_set_neq; [|vm_compute; discriminate].
  rewrite lookup_meta_set_eq. reflexivity.
Qed.

Lemma find_node_app id l1 l2 :
  find_node id (l1 ++ l2)
  = match find_node id l1 with Some n => Some n | None => find_node id l2 end.
Proof.
  induction l1 as [|x l1 IH]; simpl; [reflexivity|].
  destruct (name_eqb id (nid x)); [reflexivity|exact IH].
Qed.

Lemma find_node_update f id x ns :
  (forall n, nid (f n) = nid n) ->
  find_node x (update_node f id ns)
  = match find_node x ns with
    | Some n => Some (if name_eqb id (nid n) then f n else n)
    | None => None
    end.
Proof.
  intros Hf. induction ns as [|n ns IH]; simpl; [reflexivity|].
  destruct (name_eqb id (nid n)) eqn:E.
  - rewrite Hf. destruct (name_eqb x (nid n)); [rewrite E; reflexivity|exact IH].
  - destruct (name_eqb x (nid n)); [rewrite E; reflexivity|exact IH].
Qed.

Lemma insert_edge_lag g e x : node_lag (insert_edge g e) x = node_lag g x.
Proof.
  unfold node_lag, get_node, insert_edge; simpl.
  destruct (etype_eqb (ety e) Dir); [|reflexivity].
  rewrite !find_node_update by (intros n; reflexivity).
  destruct (find_node x (gnodes g)) as [n|]; [|reflexivity].
  destruct (name_eqb (edst e) (nid n)); simpl; destruct (name_eqb (esrc e) _); reflexivity.
Qed.

Section AnyClass.
  Variable parse : name -> option (name * Z).
  Variable fmt : name -> Z -> option name.
  Variable k : kind.

  Definition has_lag (g : graph) (x : name) : Prop := exists l, node_lag g x = Some l.

  Lemma add_node_any g id :
    ~ In id (node_ids g) -> (k = TS -> exists v l, parse id = Some (v, l)) ->
    exists g', add_node_id parse k g id VUnspec None = Ok g'
               /\ node_ids g' = node_ids g ++ [id] /\ gsrc g' = gsrc g
               /\ (k = TS -> has_lag g' id)
               /\ (forall x, In x (node_ids g) -> node_lag g' x = node_lag g x)
               /\ (k = TS -> forall v l, parse id = Some (v, l) -> node_lag g' id = Some l).
  Proof.
    intros Hfresh Hparse.
    assert (Hne : node_exists g id = false)
      by (apply not_true_is_false; rewrite node_exists_in; exact Hfresh).
    assert (Hold : forall n x, nid n = id -> In x (node_ids g) ->
              match find_node x (gnodes g ++ [n]) with
              | Some n0 => meta_lag (nmeta n0) | None => None end
              = match find_node x (gnodes g) with
                | Some n0 => meta_lag (nmeta n0) | None => None end).
    { intros n x Hn Hx. rewrite find_node_app.
      destruct (find_node x (gnodes g)) as [n0|] eqn:E; [reflexivity|].
      apply find_node_none in E. contradiction. }
    unfold add_node_id. destruct k.
    - rewrite Hne. cbn [mk_node bind]. eexists. split; [reflexivity|].
      split; [unfold node_ids, push_node; simpl; rewrite map_app; reflexivity|].
      split; [reflexivity|]. split; [discriminate|]. split; [|discriminate].
      intros x Hx. unfold node_lag, get_node, push_node; simpl. apply Hold; [reflexivity|exact Hx].
    - destruct (Hparse eq_refl) as (v & l & Hp). unfold mk_node. rewrite Hp. cbn [bind]. rewrite Hne.
      cbn [nmeta bind]. unfold idx_add. cbn [nmeta nid]. rewrite set_tags_lag, set_tags_var.
      assert (Hlag : node_lag
                       {| gnodes := gnodes g ++ [{| nid := id; nvt := VUnspec;
                                                   nmeta := set_tags v l (set_tags v l []);
                                                   ninb := []; noutb := [] |}];
                          gsrc := gsrc g; gdst := gdst g; gmeta := gmeta g;
                          glag := glag g ++ [(l, id)]; gvar := gvar g ++ [(v, id)] |} id = Some l).
      { unfold node_lag, get_node; simpl. rewrite find_node_app.
        replace (find_node id (gnodes g)) with (@None node)
          by (symmetry; apply find_node_none; exact Hfresh).
        simpl. rewrite name_eqb_refl. simpl. apply set_tags_lag. }
      eexists. split; [reflexivity|].
      split; [unfold node_ids, push_node; simpl; rewrite map_app; reflexivity|].
      split; [reflexivity|]. split; [|split].
      + intros _. exists l. exact Hlag.
      + intros x Hx. unfold node_lag, get_node; simpl. apply Hold; [reflexivity|exact Hx].
      + intros _ v' l' Hp'. injection Hp' as _ <-. exact Hlag.
  Qed.

  Lemma add_nodes_any ids : forall g,
    NoDup ids -> (forall x, In x ids -> ~ In x (node_ids g)) ->
    (k = TS -> forall x, In x ids -> exists v l, parse x = Some (v, l)) ->
    exists g', add_nodes_from parse k g ids = (Ok g', g')
               /\ node_ids g' = node_ids g ++ ids /\ gsrc g' = gsrc g
               /\ (k = TS -> forall x, In x ids -> has_lag g' x)
               /\ (forall x, In x (node_ids g) -> node_lag g' x = node_lag g x)
               /\ (k = TS -> forall x v l, In x ids -> parse x = Some (v, l) -> node_lag g' x = Some l).
  Proof.
    unfold add_nodes_from.
    induction ids as [|id ids IH]; intros g Hnd Hfresh Hparse.
    - exists g. simpl. rewrite app_nil_r. repeat split; auto; intros _ x; intros; contradiction.
    - inversion Hnd as [|? ? Hid Hnd']; subst. cbn [fold_left].
      destruct (@add_node_any g id (Hfresh id (or_introl eq_refl)))
        as (g1 & Hg1 & Hn1 & Hs1 & Hl1 & Ho1 & Hv1).
      { intros Hk. apply (Hparse Hk). left; reflexivity. }
      rewrite Hg1.
      destruct (IH g1 Hnd') as (g' & Hg' & Hn' & Hs' & Hl' & Ho' & Hv').
      + intros y Hy. rewrite Hn1, in_app_iff. intros [H|[H|[]]];
          [apply (Hfresh y (or_intror Hy)); exact H|subst y; contradiction].
      + intros Hk y Hy. apply (Hparse Hk). right; exact Hy.
      + assert (Hid1 : In id (node_ids g1)) by (rewrite Hn1, in_app_iff; right; left; reflexivity).
        exists g'. split; [exact Hg'|]. split; [rewrite Hn', Hn1, <- app_assoc; reflexivity|].
        split; [congruence|]. split; [|split].
        * intros Hk x [<-|Hx]; [|apply (Hl' Hk); exact Hx].
          destruct (Hl1 Hk) as [l Hl]. exists l. rewrite Ho'; [exact Hl|exact Hid1].
        * intros x Hx. rewrite Ho'; [apply Ho1; exact Hx|]. rewrite Hn1, in_app_iff. left; exact Hx.
        * intros Hk x v l [<-|Hx] Hp; [|apply (Hv' Hk x v l Hx Hp)].
          rewrite Ho'; [apply (Hv1 Hk v l Hp)|exact Hid1].
  Qed.

  (** adding an undirected edge between two existing, not yet joined nodes: the time-series
      class may store it with its endpoints exchanged, never refuses it *)
  Lemma add_edge_und_any g s d :
    In s (node_ids g) -> In d (node_ids g) -> s <> d ->
    ~ In (s, d) (edge_keys g) -> ~ In (d, s) (edge_keys g) ->
    (k = TS -> has_lag g s /\ has_lag g d) ->
    exists s' d', add_edge_op parse fmt k g s d Und = Ok (insert_edge g (mk_edge s' d' Und))
                  /\ ((s', d') = (s, d) \/ (s', d') = (d, s)).
  Proof.
    intros Hs Hd Hne H1 H2 Hlag.
    unfold add_edge_op, run_op, add_edge, add_edge_try. cbn [fst snd str_ep].
    apply name_eqb_neq in Hne. rewrite Hne.
    apply edge_at_none in H1. apply edge_at_none in H2. rewrite H1.
    unfold add_endpoint, str_ep. cbn [fst snd].
    rewrite (proj2 (node_exists_in g s) Hs), (proj2 (node_exists_in g d) Hd).
    unfold orient. destruct k.
    - exists s, d. unfold set_edge. rewrite H1, H2. split; [reflexivity|left; reflexivity].
    - destruct (Hlag eq_refl) as [[ls Hls] [ld Hld]]. rewrite Hls, Hld.
      destruct (ld <? ls)%Z; cbn [etype_eqb].
      + exists d, s. unfold set_edge. rewrite H2, H1. split; [reflexivity|right; reflexivity].
      + exists s, d. unfold set_edge. rewrite H1, H2. split; [reflexivity|left; reflexivity].
  Qed.

  (** adding a directed edge (validate=False) between two existing, not yet joined nodes: the
      time-series class accepts it exactly when it does not point backwards in time *)
  Lemma add_edge_dir_any g s d :
    In s (node_ids g) -> In d (node_ids g) -> s <> d ->
    ~ In (s, d) (edge_keys g) -> ~ In (d, s) (edge_keys g) ->
    (k = TS -> exists ls ld, node_lag g s = Some ls /\ node_lag g d = Some ld /\ (ls <= ld)%Z) ->
    add_edge_op parse fmt k g s d Dir = Ok (insert_edge g (mk_edge s d Dir)).
  Proof.
    intros Hs Hd Hne H1 H2 Hlag.
    unfold add_edge_op, run_op, add_edge, add_edge_try. cbn [fst snd str_ep].
    apply name_eqb_neq in Hne. rewrite Hne.
    apply edge_at_none in H1. apply edge_at_none in H2. rewrite H1.
    unfold add_endpoint, str_ep. cbn [fst snd].
    rewrite (proj2 (node_exists_in g s) Hs), (proj2 (node_exists_in g d) Hd).
    unfold orient. destruct k.
    - unfold set_edge. rewrite H1, H2. reflexivity.
    - destruct (Hlag eq_refl) as (ls & ld & Hls & Hld & Hle). rewrite Hls, Hld.
      replace (ld <? ls)%Z with false by (symmetry; apply Z.ltb_ge; exact Hle).
      unfold set_edge. rewrite H1, H2. reflexivity.
  Qed.
End AnyClass.

(** * Both classes: the construction loop and the round trip with the graph's own class *)

Lemma Forall2_in_left {A B} (R : A -> B -> Prop) l1 l2 x :
  Forall2 R l1 l2 -> In x l1 -> exists y, In y l2 /\ R x y.
Proof.
  induction 1 as [|a b l1 l2 Hab _ IH]; intros Hx; [destruct Hx|].
  destruct Hx as [<-|Hx]; [exists b; split; [left; reflexivity|exact Hab]|].
  destruct (IH Hx) as (y & Hy & Hr). exists y. split; [right; exact Hy|exact Hr].
Qed.

Lemma Forall2_in_right {A B} (R : A -> B -> Prop) l1 l2 y :
  Forall2 R l1 l2 -> In y l2 -> exists x, In x l1 /\ R x y.
Proof.
  induction 1 as [|a b l1 l2 Hab _ IH]; intros Hy; [destruct Hy|].
  destruct Hy as [<-|Hy]; [exists a; split; [left; reflexivity|exact Hab]|].
  destruct (IH Hy) as (x & Hx & Hr). exists x. split; [right; exact Hx|exact Hr].
Qed.

Section AnyLoop.
  Variable parse : name -> option (name * Z).
  Variable fmt : name -> Z -> option name.
  Variable k : kind.
  Variable a : matrix.
  Variable nodes : list name.
  Hypothesis Hnodup : NoDup nodes.
  Hypothesis Hbin : forall i j, i < length nodes -> j < length nodes ->
                      entry a i j = Some 0%Z \/ entry a i j = Some 1%Z.

  Definition fresh_pairs (g : graph) (P : list (nat * nat)) : Prop :=
    forall e p ni nj, In e (gsrc g) -> In p P ->
      nth_error nodes (fst p) = Some ni -> nth_error nodes (snd p) = Some nj ->
      edge_key e <> (ni, nj) /\ edge_key e <> (nj, ni).

  (** no directed edge the scan asks for points backwards in time *)
  Definition time_ok (g : graph) (P : list (nat * nat)) : Prop :=
    k = TS -> forall p e0, In p P -> In e0 (edge_of a nodes p) -> ety e0 = Dir ->
      exists ls ld, node_lag g (esrc e0) = Some ls /\ node_lag g (edst e0) = Some ld /\ (ls <= ld)%Z.

  Lemma edge_step_any g p :
    fst p < snd p -> snd p < length nodes ->
    (forall x, In x nodes -> In x (node_ids g)) ->
    (k = TS -> forall x, In x nodes -> has_lag g x) ->
    time_ok g [p] -> fresh_pairs g [p] ->
    exists g' es,
      edge_step parse fmt k a nodes (Ok g) p = Ok g'
      /\ node_ids g' = node_ids g /\ (forall x, node_lag g' x = node_lag g x)
      /\ gsrc g' = gsrc g ++ es /\ Forall2 sim es (edge_of a nodes p).
  Proof.
    intros Hlt Hj Hin Hlag Htime Hfresh.
    assert (Hi : fst p < length nodes) by lia.
    destruct (nth_error nodes (fst p)) as [ni|] eqn:Eni; [|apply nth_error_None in Eni; lia].
    destruct (nth_error nodes (snd p)) as [nj|] eqn:Enj; [|apply nth_error_None in Enj; lia].
    assert (Hne : ni <> nj).
    { intros ->. assert (fst p = snd p) by (eapply nodup_nth_inj; eassumption). lia. }
    assert (Hni : In ni (node_ids g)) by (apply Hin; eapply nth_error_In; exact Eni).
    assert (Hnj : In nj (node_ids g)) by (apply Hin; eapply nth_error_In; exact Enj).
    assert (Hk1 : ~ In (ni, nj) (edge_keys g)).
    { unfold edge_keys. rewrite in_map_iff. intros (e & Hk & He).
      destruct (Hfresh e p ni nj He (or_introl eq_refl) Eni Enj) as [H _]. contradiction. }
    assert (Hk2 : ~ In (nj, ni) (edge_keys g)).
    { unfold edge_keys. rewrite in_map_iff. intros (e & Hk & He).
      destruct (Hfresh e p ni nj He (or_introl eq_refl) Eni Enj) as [_ H]. contradiction. }
    assert (Heo : edge_of a nodes p = edge_of a nodes (fst p, snd p)) by (destruct p; reflexivity).
    assert (Htime' : k = TS -> forall e0, In e0 (edge_of a nodes p) -> ety e0 = Dir ->
              exists ls ld, node_lag g (esrc e0) = Some ls /\ node_lag g (edst e0) = Some ld /\ (ls <= ld)%Z)
      by (intros Hk e0; apply (Htime Hk p e0); left; reflexivity).
    clear Htime. rewrite Heo in Htime'.
    unfold edge_step. cbn [bind]. rewrite Heo. unfold edge_of in *. cbn [fst snd] in *.
    rewrite Eni, Enj in *.
    destruct (Hbin Hi Hj) as [Hx|Hx]; destruct (Hbin Hj Hi) as [Hy|Hy]; rewrite Hx, Hy in *;
      cbn [Z.eqb negb andb] in *.
    - exists g, []. rewrite app_nil_r. repeat split; auto.
    - rewrite (@add_edge_dir_any parse fmt k g nj ni Hnj Hni (not_eq_sym Hne) Hk2 Hk1).
      + exists (insert_edge g (mk_edge nj ni Dir)), [mk_edge nj ni Dir].
        split; [reflexivity|]. split; [apply insert_edge_ids|]. split; [apply insert_edge_lag|].
        split; [apply insert_edge_src|]. constructor; [apply sim_refl|constructor].
      + intros Hk. apply (Htime' Hk (mk_edge nj ni Dir)); [left; reflexivity|reflexivity].
    - rewrite (@add_edge_dir_any parse fmt k g ni nj Hni Hnj Hne Hk1 Hk2).
      + exists (insert_edge g (mk_edge ni nj Dir)), [mk_edge ni nj Dir].
        split; [reflexivity|]. split; [apply insert_edge_ids|]. split; [apply insert_edge_lag|].
        split; [apply insert_edge_src|]. constructor; [apply sim_refl|constructor].
      + intros Hk. apply (Htime' Hk (mk_edge ni nj Dir)); [left; reflexivity|reflexivity].
    - destruct (@add_edge_und_any parse fmt k g ni nj Hni Hnj Hne Hk1 Hk2) as (s' & d' & Hadd & Hsd).
      { intros Hk. split; apply (Hlag Hk); eapply nth_error_In; eassumption. }
      rewrite Hadd. exists (insert_edge g (mk_edge s' d' Und)), [mk_edge s' d' Und].
      split; [reflexivity|]. split; [apply insert_edge_ids|]. split; [apply insert_edge_lag|].
      split; [apply insert_edge_src|]. constructor; [|constructor].
      split; [reflexivity|]. unfold edge_key; simpl.
      destruct Hsd as [Hsd|Hsd]; [left; exact Hsd|right; split; [reflexivity|exact Hsd]].
  Qed.

  Lemma sim_joins e' e0 p :
    sim e' e0 -> In e0 (edge_of a nodes p) ->
    exists ni nj, nth_error nodes (fst p) = Some ni /\ nth_error nodes (snd p) = Some nj
                  /\ (edge_key e' = (ni, nj) \/ edge_key e' = (nj, ni)).
  Proof.
    intros [_ Hk] He0. destruct (@edge_of_key a nodes p e0 He0) as (ni & nj & Hni & Hnj & Hk0).
    exists ni, nj. split; [exact Hni|]. split; [exact Hnj|]. unfold edge_key in *.
    destruct Hk as [Hk|[_ Hk]]; destruct Hk0 as [Hk0|Hk0]; rewrite Hk; injection Hk0 as -> ->; auto.
  Qed.

  Lemma loop_any P : forall g,
    (forall p, In p P -> fst p < snd p /\ snd p < length nodes) -> NoDup P ->
    (forall x, In x nodes -> In x (node_ids g)) ->
    (k = TS -> forall x, In x nodes -> has_lag g x) ->
    time_ok g P -> fresh_pairs g P ->
    exists g', fold_left (edge_step parse fmt k a nodes) P (Ok g) = Ok g'
      /\ node_ids g' = node_ids g
      /\ (forall e', In e' (gsrc g') ->
            In e' (gsrc g) \/ exists p e0, In p P /\ In e0 (edge_of a nodes p) /\ sim e' e0)
      /\ (forall e, In e (gsrc g) -> In e (gsrc g'))
      /\ (forall p e0, In p P -> In e0 (edge_of a nodes p) -> exists e', In e' (gsrc g') /\ sim e' e0).
  Proof.
    induction P as [|p P IH]; intros g HP Hnd Hin Hlag Htime Hfresh.
    - exists g. simpl. repeat split; auto. intros p e0 [].
    - inversion Hnd as [|? ? Hp Hnd']; subst.
      destruct (HP p (or_introl eq_refl)) as [Hlt Hj].
      destruct (@edge_step_any g p Hlt Hj Hin Hlag) as (g1 & es & Hg1 & Hn1 & Hl1 & Hs1 & Hsim).
      { intros Hk q e0 [<-|[]]. apply (Htime Hk p e0). left; reflexivity. }
      { intros e q ni nj He [<-|[]]. apply (Hfresh e p ni nj He (or_introl eq_refl)). }
      cbn [fold_left]. rewrite Hg1.
      destruct (IH g1) as (g' & Hg' & Hn' & Hfw & Hold & Hnew).
      + intros q Hq. apply HP. right; exact Hq.
      + exact Hnd'.
      + intros x Hx. rewrite Hn1. apply Hin; exact Hx.
      + intros Hk x Hx. destruct (Hlag Hk x Hx) as [l Hl]. exists l. rewrite Hl1. exact Hl.
      + intros Hk q e0 Hq He0 Ht. rewrite !Hl1. apply (Htime Hk q e0); [right; exact Hq|exact He0|exact Ht].
      + intros e q ni' nj' He Hq Hni' Hnj'. rewrite Hs1 in He. apply in_app_iff in He.
        destruct He as [He|He]; [apply (Hfresh e q); [exact He|right; exact Hq|exact Hni'|exact Hnj']|].
        destruct (@Forall2_in_left _ _ sim es _ e Hsim He) as (e0 & He0 & Hse).
        destruct (@sim_joins e e0 p Hse He0) as (ni & nj & Hni & Hnj & Hk).
        destruct (HP q (or_intror Hq)) as [Hltq Hjq].
        assert (Hpq : p <> q) by (intros ->; contradiction).
        split; intros Hkey.
        * destruct Hk as [Hk|Hk]; rewrite Hk in Hkey; injection Hkey as -> ->.
          -- apply Hpq. destruct p, q; simpl in *. f_equal; eapply nodup_nth_inj; eassumption.
          -- assert (snd p = fst q) by (eapply nodup_nth_inj; eassumption).
             assert (fst p = snd q) by (eapply nodup_nth_inj; eassumption). lia.
        * destruct Hk as [Hk|Hk]; rewrite Hk in Hkey; injection Hkey as -> ->.
          -- assert (fst p = snd q) by (eapply nodup_nth_inj; eassumption).
             assert (snd p = fst q) by (eapply nodup_nth_inj; eassumption). lia.
          -- apply Hpq. destruct p, q; simpl in *. f_equal; eapply nodup_nth_inj; eassumption.
      + exists g'. split; [exact Hg'|]. split; [congruence|]. split; [|split].
        * intros e' He'. destruct (Hfw e' He') as [He1|(q & e0 & Hq & He0 & Hse)].
          -- rewrite Hs1 in He1. apply in_app_iff in He1. destruct He1 as [He1|He1]; [left; exact He1|].
             destruct (@Forall2_in_left _ _ sim es _ e' Hsim He1) as (e0 & He0 & Hse).
             right. exists p, e0. split; [left; reflexivity|]. split; assumption.
          -- right. exists q, e0. split; [right; exact Hq|]. split; assumption.
        * intros e He. apply Hold. rewrite Hs1. apply in_app_iff. left; exact He.
        * intros q e0 [<-|Hq] He0; [|apply (Hnew q e0 Hq He0)].
          destruct (@Forall2_in_right _ _ sim es _ e0 Hsim He0) as (e' & He' & Hse).
          exists e'. split; [|exact Hse]. apply Hold. rewrite Hs1. apply in_app_iff. right; exact He'.
  Qed.
End AnyLoop.

Lemma node_lag_parse parse g x l :
  Inv parse TS g -> node_lag g x = Some l -> exists v, parse x = Some (v, l).
Proof.
  intros HI H. unfold node_lag, get_node in H.
  destruct (find_node x (gnodes g)) as [n|] eqn:E; [|discriminate].
  apply find_node_some_in in E. destruct E as [Hin <-].
  destruct (ts_nodeok (inv_ts HI eq_refl) n Hin) as (v & l' & Hp & _ & Hl).
  exists v. rewrite Hp. congruence.
Qed.

(** C08, both classes: [type(g).from_adjacency_matrix] applied to the results of [g.to_numpy()]
    (validate=False) succeeds and equals [g]; for a time-series graph no directed entry is
    refused as pointing backwards in time, and an undirected edge may come back with its
    endpoints exchanged *)
Theorem matrix_roundtrip_own_novalidate parse fmt k g a names :
  Inv parse k g -> to_numpy g = Ok (a, names) ->
  exists g', from_matrix parse fmt k a (Some names) false = Ok g'
             /\ node_ids g' = names /\ same_graph g g'.
Proof.
  intros HI Hnp. destruct (to_numpy_ok_inv _ Hnp) as (Ha & -> & Honly).
  pose proof (matrix_shape HI Ha) as Hshape. destruct Hshape as [Hd Hb].
  set (names := v_node_names g) in *. set (n := length names) in *.
  assert (Hla : length a = n) by apply Hd.
  assert (Hnd : NoDup names) by apply (v_node_names_nodup HI).
  pose proof (matrix_entry HI Ha) as Hentry. fold names in Hentry.
  unfold from_matrix.
  assert (Hsq : is_square a = true) by (apply is_square_true_iff; rewrite Hla; exact Hd).
  rewrite Hsq, (binary_is_binary Hd Hb). cbn [negb].
  rewrite (proj2 (Nat.eqb_eq (length names) (length a)) (eq_sym Hla)). cbn [bind run_op].
  destruct (@add_nodes_any parse k names (empty_graph []) Hnd) as (g0 & Hg0 & Hn0 & Hs0 & Hl0 & _ & Hv0).
  { intros x _ []. }
  { intros Hk x Hx. apply v_node_names_in in Hx. unfold node_ids in Hx. apply in_map_iff in Hx.
    destruct Hx as (nd & <- & Hin). rewrite Hk in HI.
    destruct (ts_nodeok (inv_ts HI eq_refl) nd Hin) as (v & l & Hp & _). exists v, l; exact Hp. }
  rewrite Hg0. cbn [fst bind]. simpl in Hn0.
  destruct (@loop_any parse fmt k a names Hnd Hb (pairs n) g0) as (g' & Hg' & Hn' & Hfw & _ & Hnew).
  - intros [i j] Hp. apply in_pairs in Hp. simpl. unfold n in *. lia.
  - apply pairs_nodup.
  - intros x Hx. rewrite Hn0. exact Hx.
  - exact Hl0.
  - (* time: a directed edge asked for by the scan is a directed edge of [g] *)
    intros Hk [i j] e0 Hp He0 Ht. apply in_pairs in Hp. subst k.
    destruct (@rt_back0 parse TS g a names HI (conj Hd Hb) Hentry i j e0)
      as [[_ (e & He & Hke & _)]|[Hu _]]; [lia|unfold n in *; lia|exact He0| |congruence].
    unfold edge_key in Hke. injection Hke as Hes Hed.
    destruct (ts_time (inv_ts HI eq_refl) e He) as (ls & ld & Hls & Hld & Hle).
    rewrite Hes in Hls. rewrite Hed in Hld.
    destruct (node_lag_parse _ HI Hls) as [vs Hps]. destruct (node_lag_parse _ HI Hld) as [vd Hpd].
    destruct (inv_endpoints HI e He) as [Hse Hde]. rewrite Hes in Hse. rewrite Hed in Hde.
    exists ls, ld. split; [|split; [|exact Hle]].
    + apply (Hv0 eq_refl _ vs ls); [apply v_node_names_in; exact Hse|exact Hps].
    + apply (Hv0 eq_refl _ vd ld); [apply v_node_names_in; exact Hde|exact Hpd].
  - intros e p ni nj He. rewrite Hs0 in He. destruct He.
  - fold n. rewrite Hg'. cbn [bind]. exists g'. split; [reflexivity|]. split; [congruence|].
    apply (@rt_same_graph parse k g a names HI Honly (v_node_names_in g) (conj Hd Hb) Hentry g').
    + intros e' He'. destruct (Hfw e' He') as [He0|([i j] & e0 & Hp & He0 & Hse)];
        [rewrite Hs0 in He0; destruct He0|].
      apply in_pairs in Hp. unfold n in *. exists i, j, e0.
      split; [lia|]. split; [lia|]. split; [exact He0|exact Hse].
    + intros i j e0 Hij Hj He0. apply (Hnew (i, j) e0); [apply in_pairs; unfold n in *; lia|exact He0].
    + intros x. rewrite Hn', Hn0. reflexivity.
Qed.

Section WithGraphInvOwn.
  Variable parse : name -> option (name * Z).
  Variable fmt : name -> Z -> option name.
  (** GraphInvProofs.v / GraphAcyclicProofs.v (colleagues), exact shape of GraphInv.v *)
  Hypothesis inv_init : inv_init_statement parse.
  Hypothesis inv_step : inv_step_statement parse fmt.
  Hypothesis cycle_check : cycle_check_statement parse.

  (** the same with the default [validate=True], for a graph whose directed part is acyclic *)
  Theorem matrix_roundtrip_own k g a names :
    Inv parse k g -> Acyclic g -> to_numpy g = Ok (a, names) ->
    exists g', from_matrix parse fmt k a (Some names) true = Ok g'
               /\ node_ids g' = names /\ same_graph g g'
               /\ Inv parse k g' /\ Acyclic g'.
  Proof.
    intros HI Hac Hnp.
    destruct (@matrix_roundtrip_own_novalidate parse fmt k g a names HI Hnp) as (g' & Hg' & Hids & Hsame).
    assert (HI' : Inv parse k g') by (eapply from_matrix_inv; eassumption).
    assert (Hac' : Acyclic g') by (apply (same_graph_acyclic Hsame); exact Hac).
    exists g'. rewrite (from_matrix_validated _ _ _ _ _ Hg').
    rewrite check_nodes_ok; [cbn [bind]; auto|].
    intros d Hd. rewrite <- Hids in Hd.
    destruct (@cycle_check k g' d HI' Hd) as (b & Hb & Hiff). rewrite Hb. destruct b; [|reflexivity].
    exfalso. apply (Hac' d). apply Hiff. reflexivity.
  Qed.
End WithGraphInvOwn.

(** * Examples: non-vacuity and the behaviour observed on the implementation *)
From CG Require Import Names.

Module MatrixExamples.
  Local Open Scope N_scope.
  Definition na : name := [97].  Definition nb : name := [98].
  Definition nc : name := [99].  Definition nd : name := [100].

  (** a -> b, c -- b, isolated d  (built by the public mutators) *)
  Definition gex : graph :=
    run parse fmt Plain
      [OAddEdge (str_ep na) (str_ep nb) Dir None true;
       OAddEdge (str_ep nc) (str_ep nb) Und None true;
       OAddNode nd VUnspec None] (empty_graph []).

  Lemma gex_inv : Inv parse Plain gex.
  Proof.
    constructor.
    - vm_compute. repeat constructor; simpl; intuition discriminate.
    - vm_compute. apply Permutation_refl.
    - vm_compute. repeat constructor; simpl; intuition discriminate.
    - intros e He. vm_compute in He. destruct He as [<-|[<-|[]]]; vm_compute; intuition.
    - intros e He. vm_compute in He. destruct He as [<-|[<-|[]]]; vm_compute; discriminate.
    - intros e He. vm_compute in He. destruct He as [<-|[<-|[]]]; vm_compute; intuition discriminate.
    - intros n Hn. vm_compute in Hn.
      destruct Hn as [<-|[<-|[<-|[<-|[]]]]]; vm_compute; apply Permutation_refl.
    - intros n Hn. vm_compute in Hn.
      destruct Hn as [<-|[<-|[<-|[<-|[]]]]]; vm_compute; apply Permutation_refl.
    - intros _. split; reflexivity.
    - discriminate.
  Qed.

  Lemma gex_acyclic : Acyclic gex.
  Proof.
    assert (Harc : forall x y, arc (dgraph gex) x y -> x = na /\ y = nb).
    { intros x y H. vm_compute in H. destruct H as [H|[]]. injection H as <- <-. split; reflexivity. }
    assert (Hp : forall x y, path (dgraph gex) x y -> x = na /\ y = nb).
    { intros x y H. unfold path in H. induction H as [x y H|x y z _ [-> ->] _ [E _]]; [apply Harc; exact H|].
      discriminate. }
    intros v H. destruct (Hp _ _ H) as [-> E]. discriminate.
  Qed.

  (** observed: [g.to_numpy()] = ([[0,1,0,0],[0,0,1,0],[0,1,0,0],[0,0,0,0]], ['a','b','c','d']) *)
  Example gex_to_numpy :
    to_numpy gex = Ok ([[0; 1; 0; 0]; [0; 0; 1; 0]; [0; 1; 0; 0]; [0; 0; 0; 0]]%Z, [na; nb; nc; nd]).
  Proof. vm_compute. reflexivity. Qed.

  (** the hypotheses of [matrix_entry] / [matrix_roundtrip] hold of a non-trivial graph, and the
      rebuilt graph is a -> b, b -- c (the undirected edge comes back with its endpoints
      exchanged: equal, not identical) with the isolated node kept *)
  Example gex_roundtrip :
    exists g', from_matrix parse fmt Plain
                 [[0; 1; 0; 0]; [0; 0; 1; 0]; [0; 1; 0; 0]; [0; 0; 0; 0]]%Z
                 (Some [na; nb; nc; nd]) true = Ok g'
               /\ map (fun e => (esrc e, edst e, ety e)) (v_edges g') = [(na, nb, Dir); (nb, nc, Und)]
               /\ v_node_names g' = [na; nb; nc; nd].
  Proof. eexists. split; [vm_compute; reflexivity|]. split; vm_compute; reflexivity. Qed.

  Example gex_roundtrip_thm :
    exists g', from_matrix parse fmt Plain
                 [[0; 1; 0; 0]; [0; 0; 1; 0]; [0; 1; 0; 0]; [0; 0; 0; 0]]%Z
                 (Some [na; nb; nc; nd]) false = Ok g' /\ same_graph gex g'.
  Proof.
    destruct (@matrix_roundtrip_novalidate parse fmt Plain gex _ _ gex_inv gex_to_numpy)
      as (g' & H1 & _ & H2).
    exists g'. split; assumption.
  Qed.

  Example gex_entry_ab :
    entry [[0; 1; 0; 0]; [0; 0; 1; 0]; [0; 1; 0; 0]; [0; 0; 0; 0]]%Z 0 1 = Some 1%Z
    /\ entry [[0; 1; 0; 0]; [0; 0; 1; 0]; [0; 1; 0; 0]; [0; 0; 0; 0]]%Z 1 0 = Some 0%Z.
  Proof. split; reflexivity. Qed.

  (** observed: GraphConversionError for a mixed graph, networkx form of a directed one *)
  Example gex_to_nx_refused : to_nx gex = Err EConv /\ to_gml_nx gex = Err EConv.
  Proof. split; vm_compute; reflexivity. Qed.

  Definition gdir : graph :=
    run parse fmt Plain
      [OAddEdge (str_ep na) (str_ep nb) Dir None true;
       OAddEdge (str_ep nc) (str_ep nb) Dir None true;
       OAddNode nd VUnspec None] (empty_graph []).
  Example gdir_nx : to_nx gdir = Ok (true, [na; nb; nc; nd], [(na, nb); (nc, nb)]).
  Proof. vm_compute. reflexivity. Qed.
  Example gdir_nx_roundtrip :
    exists g', from_nx parse fmt Plain (true, [na; nb; nc; nd], [(na, nb); (nc, nb)]) true = Ok g'
               /\ map (fun e => (esrc e, edst e, ety e)) (v_edges g') = [(na, nb, Dir); (nc, nb, Dir)]
               /\ v_node_names g' = [na; nb; nc; nd].
  Proof. eexists. split; [vm_compute; reflexivity|]. split; vm_compute; reflexivity. Qed.

  (** a bidirected edge: TypeError from [to_numpy] and [adjacency_matrix], GraphConversionError
      from [to_networkx] and [to_gml_string] *)
  Definition gbi : graph :=
    run parse fmt Plain [OAddEdge (str_ep na) (str_ep nb) Bi None true] (empty_graph []).
  Example gbi_refused :
    to_numpy gbi = Err EType /\ to_matrix gbi = Err EType
    /\ to_nx gbi = Err EConv /\ to_gml_nx gbi = Err EConv.
  Proof. repeat split; vm_compute; reflexivity. Qed.

  (** malformed input, as observed *)
  Example non_square : from_matrix parse fmt Plain [[0; 1]]%Z None true = Err EInvalidAdj.
  Proof. reflexivity. Qed.
  Example non_binary : from_matrix parse fmt Plain [[2]]%Z None true = Err EInvalidAdj.
  Proof. reflexivity. Qed.
  Example wrong_name_count : from_matrix parse fmt Plain [[0]]%Z (Some [na; nb]) true = Err EAssert.
  Proof. reflexivity. Qed.
  Example duplicate_names :
    from_matrix parse fmt Plain [[0; 0]; [0; 0]]%Z (Some [na; na]) true = Err ENodeDup.
  Proof. vm_compute. reflexivity. Qed.
  Example three_cycle_refused :
    from_matrix parse fmt Plain [[0; 1; 0]; [0; 0; 1]; [1; 0; 0]]%Z (Some [na; nb; nc]) true
    = Err ECyclic.
  Proof. vm_compute. reflexivity. Qed.
  Example three_cycle_unvalidated :
    exists g', from_matrix parse fmt Plain [[0; 1; 0]; [0; 0; 1]; [1; 0; 0]]%Z (Some [na; nb; nc]) false
               = Ok g' /\ map edge_key (v_edges g') = [(na, nb); (nb, nc); (nc, na)].
  Proof. eexists. split; vm_compute; reflexivity. Qed.
  (** default names *)
  Example default_node_names :
    exists g', from_matrix parse fmt Plain [[0; 1]; [0; 0]]%Z None true = Ok g'
               /\ map edge_key (v_edges g')
                  = [([110; 111; 100; 101; 95; 48], [110; 111; 100; 101; 95; 49])].
  Proof. eexists. split; vm_compute; reflexivity. Qed.
  (** time-series class: "x" then "x lag(n=1)"; a directed entry against time is a ValueError, a
      symmetric pair becomes an undirected edge stored earlier -> later *)
  Definition x0 : name := [120].
  Definition x1 : name := [120; 32; 108; 97; 103; 40; 110; 61; 49; 41].
  Example ts_against_time :
    from_matrix parse fmt TS [[0; 1]; [0; 0]]%Z (Some [x0; x1]) true = Err EValue.
  Proof. vm_compute. reflexivity. Qed.
  Example ts_undirected_swapped :
    exists g', from_matrix parse fmt TS [[0; 1]; [1; 0]]%Z (Some [x0; x1]) true = Ok g'
               /\ map (fun e => (esrc e, edst e, ety e)) (v_edges g') = [(x1, x0, Und)].
  Proof. eexists. split; vm_compute; reflexivity. Qed.

  (** a time-series graph: x lag(n=1) -> x, x lag(n=1) -- y; observed
      [to_numpy()] = ([[0,0,0],[1,0,1],[0,1,0]], ['x', 'x lag(n=1)', 'y']) and the round trip
      with the time-series class == the graph *)
  Definition ny : name := [121].
  Definition gts2 : graph :=
    run parse fmt TS
      [OAddEdge (str_ep x1) (str_ep x0) Dir None true;
       OAddEdge (str_ep ny) (str_ep x1) Und None true] (empty_graph []).
  Example gts2_to_numpy :
    to_numpy gts2 = Ok ([[0; 0; 0]; [1; 0; 1]; [0; 1; 0]]%Z, [x0; x1; ny]).
  Proof. vm_compute. reflexivity. Qed.
  Example gts2_roundtrip :
    exists g', from_matrix parse fmt TS [[0; 0; 0]; [1; 0; 1]; [0; 1; 0]]%Z (Some [x0; x1; ny]) true = Ok g'
               /\ map (fun e => (esrc e, edst e, ety e)) (v_edges g') = [(x1, x0, Dir); (x1, ny, Und)]
               /\ map (fun e => (esrc e, edst e, ety e)) (v_edges gts2) = [(x1, x0, Dir); (x1, ny, Und)].
  Proof. eexists. split; [vm_compute; reflexivity|]. split; vm_compute; reflexivity. Qed.
End MatrixExamples.
