(** MatrixProofs.v — proofs about Matrix.v (property C08).

    What is taken from colleagues' files is taken as clearly named Section hypotheses of the
    exact shape of the [..._statement]s of GraphInv.v (Section [WithGraphInv] at the end). *)
From CG Require Import Base Digraph Graph GraphObs GraphInv Matrix.
From Coq Require Import Relations.Relation_Operators.
Set Implicit Arguments.

(** * Lists *)

Lemma set_nth_some {A} (v : A) l i : i < length l -> exists l', set_nth i v l = Some l'.
Proof.
  revert i; induction l as [|x l IH]; intros i Hi; simpl in *; [lia|].
  destruct i as [|i]; [eexists; reflexivity|].
  destruct (IH i) as [l' Hl']; [lia|]. rewrite Hl'. eexists; reflexivity.
Qed.

Lemma set_nth_length {A} (v : A) l i l' : set_nth i v l = Some l' -> length l' = length l.
Proof.
  revert i l'; induction l as [|x l IH]; intros i l' H; simpl in *; [discriminate|].
  destruct i as [|i].
  - injection H as <-. reflexivity.
  - destruct (set_nth i v l) as [r|] eqn:E; [|discriminate].
    injection H as <-. simpl. f_equal. eapply IH; exact E.
Qed.

Lemma set_nth_lt {A} (v : A) l i l' : set_nth i v l = Some l' -> i < length l.
Proof.
  revert i l'; induction l as [|x l IH]; intros i l' H; simpl in *; [discriminate|].
  destruct i as [|i]; [lia|].
  destruct (set_nth i v l) as [r|] eqn:E; [|discriminate].
  apply IH in E. lia.
Qed.

Lemma set_nth_get {A} (v : A) l i l' j :
  set_nth i v l = Some l' ->
  nth_error l' j = if Nat.eqb i j then Some v else nth_error l j.
Proof.
  revert i l' j; induction l as [|x l IH]; intros i l' j H; simpl in *; [discriminate|].
  destruct i as [|i].
  - injection H as <-. destruct j; reflexivity.
  - destruct (set_nth i v l) as [r|] eqn:E; [|discriminate].
    injection H as <-. destruct j as [|j]; simpl; [reflexivity|].
    apply IH; exact E.
Qed.

Lemma index_of_nth x l i : index_of x l = Some i -> nth_error l i = Some x.
Proof.
  revert i; induction l as [|y l IH]; intros i H; simpl in *; [discriminate|].
  destruct (name_eqb_spec x y) as [->|Hn].
  - injection H as <-. reflexivity.
  - destruct (index_of x l) as [i'|]; [|discriminate].
    injection H as <-. simpl. apply IH; reflexivity.
Qed.

Lemma index_of_none x l : index_of x l = None <-> ~ In x l.
Proof.
  induction l as [|y l IH]; simpl; [tauto|].
  destruct (name_eqb_spec x y) as [->|Hn].
  - split; [discriminate|intros H; exfalso; apply H; left; reflexivity].
  - destruct (index_of x l) as [i|].
    + split; [discriminate|]. intros H. exfalso. apply H. right.
      destruct (proj1 (index_of_none_aux := IH)) ; tauto.
    + split; [|reflexivity]. intros _ [E|E]; [congruence|]. apply (proj1 IH); [reflexivity|exact E].
Qed.
