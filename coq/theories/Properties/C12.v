(** C12 — time-series node identity and lag / variable lookups stay coherent.
    This file contains only the property theorems, each closed by [exact] of a lemma proved
    elsewhere, with [Print Assumptions] beneath it. *)
From CG Require Import Base Dec Names NamesProofs.

(** (A) names and (variable, lag) pairs are in bijection on good variable names *)
Theorem C12_parse_fmt :
  forall v k, good v = true -> exists s, fmt v k = Some s /\ parse s = Some (v, k).
Proof. exact parse_fmt. Qed.
Print Assumptions C12_parse_fmt.

Theorem C12_fmt_is_canonical_spelling :
  forall v k, good v = true -> fmt v k = Some (tident v k).
Proof. exact fmt_good. Qed.
Print Assumptions C12_fmt_is_canonical_spelling.

Theorem C12_lag_zero_is_bare_name : forall v, good v = true -> fmt v 0 = Some v.
Proof. exact fmt_zero. Qed.
Print Assumptions C12_lag_zero_is_bare_name.

Theorem C12_relag :
  forall n v j k, parse n = Some (v, j) -> good v = true -> fmt n k = fmt v k.
Proof. exact relag. Qed.
Print Assumptions C12_relag.

Theorem C12_fmt_injective :
  forall v1 k1 v2 k2 s, good v1 = true -> good v2 = true ->
    fmt v1 k1 = Some s -> fmt v2 k2 = Some s -> v1 = v2 /\ k1 = k2.
Proof. exact fmt_inj. Qed.
Print Assumptions C12_fmt_injective.

Theorem C12_canonical_names_are_exactly_formatted_pairs :
  forall n, canonical n = true ->
    exists v k, good v = true /\ n = tident v k /\ parse n = Some (v, k).
Proof. exact canonical_inv. Qed.
Print Assumptions C12_canonical_names_are_exactly_formatted_pairs.

Theorem C12_parse_rejects_exactly :
  forall s, parse s = None <-> s = [] \/ (1 < nmarkers s)%nat.
Proof. exact parse_none_iff. Qed.
Print Assumptions C12_parse_rejects_exactly.

Theorem C12_decimal_read_print : forall n, read_dec (print_dec n) = Some n.
Proof. exact read_print. Qed.
Print Assumptions C12_decimal_read_print.
