(** C04 — cached and derived answers always reflect the current graph.
    Only property theorems, each closed by [exact], with [Print Assumptions] beneath. The tables
    of Extracted.v are regenerated from /repo's source on every run; Facts.v proves the
    side-conditions about them by computation. *)
From Coq Require Import String List Bool.
From CG Require Import Cache Extracted Facts.
Import ListNotations.
Open Scope bool_scope.

(** Meta-theorem, for EVERY interleaving of reads and mutations of any system of the modelled
    shape: a cached read returns what the uncached function gives on the current core state,
    i.e. what a freshly reconstructed, never-queried copy returns. *)
Theorem C04_every_read_is_current :
  forall (core field value mutator : Type) (field_eq_dec : forall a b : field, {a = b} + {a <> b})
         (compute : field -> core -> value) (stores : field -> value -> bool)
         (apply : mutator -> core -> core * bool)
         (resets fail_clears : mutator -> field -> bool),
    (forall m c c' f, apply m c = (c', true) -> resets m f = false -> compute f c' = compute f c) ->
    (forall m c c', apply m c = (c', false) -> forall f, fail_clears m f = false -> compute f c' = compute f c) ->
    forall c h f,
      snd (read field_eq_dec compute stores f (run field_eq_dec compute stores apply resets fail_clears (init c) h))
      = snd (read field_eq_dec compute stores f (init (fold_left (core_step (field := field) apply) h c))).
Proof. intros core field value mutator. exact (@read_equals_fresh _ _ _ _). Qed.
Print Assumptions C04_every_read_is_current.

(** The hypotheses are not vacuous: a mutator that does not reset a field whose value it changes
    admits a history with a stale read. *)
Theorem C04_unreset_field_goes_stale :
  forall (core field value mutator : Type) (field_eq_dec : forall a b : field, {a = b} + {a <> b})
         (compute : field -> core -> value) (stores : field -> value -> bool)
         (apply : mutator -> core -> core * bool)
         (resets fail_clears : mutator -> field -> bool) m f c c',
    apply m c = (c', true) -> resets m f = false -> stores f (compute f c) = true ->
    compute f c' <> compute f c ->
    exists h, let s := run field_eq_dec compute stores apply resets fail_clears (init c) h in
              st s = c' /\ ~ coherent compute s /\ snd (read field_eq_dec compute stores f s) <> compute f (st s).
Proof. intros core field value mutator. exact (@stale_possible _ _ _ _). Qed.
Print Assumptions C04_unreset_field_goes_stale.

(** Instance: the tables regenerated from the current source meet the premises. *)
Theorem C04_state_writers_are_decorated :
  writers_decorated CG = true /\ writers_decorated TS = true.
Proof. exact (conj writers_decorated_CausalGraph writers_decorated_TimeSeriesCausalGraph). Qed.
Print Assumptions C04_state_writers_are_decorated.

Theorem C04_memoised_fields_are_reset :
  subset_str (all_memo CG) (effective_reset CG) = true /\ subset_str (all_memo TS) (effective_reset TS) = true
  /\ reset_calls_super_TimeSeriesCausalGraph = true.
Proof. exact (conj memo_subset_reset_CausalGraph (conj memo_subset_reset_TimeSeriesCausalGraph reset_calls_super_TS)). Qed.
Print Assumptions C04_memoised_fields_are_reset.

Theorem C04_every_mutator_resets_every_memo_field :
  forall d m f, In m (public_mutators d) -> In f (all_memo d) -> resets_tbl d m f = true.
Proof. exact H1_table_mutators. Qed.
Print Assumptions C04_every_mutator_resets_every_memo_field.

Theorem C04_mutators_never_read_a_cache :
  disjoint_keys (mutating_bodies CG) (cache_reading_bodies CG) = true
  /\ disjoint_keys (mutating_bodies TS) (cache_reading_bodies TS) = true.
Proof. exact (conj mutators_do_not_read_caches_CausalGraph mutators_do_not_read_caches_TimeSeriesCausalGraph). Qed.
Print Assumptions C04_mutators_never_read_a_cache.

Theorem C04_mutable_caches_are_returned_by_copy :
  forallb (fun r : string * string * string =>
             let '(_, f, k) := r in negb (mem_str f mutable_fields) || negb (String.eqb k "raw"))
          memo_returns_all = true.
Proof. exact mutable_caches_returned_by_copy. Qed.
Print Assumptions C04_mutable_caches_are_returned_by_copy.
