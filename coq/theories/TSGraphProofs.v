(** TSGraphProofs.v — shared lemmas about the time-series model of TSGraph.v: boolean
    reflections, [rfold] induction principles, the behaviour of [ensure_node] / [add_edge], the
    well-formedness invariant kept by [add_edge], and graph equality.  The property proofs are in
    SummaryProofs.v (C17), MinimalProofs.v (C14), ExtendProofs.v (C15), StationaryProofs.v (C16). *)
From CG Require Import Base Dec Digraph TSGraph.
Local Open Scope Z_scope.

(** * Reflection of the boolean tests *)

Lemma key_eqb_spec (a b : key) : reflect (a = b) (key_eqb a b).
Proof.
  destruct a as [v k], b as [w j]; unfold key_eqb; simpl.
  destruct (name_eqb_spec v w) as [->|Hn]; simpl.
  - destruct (Z.eqb_spec k j) as [->|Hk]; constructor; congruence.
  - constructor; congruence.
Qed.

Lemma key_eqb_eq a b : key_eqb a b = true <-> a = b.
Proof. destruct (key_eqb_spec a b); split; congruence. Qed.

Lemma key_eqb_refl a : key_eqb a a = true.
Proof. apply key_eqb_eq; reflexivity. Qed.

Lemma key_eqb_neq a b : key_eqb a b = false <-> a <> b.
Proof. destruct (key_eqb_spec a b); split; congruence. Qed.

Lemma ekey_eqb_spec (p q : key * key) : reflect (p = q) (ekey_eqb p q).
Proof.
  destruct p as [a b], q as [c d]; unfold ekey_eqb; simpl.
  destruct (key_eqb_spec a c), (key_eqb_spec b d); simpl; constructor; congruence.
Qed.

Lemma node_exists_in g k : node_exists g k = true <-> In k (map nkey (tnodes g)).
Proof.
  unfold node_exists; rewrite existsb_exists, in_map_iff; split.
  - intros (n & Hn & E); apply key_eqb_eq in E; exists n; auto.
  - intros (n & E & Hn); exists n; split; [exact Hn|apply key_eqb_eq; exact E].
Qed.

Lemma node_exists_false g k : node_exists g k = false <-> ~ In k (map nkey (tnodes g)).
Proof. rewrite <- node_exists_in; destruct (node_exists g k); split; congruence. Qed.

Lemma edge_exists_in g s d : edge_exists g s d = true <-> In (s, d) (map ekey (tedges g)).
Proof.
  unfold edge_exists; rewrite existsb_exists, in_map_iff; split.
  - intros (e & He & E); apply andb_true_iff in E; destruct E as [E1 E2].
    apply key_eqb_eq in E1, E2; exists e; unfold ekey; split; [congruence|exact He].
  - intros (e & E & He); exists e; split; [exact He|].
    unfold ekey in E; inversion E; rewrite !key_eqb_refl; reflexivity.
Qed.

Lemma edge_exists_false g s d : edge_exists g s d = false <-> ~ In (s, d) (map ekey (tedges g)).
Proof. rewrite <- edge_exists_in; destruct (edge_exists g s d); split; congruence. Qed.

Lemma find_node_some g k n : find_node g k = Some n -> In n (tnodes g) /\ nkey n = k.
Proof.
  unfold find_node; intros H; apply find_some in H; destruct H as [H1 H2].
  apply key_eqb_eq in H2; auto.
Qed.

Lemma find_node_none g k : find_node g k = None -> ~ In k (map nkey (tnodes g)).
Proof.
  unfold find_node; intros H Hin; apply in_map_iff in Hin; destruct Hin as (n & E & Hn).
  pose proof (find_none _ _ H _ Hn) as F; simpl in F; rewrite E, key_eqb_refl in F; discriminate.
Qed.

Lemma find_node_in g k : In k (map nkey (tnodes g)) -> exists n, find_node g k = Some n.
Proof.
  intros Hin; destruct (find_node g k) eqn:E; [eauto|].
  exfalso; exact (find_node_none _ _ E Hin).
Qed.

(** With unique keys, [find_node] returns THE node with that key. *)
Lemma find_node_unique g n :
  NoDup (map nkey (tnodes g)) -> In n (tnodes g) -> find_node g (nkey n) = Some n.
Proof.
  unfold find_node; induction (tnodes g) as [|a l IH]; simpl; intros ND Hin; [contradiction|].
  inversion ND as [|? ? Hna ND']; subst.
  destruct Hin as [->|Hin]; [rewrite key_eqb_refl; reflexivity|].
  destruct (key_eqb_spec (nkey a) (nkey n)) as [E|_]; [|auto].
  exfalso; apply Hna; rewrite E; apply in_map; exact Hin.
Qed.

Lemma find_edge_some g s d e : find_edge g s d = Some e -> In e (tedges g) /\ ekey e = (s, d).
Proof.
  unfold find_edge; intros H; apply find_some in H; destruct H as [H1 H2].
  apply andb_true_iff in H2; destruct H2 as [E1 E2]; apply key_eqb_eq in E1, E2.
  unfold ekey; split; [exact H1|congruence].
Qed.

Lemma find_edge_none g s d : find_edge g s d = None -> ~ In (s, d) (map ekey (tedges g)).
Proof.
  unfold find_edge; intros H Hin; apply in_map_iff in Hin; destruct Hin as (e & E & He).
  pose proof (find_none _ _ H _ He) as F; simpl in F.
  unfold ekey in E; inversion E; subst; rewrite !key_eqb_refl in F; discriminate.
Qed.

Lemma find_edge_unique g e :
  NoDup (map ekey (tedges g)) -> In e (tedges g) -> find_edge g (esrc e) (edst e) = Some e.
Proof.
  unfold find_edge; induction (tedges g) as [|a l IH]; simpl; intros ND Hin; [contradiction|].
  inversion ND as [|? ? Hna ND']; subst.
  destruct Hin as [->|Hin]; [rewrite !key_eqb_refl; reflexivity|].
  destruct (key_eqb_spec (esrc a) (esrc e)) as [E1|_]; simpl; [|auto].
  destruct (key_eqb_spec (edst a) (edst e)) as [E2|_]; simpl; [|auto].
  exfalso; apply Hna; replace (ekey a) with (ekey e) by (unfold ekey; congruence).
  apply in_map; exact Hin.
Qed.

(** [nodup_by] with a reflecting equality is [NoDup]. *)
Lemma nodup_by_spec (A : Type) (eqb : A -> A -> bool) :
  (forall x y, reflect (x = y) (eqb x y)) ->
  forall l, nodup_by eqb l = true <-> NoDup l.
Proof.
  intros R; induction l as [|x l IH]; simpl.
  - split; [constructor|reflexivity].
  - rewrite andb_true_iff, negb_true_iff, IH; split.
    + intros [H1 H2]; constructor; [|exact H2].
      intros Hin; assert (existsb (eqb x) l = true) as T; [|congruence].
      apply existsb_exists; exists x; split; [exact Hin|destruct (R x x); congruence].
    + intros ND; inversion ND as [|? ? Hn ND']; subst; split; [|exact ND'].
      destruct (existsb (eqb x) l) eqn:E; [|reflexivity].
      apply existsb_exists in E; destruct E as (y & Hy & E).
      destruct (R x y); [subst; contradiction|discriminate].
Qed.

Arguments nodup_by_spec {A} eqb _ l.

(** * [rfold] *)

Lemma rfold_app (S A : Type) (f : S -> A -> res S) l1 l2 x :
  rfold f (l1 ++ l2) x = match rfold f l1 x with Ok y => rfold f l2 y | Err e => Err e end.
Proof.
  revert x; induction l1 as [|a l1 IH]; intros x; simpl; [reflexivity|].
  destruct (f x a); [apply IH|reflexivity].
Qed.

(** Total correctness: every step succeeds and keeps the invariant indexed by the processed prefix. *)
Lemma rfold_total (S A : Type) (f : S -> A -> res S) (Q : A -> Prop) (I : list A -> S -> Prop) :
  (forall done a x, Q a -> I done x -> exists x', f x a = Ok x' /\ I (done ++ [a]) x') ->
  forall l done x, Forall Q l -> I done x ->
    exists x', rfold f l x = Ok x' /\ I (done ++ l) x'.
Proof.
  intros Hstep; induction l as [|a l IH]; intros done x HQ HI; simpl.
  - exists x; rewrite app_nil_r; auto.
  - inversion HQ as [|? ? Qa HQ']; subst.
    destruct (Hstep done a x Qa HI) as (x' & E & HI'); rewrite E.
    destruct (IH (done ++ [a]) x' HQ' HI') as (x'' & E' & HI'').
    exists x''; rewrite <- app_assoc in HI''; auto.
Qed.

(** Partial correctness: IF the loop ends normally the invariant holds. *)
Lemma rfold_partial (S A : Type) (f : S -> A -> res S) (Q : A -> Prop) (I : list A -> S -> Prop) :
  (forall done a x x', Q a -> I done x -> f x a = Ok x' -> I (done ++ [a]) x') ->
  forall l done x x', Forall Q l -> I done x -> rfold f l x = Ok x' -> I (done ++ l) x'.
Proof.
  intros Hstep; induction l as [|a l IH]; intros done x x' HQ HI; simpl.
  - intros [= <-]; rewrite app_nil_r; exact HI.
  - inversion HQ as [|? ? Qa HQ']; subst.
    destruct (f x a) as [y|] eqn:E; [|discriminate]. intros Hr.
    replace (done ++ a :: l) with ((done ++ [a]) ++ l) by (rewrite <- app_assoc; reflexivity).
    eapply IH; eauto.
Qed.

Lemma fold_left_inv (S A : Type) (f : S -> A -> S) (Q : A -> Prop) (I : list A -> S -> Prop) :
  (forall done a x, Q a -> I done x -> I (done ++ [a]) (f x a)) ->
  forall l done x, Forall Q l -> I done x -> I (done ++ l) (fold_left f l x).
Proof.
  intros Hstep; induction l as [|a l IH]; intros done x HQ HI; simpl.
  - rewrite app_nil_r; exact HI.
  - inversion HQ as [|? ? Qa HQ']; subst.
    replace (done ++ a :: l) with ((done ++ [a]) ++ l) by (rewrite <- app_assoc; reflexivity).
    apply IH; auto.
Qed.

Arguments rfold_total {S A} f Q I _ l done x _ _.
Arguments rfold_partial {S A} f Q I _ l done x x' _ _ _.
Arguments fold_left_inv {S A} f Q I _ l done x _ _.

Lemma NoDup_map_inj (A B : Type) (f : A -> B) (l : list A) a b :
  NoDup (map f l) -> In a l -> In b l -> f a = f b -> a = b.
Proof.
  induction l as [|x l IH]; simpl; intros ND Ha Hb E; [contradiction|].
  inversion ND as [|? ? Hx ND']; subst.
  destruct Ha as [->|Ha], Hb as [->|Hb]; auto.
  - exfalso; apply Hx; rewrite E; apply in_map; exact Hb.
  - exfalso; apply Hx; rewrite <- E; apply in_map; exact Ha.
Qed.
Arguments NoDup_map_inj {A B} f l a b _ _ _ _.

Lemma NoDup_map_filter (A B : Type) (f : A -> B) (p : A -> bool) (l : list A) :
  NoDup (map f l) -> NoDup (map f (filter p l)).
Proof.
  induction l as [|x l IH]; simpl; intros ND; [constructor|].
  inversion ND as [|? ? Hx ND']; subst.
  destruct (p x); simpl; [|auto]. constructor; [|auto].
  intros Hin; apply Hx; apply in_map_iff in Hin; destruct Hin as (y & E & Hy).
  apply filter_In in Hy; rewrite <- E; apply in_map; tauto.
Qed.
Arguments NoDup_map_filter {A B} f p l _.

Lemma Forall_True (A : Type) (l : list A) : Forall (fun _ => True) l.
Proof. apply Forall_forall; auto. Qed.

Lemma NoDup_snoc (A : Type) (l : list A) (x : A) : NoDup l -> ~ In x l -> NoDup (l ++ [x]).
Proof.
  induction l as [|y l IH]; simpl; intros ND Hn; [constructor; [tauto|constructor]|].
  inversion ND as [|? ? Hy ND']; subst. constructor.
  - rewrite in_app_iff; simpl; intros [H|[H|[]]]; [contradiction|subst; tauto].
  - apply IH; tauto.
Qed.

Lemma NoDup_snoc_inv (A : Type) (l : list A) (x : A) : NoDup (l ++ [x]) -> NoDup l /\ ~ In x l.
Proof.
  intros ND; apply NoDup_remove in ND; rewrite app_nil_r in ND; exact ND.
Qed.

(** * [ensure_node], [add_edge] *)

Lemma ensure_node_nodes g n :
  tnodes (ensure_node g n) = if node_exists g (nkey n) then tnodes g else tnodes g ++ [n].
Proof. unfold ensure_node; destruct (node_exists g (nkey n)); reflexivity. Qed.

Lemma ensure_node_edges g n : tedges (ensure_node g n) = tedges g.
Proof. unfold ensure_node; destruct (node_exists g (nkey n)); reflexivity. Qed.

Lemma ensure_node_meta g n : tgmeta (ensure_node g n) = tgmeta g.
Proof. unfold ensure_node; destruct (node_exists g (nkey n)); reflexivity. Qed.

Lemma ensure_node_keys g n k :
  In k (map nkey (tnodes (ensure_node g n))) <-> In k (map nkey (tnodes g)) \/ k = nkey n.
Proof.
  rewrite ensure_node_nodes; destruct (node_exists g (nkey n)) eqn:E.
  - apply node_exists_in in E; split; [auto|intros [H| ->]; auto].
  - rewrite map_app, in_app_iff; simpl; split; intros [H|H]; auto.
    destruct H as [<-|[]]; auto.
Qed.

Lemma ensure_node_in g n n' :
  In n' (tnodes (ensure_node g n)) ->
  In n' (tnodes g) \/ (n' = n /\ ~ In (nkey n) (map nkey (tnodes g))).
Proof.
  rewrite ensure_node_nodes; destruct (node_exists g (nkey n)) eqn:E; [auto|].
  apply node_exists_false in E. rewrite in_app_iff; simpl; intros [H|[<-|[]]]; auto.
Qed.

Lemma ensure_node_incl g n n' : In n' (tnodes g) -> In n' (tnodes (ensure_node g n)).
Proof.
  rewrite ensure_node_nodes; destruct (node_exists g (nkey n)); [auto|].
  intros H; apply in_or_app; auto.
Qed.

Lemma ensure_node_nodup g n :
  NoDup (map nkey (tnodes g)) -> NoDup (map nkey (tnodes (ensure_node g n))).
Proof.
  rewrite ensure_node_nodes; destruct (node_exists g (nkey n)) eqn:E; [auto|].
  apply node_exists_false in E; intros ND; rewrite map_app; simpl.
  apply NoDup_snoc; assumption.
Qed.

(** * Decidable equality of metadata, nodes and edges *)

Section JsonInd.
  Variable P : json -> Prop.
  Hypothesis Hnull : P JNull.
  Hypothesis Hbool : forall b, P (JBool b).
  Hypothesis Hint : forall z, P (JInt z).
  Hypothesis Hstr : forall s, P (JStr s).
  Hypothesis Hlist : forall l, Forall P l -> P (JList l).
  Hypothesis Hobj : forall l, Forall (fun kv : name * json => P (snd kv)) l -> P (JObj l).
  Fixpoint json_ind' (j : json) : P j :=
    match j with
    | JNull => Hnull
    | JBool b => Hbool b
    | JInt z => Hint z
    | JStr s => Hstr s
    | JList l =>
        Hlist l ((fix go (l : list json) : Forall P l :=
                  match l with
                  | [] => Forall_nil _
                  | x :: l' => Forall_cons x (json_ind' x) (go l')
                  end) l)
    | JObj l =>
        Hobj l ((fix go (l : list (name * json)) : Forall (fun kv => P (snd kv)) l :=
                 match l with
                 | [] => Forall_nil _
                 | kv :: l' => Forall_cons kv (json_ind' (snd kv)) (go l')
                 end) l)
    end.
End JsonInd.

Lemma json_eqb_eq a : forall b, json_eqb a b = true <-> a = b.
Proof.
  induction a as [| x | x | x | l IH | l IH] using json_ind'; intros b; destruct b;
    simpl; try (split; [discriminate|congruence]).
  - tauto.
  - rewrite Bool.eqb_true_iff; split; congruence.
  - rewrite Z.eqb_eq; split; congruence.
  - rewrite name_eqb_eq; split; congruence.
  - rename l0 into l2. revert l2; induction IH as [|x l Hx Hl IHl]; intros [|y l2];
      try (split; [discriminate|congruence]); [tauto|].
    rewrite andb_true_iff, Hx, IHl; split; [intros [-> E]; inversion E; reflexivity|].
    intros E; inversion E; auto.
  - rename l0 into l2. revert l2; induction IH as [|[k x] l Hx Hl IHl]; intros [|[k2 y] l2];
      try (split; [discriminate|congruence]); [tauto|].
    simpl in Hx. rewrite !andb_true_iff, name_eqb_eq, Hx, IHl; split.
    + intros [[-> ->] E]; inversion E; reflexivity.
    + intros E; inversion E; auto.
Qed.

Lemma meta_eqb_eq (x y : meta) : meta_eqb x y = true <-> x = y.
Proof.
  revert y; induction x as [|[k a] x IH]; intros [|[k2 b] y]; simpl;
    try (split; [discriminate|congruence]); [tauto|].
  rewrite !andb_true_iff, name_eqb_eq, json_eqb_eq, IH; split.
  - intros [[-> ->] ->]; reflexivity.
  - intros E; inversion E; auto.
Qed.

Lemma meta_eqb_refl x : meta_eqb x x = true.
Proof. apply meta_eqb_eq; reflexivity. Qed.

Lemma vtype_eqb_eq a b : vtype_eqb a b = true <-> a = b.
Proof. destruct (vtype_eqb_spec a b); split; congruence. Qed.

Lemma etype_eqb_eq a b : etype_eqb a b = true <-> a = b.
Proof. destruct (etype_eqb_spec a b); split; congruence. Qed.

Lemma tnode_eqb_eq a b : tnode_eqb a b = true <-> a = b.
Proof.
  unfold tnode_eqb; rewrite !andb_true_iff, key_eqb_eq, vtype_eqb_eq, meta_eqb_eq.
  destruct a, b; unfold nkey; simpl; split.
  - intros [[E -> ] ->]; inversion E; reflexivity.
  - intros E; inversion E; auto.
Qed.

Lemma tedge_eqb_eq a b : tedge_eqb a b = true <-> a = b.
Proof.
  unfold tedge_eqb; rewrite !andb_true_iff, !key_eqb_eq, etype_eqb_eq, meta_eqb_eq.
  destruct a, b; unfold esrc, edst; simpl; split.
  - intros [[[E1 E2] ->] ->]; inversion E1; inversion E2; reflexivity.
  - intros E; inversion E; auto.
Qed.

(** * A concrete time-series DAG used by the [Example]s of the property files.
    Built in Python as: add_node('Z', CONTINUOUS, meta {'a':1}); add_edge('X lag(n=1)','Y');
    add_edge('Y lag(n=1)','X', meta {'b':'u'}); add_edge('X lag(n=1)','X'); add_edge('X','Y');
    add_edge('W lag(n=2)','Y lag(n=1)'); graph meta {'g':1}.  (X=88, Y=89, W=87, Z=90.) *)
Definition Nd := Build_tnode.
Definition Ed := Build_tedge.
Definition Gr := Build_tsg.
Definition PN := Build_pnode.
Definition PE := Build_pedge.
Definition PG := Build_pgraph.
Definition ex_g : tsg :=
   Gr [(Nd [90]%N (0)%Z VCont [([97]%N, JInt (1)%Z)]); (Nd [88]%N (-1)%Z VUnspec []); (Nd [89]%N (0)%Z VUnspec []); (Nd [89]%N (-1)%Z VUnspec []); (Nd [88]%N (0)%Z VUnspec []); (Nd [87]%N (-2)%Z VUnspec [])] [(Ed [87]%N (-2)%Z [89]%N (-1)%Z Dir []); (Ed [88]%N (0)%Z [89]%N (0)%Z Dir []); (Ed [88]%N (-1)%Z [88]%N (0)%Z Dir []); (Ed [88]%N (-1)%Z [89]%N (0)%Z Dir []); (Ed [89]%N (-1)%Z [88]%N (0)%Z Dir [([98]%N, JStr [117]%N)])] [([103]%N, JInt (1)%Z)].

Fixpoint list_eqb (A : Type) (eqb : A -> A -> bool) (x y : list A) : bool :=
  match x, y with
  | [], [] => true
  | a :: x', b :: y' => eqb a b && list_eqb A eqb x' y'
  | _, _ => false
  end.
(** Exact comparison with a Python result: nodes in dict order, edges in [get_edges()] order. *)
Definition tsg_exact (a b : tsg) : bool :=
  list_eqb _ tnode_eqb (tnodes a) (tnodes b) && list_eqb _ tedge_eqb (sorted_edges a) (tedges b)
  && meta_eqb (tgmeta a) (tgmeta b).
Definition res_exact (r1 r2 : res tsg) : bool :=
  match r1, r2 with
  | Ok a, Ok b => tsg_exact a b
  | Err e1, Err e2 => N.eqb (err_code e1) (err_code e2)
  | _, _ => false
  end.

(** * Well-formed time-series graphs: the invariant every Python [TimeSeriesCausalGraph] has
      (unique node identifiers, at most one edge per unordered pair of nodes, no self loop, the
      endpoints of an edge are nodes, and a stored edge never points back in time). *)
Record wf (g : tsg) : Prop := {
  wf_nodes : NoDup (map nkey (tnodes g));
  wf_edges : NoDup (map ekey (tedges g));
  wf_norev : forall e1 e2, In e1 (tedges g) -> In e2 (tedges g) ->
                           esrc e1 = edst e2 -> edst e1 = esrc e2 -> False;
  wf_ends : forall e, In e (tedges g) ->
                      In (esrc e) (map nkey (tnodes g)) /\ In (edst e) (map nkey (tnodes g));
  wf_time : forall e, In e (tedges g) -> esl e <= edl e
}.

Lemma wf_empty gm : wf (empty_tsg gm).
Proof. constructor; simpl; try constructor; intros; contradiction. Qed.

Lemma wf_noself g e : wf g -> In e (tedges g) -> esrc e <> edst e.
Proof. intros W He E; exact (wf_norev g W e e He He E (eq_sym E)). Qed.

Definition added (g : tsg) (sn dn : tnode) (ty : etype) (m : meta) : tsg :=
  {| tnodes := tnodes (ensure_node (ensure_node g sn) dn);
     tedges := tedges g ++ [mk_edge sn dn ty m];
     tgmeta := tgmeta g |}.

(** [add_edge] when the endpoints are given in time order (no swap, no ValueError). *)
Lemma add_edge_noswap g sn dn ty m :
  tl sn <= tl dn ->
  add_edge g sn dn ty m =
    if key_eqb (nkey sn) (nkey dn) then Err ECyclic
    else if edge_exists g (nkey sn) (nkey dn) then Err EEdgeDup
    else if edge_exists g (nkey dn) (nkey sn) then Err EReverse
    else Ok (added g sn dn ty m).
Proof.
  intros Hle; unfold add_edge, added.
  assert (L : (tl dn <? tl sn) = false) by (apply Z.ltb_ge; exact Hle).
  rewrite L, !andb_false_r.
  assert (X : forall s d, edge_exists (ensure_node (ensure_node g sn) dn) s d = edge_exists g s d).
  { intros s d; unfold edge_exists; rewrite !ensure_node_edges; reflexivity. }
  rewrite !X, !ensure_node_edges, !ensure_node_meta.
  destruct (key_eqb (nkey sn) (nkey dn)); [reflexivity|].
  destruct (edge_exists g (nkey sn) (nkey dn)) eqn:E; [reflexivity|reflexivity].
Qed.

Lemma ekey_inv e a b : ekey e = (a, b) -> esrc e = a /\ edst e = b.
Proof. unfold ekey; intros H; split; congruence. Qed.

Lemma ekey_mk_edge s d ty m : ekey (mk_edge s d ty m) = (nkey s, nkey d).
Proof. reflexivity. Qed.

Lemma added_wf g sn dn ty m :
  wf g -> tl sn <= tl dn -> nkey sn <> nkey dn ->
  ~ In (nkey sn, nkey dn) (map ekey (tedges g)) ->
  ~ In (nkey dn, nkey sn) (map ekey (tedges g)) ->
  wf (added g sn dn ty m).
Proof.
  intros [Wn We Wr Wd Wt] Hle Hne Hf Hr; constructor; simpl.
  - apply ensure_node_nodup, ensure_node_nodup, Wn.
  - rewrite map_app; simpl; apply NoDup_snoc; assumption.
  - intros e1 e2 H1 H2 E1 E2; apply in_app_iff in H1, H2; simpl in H1, H2.
    destruct H1 as [H1|[<-|[]]], H2 as [H2|[<-|[]]].
    + exact (Wr e1 e2 H1 H2 E1 E2).
    + apply Hr; apply in_map_iff; exists e1; split; [|exact H1].
      unfold ekey; rewrite E1, E2; reflexivity.
    + apply Hr; apply in_map_iff; exists e2; split; [|exact H2].
      unfold ekey; rewrite <- E1, <- E2; reflexivity.
    + apply Hne; exact E1.
  - intros e He; apply in_app_iff in He; simpl in He. rewrite !ensure_node_keys.
    destruct He as [He|[<-|[]]]; [destruct (Wd e He); auto|].
    split; [left; right; reflexivity|right; reflexivity].
  - intros e He; apply in_app_iff in He; simpl in He.
    destruct He as [He|[<-|[]]]; [auto|exact Hle].
Qed.

(** Same nodes (with attributes) and same edges (with type and metadata), as sets. *)
Definition same_graph (a b : tsg) : Prop :=
  (forall n, In n (tnodes a) <-> In n (tnodes b))
  /\ (forall e, In e (tedges a) <-> In e (tedges b))
  /\ tgmeta a = tgmeta b.

Lemma same_graph_b_spec a b : same_graph_b a b = true <-> same_graph a b.
Proof.
  unfold same_graph_b, same_graph; rewrite !andb_true_iff, !forallb_forall, meta_eqb_eq.
  assert (XN : forall l (n : tnode), existsb (tnode_eqb n) l = true <-> In n l).
  { intros l n; rewrite existsb_exists; split.
    - intros (y & Hy & E); apply tnode_eqb_eq in E; subst; exact Hy.
    - intros H; exists n; split; [exact H|apply tnode_eqb_eq; reflexivity]. }
  assert (XE : forall l (e : tedge), existsb (tedge_eqb e) l = true <-> In e l).
  { intros l e; rewrite existsb_exists; split.
    - intros (y & Hy & E); apply tedge_eqb_eq in E; subst; exact Hy.
    - intros H; exists e; split; [exact H|apply tedge_eqb_eq; reflexivity]. }
  split.
  - intros [[[[H1 H2] H3] H4] H5]; repeat split; auto.
    + intros H; apply XN, H1, H. + intros H; apply XN, H2, H.
    + intros H; apply XE, H3, H. + intros H; apply XE, H4, H.
  - intros (H1 & H2 & H3); repeat split; auto.
    + intros n Hn; apply XN, H1, Hn. + intros n Hn; apply XN, H1, Hn.
    + intros e He; apply XE, H2, He. + intros e He; apply XE, H2, He.
Qed.

Lemma NoDup_of_map (A B : Type) (f : A -> B) (l : list A) : NoDup (map f l) -> NoDup l.
Proof.
  induction l as [|x l IH]; simpl; intros ND; [constructor|].
  inversion ND as [|? ? Hx ND']; subst; constructor; [|auto].
  intros Hin; apply Hx, in_map, Hin.
Qed.

Lemma upair_eqb_refl p : upair_eqb p p = true.
Proof. unfold upair_eqb; rewrite !key_eqb_refl; reflexivity. Qed.

(** Two well-formed graphs with the same nodes and edges are equal for [CausalGraph.__eq__]. *)
Lemma same_graph_eqb a b : wf a -> wf b -> same_graph a b -> ts_graph_eqb a b = true.
Proof.
  intros Wa Wb (Hn & He & _); unfold ts_graph_eqb.
  assert (Ln : length (tnodes a) = length (tnodes b)).
  { apply Permutation_length, NoDup_Permutation; auto;
      eapply NoDup_of_map; [apply (wf_nodes a Wa)|apply (wf_nodes b Wb)]. }
  assert (Le : length (tedges a) = length (tedges b)).
  { apply Permutation_length, NoDup_Permutation; auto;
      eapply NoDup_of_map; [apply (wf_edges a Wa)|apply (wf_edges b Wb)]. }
  rewrite Ln, Le, !Nat.eqb_refl; simpl.
  repeat (apply andb_true_iff; split); apply forallb_forall.
  - intros n H; apply node_exists_in, in_map, Hn, H.
  - intros n H; apply node_exists_in, in_map, Hn, H.
  - intros e H; apply existsb_exists; exists e; split; [apply He, H|apply upair_eqb_refl].
  - intros e H; apply existsb_exists; exists e; split; [apply He, H|apply upair_eqb_refl].
  - intros e H; unfold edge_match.
    rewrite (find_edge_unique b e (wf_edges b Wb)); [|apply He, H].
    destruct (etype_eqb_spec (ety e) (ety e)); congruence.
Qed.

Lemma forallb2_spec (A : Type) (p : A -> A -> bool) (l : list A) :
  forallb (fun a => forallb (p a) l) l = true <-> forall a b, In a l -> In b l -> p a b = true.
Proof.
  rewrite forallb_forall; split.
  - intros H a b Ha Hb; specialize (H a Ha); rewrite forallb_forall in H; auto.
  - intros H a Ha; apply forallb_forall; auto.
Qed.
Arguments forallb2_spec {A} p l.

Theorem wf_b_spec g : wf_b g = true <-> wf g.
Proof.
  unfold wf_b; rewrite !andb_true_iff.
  rewrite (nodup_by_spec key_eqb key_eqb_spec), (nodup_by_spec ekey_eqb ekey_eqb_spec).
  rewrite (forallb2_spec (fun e1 e2 => negb (key_eqb (esrc e1) (edst e2) && key_eqb (edst e1) (esrc e2)))).
  rewrite !forallb_forall. split.
  - intros [[[[H1 H2] H3] H4] H5]; constructor; auto.
    + intros e1 e2 I1 I2 E1 E2; specialize (H3 e1 e2 I1 I2).
      rewrite E1, E2, !key_eqb_refl in H3; discriminate.
    + intros e He; specialize (H4 e He); apply andb_true_iff in H4.
      rewrite !node_exists_in in H4; exact H4.
    + intros e He; apply Z.leb_le, H5, He.
  - intros [W1 W2 W3 W4 W5]; repeat split; auto.
    + intros e1 e2 I1 I2; apply negb_true_iff.
      destruct (key_eqb_spec (esrc e1) (edst e2)) as [E1|]; [|reflexivity].
      destruct (key_eqb_spec (edst e1) (esrc e2)) as [E2|]; [|reflexivity].
      exfalso; exact (W3 e1 e2 I1 I2 E1 E2).
    + intros e He; apply andb_true_iff; rewrite !node_exists_in; apply W4, He.
    + intros e He; apply Z.leb_le, W5, He.
Qed.
