(** TSGraphProofs.v — shared lemmas about the time-series model of TSGraph.v: boolean
    reflections, [rfold] induction principles, the behaviour of [ensure_node] / [add_edge], the
    well-formedness invariant kept by [add_edge], and graph equality.  The property proofs are in
    SummaryProofs.v (C17), MinimalProofs.v (C14), ExtendProofs.v (C15), StationaryProofs.v (C16). *)
From CG Require Import Base Dec Digraph TSGraph.
Local Open Scope Z_scope.

(** * Reflection of the boolean tests *)

Lemma key_eqb_spec (a b : key) : reflect (a = b) (key_eqb a b).
Proof.
  destruct a as [v k], b as [w j]; unfold key_eqb; simpl.
  destruct (name_eqb_spec v w) as [->|Hn]; simpl.
  - destruct (Z.eqb_spec k j) as [->|Hk]; constructor; congruence.
  - constructor; congruence.
Qed.

Lemma key_eqb_eq a b : key_eqb a b = true <-> a = b.
Proof. destruct (key_eqb_spec a b); split; congruence. Qed.

Lemma key_eqb_refl a : key_eqb a a = true.
Proof. apply key_eqb_eq; reflexivity. Qed.

Lemma key_eqb_neq a b : key_eqb a b = false <-> a <> b.
Proof. destruct (key_eqb_spec a b); split; congruence. Qed.

Lemma ekey_eqb_spec (p q : key * key) : reflect (p = q) (ekey_eqb p q).
Proof.
  destruct p as [a b], q as [c d]; unfold ekey_eqb; simpl.
  destruct (key_eqb_spec a c), (key_eqb_spec b d); simpl; constructor; congruence.
Qed.

Lemma node_exists_in g k : node_exists g k = true <-> In k (map nkey (tnodes g)).
Proof.
  unfold node_exists; rewrite existsb_exists, in_map_iff; split.
  - intros (n & Hn & E); apply key_eqb_eq in E; exists n; auto.
  - intros (n & E & Hn); exists n; split; [exact Hn|apply key_eqb_eq; exact E].
Qed.

Lemma node_exists_false g k : node_exists g k = false <-> ~ In k (map nkey (tnodes g)).
Proof. rewrite <- node_exists_in; destruct (node_exists g k); split; congruence. Qed.

Lemma edge_exists_in g s d : edge_exists g s d = true <-> In (s, d) (map ekey (tedges g)).
Proof.
  unfold edge_exists; rewrite existsb_exists, in_map_iff; split.
  - intros (e & He & E); apply andb_true_iff in E; destruct E as [E1 E2].
    apply key_eqb_eq in E1, E2; exists e; unfold ekey; split; [congruence|exact He].
  - intros (e & E & He); exists e; split; [exact He|].
    unfold ekey in E; inversion E; rewrite !key_eqb_refl; reflexivity.
Qed.

Lemma edge_exists_false g s d : edge_exists g s d = false <-> ~ In (s, d) (map ekey (tedges g)).
Proof. rewrite <- edge_exists_in; destruct (edge_exists g s d); split; congruence. Qed.

Lemma find_node_some g k n : find_node g k = Some n -> In n (tnodes g) /\ nkey n = k.
Proof.
  unfold find_node; intros H; apply find_some in H; destruct H as [H1 H2].
  apply key_eqb_eq in H2; auto.
Qed.

Lemma find_node_none g k : find_node g k = None -> ~ In k (map nkey (tnodes g)).
Proof.
  unfold find_node; intros H Hin; apply in_map_iff in Hin; destruct Hin as (n & E & Hn).
  pose proof (find_none _ _ H _ Hn) as F; simpl in F; rewrite E, key_eqb_refl in F; discriminate.
Qed.

Lemma find_node_in g k : In k (map nkey (tnodes g)) -> exists n, find_node g k = Some n.
Proof.
  intros Hin; destruct (find_node g k) eqn:E; [eauto|].
  exfalso; exact (find_node_none _ _ E Hin).
Qed.

(** With unique keys, [find_node] returns THE node with that key. *)
Lemma find_node_unique g n :
  NoDup (map nkey (tnodes g)) -> In n (tnodes g) -> find_node g (nkey n) = Some n.
Proof.
  unfold find_node; induction (tnodes g) as [|a l IH]; simpl; intros ND Hin; [contradiction|].
  inversion ND as [|? ? Hna ND']; subst.
  destruct Hin as [->|Hin]; [rewrite key_eqb_refl; reflexivity|].
  destruct (key_eqb_spec (nkey a) (nkey n)) as [E|_]; [|auto].
  exfalso; apply Hna; rewrite E; apply in_map; exact Hin.
Qed.

Lemma find_edge_some g s d e : find_edge g s d = Some e -> In e (tedges g) /\ ekey e = (s, d).
Proof.
  unfold find_edge; intros H; apply find_some in H; destruct H as [H1 H2].
  apply andb_true_iff in H2; destruct H2 as [E1 E2]; apply key_eqb_eq in E1, E2.
  unfold ekey; split; [exact H1|congruence].
Qed.

Lemma find_edge_none g s d : find_edge g s d = None -> ~ In (s, d) (map ekey (tedges g)).
Proof.
  unfold find_edge; intros H Hin; apply in_map_iff in Hin; destruct Hin as (e & E & He).
  pose proof (find_none _ _ H _ He) as F; simpl in F.
  unfold ekey in E; inversion E; subst; rewrite !key_eqb_refl in F; discriminate.
Qed.

Lemma find_edge_unique g e :
  NoDup (map ekey (tedges g)) -> In e (tedges g) -> find_edge g (esrc e) (edst e) = Some e.
Proof.
  unfold find_edge; induction (tedges g) as [|a l IH]; simpl; intros ND Hin; [contradiction|].
  inversion ND as [|? ? Hna ND']; subst.
  destruct Hin as [->|Hin]; [rewrite !key_eqb_refl; reflexivity|].
  destruct (key_eqb_spec (esrc a) (esrc e)) as [E1|_]; simpl; [|auto].
  destruct (key_eqb_spec (edst a) (edst e)) as [E2|_]; simpl; [|auto].
  exfalso; apply Hna; replace (ekey a) with (ekey e) by (unfold ekey; congruence).
  apply in_map; exact Hin.
Qed.

(** [nodup_by] with a reflecting equality is [NoDup]. *)
Lemma nodup_by_spec (A : Type) (eqb : A -> A -> bool) :
  (forall x y, reflect (x = y) (eqb x y)) ->
  forall l, nodup_by eqb l = true <-> NoDup l.
Proof.
  intros R; induction l as [|x l IH]; simpl.
  - split; [constructor|reflexivity].
  - rewrite andb_true_iff, negb_true_iff, IH; split.
    + intros [H1 H2]; constructor; [|exact H2].
      intros Hin; assert (existsb (eqb x) l = true) as T; [|congruence].
      apply existsb_exists; exists x; split; [exact Hin|destruct (R x x); congruence].
    + intros ND; inversion ND as [|? ? Hn ND']; subst; split; [|exact ND'].
      destruct (existsb (eqb x) l) eqn:E; [|reflexivity].
      apply existsb_exists in E; destruct E as (y & Hy & E).
      destruct (R x y); [subst; contradiction|discriminate].
Qed.

(** * [rfold] *)

Lemma rfold_app (S A : Type) (f : S -> A -> res S) l1 l2 x :
  rfold f (l1 ++ l2) x = match rfold f l1 x with Ok y => rfold f l2 y | Err e => Err e end.
Proof.
  revert x; induction l1 as [|a l1 IH]; intros x; simpl; [reflexivity|].
  destruct (f x a); [apply IH|reflexivity].
Qed.

(** Total correctness: every step succeeds and keeps the invariant indexed by the processed prefix. *)
Lemma rfold_total (S A : Type) (f : S -> A -> res S) (Q : A -> Prop) (I : list A -> S -> Prop) :
  (forall done a x, Q a -> I done x -> exists x', f x a = Ok x' /\ I (done ++ [a]) x') ->
  forall l done x, Forall Q l -> I done x ->
    exists x', rfold f l x = Ok x' /\ I (done ++ l) x'.
Proof.
  intros Hstep; induction l as [|a l IH]; intros done x HQ HI; simpl.
  - exists x; rewrite app_nil_r; auto.
  - inversion HQ as [|? ? Qa HQ']; subst.
    destruct (Hstep done a x Qa HI) as (x' & E & HI'); rewrite E.
    destruct (IH (done ++ [a]) x' HQ' HI') as (x'' & E' & HI'').
    exists x''; rewrite <- app_assoc in HI''; auto.
Qed.

(** Partial correctness: IF the loop ends normally the invariant holds. *)
Lemma rfold_partial (S A : Type) (f : S -> A -> res S) (Q : A -> Prop) (I : list A -> S -> Prop) :
  (forall done a x x', Q a -> I done x -> f x a = Ok x' -> I (done ++ [a]) x') ->
  forall l done x x', Forall Q l -> I done x -> rfold f l x = Ok x' -> I (done ++ l) x'.
Proof.
  intros Hstep; induction l as [|a l IH]; intros done x x' HQ HI; simpl.
  - intros [= <-]; rewrite app_nil_r; exact HI.
  - inversion HQ as [|? ? Qa HQ']; subst.
    destruct (f x a) as [y|] eqn:E; [|discriminate]. intros Hr.
    rewrite (app_assoc done [a] l) || replace (done ++ a :: l) with ((done ++ [a]) ++ l)
      by (rewrite <- app_assoc; reflexivity).
    eapply IH; eauto.
Qed.

Lemma fold_left_inv (S A : Type) (f : S -> A -> S) (Q : A -> Prop) (I : list A -> S -> Prop) :
  (forall done a x, Q a -> I done x -> I (done ++ [a]) (f x a)) ->
  forall l done x, Forall Q l -> I done x -> I (done ++ l) (fold_left f l x).
Proof.
  intros Hstep; induction l as [|a l IH]; intros done x HQ HI; simpl.
  - rewrite app_nil_r; exact HI.
  - inversion HQ as [|? ? Qa HQ']; subst.
    replace (done ++ a :: l) with ((done ++ [a]) ++ l) by (rewrite <- app_assoc; reflexivity).
    apply IH; auto.
Qed.

Lemma Forall_True (A : Type) (l : list A) : Forall (fun _ => True) l.
Proof. apply Forall_forall; auto. Qed.

(** * [ensure_node], [add_edge] *)

Lemma ensure_node_nodes g n :
  tnodes (ensure_node g n) = if node_exists g (nkey n) then tnodes g else tnodes g ++ [n].
Proof. unfold ensure_node; destruct (node_exists g (nkey n)); reflexivity. Qed.

Lemma ensure_node_edges g n : tedges (ensure_node g n) = tedges g.
Proof. unfold ensure_node; destruct (node_exists g (nkey n)); reflexivity. Qed.

Lemma ensure_node_meta g n : tgmeta (ensure_node g n) = tgmeta g.
Proof. unfold ensure_node; destruct (node_exists g (nkey n)); reflexivity. Qed.

Lemma ensure_node_keys g n k :
  In k (map nkey (tnodes (ensure_node g n))) <-> In k (map nkey (tnodes g)) \/ k = nkey n.
Proof.
  rewrite ensure_node_nodes; destruct (node_exists g (nkey n)) eqn:E.
  - apply node_exists_in in E; split; [auto|intros [H|->]; auto].
  - rewrite map_app, in_app_iff; simpl; split; intros [H|H]; auto.
    + destruct H as [<-|[]]; auto.
    + subst; auto.
Qed.

Lemma ensure_node_in g n n' :
  In n' (tnodes (ensure_node g n)) ->
  In n' (tnodes g) \/ (n' = n /\ ~ In (nkey n) (map nkey (tnodes g))).
Proof.
  rewrite ensure_node_nodes; destruct (node_exists g (nkey n)) eqn:E; [auto|].
  apply node_exists_false in E. rewrite in_app_iff; simpl; intros [H|[<-|[]]]; auto.
Qed.

Lemma ensure_node_incl g n n' : In n' (tnodes g) -> In n' (tnodes (ensure_node g n)).
Proof.
  rewrite ensure_node_nodes; destruct (node_exists g (nkey n)); [auto|].
  intros H; apply in_or_app; auto.
Qed.

Lemma ensure_node_nodup g n :
  NoDup (map nkey (tnodes g)) -> NoDup (map nkey (tnodes (ensure_node g n))).
Proof.
  rewrite ensure_node_nodes; destruct (node_exists g (nkey n)) eqn:E; [auto|].
  apply node_exists_false in E; intros ND; rewrite map_app; simpl.
  apply NoDup_app_cons_end; assumption.
Qed.
