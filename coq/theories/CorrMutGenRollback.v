(** CorrMutGenRollback.v -- entry points of the correspondence harness for the functions GENERATED from
    [CausalGraph.change_edge_type / replace_edge / delete_node / delete_edge] (MutGenRollback.v).  DEFINITIONS and pinned
    [Example]s only.

    Case format: exactly [GraphTS.hcase] (what harness/graph_hist.py [cq_case] / [write_case_file] write for
    harness/histprops.py): class, history of operations from the empty graph, query pools, and what the
    implementation showed after every step (outcome code, hash of its observation).

      [gen_mismatches cases]   same result type and meaning as [GraphTS.mismatches cases] (list of (case index,
                               first diverging step)), but EVERY step that is a change_edge_type / replace_edge /
                               delete_node / delete_edge is executed by the GENERATED function (its outcome and the state it
                               leaves behind feed the rest of the history); other steps by the hand model.
      [gen_last_agrees c]      the history but its last operation is run by the hand model; the LAST operation is
                               run by both the generated function and the hand model; true iff same outcome code
                               and same full observation tokens of the state left behind (true as well when the
                               last operation is not one of the four).
    To evaluate existing harness rows on the generated code: replace [mismatches] by [gen_mismatches] in the
    file written by [graph_hist.write_case_file] and import CorrMutGenRollback. *)
From CG Require Import Base Graph GraphObs Tok Names GraphTS PyRtMut MutGenRollback.
From Coq Require Import Uint63.
Local Open Scope N_scope.

(** the time-series class overrides delete_node: get_node, _remove_node_from_cache (the model's [idx_remove]),
    then the base method (see MutGenRollbackProofs.gen_delete_node_ts) *)
Definition gen_delete_node_k (k : kind) (g : graph) (id : name) : res graph * graph :=
  match k with
  | Plain => mut_res (gen_delete_node g id)
  | TS =>
      match get_node g id with
      | None => (Err EKey, g)
      | Some n =>
          match idx_remove TS g n with
          | Err x => (Err x, g)
          | Ok g1 => mut_res (gen_delete_node g1 id)
          end
      end
  end.

(** [run_op] with the four translated methods replaced by the generated code *)
Definition gen_run_op (k : kind) (g : graph) (o : op) : res graph * graph :=
  match o with
  | OChangeEdgeType s d ty => mut_res (gen_change_edge_type parse k g s d ty)
  | OReplaceEdge s d s' d' oty om => mut_res (gen_replace_edge parse k g s d s' d' oty om)
  | ODeleteNode id => gen_delete_node_k k g id
  | ODeleteEdge s d oty => mut_res (gen_delete_edge g s d oty)
  | _ => g_run_op k g o
  end.

Definition is_translated (o : op) : bool :=
  match o with OChangeEdgeType _ _ _ | OReplaceEdge _ _ _ _ _ _ | ODeleteNode _ | ODeleteEdge _ _ _ => true
  | _ => false end.

Fixpoint gen_run_hist (k : kind) (g : graph) (ops : list op) (pool : list name) (lags : list Z)
  (vars : list name) : list (N * int) :=
  match ops with
  | [] => []
  | o :: ops' =>
      let r := gen_run_op k g o in
      let g' := snd r in
      (match fst r with Ok _ => 0 | Err x => err_code x end,
       hash_tokens (g_observe k g' pool lags vars))
        :: gen_run_hist k g' ops' pool lags vars
  end.

Definition gen_check_case (c : hcase) : option nat :=
  first_diff 0 (gen_run_hist (hc_kind c) (empty_graph []) (hc_ops c) (hc_pool c) (hc_lags c) (hc_vars c))
    (hc_expected c).

Fixpoint gen_mismatches_from (i : nat) (cs : list hcase) : list (nat * nat) :=
  match cs with
  | [] => []
  | c :: cs' =>
      match gen_check_case c with
      | Some j => (i, j) :: gen_mismatches_from (S i) cs'
      | None => gen_mismatches_from (S i) cs'
      end
  end.
Definition gen_mismatches (cs : list hcase) : list (nat * nat) := gen_mismatches_from 0 cs.

Definition code_of (r : res graph * graph) : N :=
  match fst r with Ok _ => 0 | Err x => err_code x end.

Fixpoint list_N_eqb (a b : list N) : bool :=
  match a, b with
  | [], [] => true
  | x :: a', y :: b' => N.eqb x y && list_N_eqb a' b'
  | _, _ => false
  end.

Definition gen_last_agrees (c : hcase) : bool :=
  match rev (hc_ops c) with
  | [] => true
  | o :: before =>
      let k := hc_kind c in
      let g := g_run k (rev before) (empty_graph []) in
      let a := gen_run_op k g o in
      let b := g_run_op k g o in
      N.eqb (code_of a) (code_of b)
      && list_N_eqb (g_observe k (snd a) (hc_pool c) (hc_lags c) (hc_vars c))
                    (g_observe k (snd b) (hc_pool c) (hc_lags c) (hc_vars c))
  end.

(** * Pinned behaviour: the expected (outcome code, observation hash) lists inside [pinned] were produced by the
    REAL library (harness/histprops.run_history on /repo).
      0  change_edge_type to -> closing a directed cycle: late failure (CyclicConnectionError, 4), state restored
      1  replace_edge whose new pair exists reversed: late failure (ReverseEdgeExistsError, 3), state restored
      2  change_edge_type succeeding (metadata kept)
      3  replace_edge succeeding, creates a node, explicit type and metadata
      4  replace_edge: original missing (6) / new pair exists (7)
      5  delete_node with incident edges in both orientations; unknown identifier (KeyError, 10)
      6  change_edge_type: reversed query (6) / same type (no-op)
      7  replace_edge closing a cycle (4), state restored
      8  replace_edge to a self loop (4), state restored
      9  time series: change_edge_type, replace_edge against time (ValueError, 8), delete_node twice (10)
     10  delete_edge: wrong type (6), reversed (6), unknown source / destination (5), ->, --, again (6), <>
     11  time series delete_edge *)
Definition pinned : list hcase := [
  {| hc_kind := Plain; hc_ops := [(OAddEdge ([97], None) ([98], None) Dir None true); (OAddEdge ([98], None) ([99], None) Dir None true); (OAddEdge ([99], None) ([97], None) Und (Some [([119], (JInt (1)%Z))]) true); (OChangeEdgeType [99] [97] Dir)]; hc_pool := [[97]; [98]; [99]; [100]]; hc_lags := []; hc_vars := []; hc_expected := [(0, 6004088014956565041%uint63); (0, 4554890803027251308%uint63); (0, 9157367749231796793%uint63); (4, 9157367749231796793%uint63)] |};
  {| hc_kind := Plain; hc_ops := [(OAddEdge ([97], None) ([98], None) Dir None true); (OAddEdge ([98], None) ([99], None) Dir None true); (OAddEdge ([99], None) ([100], None) Bi None true); (OReplaceEdge [97] [98] [99] [98] None None)]; hc_pool := [[97]; [98]; [99]; [100]]; hc_lags := []; hc_vars := []; hc_expected := [(0, 6004088014956565041%uint63); (0, 4554890803027251308%uint63); (0, 5744587619418106728%uint63); (3, 5744587619418106728%uint63)] |};
  {| hc_kind := Plain; hc_ops := [(OAddEdge ([97], None) ([98], None) Dir (Some [([107], (JStr [118]))]) true); (OAddEdge ([98], None) ([99], None) Dir None true); (OChangeEdgeType [97] [98] Bi)]; hc_pool := [[97]; [98]; [99]]; hc_lags := []; hc_vars := []; hc_expected := [(0, 918124423053502353%uint63); (0, 2136959586490537774%uint63); (0, 1642042928043945838%uint63)] |};
  {| hc_kind := Plain; hc_ops := [(OAddEdge ([97], None) ([98], None) Dir None true); (OAddEdge ([98], None) ([99], None) Dir None true); (OReplaceEdge [97] [98] [98] [101] (Some UnkDir) (Some [([122], (JInt (2)%Z))]))]; hc_pool := [[97]; [98]; [99]; [101]]; hc_lags := []; hc_vars := []; hc_expected := [(0, 6004088014956565041%uint63); (0, 4554890803027251308%uint63); (0, 2178782089098778994%uint63)] |};
  {| hc_kind := Plain; hc_ops := [(OAddEdge ([97], None) ([98], None) Dir None true); (OAddEdge ([98], None) ([99], None) Dir None true); (OReplaceEdge [98] [97] [97] [99] None None); (OReplaceEdge [97] [98] [98] [99] None None)]; hc_pool := [[97]; [98]; [99]]; hc_lags := []; hc_vars := []; hc_expected := [(0, 8338531853457353735%uint63); (0, 6749506727783743020%uint63); (6, 6749506727783743020%uint63); (7, 6749506727783743020%uint63)] |};
  {| hc_kind := Plain; hc_ops := [(OAddEdge ([97], None) ([98], None) Dir None true); (OAddEdge ([98], None) ([99], None) Dir None true); (OAddEdge ([100], None) ([98], None) Und None true); (OAddEdge ([97], None) ([99], None) Dir None true); (ODeleteNode [98]); (ODeleteNode [122; 122])]; hc_pool := [[97]; [98]; [99]; [100]; [122; 122]]; hc_lags := []; hc_vars := []; hc_expected := [(0, 4516046628045694161%uint63); (0, 5772455329354035146%uint63); (0, 4117877422979681539%uint63); (0, 3310613678447571509%uint63); (0, 8863026183190743720%uint63); (10, 8863026183190743720%uint63)] |};
  {| hc_kind := Plain; hc_ops := [(OAddEdge ([97], None) ([98], None) Dir None true); (OChangeEdgeType [98] [97] Und); (OChangeEdgeType [97] [98] Dir)]; hc_pool := [[97]; [98]]; hc_lags := []; hc_vars := []; hc_expected := [(0, 6476100134476392459%uint63); (6, 6476100134476392459%uint63); (0, 6476100134476392459%uint63)] |};
  {| hc_kind := Plain; hc_ops := [(OAddEdge ([97], None) ([98], None) Dir None true); (OAddEdge ([98], None) ([99], None) Dir None true); (OAddEdge ([99], None) ([100], None) Dir None true); (OReplaceEdge [99] [100] [99] [97] None None)]; hc_pool := [[97]; [98]; [99]; [100]]; hc_lags := []; hc_vars := []; hc_expected := [(0, 6004088014956565041%uint63); (0, 4554890803027251308%uint63); (0, 1782673274548198618%uint63); (4, 1782673274548198618%uint63)] |};
  {| hc_kind := Plain; hc_ops := [(OAddEdge ([97], None) ([98], None) Dir None true); (OReplaceEdge [97] [98] [99] [99] None None)]; hc_pool := [[97]; [98]; [99]]; hc_lags := []; hc_vars := []; hc_expected := [(0, 8338531853457353735%uint63); (4, 8338531853457353735%uint63)] |};
  {| hc_kind := TS; hc_ops := [(OAddEdge ([120; 32; 108; 97; 103; 40; 110; 61; 49; 41], None) ([120], None) Dir None true); (OAddEdge ([121; 32; 108; 97; 103; 40; 110; 61; 49; 41], None) ([120], None) Dir None true); (OAddEdge ([120], None) ([121], None) Und None true); (OChangeEdgeType [120] [121] Dir); (OReplaceEdge [120; 32; 108; 97; 103; 40; 110; 61; 49; 41] [120] [120] [120; 32; 108; 97; 103; 40; 110; 61; 49; 41] None None); (ODeleteNode [120]); (ODeleteNode [120])]; hc_pool := [[120; 32; 108; 97; 103; 40; 110; 61; 49; 41]; [120]; [121; 32; 108; 97; 103; 40; 110; 61; 49; 41]; [121]]; hc_lags := [(-1)%Z; (0)%Z; (1)%Z]; hc_vars := [[120]; [121]]; hc_expected := [(0, 5223518700836596355%uint63); (0, 7895202085220210303%uint63); (0, 5423692413159550057%uint63); (0, 7253677359575229920%uint63); (8, 7253677359575229920%uint63); (0, 3140299541380634558%uint63); (10, 3140299541380634558%uint63)] |};
  {| hc_kind := Plain; hc_ops := [(OAddEdge ([97], None) ([98], None) Dir None true); (OAddEdge ([98], None) ([99], None) Und None true); (OAddEdge ([99], None) ([97], None) Bi None true); (ODeleteEdge [97] [98] (Some Und)); (ODeleteEdge [98] [97] None); (ODeleteEdge [122; 122] [97] None); (ODeleteEdge [97] [122; 122] None); (ODeleteEdge [97] [98] (Some Dir)); (ODeleteEdge [98] [99] None); (ODeleteEdge [98] [99] None); (ODeleteEdge [99] [97] (Some Bi))]; hc_pool := [[97]; [98]; [99]; [122; 122]]; hc_lags := []; hc_vars := []; hc_expected := [(0, 6004088014956565041%uint63); (0, 3617427206323768159%uint63); (0, 1818907497872129062%uint63); (6, 1818907497872129062%uint63); (6, 1818907497872129062%uint63); (5, 1818907497872129062%uint63); (5, 1818907497872129062%uint63); (0, 213916622439391495%uint63); (0, 5158387762176518669%uint63); (6, 5158387762176518669%uint63); (0, 9065588326782833548%uint63)] |};
  {| hc_kind := TS; hc_ops := [(OAddEdge ([120; 32; 108; 97; 103; 40; 110; 61; 49; 41], None) ([120], None) Dir None true); (OAddEdge ([120], None) ([121], None) Und None true); (ODeleteEdge [120; 32; 108; 97; 103; 40; 110; 61; 49; 41] [120] (Some UnkDir)); (ODeleteEdge [120; 32; 108; 97; 103; 40; 110; 61; 49; 41] [120] None); (ODeleteEdge [121] [120] None); (ODeleteEdge [120] [121] (Some Und))]; hc_pool := [[120; 32; 108; 97; 103; 40; 110; 61; 49; 41]; [120]; [121]]; hc_lags := [(-1)%Z; (0)%Z]; hc_vars := [[120]; [121]]; hc_expected := [(0, 7644550796246309269%uint63); (0, 3056284820627707255%uint63); (6, 3056284820627707255%uint63); (0, 8625400107502089278%uint63); (6, 8625400107502089278%uint63); (0, 1225635213736295822%uint63)] |}
].

Example gen_pinned_outcomes :
  map (fun c => map fst (gen_run_hist (hc_kind c) (empty_graph []) (hc_ops c) (hc_pool c) (hc_lags c) (hc_vars c)))
      pinned
  = [ [0; 0; 0; 4]; [0; 0; 0; 3]; [0; 0; 0]; [0; 0; 0]; [0; 0; 6; 7]; [0; 0; 0; 0; 0; 10]; [0; 6; 0];
      [0; 0; 0; 4]; [0; 4]; [0; 0; 0; 0; 8; 0; 10]; [0; 0; 0; 6; 6; 5; 5; 0; 0; 6; 0]; [0; 0; 6; 0; 6; 0] ].
Proof. vm_compute. reflexivity. Qed.

(** generated code against the implementation: outcome code and observation hash after every step *)
Example gen_pinned_matches_library : gen_mismatches pinned = [].
Proof. vm_compute. reflexivity. Qed.

(** same verdict as the hand-model entry point *)
Example gen_pinned_same_as_model : gen_mismatches pinned = mismatches pinned.
Proof. vm_compute. reflexivity. Qed.

Example gen_pinned_last_agrees : forallb gen_last_agrees pinned = true.
Proof. vm_compute. reflexivity. Qed.

Definition hc_dflt : hcase :=
  {| hc_kind := Plain; hc_ops := []; hc_pool := []; hc_lags := []; hc_vars := []; hc_expected := [] |}.

(** the late failures leave the observation of the previous step (hash unchanged) *)
Example gen_pinned_late_failures_restore :
  map (fun c => match rev (gen_run_hist (hc_kind c) (empty_graph []) (hc_ops c) (hc_pool c) (hc_lags c) (hc_vars c)) with
                | (c1, h1) :: (_, h0) :: _ => (c1, Uint63.eqb h1 h0)
                | _ => (99, false)
                end) (map (fun i => nth i pinned hc_dflt) [0; 1; 7; 8]%nat)
  = [(4, true); (3, true); (4, true); (4, true)].
Proof. vm_compute. reflexivity. Qed.

(** * Rows of the table of PyRtMut.v, pinned against the real interpreter (values in the comments were printed by
    PYTHONPATH=/repo /venv/bin/python on the graph b->c, a->c, c--d, a->b built in that order) *)
Definition g_rows : graph :=
  g_run Plain [OAddEdge ([98], None) ([99], None) Dir None true; OAddEdge ([97], None) ([99], None) Dir None true;
               OAddEdge ([99], None) ([100], None) Und (Some [([119], JInt 1%Z)]) true;
               OAddEdge ([97], None) ([98], None) Dir None true] (empty_graph []).
(** [e.get_edge_pair() for e in g.edges] == [('a','b'), ('a','c'), ('b','c'), ('c','d')] *)
Example row_edges : map py_edge_pair (py_edges g_rows) = [([97], [98]); ([97], [99]); ([98], [99]); ([99], [100])].
Proof. vm_compute. reflexivity. Qed.
(** g.get_edge('c','d').get_edge_type() == '--', .meta == {'w': 1}; g.get_edge('d','c') raises EdgeDoesNotExistError *)
Example row_get_edge :
  (match py_get_edge g_rows [99] [100] with Ret e => Some (py_edge_type e, py_edge_meta e) | Exc _ => None end,
   match py_get_edge g_rows [100] [99] with Ret _ => None | Exc x => Some x end)
  = (Some (Und, [([119], JInt 1%Z)]), Some EEdgeMissing).
Proof. vm_compute. reflexivity. Qed.
(** g.edge_exists('a','b') is True, g.edge_exists('b','a') is False; g.get_node('zz') raises KeyError;
    g.node_exists('a') is True *)
Example row_exists :
  (py_edge_exists g_rows [97] [98], py_edge_exists g_rows [98] [97],
   match py_get_node g_rows [122; 122] with Ret _ => None | Exc x => Some x end, py_node_exists g_rows [97])
  = (true, false, Some EKey, true).
Proof. vm_compute. reflexivity. Qed.
(** 'c' in ('c','d') is True; 'a' in ('c','d') is False *)
Example row_in_pair : (py_in_pair [99] ([99], [100]), py_in_pair [97] ([99], [100])) = (true, false).
Proof. vm_compute. reflexivity. Qed.
(** g.delete_edge('c','d', edge_type='->') raises EdgeDoesNotExistError and leaves the graph; g.delete_edge('zz','a')
    raises NodeDoesNotExistError; g._nodes_by_identifier.pop('zz') raises KeyError *)
Example row_delete_edge :
  (fst (py_delete_edge g_rows [99] [100] (Some Dir)), fst (py_delete_edge g_rows [122; 122] [97] None),
   fst (py_nodes_pop g_rows [122; 122]))
  = (Exc EEdgeMissing, Exc ENodeMissing, Exc EKey).
Proof. vm_compute. reflexivity. Qed.

(** rows used by delete_edge.  [n.identifier for n in g.get_nodes('a')] == ['a'], g.get_nodes('zz') == [];
    g.get_edges('c','d') is the one edge, g.get_edges('c','d', edge_type='->') == [], g.get_edges('d','c') == [],
    g.get_edges('c','d', edge_type='--') is the one edge; [][0] raises IndexError *)
Example row_get_nodes_edges :
  (map nid (py_get_nodes g_rows [97]), py_get_nodes g_rows [122; 122],
   map py_edge_pair (py_get_edges_sd g_rows [99] [100] None), py_get_edges_sd g_rows [99] [100] (Some Dir),
   py_get_edges_sd g_rows [100] [99] None, map py_edge_pair (py_get_edges_sd g_rows [99] [100] (Some Und)),
   @py_list_first edge [])
  = ([[97]], [], [([99], [100])], [], [], [([99], [100])], Exc EIndex).
Proof. vm_compute. reflexivity. Qed.
(** e = g.get_edge('c','d') (a -- edge): e.destination._delete_inbound_edge(e) and e.source._delete_outbound_edge(e)
    raise ValueError; g._edges_by_source['d'].pop('c') and g._edges_by_destination['c'].pop('d') raise KeyError *)
Example row_remove_pop_absent :
  match py_get_edge g_rows [99] [100] with
  | Ret e => (fst (py_delete_inbound g_rows e), fst (py_delete_outbound g_rows e),
              fst (py_src_pop g_rows [100] [99]), fst (py_dst_pop g_rows [99] [100]))
  | Exc _ => (Ret tt, Ret tt, Ret tt, Ret tt)
  end = (Exc EValue, Exc EValue, Exc EKey, Exc EKey).
Proof. vm_compute. reflexivity. Qed.
(** e = g.get_edge('a','c'): after e.destination._delete_inbound_edge(e) the inbound list of 'c' is ['b'];
    after e.source._delete_outbound_edge(e) the outbound list of 'a' is ['b'] *)
Example row_remove_present :
  match py_get_edge g_rows [97] [99] with
  | Ret e =>
      (match py_delete_inbound g_rows e with
       | (Ret _, g') => match get_node g' [99] with Some n => Some (ninb n) | None => None end
       | _ => None end,
       match py_delete_outbound g_rows e with
       | (Ret _, g') => match get_node g' [97] with Some n => Some (noutb n) | None => None end
       | _ => None end)
  | Exc _ => (None, None)
  end = (Some [[98]], Some [[98]]).
Proof. vm_compute. reflexivity. Qed.
