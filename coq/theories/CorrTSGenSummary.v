(** CorrTSGenSummary.v — entry points of the correspondence harness for the function GENERATED from
    [TimeSeriesCausalGraph.get_summary_graph] (TSGenSummary.v).  DEFINITIONS and pinned [Example]s only.
    Depends on TSGenSummary.v only (not on TSGenStationary.v).

    Case format: exactly [CorrTS.tcase] (what harness/tsprops.py [cq_case] writes), so the rows of the existing
    harness can be evaluated on the generated code by replacing [check_tcases] with [check_tcases_gensum].
    Result: the 13-column vector of [CorrTS.check_tcase] in which only the C17 columns are evaluated,
      column 6  (sum_eq)  1 iff the GENERATED function's answer equals what the implementation returned
                          ([res_eqb pgraph_eqb]: same comparison as the hand-model entry point),
      column 12 (c17)     the C17 oracle on the implementation's output (identical to [check_tcase]),
    every other column is 2 (not evaluated); columns 6 and 12 are 2 when [tc_which] does not select C17. *)
From CG Require Import Base Digraph TSGraph CorrTS PyRtTSa TSGenSummary CorrTSGenCases.
Set Implicit Arguments.
Local Open Scope N_scope.

Definition gen_summary_res (g : tsg) : res pgraph := out_res (gen_get_summary_graph g).

Definition check_tcase_gensum (c : tcase) : list N :=
  let g := tc_g c in
  let on3 := nth 3 (tc_which c) false in
  [ 2; 2; 2; 2; 2; 2;
    if on3 then b2n (res_eqb pgraph_eqb (gen_summary_res g) (tc_sum c)) else 2;
    2; 2; 2; 2; 2;
    oracle (on3 && ts_is_dag g) (fun _ => match tc_sum c with Ok sg => c17_check g sg | Err _ => false end) ].
Definition check_tcases_gensum (cs : list tcase) : list (list N) := map check_tcase_gensum cs.

(** the two C17 columns of a result vector *)
Definition c17_cols (v : list N) : N * N := (nth 6 v 9, nth 12 v 9).

(** * Pinned behaviour: the expected outputs inside [pinned_cases] were produced by the real library *)
Example gensum_pinned :
  map (fun c => c17_cols (check_tcase_gensum c)) pinned_cases
  = [(1, 1); (1, 1); (1, 1); (1, 2); (1, 2); (1, 1); (1, 1); (1, 1); (1, 1); (1, 1); (1, 1); (1, 2)].
Proof. vm_compute. reflexivity. Qed.
(** the generated code and the hand model give the same two columns on these cases *)
Example gensum_pinned_same_as_model :
  map (fun c => c17_cols (check_tcase_gensum c)) pinned_cases = map (fun c => c17_cols (check_tcase c)) pinned_cases.
Proof. vm_compute. reflexivity. Qed.
(** what the cases exercise: AssertionError on the two non-DAG inputs, a bi-directed edge in cases 0 and 7 *)
Example gensum_pinned_shapes :
  map (fun c => match gen_summary_res (tc_g c) with
                | Ok sg => (0, N.of_nat (length (pnodes sg)), N.of_nat (length (pedges sg)),
                            N.of_nat (length (filter (fun e => etype_eqb (pty e) Bi) (pedges sg))))
                | Err e => (err_code e, 0, 0, 0)
                end) pinned_cases
  = map (fun c => match tc_sum c with
                  | Ok sg => (0, N.of_nat (length (pnodes sg)), N.of_nat (length (pedges sg)),
                              N.of_nat (length (filter (fun e => etype_eqb (pty e) Bi) (pedges sg))))
                  | Err e => (err_code e, 0, 0, 0)
                  end) pinned_cases.
Proof. vm_compute. reflexivity. Qed.
