(** SummaryProofs.v — property C17: [summary] (get_summary_graph) on time-series DAGs. *)
From CG Require Import Base Dec Digraph TSGraph TSGraphProofs.
Local Open Scope Z_scope.

(** Some edge of [l] goes from variable [x] to variable [y] (at any lags). *)
Definition goesP (l : list tedge) (x y : name) : Prop :=
  exists e, In e l /\ es e = x /\ ed e = y.
Definition pkey (e : pedge) : name * name := (ps e, pd e).

Lemma goesP_app l e x y : goesP (l ++ [e]) x y <-> goesP l x y \/ (es e = x /\ ed e = y).
Proof.
  unfold goesP; split.
  - intros (e' & Hin & E1 & E2); apply in_app_iff in Hin; simpl in Hin.
    destruct Hin as [Hin|[<-|[]]]; [left; eauto|right; auto].
  - intros [(e' & Hin & E)|E]; [exists e'|exists e]; rewrite in_app_iff; simpl; auto.
Qed.

Lemma goes_spec g x y : goes g x y = true <-> goesP (tedges g) x y.
Proof.
  unfold goes, goesP; rewrite existsb_exists; split; intros (e & He & E); exists e.
  - apply andb_true_iff in E; destruct E as [E1 E2]; apply name_eqb_eq in E1, E2; auto.
  - destruct E as [-> ->]; rewrite !name_eqb_refl; auto.
Qed.

Lemma p_edge_exists_in sg s d : p_edge_exists sg s d = true <-> In (s, d) (map pkey (pedges sg)).
Proof.
  unfold p_edge_exists; rewrite existsb_exists, in_map_iff; split.
  - intros (e & He & E); apply andb_true_iff in E; destruct E as [E1 E2].
    apply name_eqb_eq in E1, E2; exists e; unfold pkey; split; [congruence|exact He].
  - intros (e & E & He); exists e; split; [exact He|].
    unfold pkey in E; inversion E; rewrite !name_eqb_refl; reflexivity.
Qed.

Lemma p_edge_exists_false sg s d :
  p_edge_exists sg s d = false <-> ~ In (s, d) (map pkey (pedges sg)).
Proof. rewrite <- p_edge_exists_in; destruct (p_edge_exists sg s d); split; congruence. Qed.

Lemma p_node_exists_in sg v : p_node_exists sg v = true <-> In v (map pn (pnodes sg)).
Proof.
  unfold p_node_exists; rewrite existsb_exists, in_map_iff; split.
  - intros (n & Hn & E); apply name_eqb_eq in E; eauto.
  - intros (n & E & Hn); exists n; split; [exact Hn|apply name_eqb_eq; exact E].
Qed.

Lemma p_find_edge_some sg s d r :
  p_find_edge sg s d = Some r -> In r (pedges sg) /\ ps r = s /\ pd r = d.
Proof.
  unfold p_find_edge; intros H; apply find_some in H; destruct H as [H1 H2].
  apply andb_true_iff in H2; destruct H2 as [E1 E2]; apply name_eqb_eq in E1, E2; auto.
Qed.

Lemma p_find_edge_exists sg s d :
  p_edge_exists sg s d = true -> exists r, p_find_edge sg s d = Some r.
Proof.
  unfold p_edge_exists, p_find_edge; intros H; apply existsb_exists in H.
  destruct H as (e & He & E).
  destruct (find (fun e0 => name_eqb (ps e0) s && name_eqb (pd e0) d) (pedges sg)) eqn:F; [eauto|].
  pose proof (find_none _ _ F _ He) as C; simpl in C; congruence.
Qed.

Lemma p_ensure_node_names sg n v :
  In v (map pn (pnodes (p_ensure_node sg n))) <-> In v (map pn (pnodes sg)) \/ v = pn n.
Proof.
  unfold p_ensure_node; destruct (p_node_exists sg (pn n)) eqn:E.
  - apply p_node_exists_in in E; split; [auto|intros [H| ->]; auto].
  - simpl; rewrite map_app, in_app_iff; simpl; split; intros [H|H]; auto.
    destruct H as [<-|[]]; auto.
Qed.

Lemma p_ensure_node_edges sg n : pedges (p_ensure_node sg n) = pedges sg.
Proof. unfold p_ensure_node; destruct (p_node_exists sg (pn n)); reflexivity. Qed.

Lemma p_ensure_node_meta sg n : pgmeta (p_ensure_node sg n) = pgmeta sg.
Proof. unfold p_ensure_node; destruct (p_node_exists sg (pn n)); reflexivity. Qed.

Lemma p_ensure_node_nodup sg n :
  NoDup (map pn (pnodes sg)) -> NoDup (map pn (pnodes (p_ensure_node sg n))).
Proof.
  unfold p_ensure_node; destruct (p_node_exists sg (pn n)) eqn:E; [auto|].
  intros ND; simpl; rewrite map_app; simpl; apply NoDup_snoc; [exact ND|].
  intros Hin; apply p_node_exists_in in Hin; congruence.
Qed.

(** * The loop invariant: [l] is the list of edges processed so far. *)
Record sinv (l : list tedge) (sg : pgraph) : Prop := {
  si_edges : forall pe, In pe (pedges sg) ->
      ps pe <> pd pe /\
      ((pty pe = Dir /\ goesP l (ps pe) (pd pe) /\ ~ goesP l (pd pe) (ps pe)) \/
       (pty pe = Bi /\ goesP l (ps pe) (pd pe) /\ goesP l (pd pe) (ps pe)));
  si_adj : forall e, In e l -> es e <> ed e ->
      In (es e, ed e) (map pkey (pedges sg)) \/ In (ed e, es e) (map pkey (pedges sg));
  si_nodup : NoDup (map pkey (pedges sg));
  si_norev : forall p q, In p (pedges sg) -> In q (pedges sg) -> ps p = pd q -> pd p = ps q -> False;
  si_nnodup : NoDup (map pn (pnodes sg));
  si_nodes : forall v, In v (map pn (pnodes sg)) <->
                       exists pe, In pe (pedges sg) /\ (ps pe = v \/ pd pe = v)
}.

Lemma sinv_nil gm : sinv [] {| pnodes := []; pedges := []; pgmeta := gm |}.
Proof.
  constructor; simpl; try tauto; try constructor.
  - tauto.
  - intros (pe & [] & _).
Qed.

(** Clauses of [si_edges] survive one more processed edge [e] unless [e] runs against a stored
    directed edge. *)
Lemma clause_mono l e pe :
  ps pe <> pd pe ->
  (pty pe = Dir -> ~ (es e = pd pe /\ ed e = ps pe)) ->
  ((pty pe = Dir /\ goesP l (ps pe) (pd pe) /\ ~ goesP l (pd pe) (ps pe)) \/
   (pty pe = Bi /\ goesP l (ps pe) (pd pe) /\ goesP l (pd pe) (ps pe))) ->
  ((pty pe = Dir /\ goesP (l ++ [e]) (ps pe) (pd pe) /\ ~ goesP (l ++ [e]) (pd pe) (ps pe)) \/
   (pty pe = Bi /\ goesP (l ++ [e]) (ps pe) (pd pe) /\ goesP (l ++ [e]) (pd pe) (ps pe))).
Proof.
  intros Hne Hd [(T & G1 & G2)|(T & G1 & G2)]; [left|right]; rewrite !goesP_app.
  - split; [exact T|]. split; [auto|]. intros [G|G]; [auto|exact (Hd T G)].
  - auto.
Qed.

Lemma summary_step_ok g l sg e :
  ety e = Dir ->
  In (esrc e) (map nkey (tnodes g)) -> In (edst e) (map nkey (tnodes g)) ->
  sinv l sg ->
  exists sg', summary_step g sg e = Ok sg' /\ sinv (l ++ [e]) sg' /\ pgmeta sg' = pgmeta sg.
Proof.
  intros Hty Hs Hd [Ied Iadj Ind Inr Inn Ino].
  unfold summary_step.
  destruct (name_eqb_spec (es e) (ed e)) as [Eself|Hne].
  { (* an edge of a variable to itself is skipped *)
    exists sg; split; [reflexivity|]. split; [|reflexivity]. constructor; auto.
    - intros pe Hpe; destruct (Ied pe Hpe) as [Hn C]; split; [exact Hn|].
      apply clause_mono; auto. intros _ [E1 E2]; apply Hn; congruence.
    - intros e' Hin Hn; apply in_app_iff in Hin; simpl in Hin.
      destruct Hin as [Hin|[<-|[]]]; [auto|contradiction]. }
  destruct (p_edge_exists sg (ed e) (es e)) eqn:Erev.
  { (* the reversed pair is stored *)
    destruct (p_find_edge_exists _ _ _ Erev) as (r & Fr); rewrite Fr.
    apply p_find_edge_some in Fr; destruct Fr as (Hr & Rs & Rd).
    destruct (Ied r Hr) as [Rne [(RT & RG1 & RG2)|(RT & RG1 & RG2)]]; rewrite RT.
    - (* stored edge directed the other way: feedback, becomes bi-directed *)
      unfold p_add_edge; simpl.
      destruct (name_eqb_spec (ed e) (es e)) as [Ebad|_]; [congruence|].
      set (flt := filter (fun e0 => negb (name_eqb (ps e0) (ed e) && name_eqb (pd e0) (es e)))
                         (pedges sg)).
      assert (Hflt : forall pe, In pe flt <-> In pe (pedges sg) /\ pkey pe <> (ed e, es e)).
      { intros pe; unfold flt; rewrite filter_In, negb_true_iff; unfold pkey.
        destruct (name_eqb_spec (ps pe) (ed e)) as [->|N1]; simpl.
        - destruct (name_eqb_spec (pd pe) (es e)) as [->|N2]; split; intros [H1 H2]; split; auto;
            congruence.
        - split; intros [H1 H2]; split; auto; congruence. }
      set (sg0 := p_remove_edge sg (ed e) (es e)).
      set (sg2 := p_ensure_node (p_ensure_node sg0 (bare_node (ed e))) (bare_node (es e))).
      assert (Hed2 : pedges sg2 = flt) by (unfold sg2; rewrite !p_ensure_node_edges; reflexivity).
      assert (X1 : p_edge_exists sg0 (ed e) (es e) = false).
      { apply p_edge_exists_false; intros Hin; apply in_map_iff in Hin.
        destruct Hin as (pe & Ek & Hpe); change (pedges sg0) with flt in Hpe.
        apply Hflt in Hpe; tauto. }
      assert (X2 : p_edge_exists sg2 (es e) (ed e) = false).
      { apply p_edge_exists_false; intros Hin; apply in_map_iff in Hin.
        destruct Hin as (pe & Ek & Hpe); rewrite Hed2 in Hpe; apply Hflt in Hpe.
        unfold pkey in Ek; inversion Ek. apply (Inr pe r); try tauto; congruence. }
      simpl in X1, X2. fold flt sg0. rewrite X1. fold sg2. rewrite X2.
      eexists; split; [reflexivity|]. split; [|unfold sg2; rewrite !p_ensure_node_meta; reflexivity].
      constructor; simpl; rewrite ?Hed2.
      + intros pe Hpe; apply in_app_iff in Hpe; simpl in Hpe.
        destruct Hpe as [Hpe|[<-|[]]].
        * apply Hflt in Hpe; destruct Hpe as [Hpe Hk]; destruct (Ied pe Hpe) as [Hn C].
          split; [exact Hn|]. apply clause_mono; auto.
          intros _ [E1 E2]; apply Hk; unfold pkey; congruence.
        * simpl; split; [congruence|]. right; split; [reflexivity|].
          rewrite !goesP_app; split; [left; congruence|right; auto].
      + intros e' Hin Hn; rewrite map_app, !in_app_iff; simpl.
        assert (K : forall k, In k (map pkey (pedges sg)) ->
                              In k (map pkey flt) \/ (ed e, es e) = k \/ False).
        { intros k Hk; apply in_map_iff in Hk; destruct Hk as (pe & Ek & Hpe).
          destruct (pair_eqb_spec (pkey pe) (ed e, es e)) as [Eq|Nq].
          - right; left; congruence.
          - left; rewrite <- Ek; apply in_map; apply Hflt; auto. }
        apply in_app_iff in Hin; simpl in Hin; destruct Hin as [Hin|[<-|[]]].
        * destruct (Iadj e' Hin Hn) as [H|H]; [left|right]; apply K; exact H.
        * right; right; left; reflexivity.
      + rewrite map_app; simpl; apply NoDup_snoc; [apply NoDup_map_filter; exact Ind|].
        intros Hin; apply in_map_iff in Hin; destruct Hin as (pe & Ek & Hpe).
        apply Hflt in Hpe; tauto.
      + intros p q Hp Hq E1 E2; apply in_app_iff in Hp, Hq; simpl in Hp, Hq.
        destruct Hp as [Hp|[<-|[]]], Hq as [Hq|[<-|[]]]; simpl in *.
        * apply Hflt in Hp, Hq; apply (Inr p q); tauto.
        * apply Hflt in Hp; apply (Inr p r); try tauto; congruence.
        * apply Hflt in Hq; apply (Inr r q); try tauto; congruence.
        * congruence.
      + unfold sg2; apply p_ensure_node_nodup, p_ensure_node_nodup; exact Inn.
      + intros v; unfold sg2; rewrite !p_ensure_node_names; simpl.
        change (pnodes sg0) with (pnodes sg). rewrite Ino. split.
        * intros [[(pe & Hpe & Hv)| ->]| ->].
          -- destruct (pair_eqb_spec (pkey pe) (ed e, es e)) as [Eq|Nq].
             ++ unfold pkey in Eq; inversion Eq; subst.
                eexists; split; [apply in_or_app; right; left; reflexivity|simpl].
                destruct Hv as [Hv|Hv]; [left|right]; congruence.
             ++ exists pe; split; [apply in_or_app; left; apply Hflt; auto|exact Hv].
          -- eexists; split; [apply in_or_app; right; left; reflexivity|simpl; auto].
          -- eexists; split; [apply in_or_app; right; left; reflexivity|simpl; auto].
        * intros (pe & Hpe & Hv); apply in_app_iff in Hpe; simpl in Hpe.
          destruct Hpe as [Hpe|[<-|[]]].
          -- apply Hflt in Hpe; left; left; exists pe; tauto.
          -- simpl in Hv; destruct Hv as [<-|<-]; auto.
    - (* already bi-directed: nothing to do *)
      exists sg; split; [reflexivity|]. split; [|reflexivity]. constructor; auto.
      + intros pe Hpe; destruct (Ied pe Hpe) as [Hn C]; split; [exact Hn|].
        apply clause_mono; auto. intros T [E1 E2].
        assert (pe = r) by (apply (NoDup_map_inj pkey (pedges sg)); auto; unfold pkey; congruence).
        subst pe; congruence.
      + intros e' Hin Hn; apply in_app_iff in Hin; simpl in Hin.
        destruct Hin as [Hin|[<-|[]]]; [auto|]. right; apply p_edge_exists_in; exact Erev. }
  apply p_edge_exists_false in Erev.
  destruct (p_edge_exists sg (es e) (ed e)) eqn:Efwd; simpl.
  - (* the pair is already stored in this orientation *)
    exists sg; split; [reflexivity|]. split; [|reflexivity]. constructor; auto.
    + intros pe Hpe; destruct (Ied pe Hpe) as [Hn C]; split; [exact Hn|].
      apply clause_mono; auto. intros _ [E1 E2]; apply Erev.
      apply in_map_iff; exists pe; unfold pkey; split; [congruence|exact Hpe].
    + intros e' Hin Hn; apply in_app_iff in Hin; simpl in Hin.
      destruct Hin as [Hin|[<-|[]]]; [auto|]. left; apply p_edge_exists_in; exact Efwd.
  - (* new pair *)
    apply p_edge_exists_false in Efwd.
    destruct (find_node_in _ _ Hs) as (ns & Fs); destruct (find_node_in _ _ Hd) as (nd & Fd).
    rewrite Fs, Fd. apply find_node_some in Fs, Fd.
    destruct Fs as [_ Ks], Fd as [_ Kd]; unfold nkey, esrc, edst in Ks, Kd.
    inversion Ks as [[Ks1 Ks2]]; inversion Kd as [[Kd1 Kd2]].
    unfold p_add_edge; simpl. rewrite Ks1, Kd1.
    destruct (name_eqb_spec (es e) (ed e)) as [Ebad|_]; [contradiction|].
    set (sg2 := p_ensure_node (p_ensure_node sg (summary_node ns)) (summary_node nd)).
    assert (Hed2 : pedges sg2 = pedges sg) by (unfold sg2; rewrite !p_ensure_node_edges; reflexivity).
    assert (X1 : p_edge_exists sg (es e) (ed e) = false) by (apply p_edge_exists_false; exact Efwd).
    assert (X2 : p_edge_exists sg2 (ed e) (es e) = false).
    { apply p_edge_exists_false; rewrite Hed2; exact Erev. }
    rewrite X1, X2. eexists; split; [reflexivity|].
    split; [|unfold sg2; simpl; rewrite !p_ensure_node_meta; reflexivity].
    assert (NoG : ~ goesP l (ed e) (es e)).
    { intros (e' & Hin & E1 & E2).
      destruct (Iadj e' Hin) as [H|H]; [congruence| |]; rewrite E1, E2 in H; contradiction. }
    constructor; simpl; rewrite ?Hed2.
    + intros pe Hpe; apply in_app_iff in Hpe; simpl in Hpe.
      destruct Hpe as [Hpe|[<-|[]]].
      * destruct (Ied pe Hpe) as [Hn C]; split; [exact Hn|]. apply clause_mono; auto.
        intros _ [E1 E2]; apply Erev.
        apply in_map_iff; exists pe; unfold pkey; split; [congruence|exact Hpe].
      * simpl; split; [exact Hne|]. left; split; [exact Hty|]. rewrite !goesP_app.
        split; [right; auto|]. intros [G|[E1 E2]]; [exact (NoG G)|congruence].
    + intros e' Hin Hn; rewrite map_app, !in_app_iff; simpl.
      apply in_app_iff in Hin; simpl in Hin; destruct Hin as [Hin|[<-|[]]].
      * destruct (Iadj e' Hin Hn) as [H|H]; auto.
      * left; right; left; reflexivity.
    + rewrite map_app; simpl; apply NoDup_snoc; assumption.
    + intros p q Hp Hq E1 E2; apply in_app_iff in Hp, Hq; simpl in Hp, Hq.
      destruct Hp as [Hp|[<-|[]]], Hq as [Hq|[<-|[]]]; simpl in *.
      * apply (Inr p q); auto.
      * apply Erev; apply in_map_iff; exists p; unfold pkey; split; [congruence|exact Hp].
      * apply Erev; apply in_map_iff; exists q; unfold pkey; split; [congruence|exact Hq].
      * congruence.
    + unfold sg2; apply p_ensure_node_nodup, p_ensure_node_nodup; exact Inn.
    + intros v; unfold sg2; rewrite !p_ensure_node_names; simpl. rewrite Ino, Ks1, Kd1. split.
      * intros [[(pe & Hpe & Hv)| ->]| ->].
        -- exists pe; split; [apply in_or_app; auto|exact Hv].
        -- eexists; split; [apply in_or_app; right; left; reflexivity|simpl; auto].
        -- eexists; split; [apply in_or_app; right; left; reflexivity|simpl; auto].
      * intros (pe & Hpe & Hv); apply in_app_iff in Hpe; simpl in Hpe.
        destruct Hpe as [Hpe|[<-|[]]]; [left; left; eauto|].
        simpl in Hv; destruct Hv as [<-|<-]; auto.
Qed.

(** Well-formedness needed by [summary]: the endpoints of every edge are nodes of the graph. *)
Definition endpoints_ok (g : tsg) : Prop :=
  forall e, In e (tedges g) ->
    In (esrc e) (map nkey (tnodes g)) /\ In (edst e) (map nkey (tnodes g)).
Definition all_dir (g : tsg) : Prop := forall e, In e (tedges g) -> ety e = Dir.

Lemma ts_is_dag_all_dir g : ts_is_dag g = true -> all_dir g.
Proof.
  unfold ts_is_dag; intros H; apply andb_true_iff in H; destruct H as [H _].
  rewrite forallb_forall in H; intros e He; specialize (H e He).
  destruct (etype_eqb_spec (ety e) Dir); congruence.
Qed.

Lemma sorted_edges_in g e : In e (sorted_edges g) <-> In e (tedges g).
Proof. apply isort_in. Qed.

Lemma sorted_nodes_in g n : In n (sorted_nodes g) <-> In n (tnodes g).
Proof. apply isort_in. Qed.

Lemma goesP_sorted g x y : goesP (sorted_edges g) x y <-> goesP (tedges g) x y.
Proof. unfold goesP; split; intros (e & He & E); exists e; split; auto; apply sorted_edges_in; auto. Qed.

Lemma variables_in g v : In v (variables g) <-> In v (map tv (tnodes g)).
Proof. unfold variables; rewrite sort_names_in, dedup_in; reflexivity. Qed.

Lemma summary_loop_ok g :
  all_dir g -> endpoints_ok g ->
  exists sg, rfold (summary_step g) (sorted_edges g)
                   {| pnodes := []; pedges := []; pgmeta := tgmeta g |} = Ok sg
             /\ sinv (sorted_edges g) sg /\ pgmeta sg = tgmeta g.
Proof.
  intros Hd Hw.
  pose (Q := fun e : tedge => ety e = Dir /\ In (esrc e) (map nkey (tnodes g))
                             /\ In (edst e) (map nkey (tnodes g))).
  pose (I := fun (l : list tedge) (sg : pgraph) => sinv l sg /\ pgmeta sg = tgmeta g).
  destruct (rfold_total (summary_step g) Q I) with (l := sorted_edges g) (done := @nil tedge)
    (x := {| pnodes := []; pedges := []; pgmeta := tgmeta g |}) as (sg & E & HI & HM).
  - intros done a x (Qt & Qs & Qd) [HI HM].
    destruct (summary_step_ok g done x a Qt Qs Qd HI) as (x' & E & HI' & HM').
    exists x'; split; [exact E|]. split; [exact HI'|congruence].
  - apply Forall_forall; intros e He; apply sorted_edges_in in He.
    split; [apply Hd; exact He|apply Hw; exact He].
  - split; [apply sinv_nil|reflexivity].
  - exists sg; auto.
Qed.

Lemma summary_floats vars sg :
  let sg' := fold_left summary_float vars sg in
  pedges sg' = pedges sg /\ pgmeta sg' = pgmeta sg
  /\ (NoDup (map pn (pnodes sg)) -> NoDup (map pn (pnodes sg')))
  /\ (forall v, In v (map pn (pnodes sg')) <-> In v (map pn (pnodes sg)) \/ In v vars).
Proof.
  revert sg; induction vars as [|a vars IH]; intros sg; simpl.
  - repeat split; auto; tauto.
  - destruct (IH (summary_float sg a)) as (E1 & E2 & E3 & E4).
    unfold summary_float in *. rewrite p_ensure_node_edges in E1; rewrite p_ensure_node_meta in E2.
    repeat split; auto.
    + intros ND; apply E3, p_ensure_node_nodup, ND.
    + rewrite E4, p_ensure_node_names; simpl; intros [[H|H]|H]; auto.
    + rewrite E4, p_ensure_node_names; simpl; intros [H|[H|H]]; auto.
Qed.

(** * C17: the theorems *)

(** The specification of the summary graph [sg] of [g] (for directed-only [g]). *)
Record c17_spec (g : tsg) (sg : pgraph) : Prop := {
  c17_nodes : forall v, In v (map pn (pnodes sg)) <-> In v (map tv (tnodes g));
  c17_nodes_once : NoDup (map pn (pnodes sg));
  c17_edges : forall pe, In pe (pedges sg) ->
      ps pe <> pd pe /\
      ((pty pe = Dir /\ goesP (tedges g) (ps pe) (pd pe) /\ ~ goesP (tedges g) (pd pe) (ps pe)) \/
       (pty pe = Bi /\ goesP (tedges g) (ps pe) (pd pe) /\ goesP (tedges g) (pd pe) (ps pe)));
  c17_adj : forall e, In e (tedges g) -> es e <> ed e ->
      In (es e, ed e) (map pkey (pedges sg)) \/ In (ed e, es e) (map pkey (pedges sg));
  c17_once : NoDup (map pkey (pedges sg));
  c17_norev : forall p q, In p (pedges sg) -> In q (pedges sg) -> ps p = pd q -> pd p = ps q -> False;
  c17_meta : pgmeta sg = tgmeta g
}.

Theorem summary_body_spec g :
  all_dir g -> endpoints_ok g -> exists sg, summary_body g = Ok sg /\ c17_spec g sg.
Proof.
  intros Hd Hw; destruct (summary_loop_ok g Hd Hw) as (sg & E & [Ied Iadj Ind Inr Inn Ino] & HM).
  unfold summary_body; rewrite E.
  destruct (summary_floats (variables g) sg) as (F1 & F2 & F3 & F4).
  eexists; split; [reflexivity|]. constructor; rewrite ?F1, ?F2; auto.
  - intros v; rewrite F4, Ino, variables_in; split; [|auto].
    intros [(pe & Hpe & Hv)|H]; [|exact H].
    destruct (Ied pe Hpe) as [_ C].
    assert (G : goesP (sorted_edges g) (ps pe) (pd pe)) by tauto.
    destruct G as (e & He & E1 & E2); apply sorted_edges_in in He.
    destruct (Hw e He) as [H1 H2].
    destruct Hv as [<-|<-]; [rewrite <- E1|rewrite <- E2].
    + apply in_map_iff in H1; destruct H1 as (n & K & Hn); apply in_map_iff; exists n.
      unfold nkey, esrc in K; split; [congruence|exact Hn].
    + apply in_map_iff in H2; destruct H2 as (n & K & Hn); apply in_map_iff; exists n.
      unfold nkey, edst in K; split; [congruence|exact Hn].
  - intros pe Hpe; destruct (Ied pe Hpe) as [Hn C]; split; [exact Hn|].
    rewrite <- !goesP_sorted; exact C.
  - intros e He; apply Iadj; apply sorted_edges_in; exact He.
Qed.

(** [get_summary_graph] succeeds on every time-series DAG (feedback and longer cycles in the
    summary included): the only exception left is the AssertionError for a non-DAG input. *)
Theorem summary_ok g :
  endpoints_ok g -> ts_is_dag g = true -> exists sg, summary g = Ok sg /\ c17_spec g sg.
Proof.
  intros Hw Hdag; unfold summary; rewrite Hdag.
  apply summary_body_spec; [apply ts_is_dag_all_dir; exact Hdag|exact Hw].
Qed.

Theorem summary_not_dag g : ts_is_dag g = false -> summary g = Err EAssert.
Proof. intros H; unfold summary; rewrite H; reflexivity. Qed.

Lemma summary_spec g sg :
  endpoints_ok g -> summary g = Ok sg -> c17_spec g sg.
Proof.
  intros Hw E; destruct (ts_is_dag g) eqn:D; [|rewrite summary_not_dag in E; [discriminate|exact D]].
  destruct (summary_ok g Hw D) as (sg' & E' & S); congruence.
Qed.

(** exactly one node per variable, floating variables included *)
Theorem summary_nodes g sg :
  endpoints_ok g -> summary g = Ok sg ->
  NoDup (map pn (pnodes sg)) /\ forall v, In v (map pn (pnodes sg)) <-> In v (map tv (tnodes g)).
Proof. intros Hw E; destruct (summary_spec g sg Hw E); auto. Qed.

(** two distinct variables are adjacent exactly when some edge of the input joins them *)
Theorem summary_adjacent g sg x y :
  endpoints_ok g -> summary g = Ok sg -> x <> y ->
  (p_adjacent sg x y = true <-> goesP (tedges g) x y \/ goesP (tedges g) y x).
Proof.
  intros Hw E Hxy; destruct (summary_spec g sg Hw E) as [_ _ Hed Hadj _ _ _].
  unfold p_adjacent; rewrite orb_true_iff, !p_edge_exists_in; split.
  - intros [H|H]; apply in_map_iff in H; destruct H as (pe & K & Hpe);
      unfold pkey in K; inversion K; subst; destruct (Hed pe Hpe) as [_ C]; tauto.
  - intros [(e & He & <- & <-)|(e & He & <- & <-)].
    + apply Hadj; auto.
    + destruct (Hadj e He); auto.
Qed.

(** directed x -> y exactly when every joining edge goes from x to y *)
Theorem summary_dir g sg x y :
  endpoints_ok g -> summary g = Ok sg ->
  ((exists pe, In pe (pedges sg) /\ ps pe = x /\ pd pe = y /\ pty pe = Dir) <->
   x <> y /\ goesP (tedges g) x y /\ ~ goesP (tedges g) y x).
Proof.
  intros Hw E; destruct (summary_spec g sg Hw E) as [_ _ Hed Hadj Hnd Hnr _]; split.
  - intros (pe & Hpe & <- & <- & T); destruct (Hed pe Hpe) as [Hn [C|C]]; [tauto|].
    destruct C as [T' _]; congruence.
  - intros (Hxy & (e & He & <- & <-) & NG).
    destruct (Hadj e He Hxy) as [H|H]; apply in_map_iff in H; destruct H as (pe & K & Hpe);
      unfold pkey in K; inversion K as [[K1 K2]]; destruct (Hed pe Hpe) as [_ C].
    + exists pe; repeat split; auto. destruct C as [C|C]; [tauto|].
      exfalso; apply NG; rewrite <- K1, <- K2; tauto.
    + exfalso; apply NG; rewrite <- K1, <- K2; tauto.
Qed.

(** bi-directed exactly when edges go both ways (feedback) *)
Theorem summary_bi g sg x y :
  endpoints_ok g -> summary g = Ok sg ->
  ((exists pe, In pe (pedges sg) /\ pty pe = Bi /\
               ((ps pe = x /\ pd pe = y) \/ (ps pe = y /\ pd pe = x))) <->
   x <> y /\ goesP (tedges g) x y /\ goesP (tedges g) y x).
Proof.
  intros Hw E; destruct (summary_spec g sg Hw E) as [_ _ Hed Hadj Hnd Hnr _]; split.
  - intros (pe & Hpe & T & K); destruct (Hed pe Hpe) as [Hn [C|C]]; [destruct C; congruence|].
    destruct K as [[<- <-]|[<- <-]]; split; auto; tauto.
  - intros (Hxy & (e & He & <- & <-) & G2).
    destruct (Hadj e He Hxy) as [H|H]; apply in_map_iff in H; destruct H as (pe & K & Hpe);
      unfold pkey in K; inversion K as [[K1 K2]]; destruct (Hed pe Hpe) as [_ C];
      exists pe; (split; [exact Hpe|]).
    + split; [|left; auto]. destruct C as [C|C]; [|tauto]. exfalso; rewrite K1, K2 in C; tauto.
    + split; [|right; auto]. destruct C as [C|C]; [|tauto].
      exfalso; destruct C as (_ & _ & C); apply C; rewrite K1, K2; exists e; auto.
Qed.

(** a variable's edges to itself are dropped; only directed and bi-directed edges occur; at
    most one edge per unordered pair of variables *)
Theorem summary_no_self g sg :
  endpoints_ok g -> summary g = Ok sg ->
  (forall pe, In pe (pedges sg) -> ps pe <> pd pe /\ (pty pe = Dir \/ pty pe = Bi))
  /\ NoDup (map pkey (pedges sg))
  /\ (forall p q, In p (pedges sg) -> In q (pedges sg) -> ps p = pd q -> pd p = ps q -> False).
Proof.
  intros Hw E; destruct (summary_spec g sg Hw E) as [_ _ Hed _ Hnd Hnr _]; repeat split; auto.
  - apply Hed; assumption.
  - destruct (Hed pe H) as [_ [C|C]]; tauto.
Qed.

(** * The boolean oracle [c17_check] decides [c17_spec] *)

Lemma has_var_in g v : has_var g v = true <-> In v (map tv (tnodes g)).
Proof.
  unfold has_var; rewrite existsb_exists, in_map_iff; split.
  - intros (n & Hn & E); apply name_eqb_eq in E; eauto.
  - intros (n & E & Hn); exists n; split; [exact Hn|apply name_eqb_eq; exact E].
Qed.

Lemma goes_false g x y : goes g x y = false <-> ~ goesP (tedges g) x y.
Proof. rewrite <- goes_spec; destruct (goes g x y); split; congruence. Qed.

Theorem c17_check_spec g sg : c17_check g sg = true <-> c17_spec g sg.
Proof.
  unfold c17_check; rewrite !andb_true_iff, !forallb_forall.
  rewrite (nodup_by_spec name_eqb name_eqb_spec), (nodup_by_spec pair_eqb pair_eqb_spec), meta_eqb_eq.
  split.
  - intros [[[[[[[H1 H2] H3] H4] H5] H6] H7] H8]. constructor; auto.
    + intros v; split; intros Hv.
      * apply in_map_iff in Hv; destruct Hv as (p & <- & Hp); apply has_var_in, H2, Hp.
      * apply in_map_iff in Hv; destruct Hv as (n & <- & Hn); apply p_node_exists_in, H1, Hn.
    + intros pe Hpe; specialize (H4 pe Hpe); apply andb_true_iff in H4; destruct H4 as [H4 C].
      apply andb_true_iff in H4; destruct H4 as [N _]; apply negb_true_iff, name_eqb_neq in N.
      split; [exact N|]. destruct (pty pe); try discriminate; apply andb_true_iff in C;
        destruct C as [C1 C2]; [left|right]; (split; [reflexivity|]); apply goes_spec in C1.
      * apply negb_true_iff, goes_false in C2; auto.
      * apply goes_spec in C2; auto.
    + intros e He Hn; specialize (H5 e He); apply orb_true_iff in H5; destruct H5 as [H5|H5].
      * apply name_eqb_eq in H5; contradiction.
      * unfold p_adjacent in H5; apply orb_true_iff in H5; rewrite !p_edge_exists_in in H5; exact H5.
    + intros p q Hp Hq E1 E2; specialize (H7 p Hp); rewrite forallb_forall in H7.
      specialize (H7 q Hq); rewrite E1, E2, !name_eqb_refl in H7; discriminate.
  - intros [S1 S2 S3 S4 S5 S6 S7]; repeat split; auto.
    + intros n Hn; apply p_node_exists_in, S1, in_map, Hn.
    + intros p Hp; apply has_var_in, S1, in_map, Hp.
    + intros pe Hpe; destruct (S3 pe Hpe) as [N C]. apply name_eqb_neq in N; rewrite N; simpl.
      destruct C as [(T & G1 & G2)|(T & G1 & G2)]; rewrite T.
      * apply goes_spec in G1; apply goes_false in G2; rewrite G1, G2; reflexivity.
      * apply goes_spec in G1, G2; rewrite G1, G2; reflexivity.
    + intros e He; destruct (name_eqb_spec (es e) (ed e)) as [|N]; [reflexivity|simpl].
      unfold p_adjacent; apply orb_true_iff; rewrite !p_edge_exists_in; apply S4; auto.
    + intros p Hp; apply forallb_forall; intros q Hq; apply negb_true_iff.
      destruct (name_eqb_spec (ps p) (pd q)) as [E1|]; [|reflexivity].
      destruct (name_eqb_spec (pd p) (ps q)) as [E2|]; [|reflexivity].
      exfalso; exact (S6 p q Hp Hq E1 E2).
Qed.

(** The model's summary passes its own oracle. *)
Corollary summary_check g sg : endpoints_ok g -> summary g = Ok sg -> c17_check g sg = true.
Proof. intros Hw E; apply c17_check_spec, summary_spec; assumption. Qed.

(** * Examples: non-vacuity and behaviour observed on the Python code (see [ex_g]). *)

Example ex_g_wf : endpoints_ok ex_g /\ ts_is_dag ex_g = true.
Proof.
  split; [|vm_compute; reflexivity].
  intros e He; simpl in He.
  repeat (destruct He as [<-|He]; [split; vm_compute; tauto|]); contradiction.
Qed.

Definition pnode_eqb (a b : pnode) : bool :=
  name_eqb (pn a) (pn b) && vtype_eqb (pvt a) (pvt b) && meta_eqb (pm a) (pm b).
Definition pedge_eqb (a b : pedge) : bool :=
  name_eqb (ps a) (ps b) && name_eqb (pd a) (pd b) && etype_eqb (pty a) (pty b)
  && meta_eqb (pem a) (pem b).

(** Python: get_summary_graph() of [ex_g] has nodes W, Y, X (with the reserved tags, time_lag 0)
    and the bare floating node Z; edges W -> Y and the feedback X <> Y. *)
Example ex_g_summary :
  match summary ex_g, Ok (PG [(PN [87]%N VUnspec [([116; 105; 109; 101; 95; 108; 97; 103]%N, JInt (0)%Z); ([118; 97; 114; 105; 97; 98; 108; 101; 95; 110; 97; 109; 101]%N, JStr [87]%N)]); (PN [89]%N VUnspec [([116; 105; 109; 101; 95; 108; 97; 103]%N, JInt (0)%Z); ([118; 97; 114; 105; 97; 98; 108; 101; 95; 110; 97; 109; 101]%N, JStr [89]%N)]); (PN [88]%N VUnspec [([116; 105; 109; 101; 95; 108; 97; 103]%N, JInt (0)%Z); ([118; 97; 114; 105; 97; 98; 108; 101; 95; 110; 97; 109; 101]%N, JStr [88]%N)]); (PN [90]%N VUnspec [])] [(PE [87]%N [89]%N Dir []); (PE [88]%N [89]%N Bi [])] [([103]%N, JInt (1)%Z)]) with
  | Ok a, Ok b => list_eqb _ pnode_eqb (pnodes a) (pnodes b)
                  && list_eqb _ pedge_eqb (pedges a) (pedges b) && meta_eqb (pgmeta a) (pgmeta b)
  | _, _ => false
  end = true.
Proof. vm_compute; reflexivity. Qed.

(** A contemporaneous cycle X -> Y -> X cannot be built (ReverseEdgeExistsError), but
    X -> Y -> W -> X (validate=False) can: the AssertionError of a non-DAG input. *)
Example ex_cyclic_summary :
  summary (Gr [Nd [88]%N 0 VUnspec []; Nd [89]%N 0 VUnspec []; Nd [87]%N 0 VUnspec []]
              [Ed [88]%N 0 [89]%N 0 Dir []; Ed [89]%N 0 [87]%N 0 Dir [];
               Ed [87]%N 0 [88]%N 0 Dir []] []) = Err EAssert.
Proof. vm_compute; reflexivity. Qed.

Example ex_g_c17_check :
  match summary ex_g with Ok sg => c17_check ex_g sg | Err _ => false end = true.
Proof. vm_compute; reflexivity. Qed.
