(** IdentifyGenConfProofs.v — property C18: the functions of IdentifyGenConf.v, GENERATED from
    cai_causal_graph/identify_utils.py by /verif/tools/translate_identify.py
    ([_verify_identify_inputs], the nested recursive helper, [identify_confounders]), compute the
    same sets as the hand-written model Identify.v.

    The generated functions take the ITERATION ORDER of sets (and of the collections that the
    library builds from sets and dictionaries) as a parameter [py_order : pyorder]; every theorem
    holds for every order that is a permutation ([pyorder_ok]).

    IdentifyGenConf.v is regenerated from the Python source on every verification run; this file
    is NOT regenerated: if the source changes, the proofs below either still go through (harmless
    rewrite) or fail to compile.  The shared lemmas are in IdentifyGenLemmas.v, which does not
    depend on any generated file.

    - [gen_helper_spec] / [gen_helper_equiv]: the nested helper removes edges of the networkx
      graph in place, recurses and puts the edges back; it returns a graph with the same nodes and
      the same edges as the one it was given (the restore really restores) and the set computed
      by [conf_search]; the fuel [|V| + 1] suffices on a DAG;
    - [gen_verify_ok], [gen_verify_cases]: [_verify_identify_inputs];
    - [gen_confounders_equiv]: [identify_confounders] = [confounders];
    - [gen_conf_equiv_le4]: the same by exhaustive computation on all DAGs with at most 4 nodes,
      for two concrete iteration orders (a BOUNDED theorem, independent of the proofs above). *)
From Coq Require Import Relations.Relation_Operators.
From CG Require Import Base Digraph DigraphProofs DSepProofs Identify IdentifyProofs PyRt IdentifyGenLemmas
  IdentifyGenConf.
Set Implicit Arguments.

Section GenConfProofs.
  Variable A : Type.
  Variable eqb : A -> A -> bool.
  Hypothesis eqb_spec : forall x y, reflect (x = y) (eqb x y).
  (** the iteration-order oracle: ANY function that returns a permutation of its argument *)
  Variable ord : pyorder.
  Hypothesis ord_ok : pyorder_ok ord.
  Variables py_None py_empty_str : A.

  (** the shared lemmas, at the parameters of this section *)
  Let gp_ord_in := @IdentifyGenLemmas.gp_ord_in ord ord_ok.
  Let gp_ord_nodup := @IdentifyGenLemmas.gp_ord_nodup ord ord_ok.
  Let gp_ord_length := @IdentifyGenLemmas.gp_ord_length ord ord_ok.
  Let gp_iter_set_in := @IdentifyGenLemmas.gp_iter_set_in ord ord_ok.
  Let gp_iter_set_nodup := @IdentifyGenLemmas.gp_iter_set_nodup ord ord_ok.
  Let gp_memb_in := @IdentifyGenLemmas.gp_memb_in A eqb eqb_spec.
  Let gp_memb_false := @IdentifyGenLemmas.gp_memb_false A eqb eqb_spec.
  Let gp_memb_seteq := @IdentifyGenLemmas.gp_memb_seteq A eqb eqb_spec.
  Let gp_set_of_in := @IdentifyGenLemmas.gp_set_of_in A eqb eqb_spec.
  Let gp_set_of_nodup := @IdentifyGenLemmas.gp_set_of_nodup A eqb eqb_spec.
  Let gp_set_add_in := @IdentifyGenLemmas.gp_set_add_in A eqb eqb_spec.
  Let gp_union_in := @IdentifyGenLemmas.gp_union_in A eqb eqb_spec.
  Let gp_inter_in := @IdentifyGenLemmas.gp_inter_in A eqb eqb_spec.
  Let gp_diff_in := @IdentifyGenLemmas.gp_diff_in A eqb eqb_spec.
  Let geq_anc := @IdentifyGenLemmas.geq_anc A eqb eqb_spec.
  Let geq_desc := @IdentifyGenLemmas.geq_desc A eqb eqb_spec.
  Let geq_del := @IdentifyGenLemmas.geq_del A eqb eqb_spec.
  Let geq_parents := @IdentifyGenLemmas.geq_parents A eqb eqb_spec.
  Let gp_del_arc_arc := @IdentifyGenLemmas.gp_del_arc_arc A eqb eqb_spec.
  Let gp_add_edge_arc := @IdentifyGenLemmas.gp_add_edge_arc A eqb eqb_spec.
  Let gp_add_edge_verts := @IdentifyGenLemmas.gp_add_edge_verts A eqb.
  Local Notation del_list := (@IdentifyGenLemmas.del_list A eqb).
  Let del_list_verts := @IdentifyGenLemmas.del_list_verts A eqb.
  Let del_list_arc := @IdentifyGenLemmas.del_list_arc A eqb eqb_spec.
  Let del_list_children := @IdentifyGenLemmas.del_list_children A eqb eqb_spec.
  Let gp_rm_loop_nx := @IdentifyGenLemmas.gp_rm_loop_nx A eqb eqb_spec.
  Let gp_rm_loop_cg := @IdentifyGenLemmas.gp_rm_loop_cg A eqb eqb_spec.
  Let gp_succ_nodup := @IdentifyGenLemmas.gp_succ_nodup A eqb eqb_spec ord ord_ok.
  Let gp_succ_in := @IdentifyGenLemmas.gp_succ_in A eqb eqb_spec ord ord_ok.
  Let gp_pred_in := @IdentifyGenLemmas.gp_pred_in A eqb eqb_spec ord ord_ok.
  Let gp_children_nodup := @IdentifyGenLemmas.gp_children_nodup A eqb eqb_spec ord ord_ok.
  Let gp_children_in := @IdentifyGenLemmas.gp_children_in A eqb eqb_spec ord ord_ok.
  Let gp_parents_in := @IdentifyGenLemmas.gp_parents_in A eqb eqb_spec ord ord_ok.
  Local Notation add_all := (@IdentifyGenLemmas.add_all A eqb).
  Let add_all_verts := @IdentifyGenLemmas.add_all_verts A eqb.
  Let add_all_arc := @IdentifyGenLemmas.add_all_arc A eqb eqb_spec.
  Let gp_collect_equiv := @IdentifyGenLemmas.gp_collect_equiv A eqb eqb_spec.
  Let gp_conf_search_geq := @IdentifyGenLemmas.gp_conf_search_geq A eqb eqb_spec.
  Let gp_filter_neq_in := @IdentifyGenLemmas.gp_filter_neq_in A eqb eqb_spec.
  Let gp_filter_loop := @IdentifyGenLemmas.gp_filter_loop A eqb eqb_spec.
  Let gp_filter_copy := @IdentifyGenLemmas.gp_filter_copy A eqb eqb_spec ord ord_ok.
  Let gp_filter_outer := @IdentifyGenLemmas.gp_filter_outer A eqb eqb_spec ord ord_ok.
  Let gp_forallb_ord := @IdentifyGenLemmas.gp_forallb_ord ord ord_ok.
  Let gp_med_paths_loop := @IdentifyGenLemmas.gp_med_paths_loop A eqb.
  Let gp_fold_inter_all := @IdentifyGenLemmas.gp_fold_inter_all A eqb eqb_spec.
  Let gp_fold_inter_nodup := @IdentifyGenLemmas.gp_fold_inter_nodup A eqb.
  Let gp_inst_paths_loop := @IdentifyGenLemmas.gp_inst_paths_loop A eqb eqb_spec.
  Local Notation gp_cand1 := (@IdentifyGenLemmas.gp_cand1 A eqb).
  Local Notation gp_inst_guard := (@IdentifyGenLemmas.gp_inst_guard A eqb).
  Let gp_inst_phase2_raises := @IdentifyGenLemmas.gp_inst_phase2_raises A eqb eqb_spec ord ord_ok.
  Let gc_pair_memb_bi := @IdentifyGenLemmas.gc_pair_memb_bi A eqb.
  Let gc_fold_add := @IdentifyGenLemmas.gc_fold_add A eqb eqb_spec.
  Let gc_unshielded_loop := @IdentifyGenLemmas.gc_unshielded_loop A eqb.
  Let gc_unshieldedb_seteq := @IdentifyGenLemmas.gc_unshieldedb_seteq A eqb eqb_spec.

  Local Notation seteq l1 l2 := (forall z : A, In z l1 <-> In z l2).

  (** * 5. The nested helper of [identify_confounders] *)

  Local Notation gen_helper :=
    (gen__identify_confounders_no_checks_no_descendant_pruning_networkx eqb py_None py_empty_str ord).

  (** The specification proved by induction on the fuel: on a well-formed graph on which the
      model search succeeds, the generated helper returns normally, the graph it returns has the
      nodes and edges of the graph it was given, and the set it returns is the model's. *)
  Definition helper_spec (fuel : nat) : Prop :=
    forall (G : digraph A) n1 n2 C,
      wf G -> conf_search eqb fuel G n1 n2 = Some C ->
      exists G' R, gen_helper fuel G n1 n2 = Ret (G', R) /\ geq G G' /\ seteq R C.

  (** the loop over the predecessors of [n1] *)
  Lemma gp_parents_loop fuel (Gm : digraph A) (n2 : A)
        (body : A -> digraph A * list A -> pyctl (digraph A * list A) (digraph A * list A)) :
    helper_spec fuel -> wf Gm ->
    (forall p g conf, body p (g, conf) =
       if memb eqb p (py_nx_ancestors eqb g n2)
       then Cont (g, py_set_add eqb conf p)
       else py_bind py_in (gen_helper fuel g p n2)
              (fun '(g', t) => Cont (g', py_union eqb conf (py_set_of eqb t)))) ->
    forall ps g conf,
      wf g -> geq g Gm ->
      (forall p, In p ps ->
         exists s, (if memb eqb p (anc eqb Gm n2) then Some [p]
                    else conf_search eqb fuel Gm p n2) = Some s) ->
      exists g' conf',
        py_loop ps (g, conf) body = Cont (g', conf') /\ wf g' /\ geq g' Gm /\
        forall z, In z conf' <->
                  In z conf \/
                  exists p s, In p ps /\
                    (if memb eqb p (anc eqb Gm n2) then Some [p]
                     else conf_search eqb fuel Gm p n2) = Some s /\ In z s.
  Proof.
    intros IH Hwfm Hb. induction ps as [|p ps IHps]; intros g conf Hwf Hg Hall.
    - exists g, conf. simpl. split; [reflexivity|]. split; [exact Hwf|]. split; [exact Hg|].
      intros z. split; [auto|]. intros [H|(p & s & [] & _)]. exact H.
    - simpl. rewrite Hb. unfold py_nx_ancestors.
      rewrite (@gp_memb_seteq p _ _ (geq_anc n2 Hg Hwf)).
      destruct (Hall p (or_introl eq_refl)) as [s Hs].
      destruct (memb eqb p (anc eqb Gm n2)) eqn:Em.
      + injection Hs as <-.
        destruct (IHps g (py_set_add eqb conf p) Hwf Hg) as (g' & conf' & Hl & Hwf' & Hg' & Hin).
        { intros q Hq. apply Hall. right. exact Hq. }
        exists g', conf'. split; [exact Hl|]. split; [exact Hwf'|]. split; [exact Hg'|].
        intros z. rewrite Hin, gp_set_add_in. split.
        * intros [[H| ->]|(q & s & Hq & Hs & Hz)].
          -- left. exact H.
          -- right. exists p, [p]. split; [left; reflexivity|]. rewrite Em.
             split; [reflexivity|left; reflexivity].
          -- right. exists q, s. split; [right; exact Hq|]. split; assumption.
        * intros [H|(q & s & [<-|Hq] & Hs & Hz)].
          -- left. left. exact H.
          -- rewrite Em in Hs. injection Hs as <-. destruct Hz as [<-|[]]. left. right. reflexivity.
          -- right. exists q, s. split; [exact Hq|]. split; assumption.
      + destruct (gp_conf_search_geq fuel p n2 Hwfm (geq_sym Hg) Hs) as (s' & Hs' & Hss').
        destruct (IH g p n2 s' Hwf Hs') as (g1 & R1 & Hgen & Hg1 & HR1).
        rewrite Hgen. simpl.
        assert (Hwf1 : wf g1) by exact (geq_wf Hg1 Hwf).
        assert (Hg1m : geq g1 Gm) by exact (geq_trans (geq_sym Hg1) Hg).
        destruct (IHps g1 (py_union eqb conf (py_set_of eqb R1)) Hwf1 Hg1m)
          as (g' & conf' & Hl & Hwf' & Hg' & Hin).
        { intros q Hq. apply Hall. right. exact Hq. }
        exists g', conf'. split; [exact Hl|]. split; [exact Hwf'|]. split; [exact Hg'|].
        intros z. rewrite Hin, gp_union_in, gp_set_of_in. split.
        * intros [[H|H]|(q & t & Hq & Ht & Hz)].
          -- left. exact H.
          -- right. exists p, s. split; [left; reflexivity|]. rewrite Em.
             split; [exact Hs|]. apply Hss', HR1. exact H.
          -- right. exists q, t. split; [right; exact Hq|]. split; assumption.
        * intros [H|(q & t & [<-|Hq] & Ht & Hz)].
          -- left. left. exact H.
          -- rewrite Em in Ht. left. right. apply HR1, Hss'. congruence.
          -- right. exists q, t. split; [exact Hq|]. split; assumption.
  Qed.

  Lemma gen_helper_spec fuel : helper_spec fuel.
  Proof.
    induction fuel as [|fuel IH]; intros G n1 n2 C Hwf HC; [discriminate|].
    rewrite id_conf_search_S in HC.
    set (Gm := del_arcs_from eqb G [n1; n2]) in *.
    assert (Hwfm : wf Gm) by (apply (@del_arcs_wf A eqb eqb_spec); exact Hwf).
    cbn [gen__identify_confounders_no_checks_no_descendant_pruning_networkx].
    unfold py_top at 1. rewrite py_for_loop. unfold py_list at 1.
    (* first loop: the edges leaving n1 *)
    rewrite (@gp_rm_loop_nx n1 _ _ (fun _ _ _ => eq_refl) _ G py_list_empty (gp_succ_nodup _ G n1)
               (fun c Hc => proj1 (gp_succ_in _ G n1 c) Hc)).
    match goal with |- context [del_list G n1 ?cs] => set (cs1 := cs) end.
    set (G1 := del_list G n1 cs1).
    assert (HG1 : forall a b, arc G1 a b <-> arc G a b /\ a <> n1)
      by (intros a b; apply del_list_children; intros c; apply gp_succ_in).
    (* second loop: the edges leaving n2 *)
    rewrite py_for_loop. unfold py_list at 1.
    rewrite (@gp_rm_loop_nx n2 _ _ (fun _ _ _ => eq_refl) _ G1 _ (gp_succ_nodup _ G1 n2)
               (fun c Hc => proj1 (gp_succ_in _ G1 n2 c) Hc)).
    match goal with |- context [del_list G1 n2 ?cs] => set (cs2 := cs) end.
    set (G2 := del_list G1 n2 cs2).
    assert (HG2 : forall a b, arc G2 a b <-> arc G a b /\ a <> n1 /\ a <> n2).
    { intros a b. unfold G2.
      rewrite (@del_list_children G1 n2 cs2 a b (fun c => gp_succ_in _ G1 n2 c)), HG1. tauto. }
    assert (Hv2 : verts G2 = verts G).
    { unfold G2, G1. rewrite !del_list_verts. reflexivity. }
    assert (Hg2m : geq G2 Gm).
    { split; [exact Hv2|]. intros a b. unfold Gm.
      rewrite HG2, (@del_arcs_arc A eqb eqb_spec). simpl. intuition congruence. }
    assert (Hwf2 : wf G2) by exact (geq_wf (geq_sym Hg2m) Hwfm).
    set (re := py_list_empty ++ map (pair n1) cs1 ++ map (pair n2) cs2).
    rewrite <- app_assoc. fold re.
    (* third loop: the predecessors of n1 *)
    rewrite py_for_loop. unfold py_list at 1.
    match goal with |- context [py_loop ?ps _ ?b] =>
      destruct (@gp_parents_loop fuel Gm n2 b IH Hwfm (fun _ _ _ => eq_refl)
                  ps G2 py_set_empty Hwf2 Hg2m)
        as (G3 & conf & Hloop & Hwf3 & Hg3m & Hconf)
    end.
    { intros p Hp. apply (proj1 (gp_pred_in _ G2 n1 p)) in Hp.
      apply (@id_collect_all_some A eqb _ _ _ HC).
      apply (in_map (fun p => if memb eqb p (anc eqb Gm n2) then Some [p]
                              else conf_search eqb fuel Gm p n2)).
      apply (@parents_in A eqb eqb_spec). apply Hg2m. exact Hp. }
    rewrite Hloop.
    (* fourth loop: the removed edges are put back *)
    rewrite py_for_loop.
    rewrite (@py_loop_fold _ _ _ (fun e g => py_nx_add_edge eqb g (fst e) (snd e)) re G3 _
               (fun _ _ => eq_refl)).
    fold (add_all G3 re). unfold py_top.
    exists (add_all G3 re), conf. split; [reflexivity|]. split.
    - (* the restore really restores *)
      split; [rewrite add_all_verts; rewrite (proj1 Hg3m); reflexivity|].
      intros a b. rewrite add_all_arc, (proj2 Hg3m a b).
      unfold Gm. rewrite (@del_arcs_arc A eqb eqb_spec). unfold re, py_list_empty. simpl.
      rewrite in_app_iff, !in_map_iff. split.
      + intros Hab.
        destruct (eqb_spec a n1) as [->|Hn1].
        { right. left. exists b. split; [reflexivity|]. apply (proj2 (gp_succ_in _ G n1 b)). exact Hab. }
        destruct (eqb_spec a n2) as [->|Hn2].
        { right. right. exists b. split; [reflexivity|]. apply (proj2 (gp_succ_in _ G1 n2 b)), HG1.
          split; assumption. }
        left. split; [exact Hab|]. intros [H|[H|[]]]; congruence.
      + intros [[Hab _]|[(c & Hc & Hin)|(c & Hc & Hin)]]; [exact Hab| |].
        * injection Hc as <- <-. exact (proj1 (gp_succ_in _ G n1 c) Hin).
        * injection Hc as <- <-. apply (proj1 (gp_succ_in _ G1 n2 c)), HG1 in Hin. tauto.
    - (* the set is the model's *)
      intros z. rewrite Hconf. unfold py_set_empty.
      rewrite (@id_collect_in A eqb eqb_spec _ _ HC z). split.
      + intros [[]|(p & s & Hp & Hs & Hz)]. exists s. split; [|exact Hz].
        apply in_map_iff. exists p. split; [exact Hs|].
        apply (@parents_in A eqb eqb_spec), Hg2m. exact (proj1 (gp_pred_in _ G2 n1 p) Hp).
      + intros (s & Hs & Hz). right. apply in_map_iff in Hs. destruct Hs as (p & Hs & Hp).
        exists p, s. split; [|split; assumption].
        apply (proj2 (gp_pred_in _ G2 n1 p)), Hg2m, (@parents_in A eqb eqb_spec). exact Hp.
  Qed.

  (** * 6. [_verify_identify_inputs] and [identify_confounders] *)

  Local Notation gen_verify := (gen__verify_identify_inputs eqb py_None py_empty_str ord).
  Local Notation gen_conf := (gen_identify_confounders eqb py_None py_empty_str ord).

  (** On a DAG and two distinct nodes of it the checks pass. *)
  Lemma gen_verify_ok (g : digraph A) x y :
    wf g -> acyclic g -> In x (verts g) -> In y (verts g) -> x <> y -> y <> py_None ->
    gen_verify g x y = Ret (x, y).
  Proof.
    intros Hwf Hac Hx Hy Hxy Hnone. unfold gen__verify_identify_inputs.
    unfold py_cg_is_dag, py_cg_node_exists.
    rewrite (proj2 (@acyclicb_spec A eqb eqb_spec g Hwf) Hac).
    rewrite (proj2 (gp_memb_in x (verts g)) Hx), (proj2 (gp_memb_in y (verts g)) Hy).
    destruct (eqb_spec y py_None) as [E|_]; [contradiction|]. simpl.
    destruct (eqb_spec x y) as [E|_]; [contradiction|].
    reflexivity.
  Qed.

  (** What the checks do in general (the first failing check decides). *)
  Lemma gen_verify_cases (g : digraph A) x y :
    gen_verify g x y =
    if negb (acyclicb eqb g) then Exc PyTypeError
    else if negb (memb eqb x (verts g)) then Exc PyNodeDoesNotExistError
    else if negb (eqb y py_None) && negb (memb eqb y (verts g)) then Exc PyNodeDoesNotExistError
    else if negb (eqb y py_None)
            && (eqb x (if negb (eqb y py_None) then y else py_empty_str) || eqb x y) then Exc PyValueError
    else Ret (x, if negb (eqb y py_None) then y else py_empty_str).
  Proof.
    unfold gen__verify_identify_inputs, py_cg_is_dag, py_cg_node_exists, py_top.
    destruct (acyclicb eqb g); simpl; [|reflexivity].
    destruct (memb eqb x (verts g)); simpl; [|reflexivity].
    destruct (negb (eqb y py_None) && negb (memb eqb y (verts g))); reflexivity.
  Qed.

  Theorem gen_confounders_equiv (g : digraph A) x y fuel :
    wf g -> acyclic g -> In x (verts g) -> In y (verts g) -> x <> y -> y <> py_None ->
    length (verts g) + 1 <= fuel ->
    exists R C, gen_conf fuel g x y = Ret R /\ confounders eqb g x y = Some C /\ seteq R C.
  Proof.
    intros Hwf Hac Hx Hy Hxy Hnone Hfuel.
    unfold gen_identify_confounders.
    rewrite (gen_verify_ok Hwf Hac Hx Hy Hxy Hnone). cbn [py_bind]. unfold py_cg_to_networkx.
    unfold confounders, conf_fuel.
    destruct (conf_search eqb (length (verts g) + 1) g x y) as [c1|] eqn:E1;
      [|exfalso; exact (@conf_search_fuel A eqb eqb_spec g x y Hwf Hac E1)].
    destruct (conf_search eqb (length (verts g) + 1) g y x) as [c2|] eqn:E2;
      [|exfalso; exact (@conf_search_fuel A eqb eqb_spec g y x Hwf Hac E2)].
    pose proof (conf_search_mono eqb _ _ _ Hfuel E1) as E1'.
    pose proof (conf_search_mono eqb _ _ _ Hfuel E2) as E2'.
    destruct (@gen_helper_spec fuel g x y c1 Hwf E1') as (G1 & R1 & Hgen1 & Hg1 & HR1).
    rewrite Hgen1. cbn [py_bind].
    destruct (gp_conf_search_geq fuel y x Hwf Hg1 E2') as (c2' & E2'' & Hc2).
    destruct (@gen_helper_spec fuel G1 y x c2' (geq_wf Hg1 Hwf) E2'') as (G2 & R2 & Hgen2 & Hg2 & HR2).
    rewrite Hgen2. cbn [py_bind]. unfold py_top, py_list.
    eexists. exists (inter eqb c1 c2).
    split; [reflexivity|]. split; [reflexivity|].
    intros z. rewrite gp_iter_set_in, gp_inter_in, (@inter_in A eqb eqb_spec), HR1, HR2, Hc2. tauto.
  Qed.
End GenConfProofs.

(** * The statements, closed (vertex type [nat]; the theorems above are generic) *)

(** The nested helper: the graph is given back with the same nodes and edges, and the set is the
    one computed by [conf_search]; the fuel [|V| + 1] (or more) suffices on a DAG. *)
Definition gen_helper_statement : Prop :=
  forall (ord : pyorder) (g : digraph nat) (none estr n1 n2 fuel : nat),
    pyorder_ok ord -> wf g -> acyclic g -> length (verts g) + 1 <= fuel ->
    exists g' R C,
      gen__identify_confounders_no_checks_no_descendant_pruning_networkx Nat.eqb none estr ord fuel g n1 n2
      = Ret (g', R) /\
      verts g' = verts g /\ (forall a b, arc g' a b <-> arc g a b) /\
      conf_search Nat.eqb (length (verts g) + 1) g n1 n2 = Some C /\ gen_seteq R C.

Theorem gen_helper_equiv : gen_helper_statement.
Proof.
  intros ord g none estr n1 n2 fuel Hord Hwf Hac Hfuel.
  destruct (conf_search Nat.eqb (length (verts g) + 1) g n1 n2) as [C|] eqn:E;
    [|exfalso; exact (@conf_search_fuel nat Nat.eqb Nat.eqb_spec g n1 n2 Hwf Hac E)].
  pose proof (conf_search_mono Nat.eqb _ _ _ Hfuel E) as E'.
  destruct (@gen_helper_spec nat Nat.eqb Nat.eqb_spec ord Hord none estr fuel g n1 n2 C Hwf E')
    as (g' & R & Hgen & Hg & HR).
  exists g', R, C. split; [exact Hgen|]. destruct Hg as [Hv Ha].
  split; [symmetry; exact Hv|]. split; [intros a b; symmetry; apply Ha|]. split; [reflexivity|exact HR].
Qed.

Definition gen_confounders_statement : Prop :=
  forall (ord : pyorder) (g : digraph nat) (none estr x y fuel : nat),
    pyorder_ok ord ->
    wf g -> acyclic g -> In x (verts g) -> In y (verts g) -> x <> y -> y <> none ->
    length (verts g) + 1 <= fuel ->
    exists R C, gen_identify_confounders Nat.eqb none estr ord fuel g x y = Ret R /\
                confounders Nat.eqb g x y = Some C /\ gen_seteq R C.

Theorem gen_confounders_statement_holds : gen_confounders_statement.
Proof.
  intros ord g none estr x y fuel Hord.
  exact (@gen_confounders_equiv nat Nat.eqb Nat.eqb_spec ord Hord none estr g x y fuel).
Qed.

(** * BOUNDED theorem: exhaustive computation on every DAG with at most 4 labelled nodes

    Independent of the proofs above (it only runs the two sides): for every acyclic orientation
    of every simple graph on [0 .. n-1], [n <= 4], and every ordered pair of distinct nodes,
    [gen_identify_confounders] (fuel [n + 1], [None] = [n], [''] = [n + 1]), run with the iteration
    order [ord], returns normally a result equal AS A SET to the model's.  Checked for the two
    concrete orders of PyRt.v (list order; reversed at the odd observation sites). *)
Definition gen_conf_check_pair (ord : pyorder) (n : nat) (g : digraph nat) (x y : nat) : bool :=
  match gen_identify_confounders Nat.eqb n (S n) ord (n + 1) g x y, confounders Nat.eqb g x y with
  | Ret R, Some C => seteqb Nat.eqb R C
  | _, _ => false
  end.

Definition gen_conf_check_graph (ord : pyorder) (n : nat) (arcs : list (nat * nat)) : bool :=
  let g := ds_g n arcs in
  negb (acyclicb Nat.eqb g)
  || forallb (fun x => forallb (fun y => Nat.eqb x y || gen_conf_check_pair ord n g x y) (seq 0 n)) (seq 0 n).

Theorem gen_conf_equiv_le4 :
  forall n, In n [1; 2; 3; 4] ->
    forallb (gen_conf_check_graph pyorder_id n) (ds_orient (ds_upairs n)) = true /\
    forallb (gen_conf_check_graph pyorder_alt n) (ds_orient (ds_upairs n)) = true.
Proof.
  intros n H; simpl in H.
  repeat (destruct H as [H|H]; [subst n; split; vm_cast_no_check (eq_refl true)|]); contradiction.
Qed.

(** * Examples (every value was obtained from the real library) *)

(** docstring of [identify_confounders] (z=0 u=1 x=2 y=3), and the 8-node graph of
    InstrumentsGen.ig_ex (source 4, destination 5: {g} = {6}), with both iteration orders. *)
Definition gen_conf_ex8 : digraph nat :=
  id_mk 8 [(0, 7); (7, 6); (7, 2); (7, 4); (6, 5); (6, 4); (1, 3); (1, 2); (3, 4); (2, 4)].
Example gen_ex_conf_run :
  gen_identify_confounders Nat.eqb 4 5 pyorder_id 5 ex_conf 2 3 = Ret [1] /\
  gen_identify_confounders Nat.eqb 8 9 pyorder_id 9 gen_conf_ex8 4 5 = Ret [6] /\
  gen_identify_confounders Nat.eqb 8 9 pyorder_alt 9 gen_conf_ex8 4 5 = Ret [6] /\
  gen_identify_confounders Nat.eqb 8 9 pyorder_alt 9 gen_conf_ex8 2 5 = Ret [7].
Proof. vm_compute. repeat split; reflexivity. Qed.

(** Fuel exhaustion is visible in the generated code too: with too little fuel the helper
    answers [Fuel], never a normal looking value. *)
Example gen_ex_fuel_short :
  gen__identify_confounders_no_checks_no_descendant_pruning_networkx Nat.eqb 3 4 pyorder_id 1
    (id_mk 3 [(0, 1); (1, 2)]) 2 0 = Fuel.
Proof. vm_compute. reflexivity. Qed.

(** The helper hands the graph back with its edges in a different ORDER (removed edges are
    re-added at the end), which is why the restore is stated up to [geq]. *)
Example gen_ex_restore_order :
  gen__identify_confounders_no_checks_no_descendant_pruning_networkx Nat.eqb 4 5 pyorder_id 5 ex_conf 2 3
  = Ret ({| verts := [0; 1; 2; 3]; arcs := [(0, 1); (1, 2); (1, 3); (2, 3)] |}, [1]) /\
  gen__identify_confounders_no_checks_no_descendant_pruning_networkx Nat.eqb 4 5 pyorder_id 5
    (id_mk 4 [(2, 3); (0, 1); (1, 2); (1, 3)]) 2 3
  = Ret ({| verts := [0; 1; 2; 3]; arcs := [(0, 1); (1, 2); (1, 3); (2, 3)] |}, [1]).
Proof. vm_compute. split; reflexivity. Qed.

(** [gen_helper_equiv] on the docstring graph, with the non-trivial iteration order: the helper
    gives the graph back (same nodes, same edges) with {u} = {1}. *)
Example gen_ex_helper_by_theorem :
  exists g' R,
    gen__identify_confounders_no_checks_no_descendant_pruning_networkx Nat.eqb 4 5 pyorder_alt 5 ex_conf 2 3
    = Ret (g', R) /\ verts g' = verts ex_conf /\ (forall a b, arc g' a b <-> arc ex_conf a b) /\
    gen_seteq R [1].
Proof.
  destruct ex_conf_ok as [Hwf Hac].
  destruct (@gen_helper_equiv pyorder_alt ex_conf 4 5 2 3 5 pyorder_alt_ok Hwf Hac)
    as (g' & R & C & H1 & H2 & H3 & H4 & H5).
  - vm_compute. lia.
  - exists g', R. split; [exact H1|]. split; [exact H2|]. split; [exact H3|].
    rewrite ex_conf_fuel in H4. injection H4 as <-. exact H5.
Qed.

(** [gen_confounders_equiv] applied to the docstring graph (non-vacuity). *)
Example gen_ex_confounders_by_theorem :
  exists R C, gen_identify_confounders Nat.eqb 4 5 pyorder_alt 5 ex_conf 2 3 = Ret R /\
              confounders Nat.eqb ex_conf 2 3 = Some C /\ gen_seteq R C /\ In 1 C.
Proof.
  destruct ex_conf_ok as [Hwf Hac].
  destruct (@gen_confounders_statement_holds pyorder_alt ex_conf 4 5 2 3 5 pyorder_alt_ok Hwf Hac)
    as (R & C & HR & HC & HRC).
  - vm_compute; auto 10.
  - vm_compute; auto 10.
  - discriminate.
  - discriminate.
  - vm_compute. lia.
  - exists R, C. split; [exact HR|]. split; [exact HC|]. split; [exact HRC|].
    rewrite ex_conf_run in HC. injection HC as <-. left. reflexivity.
Qed.
