(** Markov.v — executable models of [identify_markov_boundary] and [identify_colliders]
    (cai_causal_graph/identify_utils.py).  DEFINITIONS ONLY; proofs in MarkovProofs.v. *)
From CG Require Import Base Digraph DSep.
Set Implicit Arguments.

Section Markov.
  Variable A : Type.
  Variable eqb : A -> A -> bool.

  (** * Markov boundary of a node of a DAG

      Python (the graph passed [is_dag()], the node exists):
<<
      child_set = set(graph.get_children(node_id))
      mb = list(set(graph.get_parents(node_id)) | child_set
                | {parent for child in child_set for parent in graph.get_parents(child)
                   if parent != node_id})
>>
      The result is a Python set turned into a list: the order is unspecified, so the
      correspondence is up to permutation; the model list is duplicate free. *)
  Definition coparents (g : digraph A) (a : A) : list A :=
    flat_map (fun c => filter (fun p => negb (eqb p a)) (parents eqb g c)) (children eqb g a).

  Definition markov_boundary (g : digraph A) (a : A) : list A :=
    union eqb (parents eqb g a) (union eqb (children eqb g a) (union eqb (coparents g a) [])).

  (** * Mixed graphs: edges with a type, stored with an orientation (source, destination).

      Only [Dir] ([->]) and [Bi] ([<>]) edges put an arrowhead on a node; the other edge types
      may be present and only matter for adjacency. *)
  Definition medge : Type := (A * A * etype)%type.
  Definition msrc (e : medge) : A := fst (fst e).
  Definition mdst (e : medge) : A := snd (fst e).
  Definition mty (e : medge) : etype := snd e.

  (** [graph.get_edge(a, b)]: the edge stored as (source a, destination b), any type. *)
  Definition mg_get_edge (mg : list medge) (a b : A) : option medge :=
    find (fun e => eqb (msrc e) a && eqb (mdst e) b) mg.

  (** [graph.edge_exists(a, b)] (no edge type given). *)
  Definition mg_edge_exists (mg : list medge) (a b : A) : bool :=
    match mg_get_edge mg a b with Some _ => true | None => false end.

  (** [(a, b) in bidirected_edges]. *)
  Definition mg_bi_stored (mg : list medge) (a b : A) : bool :=
    existsb (fun e => eqb (msrc e) a && eqb (mdst e) b && etype_eqb (mty e) Bi) mg.

  (** [graph.get_neighbors(n)]: destinations of the edges stored from [n], sources of the
      edges stored into [n], minus [n] itself; a set, so duplicate free. *)
  Definition mg_neighbors (mg : list medge) (n : A) : list A :=
    filter (fun m => negb (eqb m n))
      (union eqb (map (@mdst) (filter (fun e => eqb (msrc e) n) mg))
         (union eqb (map (@msrc) (filter (fun e => eqb (mdst e) n) mg)) [])).

  (** The loop body of [identify_colliders] for one neighbour. *)
  Definition is_potential_parent (mg : list medge) (n m : A) : bool :=
    let directed_exists :=
      mg_edge_exists mg m n
      && match mg_get_edge mg m n with Some e => etype_eqb (mty e) Dir | None => false end in
    let bidirected_exists := mg_bi_stored mg m n || mg_bi_stored mg n m in
    directed_exists || bidirected_exists.

  Definition potential_parents (mg : list medge) (n : A) : list A :=
    filter (is_potential_parent mg n) (mg_neighbors mg n).

  (** [itertools.combinations(l, 2)]. *)
  Fixpoint pairs2 (l : list A) : list (A * A) :=
    match l with
    | [] => []
    | x :: t => map (pair x) t ++ pairs2 t
    end.

  Definition unshieldedb (mg : list medge) (pp : list A) : bool :=
    forallb (fun pq => negb (mg_edge_exists mg (fst pq) (snd pq) || mg_edge_exists mg (snd pq) (fst pq)))
      (pairs2 pp).

  (** [identify_colliders(graph, unshielded_only)]; [nodes] is [graph.get_node_names()].
      The Python result is a set turned into a list (order unspecified). *)
  Definition identify_colliders (mg : list medge) (nodes : list A) (unshielded_only : bool) : list A :=
    filter (fun n =>
      let pp := potential_parents mg n in
      (2 <=? length pp) && (negb unshielded_only || unshieldedb mg pp)) nodes.

  Definition colliders (mg : list medge) (nodes : list A) : list A := identify_colliders mg nodes false.
  Definition colliders_unshielded (mg : list medge) (nodes : list A) : list A :=
    identify_colliders mg nodes true.

  (** [identify_markov_boundary] on a [Skeleton]: [graph.get_neighbors(node_id)], which
      delegates to the underlying graph's [get_neighbors]. *)
  Definition skeleton_markov_boundary (mg : list medge) (a : A) : list A := mg_neighbors mg a.

  (** * Prop-level vocabulary *)

  (** An arrowhead at [n] on the edge between [m] and [n]. *)
  Definition arrow_into (mg : list medge) (m n : A) : Prop :=
    In (m, n, Dir) mg \/ In (m, n, Bi) mg \/ In (n, m, Bi) mg.

  Definition mg_adjacent (mg : list medge) (a b : A) : Prop :=
    exists t, In (a, b, t) mg \/ In (b, a, t) mg.

  (** No self loops; at most one edge per unordered pair of nodes. *)
  Definition mg_wf (mg : list medge) : Prop :=
    (forall a b t, In (a, b, t) mg -> a <> b)
    /\ (forall a b t a' b' t', In (a, b, t) mg -> In (a', b', t') mg ->
          (a = a' /\ b = b') \/ (a = b' /\ b = a') -> (a, b, t) = (a', b', t')).

  (** Separation in the skeleton (all edges read as undirected): every repeat-free path from
      [a] to [w] has an interior vertex in [S]. *)
  Fixpoint mg_chain (mg : list medge) (p : list A) : Prop :=
    match p with
    | [] => True
    | a :: t => match t with [] => True | b :: _ => mg_adjacent mg a b /\ mg_chain mg t end
    end.

  Definition mg_sep (mg : list medge) (a w : A) (S : list A) : Prop :=
    forall p, NoDup p -> mg_chain mg p -> hd_error p = Some a -> last_error p = Some w ->
      exists l s r, p = l ++ s :: r /\ l <> [] /\ r <> [] /\ In s S.
End Markov.
