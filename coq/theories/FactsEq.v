(** FactsEq.v — the edge-type facts of the regenerated tables (Extracted.v) that Equality.v relies on (C07): the set of
    edge types whose orientation is ignored by Edge.__eq__ and the spellings of the six edge types. Kept apart from
    Facts.v (cache discipline, C04) so that a broken cache fact does not break the equality obligations. *)
From Coq Require Import String List Bool Arith.
From CG Require Import Extracted.
Import ListNotations.
Local Open Scope string_scope.

Definition mem_str (s : string) (l : list string) : bool := existsb (String.eqb s) l.
Definition subset_str (a b : list string) : bool := forallb (fun x => mem_str x b) a.
Definition seteq_str (a b : list string) : bool := subset_str a b && subset_str b a.

Definition modelled_dont_care_direction : list string := ["UNDIRECTED_EDGE"; "BIDIRECTED_EDGE"; "UNKNOWN_EDGE"].
Theorem dont_care_direction_set : seteq_str dont_care_direction modelled_dont_care_direction = true.
Proof. vm_compute. reflexivity. Qed.

Definition pair_eqb_str (a b : string * string) : bool :=
  String.eqb (fst a) (fst b) && String.eqb (snd a) (snd b).
Definition subset_pairs (a b : list (string * string)) : bool :=
  forallb (fun x => existsb (pair_eqb_str x) b) a.

Definition expected_edge_types : list (string * string) :=
  [("UNDIRECTED_EDGE", "--"); ("DIRECTED_EDGE", "->"); ("BIDIRECTED_EDGE", "<>");
   ("UNKNOWN_EDGE", "oo"); ("UNKNOWN_DIRECTED_EDGE", "o>"); ("UNKNOWN_UNDIRECTED_EDGE", "o-")].

Theorem edge_type_values_exact :
  subset_pairs edge_type_values expected_edge_types
  && subset_pairs expected_edge_types edge_type_values
  && Nat.eqb (List.length edge_type_values) 6 = true.
Proof. vm_compute. reflexivity. Qed.
