(** Moral.v — separation in the moralised ancestral graph (Lauritzen, Dawid, Larsen & Leimer
    1990) and the vocabulary used by MoralProofs.v to prove, for ALL finite DAGs, that the
    networkx algorithms modelled in DSep.v ([min_dsep_set] = [minimal_d_separator],
    [nx_min_sepb] = [is_minimal_d_separator]) are correct.

    DEFINITIONS ONLY; the proofs are in MoralProofs.v.

    The moral graph of the sub-DAG induced by a vertex list [D] has the vertices of [D]; two
    distinct vertices are adjacent when there is an arc between them or when they have a
    common child in [D] ([DSep.moral_adjb] is the executable test, [madj] its meaning).
    [mconn g D Z u v]: [u] and [v] are joined in that graph by a walk none of whose vertices
    is in [Z].  The classical theorem: for a DAG, [u <> v] and [u], [v] not in [Z], the set
    [Z] d-separates [u] and [v] iff [~ mconn g D Z u v] where [D] is the set of [u], [v],
    the nodes of [Z] and all their ancestors. *)
From Coq Require Import Relations.Relation_Operators.
From CG Require Import Base Digraph DSep.
Set Implicit Arguments.

Section Moral.
  Variable A : Type.
  Variable eqb : A -> A -> bool.

  (** * Prop level *)

  (** Adjacent in the moral graph of the sub-DAG induced by [D]. *)
  Definition madj (g : digraph A) (D : list A) (a b : A) : Prop :=
    In a D /\ In b D /\ a <> b /\
    (arc g a b \/ arc g b a \/ exists c, In c D /\ arc g a c /\ arc g b c).

  (** One step of a walk in the moral graph that avoids [Z]. *)
  Definition mstep (g : digraph A) (D Z : list A) (a b : A) : Prop :=
    madj g D a b /\ ~ In a Z /\ ~ In b Z.

  (** Connected in the moral graph minus [Z] (reflexive-transitive closure of [mstep]). *)
  Definition mconn (g : digraph A) (D Z : list A) : A -> A -> Prop :=
    clos_refl_trans A (mstep g D Z).

  (** [b] is in [Z] or has a strict descendant in [Z]. *)
  Definition anZ (g : digraph A) (Z : list A) (b : A) : Prop :=
    In b Z \/ exists z, In z Z /\ path g b z.

  (** The consecutive triple [a, b, c] of a walk is open given [Z] (the negation of
      [DSep.triple_blocks], in positive form). *)
  Definition jok (g : digraph A) (Z : list A) (a b c : A) : Prop :=
    (collider_at g a b c -> anZ g Z b) /\ (~ collider_at g a b c -> ~ In b Z).

  (** Every consecutive triple of the vertex sequence [p] is open: [p] is an active walk
      (vertices may repeat).  For a repeat-free [p] this is [~ blocked g Z p]. *)
  Fixpoint wact2 (g : digraph A) (Z : list A) (a b : A) (r : list A) : Prop :=
    match r with
    | [] => True
    | c :: r' => jok g Z a b c /\ wact2 g Z b c r'
    end.

  Definition wact (g : digraph A) (Z : list A) (p : list A) : Prop :=
    match p with
    | a :: b :: r => wact2 g Z a b r
    | _ => True
    end.

  (** [D] contains the parents of its members. *)
  Definition anc_closed (g : digraph A) (D : list A) : Prop :=
    forall a b, arc g a b -> In b D -> In a D.

  (** [x] is [u], [v], a member of [Z] or an ancestor of one of them. *)
  Definition in_anstar (g : digraph A) (u v : A) (Z : list A) (x : A) : Prop :=
    x = u \/ x = v \/ path g x u \/ path g x v \/ anZ g Z x.

  (** [D] is (as a set) the ancestral closure of [{u, v}] and [Z]. *)
  Definition is_anstar (g : digraph A) (u v : A) (Z D : list A) : Prop :=
    forall x, In x D <-> in_anstar g u v Z x.

  (** [z] is adjacent, in the moral graph of [D], to the component of [s] in that graph minus
      [Z] (this is what [_bfs_with_marks] from [s] marks). *)
  Definition touches (g : digraph A) (D Z : list A) (s z : A) : Prop :=
    exists r, mconn g D Z s r /\ madj g D r z.

  (** * Executable *)

  (** The nodes of [xs] together with all their ancestors. *)
  Definition anc_set (g : digraph A) (xs : list A) : list A :=
    union eqb (flat_map (anc eqb g) xs) (union eqb xs []).

  (** The vertex set of the moral graph built by [minimal_d_separator] and
      [is_minimal_d_separator] ([D] in [DSep.min_dsep_set] / [DSep.nx_min_sepb]): [u], [v]
      and their ancestors. *)
  Definition anc2 (g : digraph A) (u v : A) : list A :=
    union eqb (anc eqb g u) (union eqb (anc eqb g v) (union eqb [u; v] [])).

  (** The region explored by [_bfs_with_marks] from [s]: [s] and everything joined to it in
      the moral graph of [D] by a walk avoiding [Z]. *)
  Definition moral_reach (g : digraph A) (D Z : list A) (s : A) : list A :=
    grow eqb (length D) g D Z [s].

  (** The moral-graph test for d-separation of two nodes (Lauritzen et al.). *)
  Definition moral_sepb (g : digraph A) (u v : A) (Z : list A) : bool :=
    let D := anc_set g (u :: v :: Z) in
    negb (memb eqb v (moral_reach g D Z u)).
End Moral.
