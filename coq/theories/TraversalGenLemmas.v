(** TraversalGenLemmas.v — lemmas about the runtime (PyRt.v, PyRtLoop.v) and the [digraph] view
    [pg_of_digraph] shared by TraversalGenCycProofs.v and TraversalGenQProofs.v.  This file mentions NEITHER
    generated file (TraversalGenCyc.v, TraversalGenQ.v). *)
From Coq Require Import Relations.Relation_Operators.
From CG Require Import Base Digraph DigraphProofs Queries QueriesProofs Markov PyRt PyRtLoop.
Set Implicit Arguments.

(** how the option-valued hand models are read as outcomes *)
Definition ob_out (o : option bool) : pyout bool :=
  match o with Some b => Ret b | None => Fuel end.
Definition dep_out (o : option bool) : pyout unit :=
  match o with Some true => Exc PyAssertionError | Some false => Ret tt | None => Fuel end.

Section TraversalGenLemmas.
  Variable A : Type.
  Variable eqb : A -> A -> bool.
  Hypothesis eqb_spec : forall x y, reflect (x = y) (eqb x y).

  Local Notation memb_in := (memb_in eqb eqb_spec).
  Local Notation children_in := (children_in eqb eqb_spec).
  Local Notation parents_in := (parents_in eqb eqb_spec).

  Lemma pgd_inbound_sources (g : digraph A) x :
    map (fun e : medge A => py_edge_source_identifier e) (py_node_get_inbound_edges (pg_of_digraph eqb g) x) = parents eqb g x.
  Proof.
    unfold py_node_get_inbound_edges, pg_of_digraph, parents; cbn [pg_inbound].
    rewrite map_map. apply map_ext. intros e; reflexivity.
  Qed.

  Lemma pgd_outbound_destinations (g : digraph A) x :
    map (fun e : medge A => py_edge_destination_identifier e) (py_node_get_outbound_edges (pg_of_digraph eqb g) x) = children eqb g x.
  Proof.
    unfold py_node_get_outbound_edges, pg_of_digraph, children; cbn [pg_outbound].
    rewrite map_map. apply map_ext. intros e; reflexivity.
  Qed.

  Lemma pgd_get_node (g : digraph A) x :
    In x (verts g) -> py_pg_get_node eqb (pg_of_digraph eqb g) x = Ret x.
  Proof.
    intros Hx. unfold py_pg_get_node, pg_of_digraph; cbn [pg_node_names].
    rewrite (proj2 (memb_in x (verts g)) Hx). reflexivity.
  Qed.

  Lemma memb_rev x (l : list A) : memb eqb x (rev l) = memb eqb x l.
  Proof.
    destruct (memb eqb x l) eqn:E.
    - apply memb_in. apply -> in_rev. apply memb_in, E.
    - apply (memb_false eqb eqb_spec). intros H. apply in_rev in H.
      apply (proj1 (memb_false eqb eqb_spec x l) E H).
  Qed.

  Lemma py_list_pop_rev (X : Type) (x : X) l : py_list_pop (rev (x :: l)) = Ret (rev l, x).
  Proof. unfold py_list_pop. rewrite rev_involutive. reflexivity. Qed.

  Lemma py_for_append (X Y R Res : Type) (inj : pyout R -> Res) (f : X -> Y) (k : list Y -> Res) :
    forall (es : list X) (tc : list Y),
      py_for inj es tc (fun e t => @Cont (list Y) R (py_list_append t (f e))) k = k (tc ++ map f es).
  Proof.
    induction es as [|e es IH]; intros tc; cbn [py_for map].
    - rewrite app_nil_r. reflexivity.
    - rewrite IH. unfold py_list_append. rewrite <- app_assoc. reflexivity.
  Qed.

  Local Notation eqb_refl := (eqb_refl eqb eqb_spec).

  Lemma lookupb_dict_get x (l : list (A * bool)) : lookupb eqb x l = py_dict_get eqb l x.
  Proof. induction l as [|[k r] l IH]; cbn; [reflexivity|]. rewrite IH. reflexivity. Qed.

  Lemma dict_get_setitem (V : Type) (d : list (A * V)) x v y :
    py_dict_get eqb (py_dict_setitem eqb d x v) y = if eqb y x then Some v else py_dict_get eqb d y.
  Proof.
    induction d as [|[k w] d IH]; cbn [py_dict_setitem py_dict_get].
    - reflexivity.
    - destruct (eqb_spec x k) as [->|Hxk]; cbn [py_dict_get].
      + destruct (eqb y k); reflexivity.
      + destruct (eqb_spec y k) as [->|Hyk].
        * destruct (eqb_spec k x) as [->|_]; [contradiction|reflexivity].
        * exact IH.
  Qed.

  Lemma dict_setitem_keys (V : Type) (d : list (A * V)) x v :
    map fst (py_dict_setitem eqb d x v) = if memb eqb x (map fst d) then map fst d else map fst d ++ [x].
  Proof.
    induction d as [|[k w] d IH]; cbn [py_dict_setitem map fst memb existsb]; [reflexivity|].
    destruct (eqb x k); cbn [map fst orb]; [reflexivity|].
    rewrite IH. unfold memb. destruct (existsb (eqb x) (map fst d)); reflexivity.
  Qed.

  Lemma dict_setitem_nodup (V : Type) (d : list (A * V)) x v :
    NoDup (map fst d) -> NoDup (map fst (py_dict_setitem eqb d x v)).
  Proof.
    intros Hnd. rewrite dict_setitem_keys. destruct (memb eqb x (map fst d)) eqn:E; [exact Hnd|].
    apply (memb_false eqb eqb_spec) in E.
    apply NoDup_rev in Hnd. rewrite <- (rev_involutive (map fst d ++ [x])).
    apply NoDup_rev. rewrite rev_app_distr. cbn [rev app]. constructor; [|exact Hnd].
    intros H. apply E. apply in_rev, H.
  Qed.

  Lemma dict_get_in (V : Type) (d : list (A * V)) x v :
    NoDup (map fst d) -> (py_dict_get eqb d x = Some v <-> In (x, v) d).
  Proof.
    induction d as [|[k w] d IH]; cbn [py_dict_get map fst]; intros Hnd.
    - split; [discriminate|intros []].
    - inversion Hnd as [|? ? Hnin Hnd']; subst. destruct (eqb_spec x k) as [->|Hxk].
      + split.
        * intros E; inversion E; subst. left; reflexivity.
        * intros [E|Hin]; [inversion E; reflexivity|].
          exfalso. apply Hnin. change k with (fst (k, v)). apply in_map, Hin.
      + rewrite (IH Hnd'). split.
        * intros H; right; exact H.
        * intros [E|Hin]; [inversion E; subst; contradiction|exact Hin].
  Qed.

  (** hand-model cache (newest first) and generated dictionary (insertion order) denote the same map *)
  Definition seen_rel (seen d : list (A * bool)) : Prop :=
    NoDup (map fst d) /\ forall x, lookupb eqb x seen = py_dict_get eqb d x.

  Lemma seen_rel_set seen d x r :
    seen_rel seen d -> seen_rel ((x, r) :: seen) (py_dict_setitem eqb d x r).
  Proof.
    intros [Hnd Hget]. split; [apply dict_setitem_nodup, Hnd|].
    intros y. rewrite dict_get_setitem. cbn [lookupb]. rewrite Hget. reflexivity.
  Qed.

  Lemma pgd_outbound_children (g : digraph A) x :
    map (fun e : medge A => py_edge_destination e) (py_node__outbound_edges (pg_of_digraph eqb g) x)
    = children eqb g x.
  Proof.
    unfold py_node__outbound_edges, pg_of_digraph, children; cbn [pg_outbound].
    rewrite map_map. apply map_ext. intros e; reflexivity.
  Qed.

  Lemma pgd_is_sink (g : digraph A) x :
    py_node_is_sink_node (pg_of_digraph eqb g) x = match children eqb g x with [] => true | _ => false end.
  Proof.
    rewrite <- pgd_outbound_children. unfold py_node_is_sink_node, py_node__outbound_edges.
    destruct (pg_outbound (pg_of_digraph eqb g) x); reflexivity.
  Qed.

  Lemma py_any_app l r : py_any (l ++ [r]) = py_any l || r.
  Proof. unfold py_any. rewrite existsb_app. cbn [existsb]. rewrite orb_false_r. reflexivity. Qed.

  Lemma py_set_add_in (s : list A) x v : In v (py_set_add eqb s x) <-> In v s \/ v = x.
  Proof.
    unfold py_set_add. destruct (memb eqb x s) eqn:E.
    - split; [intros H; left; exact H|]. intros [H| ->]; [exact H|apply memb_in, E].
    - rewrite in_app_iff. cbn [In]. split.
      + intros [H|[H|[]]]; [left; exact H|right; symmetry; exact H].
      + intros [H|H]; [left; exact H|right; left; symmetry; exact H].
  Qed.

  Lemma py_set_add_nodup (s : list A) x : NoDup s -> NoDup (py_set_add eqb s x).
  Proof.
    intros Hnd. unfold py_set_add. destruct (memb eqb x s) eqn:E; [exact Hnd|].
    apply (memb_false eqb eqb_spec) in E.
    apply NoDup_rev in Hnd. rewrite <- (rev_involutive (s ++ [x])).
    apply NoDup_rev. rewrite rev_app_distr. cbn [rev app]. constructor; [|exact Hnd].
    intros H. apply E. apply in_rev, H.
  Qed.

End TraversalGenLemmas.
