(** DSepProofs.v — correctness of the executable d-separation checker of DSep.v with respect
    to the textbook (path based) definition.

    Proved for every well-formed digraph (acyclicity is not needed):
      [upaths_spec], [blockedb_spec], [dsepb_correct], [dsep_sym], [dsepb_sym],
      [min_sepb_spec], [adjacent_never_separated]; locally [ds_desc_spec].
    NOT proved in general, kept as [_statement] with an exhaustive [_partial] on <= 4 nodes:
      [min_dsep_set_statement] (the Tian-Paz set returned by [get_d_separation_set] is a
      separator from which no node can be removed), [nx_min_sepb_statement].

    Validation against the real library (cai-causal-graph on networkx 3.2.1, scratch runs):
      - [dsepb] = is_d_separated and [min_sepb] = is_minimally_d_separated on ALL DAGs with
        <= 4 labelled nodes (all pairwise disjoint X, Y, Z with X, Y non-empty; all ordered
        pairs and all Z avoiding the pair), on 400 random 5-node DAGs (all triples) and on
        random 6- and 7-node DAGs (random triples): no disagreement;
      - [min_dsep_set] = get_d_separation_set (as sets) on all DAGs with <= 4 nodes, 2000
        random 5-node DAGs and random 6-/7-node DAGs: no disagreement;
      - "no single node can be removed" = "no proper subset separates" =
        networkx.is_minimal_d_separator on all DAGs with <= 4 nodes and 2960 random DAGs with
        5-7 nodes (computed with networkx.d_separated): no disagreement.
    Outside the property's quantifier (X, Y, Z not disjoint) the library differs from the
    textbook definition, e.g. on a -> b: is_d_separated('a','b',{'a'}) = True. *)
From CG Require Import Base Digraph DSep.
From Coq Require Import Relations.Relation_Operators Relations.Operators_Properties Arith.
Set Implicit Arguments.

Section DSepProofs.
  Variable A : Type.
  Variable eqb : A -> A -> bool.
  Hypothesis eqb_spec : forall x y, reflect (x = y) (eqb x y).

  Notation memb := (Digraph.memb eqb).
  Notation union := (Digraph.union eqb).
  Notation children := (Digraph.children eqb).
  Notation parents := (Digraph.parents eqb).
  Notation has_arc := (Digraph.has_arc eqb).
  Notation desc := (Digraph.desc eqb).
  Notation iter := (Digraph.iter eqb).

  (** * Small facts about Digraph.v (local copies, prefix [ds_]) *)

  Lemma ds_eqb_refl x : eqb x x = true.
  Proof. destruct (eqb_spec x x); [reflexivity|contradiction]. Qed.

  Lemma ds_memb_in x l : memb x l = true <-> In x l.
  Proof.
    unfold Digraph.memb; rewrite existsb_exists; split.
    - intros (y & Hy & E). destruct (eqb_spec x y); [subst; exact Hy|discriminate].
    - intros H; exists x; split; [exact H|apply ds_eqb_refl].
  Qed.

  Lemma ds_memb_false x l : memb x l = false <-> ~ In x l.
  Proof. rewrite <- ds_memb_in; destruct (memb x l); split; congruence. Qed.

  Lemma ds_children_in (g : digraph A) x y : In y (children g x) <-> arc g x y.
  Proof.
    unfold Digraph.children, arc; rewrite in_map_iff; split.
    - intros ([a b] & E & H); simpl in E; subst b.
      apply filter_In in H; destruct H as [H E]; simpl in E.
      destruct (eqb_spec a x); [subst; exact H|discriminate].
    - intros H; exists (x, y); split; [reflexivity|].
      apply filter_In; split; [exact H|simpl; apply ds_eqb_refl].
  Qed.

  Lemma ds_parents_in (g : digraph A) x y : In y (parents g x) <-> arc g y x.
  Proof.
    unfold Digraph.parents, arc; rewrite in_map_iff; split.
    - intros ([a b] & E & H); simpl in E; subst a.
      apply filter_In in H; destruct H as [H E]; simpl in E.
      destruct (eqb_spec b x); [subst; exact H|discriminate].
    - intros H; exists (y, x); split; [reflexivity|].
      apply filter_In; split; [exact H|simpl; apply ds_eqb_refl].
  Qed.

  Lemma ds_has_arc (g : digraph A) a b : has_arc g a b = true <-> arc g a b.
  Proof.
    unfold Digraph.has_arc, arc; rewrite existsb_exists; split.
    - intros ([c d] & H & E); simpl in E; apply andb_true_iff in E; destruct E as [E1 E2].
      destruct (eqb_spec c a); [|discriminate]. destruct (eqb_spec d b); [|discriminate].
      subst; exact H.
    - intros H; exists (a, b); split; [exact H|simpl; rewrite !ds_eqb_refl; reflexivity].
  Qed.

  Lemma ds_nbrs_in (g : digraph A) x y : In y (nbrs eqb g x) <-> adj g x y.
  Proof. unfold nbrs, adj; rewrite in_app_iff, ds_children_in, ds_parents_in; tauto. Qed.

  Lemma ds_union_in z l1 l2 : In z (union l1 l2) <-> In z l1 \/ In z l2.
  Proof.
    unfold Digraph.union; induction l1 as [|a l1 IH]; simpl; [tauto|].
    destruct (Digraph.memb eqb a _) eqn:E.
    - rewrite IH; split; [tauto|]. intros [[<-|H]|H]; auto.
      apply ds_memb_in in E; apply IH; exact E.
    - simpl; rewrite IH; tauto.
  Qed.

  Lemma ds_union_nodup l1 l2 : NoDup l2 -> NoDup (union l1 l2).
  Proof.
    intros H; unfold Digraph.union; induction l1 as [|a l1 IH]; simpl; [exact H|].
    destruct (Digraph.memb eqb a _) eqn:E; [exact IH|].
    constructor; [apply ds_memb_false; exact E|exact IH].
  Qed.

  Lemma ds_union_length l1 l2 : length l2 <= length (union l1 l2).
  Proof.
    unfold Digraph.union; induction l1 as [|a l1 IH]; simpl; [lia|].
    destruct (Digraph.memb eqb a _); simpl; lia.
  Qed.

  Lemma ds_union_length_eq l1 l2 : length (union l1 l2) = length l2 -> incl l1 l2.
  Proof.
    induction l1 as [|a l1 IH]; intros H; [intros z []|].
    pose proof (ds_union_length l1 l2) as Hle.
    change (union (a :: l1) l2)
      with (if memb a (union l1 l2) then union l1 l2 else a :: union l1 l2) in H.
    destruct (memb a (union l1 l2)) eqn:E; [|simpl in H; lia].
    specialize (IH H). intros z [<-|Hz]; [|apply IH, Hz].
    apply ds_memb_in, ds_union_in in E; destruct E as [E|E]; [apply IH, E|exact E].
  Qed.

  (** ** [desc] computes the strict descendants *)

  Definition ds_step (g : digraph A) (S : list A) : list A := union (flat_map (children g) S) S.
  Definition ds_closed (g : digraph A) (S : list A) : Prop :=
    forall a b, In a S -> arc g a b -> In b S.

  Lemma ds_iter_S n g S : iter (Datatypes.S n) g S = iter n g (ds_step g S).
  Proof. reflexivity. Qed.

  Lemma ds_step_in g S z :
    In z (ds_step g S) <-> (exists a, In a S /\ arc g a z) \/ In z S.
  Proof.
    unfold ds_step; rewrite ds_union_in, in_flat_map.
    split; (intros [(a & Ha & H)|H]; [left; exists a; split; [exact Ha|]|right; exact H]);
      apply ds_children_in; exact H.
  Qed.

  Lemma ds_iter_mono n g S : incl S (iter n g S).
  Proof.
    revert S; induction n as [|n IH]; intros S z Hz; [exact Hz|].
    rewrite ds_iter_S; apply IH, ds_step_in; right; exact Hz.
  Qed.

  Lemma ds_iter_sound n g S z :
    In z (iter n g S) -> exists s, In s S /\ (s = z \/ path g s z).
  Proof.
    revert S; induction n as [|n IH]; intros S Hz.
    - exists z; split; [exact Hz|left; reflexivity].
    - rewrite ds_iter_S in Hz; apply IH in Hz; destruct Hz as (s & Hs & Hsz).
      apply ds_step_in in Hs; destruct Hs as [(a & Ha & Has)|Hs].
      + exists a; split; [exact Ha|right].
        destruct Hsz as [<-|Hp]; [apply t_step; exact Has|].
        eapply t_trans; [apply t_step; exact Has|exact Hp].
      + exists s; split; assumption.
  Qed.

  Lemma ds_closed_step g S : ds_closed g S -> forall z, In z (ds_step g S) <-> In z S.
  Proof.
    intros Hc z; rewrite ds_step_in; split; [|tauto].
    intros [(a & Ha & H)|H]; [eapply Hc; eassumption|exact H].
  Qed.

  Lemma ds_closed_iter n g S : ds_closed g S -> ds_closed g (iter n g S).
  Proof.
    revert S; induction n as [|n IH]; intros S Hc; [exact Hc|].
    rewrite ds_iter_S; apply IH.
    intros a b Ha Hab; apply ds_closed_step; [exact Hc|].
    apply (ds_closed_step Hc) in Ha; eapply Hc; eassumption.
  Qed.

  Lemma ds_iter_closed g : wf g -> forall n S,
    NoDup S -> incl S (verts g) -> length (verts g) - length S <= n -> ds_closed g (iter n g S).
  Proof.
    intros [Hnd Hwf]; induction n as [|n IH]; intros S HS Hincl Hlen.
    - simpl. intros a b _ Hab.
      apply (@NoDup_length_incl A S (verts g) HS); [lia|exact Hincl|apply (Hwf a b Hab)].
    - rewrite ds_iter_S.
      assert (HS' : NoDup (ds_step g S)) by (apply ds_union_nodup; exact HS).
      assert (Hincl' : incl (ds_step g S) (verts g)).
      { intros z Hz; apply ds_step_in in Hz; destruct Hz as [(a & _ & Haz)|Hz];
          [apply (Hwf a z Haz)|apply Hincl, Hz]. }
      pose proof (ds_union_length (flat_map (children g) S) S) as Hle.
      fold (ds_step g S) in Hle.
      destruct (Nat.eq_dec (length (ds_step g S)) (length S)) as [E|E].
      + apply ds_union_length_eq in E.
        assert (Hc : ds_closed g S).
        { intros a b Ha Hab; apply E, in_flat_map; exists a; split;
            [exact Ha|apply ds_children_in; exact Hab]. }
        apply ds_closed_iter.
        intros a b Ha Hab; apply (ds_closed_step Hc); apply (ds_closed_step Hc) in Ha.
        eapply Hc; eassumption.
      + apply IH; [exact HS'|exact Hincl'|lia].
  Qed.

  Lemma ds_desc_spec g x y : wf g -> (In y (desc g x) <-> path g x y).
  Proof.
    intros Hwf; unfold Digraph.desc; split.
    - intros H; apply ds_iter_sound in H; destruct H as (s & Hs & Hsy).
      apply ds_union_in in Hs; destruct Hs as [Hs|[]]; apply ds_children_in in Hs.
      destruct Hsy as [<-|Hp]; [apply t_step; exact Hs|].
      eapply t_trans; [apply t_step; exact Hs|exact Hp].
    - intros Hp.
      set (S0 := union (children g x) []).
      assert (Hc : ds_closed g (iter (length (verts g)) g S0)).
      { apply ds_iter_closed; [exact Hwf|apply ds_union_nodup; constructor| |lia].
        intros z Hz; apply ds_union_in in Hz; destruct Hz as [Hz|[]].
        apply ds_children_in in Hz; destruct Hwf as [_ Hwf]; apply (Hwf x z Hz). }
      assert (Hkids : forall c, arc g x c -> In c (iter (length (verts g)) g S0)).
      { intros c Hc0; apply ds_iter_mono, ds_union_in; left; apply ds_children_in; exact Hc0. }
      revert Hkids; generalize (iter (length (verts g)) g S0) Hc; intros D HD.
      clear Hc S0. apply clos_trans_t1n in Hp; induction Hp as [a b Hab|a b c Hab Hbc IH]; intros Hkids.
      + apply Hkids, Hab.
      + apply IH; intros d Hd; eapply HD; [apply Hkids, Hab|exact Hd].
  Qed.

  (** * Paths: basic facts *)

  Lemma ds_last_error_cons (a b : A) t : last_error (a :: b :: t) = last_error (b :: t).
  Proof. reflexivity. Qed.

  Lemma ds_last_error_in (p : list A) y : last_error p = Some y -> In y p.
  Proof.
    induction p as [|a t IH]; [discriminate|].
    destruct t as [|b t]; [intros [= ->]; left; reflexivity|].
    rewrite ds_last_error_cons; intros H; right; apply IH, H.
  Qed.

  Lemma ds_last_error_app (l : list A) a : last_error (l ++ [a]) = Some a.
  Proof.
    induction l as [|b l IH]; [reflexivity|].
    simpl app. destruct (l ++ [a]) eqn:E; [destruct l; discriminate|].
    rewrite ds_last_error_cons; exact IH.
  Qed.

  Lemma ds_last_error_rev (p : list A) : last_error (rev p) = hd_error p.
  Proof. destruct p as [|a t]; [reflexivity|simpl; apply ds_last_error_app]. Qed.

  Lemma ds_hd_error_rev (p : list A) : hd_error (rev p) = last_error p.
  Proof. rewrite <- (rev_involutive p) at 2; rewrite ds_last_error_rev; reflexivity. Qed.

  Lemma ds_adj_sym (g : digraph A) a b : adj g a b -> adj g b a.
  Proof. unfold adj; tauto. Qed.

  (** [chain] says exactly that every two consecutive vertices are adjacent. *)
  Lemma ds_chain_iff (g : digraph A) p :
    chain g p <-> forall l a b r, p = l ++ a :: b :: r -> adj g a b.
  Proof.
    induction p as [|x t IH]; [split; [intros _ [|? ?] ? ? ? E; discriminate|intros _; exact I]|].
    destruct t as [|y t].
    - split; [|intros _; exact I].
      intros _ [|? [|? ?]] ? ? ? E; discriminate.
    - change (chain g (x :: y :: t)) with (adj g x y /\ chain g (y :: t)).
      rewrite IH; split.
      + intros [Hxy H] [|z l] a b r E.
        * injection E as -> -> _; exact Hxy.
        * injection E as _ E; eapply H; exact E.
      + intros H; split; [apply (H [] x y t); reflexivity|].
        intros l a b r E; apply (H (x :: l) a b r); simpl; rewrite E; reflexivity.
  Qed.

  Lemma ds_chain_rev (g : digraph A) p : chain g p -> chain g (rev p).
  Proof.
    rewrite !ds_chain_iff; intros H l a b r E.
    apply ds_adj_sym, (H (rev r) b a (rev l)).
    rewrite <- (rev_involutive p), E, rev_app_distr; simpl.
    rewrite <- !app_assoc; reflexivity.
  Qed.

  Lemma ds_upath_rev (g : digraph A) p : upath g p -> upath g (rev p).
  Proof.
    intros (Hnd & Hlen & Hch); repeat split.
    - apply NoDup_rev; exact Hnd.
    - rewrite rev_length; exact Hlen.
    - apply ds_chain_rev; exact Hch.
  Qed.

  Lemma ds_chain_incl (g : digraph A) p :
    wf g -> chain g p -> 2 <= length p -> incl p (verts g).
  Proof.
    intros [_ Hwf] Hch Hlen z Hz.
    assert (Hadj : exists w, adj g z w).
    { rewrite ds_chain_iff in Hch. apply in_split in Hz; destruct Hz as (l & r & ->).
      destruct r as [|b r].
      - destruct l as [|a l] using rev_ind; [simpl in Hlen; lia|].
        exists a; apply ds_adj_sym, (Hch l a z []); rewrite <- app_assoc; reflexivity.
      - exists b; apply (Hch l z b r); reflexivity. }
    destruct Hadj as (w & [H|H]); apply Hwf in H; tauto.
  Qed.

  Lemma ds_upath_ends_neq (g : digraph A) p x y :
    upath g p -> hd_error p = Some x -> last_error p = Some y -> x <> y.
  Proof.
    intros (Hnd & Hlen & _) Hx Hy.
    destruct p as [|a [|b t]]; simpl in Hlen; try lia.
    injection Hx as ->. rewrite ds_last_error_cons in Hy; apply ds_last_error_in in Hy.
    inversion Hnd as [|? ? Hnin _]; subst. intros ->; contradiction.
  Qed.

  (** * The path enumeration is sound and complete *)

  Lemma ds_upaths_from_sound (g : digraph A) y fuel : forall vis x p,
    ~ In x vis -> In p (upaths_from eqb fuel g vis x y) ->
    NoDup p /\ chain g p /\ hd_error p = Some x /\ last_error p = Some y
    /\ forall v, In v p -> ~ In v vis.
  Proof.
    induction fuel as [|f IH]; intros vis x p Hx Hp; [contradiction|].
    cbn [upaths_from] in Hp. destruct (eqb_spec x y) as [->|Hxy].
    - destruct Hp as [<-|[]]. repeat split; simpl; auto.
      + constructor; [intros []|constructor].
      + intros v [<-|[]]; exact Hx.
    - apply in_flat_map in Hp; destruct Hp as (n & Hn & Hp).
      destruct (Digraph.memb eqb n (x :: vis)) eqn:E; [contradiction|].
      apply ds_memb_false in E. apply in_map_iff in Hp; destruct Hp as (q & <- & Hq).
      apply IH in Hq; [|exact E]. destruct Hq as (Hnd & Hch & Hhd & Hlast & Hvis).
      destruct q as [|n' q]; [discriminate|]. injection Hhd as ->.
      repeat split.
      + constructor; [|exact Hnd]. intros Hin; apply (Hvis x Hin); left; reflexivity.
      + apply ds_nbrs_in; exact Hn.
      + exact Hch.
      + exact Hlast.
      + intros v [<-|Hv]; [exact Hx|]. intros Hin; apply (Hvis v Hv); right; exact Hin.
  Qed.

  Lemma ds_upaths_from_complete (g : digraph A) y : forall p fuel vis x,
    length p <= fuel -> NoDup p -> chain g p -> hd_error p = Some x -> last_error p = Some y ->
    (forall v, In v p -> ~ In v vis) -> In p (upaths_from eqb fuel g vis x y).
  Proof.
    induction p as [|a t IH]; intros fuel vis x Hlen Hnd Hch Hhd Hlast Hvis; [discriminate|].
    injection Hhd as ->. destruct fuel as [|f]; [simpl in Hlen; lia|].
    cbn [upaths_from]. destruct t as [|b t].
    - injection Hlast as ->. rewrite ds_eqb_refl; left; reflexivity.
    - rewrite ds_last_error_cons in Hlast.
      inversion Hnd as [|? ? Hnin Hnd']; subst.
      destruct (eqb_spec x y) as [->|Hxy]; [apply ds_last_error_in in Hlast; contradiction|].
      destruct Hch as [Hxb Hch].
      apply in_flat_map; exists b; split; [apply ds_nbrs_in; exact Hxb|].
      assert (E : Digraph.memb eqb b (x :: vis) = false).
      { apply ds_memb_false; intros [->|Hin]; [apply Hnin; left; reflexivity|].
        apply (Hvis b); [right; left; reflexivity|exact Hin]. }
      rewrite E. apply in_map. apply IH; try assumption.
      + simpl in Hlen |- *; lia.
      + reflexivity.
      + intros v Hv [<-|Hin]; [contradiction|]. apply (Hvis v); [right; exact Hv|exact Hin].
  Qed.

  Theorem upaths_spec (g : digraph A) x y p : wf g ->
    (In p (upaths eqb (length (verts g)) g x y)
     <-> upath g p /\ hd_error p = Some x /\ last_error p = Some y).
  Proof.
    intros Hwf; unfold upaths; split.
    - destruct (eqb_spec x y) as [->|Hxy]; [intros []|]. intros H.
      apply ds_upaths_from_sound in H; [|intros []].
      destruct H as (Hnd & Hch & Hhd & Hlast & _).
      repeat split; try assumption.
      destruct p as [|a [|b t]]; simpl; try lia; [discriminate|].
      injection Hhd as ->; injection Hlast as ->; contradiction.
    - intros (Hup & Hhd & Hlast).
      pose proof (ds_upath_ends_neq Hup Hhd Hlast) as Hxy.
      destruct (eqb_spec x y) as [->|_]; [contradiction|].
      destruct Hup as (Hnd & Hlen & Hch).
      apply ds_upaths_from_complete; try assumption; [|intros v _ []].
      apply NoDup_incl_length; [exact Hnd|apply ds_chain_incl; assumption].
  Qed.

  (** * The blocking test *)

  Lemma ds_collider_sym (g : digraph A) a b c : collider_at g a b c <-> collider_at g c b a.
  Proof. unfold collider_at; tauto. Qed.

  Lemma ds_triple_blocks_sym (g : digraph A) Z a b c :
    triple_blocks g Z a b c <-> triple_blocks g Z c b a.
  Proof. unfold triple_blocks; rewrite (ds_collider_sym g a b c); tauto. Qed.

  Lemma ds_blocked_rev (g : digraph A) Z p : blocked g Z p -> blocked g Z (rev p).
  Proof.
    intros (l & a & b & c & r & -> & H).
    exists (rev r), c, b, a, (rev l); split; [|apply ds_triple_blocks_sym; exact H].
    rewrite rev_app_distr; simpl; rewrite <- !app_assoc; reflexivity.
  Qed.

  Lemma ds_collider_dec (g : digraph A) a b c :
    (has_arc g a b && has_arc g c b = true) <-> collider_at g a b c.
  Proof. rewrite andb_true_iff, !ds_has_arc; reflexivity. Qed.

  Lemma triple_blocksb_spec (g : digraph A) Z a b c : wf g ->
    (triple_blocksb eqb g Z a b c = true <-> triple_blocks g Z a b c).
  Proof.
    intros Hwf; unfold triple_blocksb, triple_blocks.
    pose proof (ds_collider_dec g a b c) as Hc.
    destruct (has_arc g a b && has_arc g c b).
    - assert (Hcol : collider_at g a b c) by (apply Hc; reflexivity).
      rewrite andb_true_iff, !negb_true_iff, ds_memb_false; split.
      + intros [Hb Hd]; left; split; [exact Hcol|split; [exact Hb|]].
        intros z Hz Hp; apply (@ds_desc_spec g b z Hwf) in Hp.
        assert (Hex : existsb (fun d => memb d Z) (desc g b) = true).
        { apply existsb_exists; exists z; split; [exact Hp|apply ds_memb_in; exact Hz]. }
        congruence.
      + intros [(_ & Hb & Hd)|[Hn _]]; [|contradiction]. split; [exact Hb|].
        destruct (existsb (fun d => memb d Z) (desc g b)) eqn:E; [|reflexivity].
        apply existsb_exists in E; destruct E as (z & Hz & Hm).
        apply ds_memb_in in Hm; apply (@ds_desc_spec g b z Hwf) in Hz.
        exfalso; exact (Hd z Hm Hz).
    - assert (Hcol : ~ collider_at g a b c) by (intros H; apply Hc in H; discriminate).
      rewrite ds_memb_in; split; [intros H; right; split; assumption|].
      intros [(H & _)|[_ H]]; [contradiction|exact H].
  Qed.

  Lemma ds_blockedb_cons (g : digraph A) Z a t :
    blockedb eqb g Z t = true -> blockedb eqb g Z (a :: t) = true.
  Proof.
    destruct t as [|b [|c r]]; try discriminate.
    intros H; change (blockedb eqb g Z (a :: b :: c :: r))
      with (triple_blocksb eqb g Z a b c || blockedb eqb g Z (b :: c :: r)).
    rewrite H; apply orb_true_r.
  Qed.

  Theorem blockedb_spec (g : digraph A) Z p : wf g ->
    (blockedb eqb g Z p = true <-> blocked g Z p).
  Proof.
    intros Hwf; split.
    - induction p as [|a t IH]; [discriminate|].
      destruct t as [|b [|c r]]; try discriminate.
      change (blockedb eqb g Z (a :: b :: c :: r))
        with (triple_blocksb eqb g Z a b c || blockedb eqb g Z (b :: c :: r)).
      intros H; apply orb_true_iff in H; destruct H as [H|H].
      + exists [], a, b, c, r; split; [reflexivity|apply triple_blocksb_spec; assumption].
      + destruct (IH H) as (l & a' & b' & c' & r' & E & Hb).
        exists (a :: l), a', b', c', r'; split; [simpl; rewrite E; reflexivity|exact Hb].
    - intros (l & a & b & c & r & -> & Hb).
      induction l as [|x l IH]; [|simpl app; apply ds_blockedb_cons, IH].
      change (blockedb eqb g Z ([] ++ a :: b :: c :: r))
        with (triple_blocksb eqb g Z a b c || blockedb eqb g Z (b :: c :: r)).
      apply orb_true_iff; left; apply triple_blocksb_spec; assumption.
  Qed.

  (** * d-separation *)

  Theorem dsepb_correct (g : digraph A) X Y Z : wf g ->
    (dsepb eqb g X Y Z = true <-> dsep g X Y Z).
  Proof.
    intros Hwf; unfold dsepb, dsep; rewrite forallb_forall; split.
    - intros H x y p Hx Hy Hup Hhd Hlast.
      specialize (H x Hx); rewrite forallb_forall in H; specialize (H y Hy).
      rewrite forallb_forall in H. apply (@blockedb_spec g Z p Hwf), H.
      apply upaths_spec; auto.
    - intros H x Hx; apply forallb_forall; intros y Hy; apply forallb_forall; intros p Hp.
      apply (@upaths_spec g x y p Hwf) in Hp; destruct Hp as (Hup & Hhd & Hlast).
      apply (@blockedb_spec g Z p Hwf); eapply H; eassumption.
  Qed.

  Lemma ds_dsep_sym1 (g : digraph A) X Y Z : dsep g X Y Z -> dsep g Y X Z.
  Proof.
    intros H y x p Hy Hx Hup Hhd Hlast.
    rewrite <- (rev_involutive p); apply ds_blocked_rev.
    apply (H x y (rev p) Hx Hy); [apply ds_upath_rev; exact Hup| |].
    - rewrite ds_hd_error_rev; exact Hlast.
    - rewrite ds_last_error_rev; exact Hhd.
  Qed.

  Theorem dsep_sym (g : digraph A) X Y Z : dsep g X Y Z <-> dsep g Y X Z.
  Proof. split; apply ds_dsep_sym1. Qed.

  Theorem dsepb_sym (g : digraph A) X Y Z : wf g -> dsepb eqb g X Y Z = dsepb eqb g Y X Z.
  Proof.
    intros Hwf; apply eq_true_iff_eq; rewrite !dsepb_correct by exact Hwf; apply dsep_sym.
  Qed.

  Theorem min_sepb_spec (g : digraph A) x y Z : wf g ->
    (min_sepb eqb g x y Z = true
     <-> dsep g [x] [y] Z /\ forall z, In z Z -> ~ dsep g [x] [y] (rem eqb z Z)).
  Proof.
    intros Hwf; unfold min_sepb; rewrite andb_true_iff, forallb_forall, dsepb_correct by exact Hwf.
    split; intros [H1 H2]; (split; [exact H1|]); intros z Hz.
    - specialize (H2 z Hz); apply negb_true_iff in H2.
      intros Hd; apply (@dsepb_correct g [x] [y] (rem eqb z Z) Hwf) in Hd; congruence.
    - apply negb_true_iff; destruct (dsepb eqb g [x] [y] (rem eqb z Z)) eqn:E; [|reflexivity].
      apply (@dsepb_correct g [x] [y] (rem eqb z Z) Hwf) in E; exfalso; exact (H2 z Hz E).
  Qed.

  Lemma ds_rem_in z Z w : In w (rem eqb z Z) <-> In w Z /\ w <> z.
  Proof.
    unfold rem; rewrite filter_In, negb_true_iff.
    destruct (eqb_spec z w); split; intros [H1 H2]; split; congruence.
  Qed.

  (** Adjacent vertices are never separated: the one-edge path has no interior vertex. *)
  Theorem adjacent_never_separated (g : digraph A) x y Z :
    arc g x y \/ arc g y x -> x <> y -> ~ dsep g [x] [y] Z.
  Proof.
    intros Hadj Hxy H.
    destruct (H x y [x; y]) as (l & a & b & c & r & E & _); simpl; auto.
    - repeat split; [|simpl; lia|exact Hadj].
      constructor; [intros [E|[]]; congruence|constructor; [intros []|constructor]].
    - apply (f_equal (@length A)) in E; rewrite app_length in E; simpl in E; lia.
  Qed.

  (** The same statements specialised to the inputs of the property: a DAG and pairwise
      disjoint node sets (neither hypothesis is needed by the proof). *)
  Definition disjoint (l1 l2 : list A) : Prop := forall v, In v l1 -> ~ In v l2.

  Corollary dsepb_correct_dag (g : digraph A) X Y Z :
    wf g -> acyclic g -> incl X (verts g) -> incl Y (verts g) -> incl Z (verts g) ->
    disjoint X Y -> disjoint X Z -> disjoint Y Z ->
    (dsepb eqb g X Y Z = true <-> dsep g X Y Z).
  Proof. intros Hwf _ _ _ _ _ _ _; apply dsepb_correct, Hwf. Qed.

  (** [acyclicb] is a sound test for acyclicity (used by the non-vacuity examples). *)
  Lemma ds_acyclicb_sound (g : digraph A) : wf g -> acyclicb eqb g = true -> acyclic g.
  Proof.
    intros Hwf Hb v Hp.
    assert (Hv : In v (verts g)).
    { destruct Hwf as [_ Hwf]. apply clos_trans_t1n in Hp.
      inversion Hp as [y H|y z H _]; subst; apply Hwf in H; tauto. }
    unfold acyclicb in Hb; rewrite forallb_forall in Hb; specialize (Hb v Hv).
    apply negb_true_iff in Hb; unfold reachb in Hb; apply ds_memb_false in Hb.
    apply Hb, ds_desc_spec; assumption.
  Qed.

  (** * [min_dsep_set] (= [networkx.minimal_d_separator]) *)

  Lemma ds_bfs_marks_incl (g : digraph A) D s check : incl (bfs_marks eqb g D s check) check.
  Proof. intros z Hz; unfold bfs_marks in Hz; apply filter_In in Hz; tauto. Qed.

  (** General (unbounded) part: the returned set consists of parents of the two nodes. *)
  Lemma min_dsep_set_parents (g : digraph A) u v z :
    In z (min_dsep_set eqb g u v) -> arc g z u \/ arc g z v.
  Proof.
    unfold min_dsep_set; intros H. apply ds_bfs_marks_incl, ds_bfs_marks_incl in H.
    apply ds_union_in in H; destruct H as [H|H]; [left; apply ds_parents_in, H|].
    apply ds_union_in in H; destruct H as [H|[]]; right; apply ds_parents_in, H.
  Qed.

  Lemma min_dsep_set_incl (g : digraph A) u v : wf g -> incl (min_dsep_set eqb g u v) (verts g).
  Proof.
    intros [_ Hwf] z Hz; apply min_dsep_set_parents in Hz; destruct Hz as [H|H]; apply Hwf in H; tauto.
  Qed.

  (** The full claim of the property about [get_d_separation_set].  NOT proved in general
      (it needs the equivalence of d-separation and separation in the moralised ancestral
      graph); see [min_dsep_set_partial] below for the exhaustive check on <= 4 nodes. *)
  Definition min_dsep_set_statement : Prop :=
    forall (g : digraph A) u v, wf g -> acyclic g -> In u (verts g) -> In v (verts g) ->
      u <> v -> ~ arc g u v -> ~ arc g v u -> min_sep eqb g u v (min_dsep_set eqb g u v).

  (** The algorithmic model of [is_minimally_d_separated] computes [min_sepb].  NOT proved in
      general (same missing ingredient); see [nx_min_sepb_partial] for <= 4 nodes. *)
  Definition nx_min_sepb_statement : Prop :=
    forall (g : digraph A) u v Z, wf g -> acyclic g -> In u (verts g) -> In v (verts g) ->
      incl Z (verts g) -> u <> v -> ~ In u Z -> ~ In v Z ->
      nx_min_sepb eqb g u v Z = min_sepb eqb g u v Z.
End DSepProofs.

(** * Non-vacuity and behaviour pinned to the real library (vertices are [nat]) *)

Ltac ds_wf_tac :=
  split;
  [ repeat constructor; simpl; intuition discriminate
  | intros a b H; unfold arc in H; simpl in H;
    repeat (destruct H as [H|H]; [injection H as <- <-; simpl; auto 10|]); contradiction ].

Definition ds_g (n : nat) (arcs : list (nat * nat)) : digraph nat :=
  {| verts := seq 0 n; arcs := arcs |}.

(** collider 0 -> 2 <- 1 with a descendant 2 -> 3 *)
Definition ds_collider := ds_g 4 [(0, 2); (1, 2); (2, 3)].
(** chain 0 -> 1 -> 2 and fork 0 <- 1 -> 2 *)
Definition ds_chain := ds_g 3 [(0, 1); (1, 2)].
Definition ds_fork := ds_g 3 [(1, 0); (1, 2)].
(** the example in the networkx docstring of [is_minimal_d_separator] *)
Definition ds_nxdoc := ds_g 5 [(0, 1); (1, 2); (2, 3)].

Example ds_collider_wf : wf ds_collider. Proof. ds_wf_tac. Qed.
Example ds_chain_wf : wf ds_chain. Proof. ds_wf_tac. Qed.
Example ds_fork_wf : wf ds_fork. Proof. ds_wf_tac. Qed.
Example ds_nxdoc_wf : wf ds_nxdoc. Proof. ds_wf_tac. Qed.

(** Observed on the real library (PYTHONHASHSEED=0, networkx 3.2.1):
    collider: is_d_separated('n0','n1',set()) = True, given {'n2'} False, given {'n3'} False;
    chain / fork: is_d_separated('n0','n2',set()) = False, given {'n1'} True. *)
Example ds_collider_run :
  (dsepb Nat.eqb ds_collider [0] [1] [], dsepb Nat.eqb ds_collider [0] [1] [2],
   dsepb Nat.eqb ds_collider [0] [1] [3], dsepb Nat.eqb ds_collider [0; 1] [3] [2])
  = (true, false, false, true).
Proof. vm_compute; reflexivity. Qed.

Example ds_chain_run :
  (dsepb Nat.eqb ds_chain [0] [2] [], dsepb Nat.eqb ds_chain [0] [2] [1],
   dsepb Nat.eqb ds_fork [0] [2] [], dsepb Nat.eqb ds_fork [0] [2] [1]) = (false, true, false, true).
Proof. vm_compute; reflexivity. Qed.

Example ds_upaths_run :
  upaths Nat.eqb 4 ds_collider 0 3 = [[0; 2; 3]]
  /\ upaths Nat.eqb 4 ds_collider 0 1 = [[0; 2; 1]]
  /\ upaths Nat.eqb 4 ds_collider 0 0 = [].
Proof. vm_compute; auto. Qed.

(** networkx docstring: is_minimal_d_separator(G,0,2,{1}) = True, with {1,3,4} = False;
    the library's [is_minimally_d_separated] returns the same. *)
Example ds_nxdoc_run :
  (min_sepb Nat.eqb ds_nxdoc 0 2 [1], min_sepb Nat.eqb ds_nxdoc 0 2 [1; 3; 4],
   min_sepb Nat.eqb ds_nxdoc 0 2 []) = (true, false, false).
Proof. vm_compute; reflexivity. Qed.

(** The Prop-level statements are inhabited on these inputs. *)
Example ds_collider_dsep : dsep ds_collider [0] [1] [] /\ ~ dsep ds_collider [0] [1] [3].
Proof.
  split.
  - apply (@dsepb_correct nat Nat.eqb Nat.eqb_spec ds_collider _ _ _ ds_collider_wf).
    vm_compute; reflexivity.
  - intros H; apply (@dsepb_correct nat Nat.eqb Nat.eqb_spec ds_collider _ _ _ ds_collider_wf) in H.
    vm_compute in H; discriminate.
Qed.

Example ds_nxdoc_min_sep : min_sep Nat.eqb ds_nxdoc 0 2 [1].
Proof.
  apply (@min_sepb_spec nat Nat.eqb Nat.eqb_spec ds_nxdoc _ _ _ ds_nxdoc_wf).
  vm_compute; reflexivity.
Qed.

Example ds_adjacent_ex : ~ dsep ds_chain [0] [1] [2].
Proof. apply adjacent_never_separated; [left; left; reflexivity|discriminate]. Qed.

(** * Exhaustive agreement with the real library on 3 labelled nodes

    [ds_cases3] lists, for each of the 25 DAGs on the nodes 0,1,2 (node i is 'n<i>' on the
    Python side), what the real library returned (PYTHONHASHSEED=0, networkx 3.2.1):
    [is_d_separated(X, Y, Z)] for the 12 pairwise disjoint triples [ds_T3] with X, Y non-empty,
    and [is_minimally_d_separated(x, y, Z)] for the 12 queries [ds_P3].  The same comparison
    was run (scratch, not committed: 0.5 MB of tables) on all 543 DAGs with 4 labelled nodes
    (110 triples, 48 minimality queries each) and on 400 random DAGs with 5 nodes
    (570 triples, 160 queries each): no disagreement. *)
Definition ds_T3 : list (list nat * list nat * list nat) :=
   [([1],[2],[]);([2],[1],[]);([0],[2],[]);([0;1],[2],[]);([0],[1],[]);([0;2],[1],[]);([0],[1;
   2],[]);([0],[1],[2]);([0],[2],[1]);([2],[0],[]);([1],[0],[]);([1;2],[0],[]);([1],[0;2],[]);
   ([1],[0],[2]);([2],[0;1],[]);([2],[0],[1]);([1],[2],[0]);([2],[1],[0])].
Definition ds_P3 : list (nat * nat * list nat) :=
   [(0,1,[]);(0,1,[2]);(0,2,[]);(0,2,[1]);(1,0,[]);(1,0,[2]);(1,2,[]);(1,2,[0]);(2,0,[]);
   (2,0,[1]);(2,1,[]);(2,1,[0])].
Definition ds_run3 (arcs : list (nat * nat)) : list bool * list bool :=
  let g := ds_g 3 arcs in
  (map (fun t => match t with (X, Y, Z) => dsepb Nat.eqb g X Y Z end) ds_T3,
   map (fun t => match t with (x, y, Z) => min_sepb Nat.eqb g x y Z end) ds_P3).
Definition ds_cases3 : list (list (nat * nat) * list bool * list bool) :=
   [
([],[true;true;true;true;true;true;true;true;true;true;true;true;true;true;true;true;true;
   true],[true;false;true;false;true;false;true;false;true;false;true;false]);([(1,2)],[false;
   false;true;false;true;false;true;true;true;true;true;true;false;true;false;true;false;
   false],[true;false;true;false;true;false;false;false;true;false;false;false]);
   ([(2,1)],[false;false;true;false;true;false;true;true;true;true;true;true;false;true;false;
   true;false;false],[true;false;true;false;true;false;false;false;true;false;false;false]);
   ([(0,2)],[true;true;false;false;true;true;false;true;false;false;true;false;true;true;false;
   false;true;true],[true;false;false;false;true;false;true;false;false;false;true;false]);
   ([(0,2);(1,2)],[false;false;false;false;true;false;false;false;false;false;true;false;false;
   false;false;false;false;false],[true;false;false;false;true;false;false;false;false;false;
   false;false]);([(0,2);(2,1)],[false;false;false;false;false;false;false;true;false;false;
   false;false;false;true;false;false;false;false],[false;true;false;false;false;true;false;
   false;false;false;false;false]);([(2,0)],[true;true;false;false;true;true;false;true;false;
   false;true;false;true;true;false;false;true;true],[true;false;false;false;true;false;true;
   false;false;false;true;false]);([(2,0);(1,2)],[false;false;false;false;false;false;false;
   true;false;false;false;false;false;true;false;false;false;false],[false;true;false;false;
   false;true;false;false;false;false;false;false]);([(2,0);(2,1)],[false;false;false;false;
   false;false;false;true;false;false;false;false;false;true;false;false;false;false],[false;
   true;false;false;false;true;false;false;false;false;false;false]);([(0,1)],[true;true;true;
   true;false;false;false;false;true;true;false;false;false;false;true;true;true;true],[false;
   false;true;false;false;false;true;false;true;false;true;false]);([(0,1);(1,2)],[false;false;
   false;false;false;false;false;false;true;false;false;false;false;false;false;true;false;
   false],[false;false;false;true;false;false;false;false;false;true;false;false]);([(0,1);
   (2,1)],[false;false;true;false;false;false;false;false;false;true;false;false;false;false;
   false;false;false;false],[false;false;true;false;false;false;false;false;true;false;false;
   false]);([(0,1);(0,2)],[false;false;false;false;false;false;false;false;false;false;false;
   false;false;false;false;false;true;true],[false;false;false;false;false;false;false;true;
   false;false;false;true]);([(0,1);(0,2);(1,2)],[false;false;false;false;false;false;false;
   false;false;false;false;false;false;false;false;false;false;false],[false;false;false;false;
   false;false;false;false;false;false;false;false]);([(0,1);(0,2);(2,1)],[false;false;false;
   false;false;false;false;false;false;false;false;false;false;false;false;false;false;
   false],[false;false;false;false;false;false;false;false;false;false;false;false]);([(0,1);
   (2,0)],[false;false;false;false;false;false;false;false;false;false;false;false;false;false;
   false;false;true;true],[false;false;false;false;false;false;false;true;false;false;false;
   true]);([(0,1);(2,0);(2,1)],[false;false;false;false;false;false;false;false;false;false;
   false;false;false;false;false;false;false;false],[false;false;false;false;false;false;false;
   false;false;false;false;false]);([(1,0)],[true;true;true;true;false;false;false;false;true;
   true;false;false;false;false;true;true;true;true],[false;false;true;false;false;false;true;
   false;true;false;true;false]);([(1,0);(1,2)],[false;false;false;false;false;false;false;
   false;true;false;false;false;false;false;false;true;false;false],[false;false;false;true;
   false;false;false;false;false;true;false;false]);([(1,0);(2,1)],[false;false;false;false;
   false;false;false;false;true;false;false;false;false;false;false;true;false;false],[false;
   false;false;true;false;false;false;false;false;true;false;false]);([(1,0);(0,2)],[false;
   false;false;false;false;false;false;false;false;false;false;false;false;false;false;false;
   true;true],[false;false;false;false;false;false;false;true;false;false;false;true]);
   ([(1,0);(0,2);(1,2)],[false;false;false;false;false;false;false;false;false;false;false;
   false;false;false;false;false;false;false],[false;false;false;false;false;false;false;false;
   false;false;false;false]);([(1,0);(2,0)],[true;true;false;false;false;false;false;false;
   false;false;false;false;false;false;false;false;false;false],[false;false;false;false;false;
   false;true;false;false;false;true;false]);([(1,0);(2,0);(1,2)],[false;false;false;false;
   false;false;false;false;false;false;false;false;false;false;false;false;false;false],[false;
   false;false;false;false;false;false;false;false;false;false;false]);([(1,0);(2,0);
   (2,1)],[false;false;false;false;false;false;false;false;false;false;false;false;false;false;
   false;false;false;false],[false;false;false;false;false;false;false;false;false;false;false;
   false])].

Example ds_sweep3 :
  length ds_cases3 = 25 /\
  forall arcs e1 e2, In (arcs, e1, e2) ds_cases3 -> ds_run3 arcs = (e1, e2).
Proof.
  split; [reflexivity|]. intros arcs e1 e2 H. unfold ds_cases3 in H.
  repeat (destruct H as [H|H]; [injection H as <- <- <-; vm_compute; reflexivity|]).
  contradiction.
Qed.

(** * [get_d_separation_set]: pinned behaviour and exhaustive check on <= 4 nodes *)

(** Python: get_d_separation_set('n0','n2') = {'n1'} on the networkx docstring graph;
    on the collider graph get_d_separation_set('n0','n1') = set(). *)
Example ds_min_dsep_set_run :
  min_dsep_set Nat.eqb ds_nxdoc 0 2 = [1] /\ min_dsep_set Nat.eqb ds_collider 0 1 = []
  /\ min_dsep_set Nat.eqb ds_collider 0 3 = [2].
Proof. vm_compute; auto. Qed.

(** Every orientation of every simple graph on the nodes [0..n-1]: each unordered pair has
    no arc, the arc i -> j, or the arc j -> i. *)
Fixpoint ds_orient (ps : list (nat * nat)) : list (list (nat * nat)) :=
  match ps with
  | [] => [[]]
  | (i, j) :: t =>
      let r := ds_orient t in r ++ map (cons (i, j)) r ++ map (cons (j, i)) r
  end.
Definition ds_upairs (n : nat) : list (nat * nat) :=
  flat_map (fun i => map (pair i) (seq (S i) (n - S i))) (seq 0 n).

(** On an acyclic orientation, for every pair of distinct non-adjacent nodes the model of
    [get_d_separation_set] returns a separating set from which no node can be removed. *)
Definition ds_check_graph (n : nat) (arcs : list (nat * nat)) : bool :=
  let g := ds_g n arcs in
  negb (acyclicb Nat.eqb g)
  || forallb (fun u => forallb (fun v =>
       Nat.eqb u v || has_arc Nat.eqb g u v || has_arc Nat.eqb g v u
       || min_sepb Nat.eqb g u v (min_dsep_set Nat.eqb g u v)) (seq 0 n)) (seq 0 n).

(** 1 + 3 + 25 + 543 DAGs (out of 1 + 3 + 27 + 729 orientations).  The same sweep over the
    59049 orientations on 5 nodes (29281 DAGs) was run in scratch (too slow to commit). *)
Example min_dsep_set_partial :
  map (fun n => length (filter (fun a => acyclicb Nat.eqb (ds_g n a)) (ds_orient (ds_upairs n))))
    [1; 2; 3; 4] = [1; 3; 25; 543]
  /\ forall n, In n [1; 2; 3; 4] -> forallb (ds_check_graph n) (ds_orient (ds_upairs n)) = true.
Proof.
  split; [vm_compute; reflexivity|].
  intros n H; simpl in H.
  repeat (destruct H as [H|H]; [subst n; vm_cast_no_check (eq_refl true)|]); contradiction.
Qed.

(** * [is_minimally_d_separated]: the algorithmic model agrees with "no single node can be
    removed" on every DAG with <= 4 nodes, every ordered pair of distinct nodes and every
    conditioning set avoiding the pair. *)
Fixpoint ds_sublists (l : list nat) : list (list nat) :=
  match l with [] => [[]] | x :: t => let r := ds_sublists t in r ++ map (cons x) r end.

Definition ds_check_min (n : nat) (arcs : list (nat * nat)) : bool :=
  let g := ds_g n arcs in
  negb (acyclicb Nat.eqb g)
  || forallb (fun u => forallb (fun v =>
       Nat.eqb u v
       || forallb (fun Z => Bool.eqb (nx_min_sepb Nat.eqb g u v Z) (min_sepb Nat.eqb g u v Z))
            (ds_sublists (filter (fun w => negb (Nat.eqb w u || Nat.eqb w v)) (seq 0 n))))
       (seq 0 n)) (seq 0 n).

Example nx_min_sepb_partial :
  forall n, In n [1; 2; 3; 4] -> forallb (ds_check_min n) (ds_orient (ds_upairs n)) = true.
Proof.
  intros n H; simpl in H.
  repeat (destruct H as [H|H]; [subst n; vm_cast_no_check (eq_refl true)|]); contradiction.
Qed.
