(** CtorAcyclicProofs.v — property C02, second half: NO CONSTRUCTOR produces, with validation on
    (the default), a graph whose directed edges contain a cycle; the offending input is refused
    with CyclicConnectionError ([ECyclic]), acyclic input is accepted; and for a graph built by
    any constructor (validate=False included) [is_dag()] is true exactly when every edge is
    directed and the directed edges are acyclic.

    Constructors covered (both classes, [k = Plain] / [k = TS]):
      [from_dict] (Serial.v)  [Skeleton.from_dict] ([skeleton_from_dict])
      [from_adjacency_matrix] ([from_matrix], deferred validation [check_nodes])
      [from_networkx] ([from_nx]; [from_gml_string] is [from_networkx (networkx.parse_gml s)])
      [from_skeleton] (modelled HERE as [from_skeleton], following
                       [cls.from_networkx(skeleton.to_networkx(), validate)]).

    Every theorem is stated for ARBITRARY name codec functions [parse] / [fmt] (in particular
    for the verified codec Names.parse / Names.fmt, see the [_names] instances at the end) and
    is closed under the global context.

    1. from_dict
       [from_dict_validated_acyclic]   from_dict k j true = Ok g -> Acyclic g   (any JSON)
       [from_dict_validate_ok]         from_dict k j false = Ok g ->
                                         Acyclic g /\ from_dict k j true = Ok g
                                         \/ ~ Acyclic g /\ from_dict k j true = Err ECyclic
       [from_dict_validate_err]        from_dict k j false = Err e ->
                                         from_dict k j true = Err e \/ ... = Err ECyclic
       [from_dict_true_iff]            from_dict k j true = Ok g <->
                                         from_dict k j false = Ok g /\ Acyclic g
       [dict_roundtrip_cyclic_refused] g.to_dict() of a state with a directed cycle is refused
    2. from_adjacency_matrix
       [from_matrix_shape], [from_matrix_edges_sound]
                                       every stored edge is undirected or is a directed entry
                                       pair of the matrix (any input)
       [from_matrix_validate_ok], [from_matrix_validate_err], [from_matrix_true_iff],
       [from_matrix_validated_acyclic] as for from_dict (any input)
       [from_matrix_built]             well-formed input: the unvalidated construction succeeds
                                       and its directed part IS the directed part of the matrix
       [from_matrix_cyclic_refused], [from_matrix_acyclic_accepted], [from_matrix_decide]
       [from_matrix_default_names]     (section 5) node_names=None at the verified codec
    3. from_networkx ([from_nx_validated_acyclic], [from_nx_true_iff], [from_nx_cyclic_refused],
       [from_nx_acyclic_accepted]), from_skeleton ([from_skeleton_undirected]),
       Skeleton.from_dict ([skeleton_from_dict_acyclic])
    4. [Built], [built_inv], [built_validated_acyclic], [is_dag_of_constructed],
       [is_dag_of_validated], [is_dag_of_from_skeleton].
    The per-lag constructor [from_adjacency_matrices] is treated in CtorAcyclicLag.v. *)
From Coq Require Import Relations.Relation_Operators.
From CG Require Import Base Digraph DigraphProofs Graph GraphObs GraphInv GraphInvProofs.
From CG Require Import GraphAcyclicLemmas GraphAcyclicProofs Serial Matrix MatrixProofs Skeleton.
From CG Require SerialProofs.

(** * 0. Generic facts about folds over [res graph] *)

Lemma fold_err_absorb (X : Type) (step : res graph -> X -> res graph) :
  (forall e x, step (Err e) x = Err e) ->
  forall l e, fold_left step l (Err e) = Err e.
Proof.
  intros Habs. induction l as [|x l IH]; intros e; cbn [fold_left]; [reflexivity|].
  rewrite Habs. apply IH.
Qed.

Lemma fold_res_inv (X : Type) (P : graph -> Prop) (step : res graph -> X -> res graph) :
  (forall e x, step (Err e) x = Err e) ->
  (forall g x g', P g -> step (Ok g) x = Ok g' -> P g') ->
  forall l g g', P g -> fold_left step l (Ok g) = Ok g' -> P g'.
Proof.
  intros Habs Hstep. induction l as [|x l IH]; intros g g' HP H; cbn [fold_left] in H.
  - injection H as <-. exact HP.
  - destruct (step (Ok g) x) as [g1|e] eqn:E.
    + apply (IH g1 g'); [apply (Hstep g x g1 HP E)|exact H].
    + rewrite (fold_err_absorb X step Habs) in H. discriminate.
Qed.


(** * Helper definitions: the directed part a matrix describes, [from_skeleton] *)

(** [s -> d] is a directed entry pair: [a[i][j] = 1], [a[j][i] = 0], [i <> j] with
    [names[i] = s], [names[j] = d] *)
Definition mat_arc (a : matrix) (nodes : list name) (s d : name) : Prop :=
  exists i j, i <> j /\ nth_error nodes i = Some s /\ nth_error nodes j = Some d
              /\ entry a i j = Some 1%Z /\ entry a j i = Some 0%Z.

(** the same, executable *)
Definition mat_arcs (a : matrix) (nodes : list name) : list (name * name) :=
  flat_map (fun i =>
    flat_map (fun j =>
      match entry a i j, entry a j i, nth_error nodes i, nth_error nodes j with
      | Some x, Some y, Some s, Some d =>
          if negb (Nat.eqb i j) && Z.eqb x 1 && Z.eqb y 0 then [(s, d)] else []
      | _, _, _, _ => []
      end) (seq 0 (length nodes))) (seq 0 (length nodes)).

Definition mat_dgraph (a : matrix) (nodes : list name) : digraph name :=
  {| verts := nodes; arcs := mat_arcs a nodes |}.

(** the node list [from_adjacency_matrix] works with *)
Definition nodes_of (a : matrix) (names : option (list name)) : list name :=
  match names with Some l => l | None => default_names (length a) end.

Lemma mat_arcs_spec a nodes s d : arc (mat_dgraph a nodes) s d <-> mat_arc a nodes s d.
Proof.
  unfold arc, mat_dgraph, mat_arcs, mat_arc. cbn [arcs]. rewrite in_flat_map. split.
  - intros (i & Hi & H). apply in_flat_map in H. destruct H as (j & Hj & H).
    destruct (entry a i j) as [x|] eqn:Ex; [|destruct H].
    destruct (entry a j i) as [y|] eqn:Ey; [|destruct H].
    destruct (nth_error nodes i) as [s'|] eqn:Es; [|destruct H].
    destruct (nth_error nodes j) as [d'|] eqn:Ed; [|destruct H].
    destruct (negb (Nat.eqb i j) && Z.eqb x 1 && Z.eqb y 0) eqn:C; [|destruct H].
    destruct H as [H|[]]. injection H as <- <-.
    apply andb_true_iff in C. destruct C as [C Cy]. apply andb_true_iff in C.
    destruct C as [Cij Cx]. apply negb_true_iff, Nat.eqb_neq in Cij.
    apply Z.eqb_eq in Cx, Cy. subst x y. exists i, j. repeat split; assumption.
  - intros (i & j & Hij & Es & Ed & Ex & Ey).
    assert (Hi : i < length nodes) by (apply nth_error_Some; congruence).
    assert (Hj : j < length nodes) by (apply nth_error_Some; congruence).
    exists i. split; [apply in_seq; lia|]. apply in_flat_map.
    exists j. split; [apply in_seq; lia|]. rewrite Ex, Ey, Es, Ed.
    apply Nat.eqb_neq in Hij. rewrite Hij. cbn. left; reflexivity.
Qed.

Lemma mat_arc_in a nodes s d : mat_arc a nodes s d -> In s nodes /\ In d nodes.
Proof.
  intros (i & j & _ & Es & Ed & _). split; eapply nth_error_In; eassumption.
Qed.

Lemma mat_dgraph_wf a nodes : NoDup nodes -> wf (mat_dgraph a nodes).
Proof.
  intros Hnd. split; [exact Hnd|]. intros s d H. apply mat_arcs_spec in H.
  exact (mat_arc_in a nodes s d H).
Qed.

Lemma is_binary_entry a i j x : is_binary a = true -> entry a i j = Some x -> x = 0%Z \/ x = 1%Z.
Proof.
  intros Hb He. destruct (Z.eq_dec x 0) as [|H0]; [left; assumption|].
  destruct (Z.eq_dec x 1) as [|H1]; [right; assumption|]. exfalso.
  assert (Hf : is_binary a = false)
    by (apply is_binary_false_iff; exists i, j, x; repeat split; assumption).
  congruence.
Qed.

Section Ctor.
  Variable parse : name -> option (name * Z).
  Variable fmt : name -> Z -> option name.

  (** * 1. from_dict *)

  Lemma add_node_step_err k e j : add_node_step parse fmt k (Err e) j = Err e.
  Proof. reflexivity. Qed.
  Lemma add_edge_step_err k v e j : add_edge_step parse fmt k v (Err e) j = Err e.
  Proof. reflexivity. Qed.
  Lemma add_group_step_err k v e j : add_group_step parse fmt k v (Err e) j = Err e.
  Proof. reflexivity. Qed.

  (** ** 1a. the validated construction keeps ([CInv] and) acyclicity, whatever the input *)

  Lemma good_add_node_step k g j g' :
    Good g -> add_node_step parse fmt k (Ok g) j = Ok g' -> Good g'.
  Proof.
    intros HG. unfold add_node_step. cbn [bind].
    destruct (decode_node parse k j) as [[[id vt] m]|x]; cbn [bind]; [|discriminate].
    cbn [run_op]. destruct (add_node_obj parse k g id vt m) as [g1|x] eqn:E; cbn [lift fst];
      [|discriminate].
    intros [= <-]. exact (good_add_node_obj parse k g id vt m g1 HG E).
  Qed.

  Lemma good_add_edge_step k g j g' :
    Good g -> add_edge_step parse fmt k true (Ok g) j = Ok g' -> Good g'.
  Proof.
    intros HG. unfold add_edge_step. cbn [bind].
    destruct (decode_edge parse k j) as [[[[sp dp] ty] m]|x]; cbn [bind]; [|discriminate].
    cbn [run_op]. intros H.
    destruct (good_add_edge parse k g sp dp ty (Some m) HG) as [HG' Heq].
    rewrite <- (Heq g' H) in HG'. exact HG'.
  Qed.

  Lemma good_add_group_step k g j g' :
    Good g -> add_group_step parse fmt k true (Ok g) j = Ok g' -> Good g'.
  Proof.
    intros HG. unfold add_group_step. cbn [bind].
    destruct (jobj j) as [dests|x]; cbn [bind]; [|discriminate].
    apply (fold_res_inv json Good (add_edge_step parse fmt k true));
      [apply add_edge_step_err|apply good_add_edge_step|exact HG].
  Qed.

  Lemma from_dict_validated_good k j g : from_dict parse fmt k j true = Ok g -> Good g.
  Proof.
    unfold from_dict.
    destruct (jget_opt s_meta j) as [mo|x]; cbn [bind]; [|discriminate].
    destruct (meta_of mo) as [m|x]; cbn [bind]; [|discriminate].
    destruct (jget s_nodes j) as [nj|x]; cbn [bind]; [|discriminate].
    destruct (jobj nj) as [nodes|x]; cbn [bind]; [|discriminate].
    destruct (fold_left (add_node_step parse fmt k) (map snd nodes) (Ok (empty_graph m)))
      as [g1|x] eqn:E1; cbn [bind]; [|discriminate].
    destruct (jget s_edges j) as [ej|x]; cbn [bind]; [|discriminate].
    destruct (jobj ej) as [groups|x]; cbn [bind]; [|discriminate].
    apply (fold_res_inv json Good (add_group_step parse fmt k true));
      [apply add_group_step_err|apply good_add_group_step|].
    apply (fold_res_inv json Good (add_node_step parse fmt k) (add_node_step_err k)
             (good_add_node_step k) _ _ _ (conj (cinv_empty m) (acyclic_empty m)) E1).
  Qed.

  (** C02 for [from_dict] (and so for [Skeleton.from_dict]): whatever the dictionary — hostile
      ones included — a graph returned by the validating [from_dict] has no directed cycle *)
  Theorem from_dict_validated_acyclic k j g :
    from_dict parse fmt k j true = Ok g -> Acyclic g.
  Proof. intros H. exact (proj2 (from_dict_validated_good k j g H)). Qed.

  (** ** 1b. the validated construction is the unvalidated one plus an acyclicity test *)

  (** an unvalidated add that succeeds appends one edge [e]; the validated call on the same
      arguments returns the same state when [edst e] is not on a cycle of the result and raises
      CyclicConnectionError otherwise (the cycle check never runs out of fuel and the
      compensating delete never fails) *)
  Lemma add_edge_validate_cases k g sp dp ty m g' :
    Inv parse k g ->
    fst (add_edge parse k g sp dp ty m false) = Ok g' ->
    Inv parse k g'
    /\ exists e, gsrc g' = gsrc g ++ [e]
         /\ ((~ path (dgraph g') (edst e) (edst e)
              /\ fst (add_edge parse k g sp dp ty m true) = Ok g')
             \/ (path (dgraph g') (edst e) (edst e)
                 /\ fst (add_edge parse k g sp dp ty m true) = Err ECyclic)).
  Proof.
    intros HI H.
    assert (HI' : Inv parse k g').
    { apply (inv_run_op_ok parse fmt k g (OAddEdge sp dp ty m false) g' HI). exact H. }
    split; [exact HI'|].
    rewrite fst_add_edge in H. rewrite fst_add_edge. unfold add_edge_try in *.
    destruct (name_eqb (fst sp) (fst dp)); [discriminate|].
    destruct (add_endpoint parse k g sp) as [g1|x] eqn:E1; [|discriminate].
    destruct (add_endpoint parse k g1 dp) as [g2|x] eqn:E2; [|discriminate].
    destruct (match edge_at g (fst sp) (fst dp) with Some _ => true | None => false end);
      [discriminate|].
    destruct (orient k g2 (fst sp) (fst dp) ty) as [[s' d']|x]; [|discriminate].
    unfold set_edge in *.
    destruct (edge_at g2 s' d'); [discriminate|].
    destruct (edge_at g2 d' s'); [discriminate|].
    cbn [fst] in H. injection H as Hg'.
    set (e := {| esrc := s'; edst := d'; ety := ty;
                 emeta := match m with Some x => x | None => [] end |}) in *.
    assert (Hsrc : gsrc g' = gsrc g ++ [e]).
    { rewrite <- Hg'. cbn [insert_edge gsrc].
      rewrite (add_endpoint_gsrc _ _ _ _ _ E2), (add_endpoint_gsrc _ _ _ _ _ E1). reflexivity. }
    exists e. split; [exact Hsrc|]. rewrite Hg'.
    assert (He : In e (gsrc g')) by (rewrite Hsrc; apply in_or_app; right; left; reflexivity).
    destruct (inv_endpoints HI' e He) as [Hs Hd]. cbn [e esrc edst] in Hs, Hd.
    destruct (cycle_check parse k g' d' HI' Hd) as (b & Hb & Hiff). rewrite Hb.
    cbn [e edst]. destruct b.
    - right. split; [apply Hiff; reflexivity|].
      assert (Hdel : exists g3, delete_edge g' s' d' None = Ok g3).
      { unfold delete_edge.
        rewrite (proj2 (GraphAcyclicLemmas.node_exists_in g' s') Hs),
                (proj2 (GraphAcyclicLemmas.node_exists_in g' d') Hd).
        cbn [negb].
        assert (Hk : In (s', d') (map edge_key (gsrc g'))).
        { apply in_map_iff. exists e. split; [reflexivity|exact He]. }
        destruct (find_edge_in _ _ _ Hk) as (e' & He'). unfold edge_at. rewrite He'.
        eexists; reflexivity. }
      destruct Hdel as (g3 & ->). reflexivity.
    - left. split; [|reflexivity]. intros Hp. apply Hiff in Hp. discriminate.
  Qed.

  (** an unvalidated add that fails, fails in the same way when validated *)
  Lemma add_edge_err_same k g sp dp ty m x :
    fst (add_edge parse k g sp dp ty m false) = Err x ->
    fst (add_edge parse k g sp dp ty m true) = Err x.
  Proof.
    rewrite !fst_add_edge. unfold add_edge_try.
    destruct (name_eqb (fst sp) (fst dp)); [exact (fun H => H)|].
    destruct (add_endpoint parse k g sp) as [g1|y]; [|exact (fun H => H)].
    destruct (add_endpoint parse k g1 dp) as [g2|y]; [|exact (fun H => H)].
    destruct (match edge_at g (fst sp) (fst dp) with Some _ => true | None => false end);
      [exact (fun H => H)|].
    destruct (orient k g2 (fst sp) (fst dp) ty) as [[s' d']|y]; [|exact (fun H => H)].
    unfold set_edge.
    destruct (edge_at g2 s' d'); [exact (fun H => H)|].
    destruct (edge_at g2 d' s'); [exact (fun H => H)|].
    discriminate.
  Qed.

  Lemma append_edge_acyclic g g' e :
    gsrc g' = gsrc g ++ [e] -> Acyclic g -> ~ path (dgraph g') (edst e) (edst e) -> Acyclic g'.
  Proof.
    intros Hg Hac Hnp v Hv.
    destruct (etype_eqb_spec (ety e) Dir) as [HD|HnD].
    - assert (Hext : forall a b, arc (dgraph g') a b
                                 <-> arc (add_arc (dgraph g) (esrc e) (edst e)) a b).
      { intros a b. rewrite (arc_app g g' e Hg), add_arc_arc. split.
        - intros [H|(_ & <- & <-)]; [left; exact H|right; split; reflexivity].
        - intros [H|[-> ->]]; [left; exact H|right; repeat split; exact HD]. }
      apply (path_ext _ _ Hext) in Hv.
      apply Hnp. apply (path_ext _ _ Hext).
      eapply cycle_through_new_arc; [exact Hv|apply Hac].
    - apply (Hac v). revert Hv. apply DigraphProofs.path_mono. intros a b Hab.
      apply (arc_app g g' e Hg) in Hab. destruct Hab as [H|[H _]]; [exact H|contradiction].
  Qed.

  Section Sim.
    Variable k : kind.
    Variable X : Type.
    Variables sf st : res graph -> X -> res graph.
    Hypothesis sf_err : forall e x, sf (Err e) x = Err e.
    Hypothesis st_err : forall e x, st (Err e) x = Err e.

    (** [sf] is the unvalidated step, [st] the validated one *)
    Definition MonoStep : Prop :=
      forall g x g', Inv parse k g -> sf (Ok g) x = Ok g' -> Inv parse k g' /\ sub_arcs g g'.
    Definition SimStep : Prop :=
      forall g x g', Inv parse k g -> Acyclic g -> sf (Ok g) x = Ok g' ->
        (Acyclic g' /\ st (Ok g) x = Ok g') \/ (~ Acyclic g' /\ st (Ok g) x = Err ECyclic).
    Definition ErrStep : Prop :=
      forall g x e, Inv parse k g -> Acyclic g -> sf (Ok g) x = Err e ->
        st (Ok g) x = Err e \/ st (Ok g) x = Err ECyclic.

    Hypothesis Hmono : MonoStep.
    Hypothesis Hsim : SimStep.
    Hypothesis Herr : ErrStep.

    Lemma fold_mono l : forall g g',
      Inv parse k g -> fold_left sf l (Ok g) = Ok g' -> Inv parse k g' /\ sub_arcs g g'.
    Proof.
      induction l as [|x l IH]; intros g g' HI H; cbn [fold_left] in H.
      - injection H as <-. split; [exact HI|apply sub_arcs_refl].
      - destruct (sf (Ok g) x) as [g1|e] eqn:E.
        + destruct (Hmono g x g1 HI E) as [HI1 Hs1].
          destruct (IH g1 g' HI1 H) as [HI' Hs']. split; [exact HI'|].
          eapply sub_arcs_trans; eassumption.
        + rewrite (fold_err_absorb X sf sf_err) in H. discriminate.
    Qed.

    Lemma fold_sim l : forall g g',
      Inv parse k g -> Acyclic g -> fold_left sf l (Ok g) = Ok g' ->
      (Acyclic g' /\ fold_left st l (Ok g) = Ok g')
      \/ (~ Acyclic g' /\ fold_left st l (Ok g) = Err ECyclic).
    Proof.
      induction l as [|x l IH]; intros g g' HI Hac H; cbn [fold_left] in *.
      - injection H as <-. left. split; [exact Hac|reflexivity].
      - destruct (sf (Ok g) x) as [g1|e] eqn:E.
        + destruct (Hmono g x g1 HI E) as [HI1 Hs1].
          destruct (Hsim g x g1 HI Hac E) as [[Hac1 ->]|[Hn1 ->]].
          * exact (IH g1 g' HI1 Hac1 H).
          * right. split; [|apply (fold_err_absorb X st st_err)].
            intros Hac'. apply Hn1. destruct (fold_mono l g1 g' HI1 H) as [_ Hs'].
            exact (sub_arcs_acyclic g1 g' Hs' Hac').
        + rewrite (fold_err_absorb X sf sf_err) in H. discriminate.
    Qed.

    Lemma fold_errsim l : forall g e,
      Inv parse k g -> Acyclic g -> fold_left sf l (Ok g) = Err e ->
      fold_left st l (Ok g) = Err e \/ fold_left st l (Ok g) = Err ECyclic.
    Proof.
      induction l as [|x l IH]; intros g e HI Hac H; cbn [fold_left] in *; [discriminate|].
      destruct (sf (Ok g) x) as [g1|e1] eqn:E.
      - destruct (Hmono g x g1 HI E) as [HI1 Hs1].
        destruct (Hsim g x g1 HI Hac E) as [[Hac1 ->]|[Hn1 ->]].
        + exact (IH g1 e HI1 Hac1 H).
        + right. apply (fold_err_absorb X st st_err).
      - rewrite (fold_err_absorb X sf sf_err) in H. injection H as <-.
        destruct (Herr g x e1 HI Hac E) as [->| ->];
          [left|right]; apply (fold_err_absorb X st st_err).
    Qed.
  End Sim.

  (** the three properties for one edge entry ... *)
  Lemma mono_edge_step k : MonoStep k json (add_edge_step parse fmt k false).
  Proof.
    intros g j g' HI. unfold add_edge_step. cbn [bind].
    destruct (decode_edge parse k j) as [[[[sp dp] ty] m]|x]; cbn [bind]; [|discriminate].
    cbn [run_op]. intros H.
    destruct (add_edge_validate_cases k g sp dp ty (Some m) g' HI H) as (HI' & e & Hsrc & _).
    split; [exact HI'|]. apply incl_sub_arcs. rewrite Hsrc. apply incl_appl, incl_refl.
  Qed.

  Lemma sim_edge_step k :
    SimStep k json (add_edge_step parse fmt k false) (add_edge_step parse fmt k true).
  Proof.
    intros g j g' HI Hac. unfold add_edge_step. cbn [bind].
    destruct (decode_edge parse k j) as [[[[sp dp] ty] m]|x]; cbn [bind]; [|discriminate].
    cbn [run_op]. intros H.
    destruct (add_edge_validate_cases k g sp dp ty (Some m) g' HI H)
      as (HI' & e & Hsrc & [[Hnp Ht]|[Hp Ht]]).
    - left. split; [exact (append_edge_acyclic g g' e Hsrc Hac Hnp)|exact Ht].
    - right. split; [intros Hac'; exact (Hac' _ Hp)|exact Ht].
  Qed.

  Lemma err_edge_step k :
    ErrStep k json (add_edge_step parse fmt k false) (add_edge_step parse fmt k true).
  Proof.
    intros g j e HI Hac. unfold add_edge_step. cbn [bind].
    destruct (decode_edge parse k j) as [[[[sp dp] ty] m]|x]; cbn [bind];
      [|intros H; left; exact H].
    cbn [run_op]. intros H. left. apply add_edge_err_same, H.
  Qed.

  (** ... for one group of entries ([for destination, edge_dict in destinations.items()]) ... *)
  Lemma mono_group_step k : MonoStep k json (add_group_step parse fmt k false).
  Proof.
    intros g j g' HI. unfold add_group_step. cbn [bind].
    destruct (jobj j) as [dests|x]; cbn [bind]; [|discriminate].
    apply (fold_mono k json _ (add_edge_step_err k false) (mono_edge_step k)); exact HI.
  Qed.

  Lemma sim_group_step k :
    SimStep k json (add_group_step parse fmt k false) (add_group_step parse fmt k true).
  Proof.
    intros g j g' HI Hac. unfold add_group_step. cbn [bind].
    destruct (jobj j) as [dests|x]; cbn [bind]; [|discriminate].
    apply (fold_sim k json _ _ (add_edge_step_err k false) (add_edge_step_err k true)
             (mono_edge_step k) (sim_edge_step k)); assumption.
  Qed.

  Lemma err_group_step k :
    ErrStep k json (add_group_step parse fmt k false) (add_group_step parse fmt k true).
  Proof.
    intros g j e HI Hac. unfold add_group_step. cbn [bind].
    destruct (jobj j) as [dests|x]; cbn [bind]; [|intros H; left; exact H].
    apply (fold_errsim k json _ _ (add_edge_step_err k false) (add_edge_step_err k true)
             (mono_edge_step k) (sim_edge_step k) (err_edge_step k)); assumption.
  Qed.

  Lemma inv_add_node_step k g j g' :
    Inv parse k g -> add_node_step parse fmt k (Ok g) j = Ok g' -> Inv parse k g'.
  Proof.
    intros HI. unfold add_node_step. cbn [bind].
    destruct (decode_node parse k j) as [[[id vt] m]|x]; cbn [bind]; [|discriminate].
    apply (inv_run_op_ok parse fmt k g (OAddNodeObj id vt m) g' HI).
  Qed.

  (** ... and for the whole of [from_dict]: if the unvalidated construction succeeds, the
      validated one returns the same graph when its directed part is acyclic, and raises
      CyclicConnectionError otherwise *)
  Theorem from_dict_validate_ok k j g :
    from_dict parse fmt k j false = Ok g ->
    (Acyclic g /\ from_dict parse fmt k j true = Ok g)
    \/ (~ Acyclic g /\ from_dict parse fmt k j true = Err ECyclic).
  Proof.
    unfold from_dict.
    destruct (jget_opt s_meta j) as [mo|x]; cbn [bind]; [|discriminate].
    destruct (meta_of mo) as [m|x]; cbn [bind]; [|discriminate].
    destruct (jget s_nodes j) as [nj|x]; cbn [bind]; [|discriminate].
    destruct (jobj nj) as [nodes|x]; cbn [bind]; [|discriminate].
    destruct (fold_left (add_node_step parse fmt k) (map snd nodes) (Ok (empty_graph m)))
      as [g1|x] eqn:E1; cbn [bind]; [|discriminate].
    destruct (jget s_edges j) as [ej|x]; cbn [bind]; [|discriminate].
    destruct (jobj ej) as [groups|x]; cbn [bind]; [|discriminate].
    apply (fold_sim k json _ _ (add_group_step_err k false) (add_group_step_err k true)
             (mono_group_step k) (sim_group_step k)).
    - apply (fold_res_inv json (Inv parse k) (add_node_step parse fmt k) (add_node_step_err k)
               (inv_add_node_step k) _ _ _ (inv_init parse k m) E1).
    - apply (fold_res_inv json Good (add_node_step parse fmt k) (add_node_step_err k)
               (good_add_node_step k) _ _ _ (conj (cinv_empty m) (acyclic_empty m)) E1).
  Qed.

  (** if the unvalidated construction fails, the validated one fails in the same way unless a
      cycle was closed earlier (then CyclicConnectionError) *)
  Theorem from_dict_validate_err k j e :
    from_dict parse fmt k j false = Err e ->
    from_dict parse fmt k j true = Err e \/ from_dict parse fmt k j true = Err ECyclic.
  Proof.
    unfold from_dict.
    destruct (jget_opt s_meta j) as [mo|x]; cbn [bind]; [|intros H; left; exact H].
    destruct (meta_of mo) as [m|x]; cbn [bind]; [|intros H; left; exact H].
    destruct (jget s_nodes j) as [nj|x]; cbn [bind]; [|intros H; left; exact H].
    destruct (jobj nj) as [nodes|x]; cbn [bind]; [|intros H; left; exact H].
    destruct (fold_left (add_node_step parse fmt k) (map snd nodes) (Ok (empty_graph m)))
      as [g1|x] eqn:E1; cbn [bind]; [|intros H; left; exact H].
    destruct (jget s_edges j) as [ej|x]; cbn [bind]; [|intros H; left; exact H].
    destruct (jobj ej) as [groups|x]; cbn [bind]; [|intros H; left; exact H].
    apply (fold_errsim k json _ _ (add_group_step_err k false) (add_group_step_err k true)
             (mono_group_step k) (sim_group_step k) (err_group_step k)).
    - apply (fold_res_inv json (Inv parse k) (add_node_step parse fmt k) (add_node_step_err k)
               (inv_add_node_step k) _ _ _ (inv_init parse k m) E1).
    - apply (fold_res_inv json Good (add_node_step parse fmt k) (add_node_step_err k)
               (good_add_node_step k) _ _ _ (conj (cinv_empty m) (acyclic_empty m)) E1).
  Qed.

  (** the validating [from_dict] accepts exactly the dictionaries the unvalidated one accepts
      and whose directed part is acyclic, and then returns the same graph *)
  Theorem from_dict_true_iff k j g :
    from_dict parse fmt k j true = Ok g <->
    from_dict parse fmt k j false = Ok g /\ Acyclic g.
  Proof.
    split.
    - intros H. destruct (from_dict parse fmt k j false) as [g2|e] eqn:E.
      + destruct (from_dict_validate_ok k j g2 E) as [[Hac Ht]|[_ Ht]];
          rewrite Ht in H; [|discriminate].
        injection H as <-. split; [reflexivity|exact Hac].
      + destruct (from_dict_validate_err k j e E) as [Ht|Ht]; rewrite Ht in H; discriminate.
    - intros [H Hac]. destruct (from_dict_validate_ok k j g H) as [[_ Ht]|[Hn _]];
        [exact Ht|contradiction].
  Qed.

  (** the refusal: every entry decodes, no other error occurs, and the only obstacle is a
      directed cycle *)
  Corollary from_dict_cyclic_refused k j g :
    from_dict parse fmt k j false = Ok g -> ~ Acyclic g ->
    from_dict parse fmt k j true = Err ECyclic.
  Proof.
    intros H Hn. destruct (from_dict_validate_ok k j g H) as [[Hac _]|[_ Ht]];
      [contradiction|exact Ht].
  Qed.

  Corollary from_dict_acyclic_accepted k j g :
    from_dict parse fmt k j false = Ok g -> Acyclic g -> from_dict parse fmt k j true = Ok g.
  Proof. intros H Hac. apply from_dict_true_iff. split; assumption. Qed.

  (** deeply equal states have the same directed part *)
  Lemma deep_eq_arcs g g' :
    deep_eq_state g g' -> forall a b, arc (dgraph g) a b <-> arc (dgraph g') a b.
  Proof.
    intros (_ & He & _) a b. apply SerialProofs.map_edge4_inj in He.
    assert (Hin : forall e, In e (gsrc g) <-> In e (gsrc g')).
    { intros e. unfold v_edges, sorted_edges in He.
      rewrite <- (isort_in (pair_leb_e) e (gsrc g)), He. apply isort_in. }
    rewrite !arc_dgraph. split; intros (e & Hi & H); exists e; (split; [apply Hin, Hi|exact H]).
  Qed.

  (** the dictionary written by [to_dict] for a state whose directed part has a cycle (possible
      only after validate=False mutations) is refused by the validating [from_dict] with
      CyclicConnectionError; it is accepted, and reproduces the state, otherwise
      ([SerialProofs.roundtrip]) *)
  Theorem dict_roundtrip_cyclic_refused k g :
    Inv parse k g -> (k = TS -> SerialProofs.TagsStable g) -> ~ Acyclic g ->
    exists j, to_dict k g true = Ok j /\ from_dict parse fmt k j true = Err ECyclic.
  Proof.
    intros HI HT Hcyc.
    destruct (@SerialProofs.roundtrip_novalidate parse fmt k g HI HT) as (j & g' & Hj & Hg' & Hde).
    exists j. split; [exact Hj|]. apply (from_dict_cyclic_refused k j g' Hg').
    intros Hac. apply Hcyc. intros v Hv. apply (Hac v).
    apply (path_ext _ _ (deep_eq_arcs g g' Hde)). exact Hv.
  Qed.

  (** [Skeleton.from_dict] *)
  Corollary skeleton_from_dict_acyclic k j g :
    skeleton_from_dict parse fmt k j = Ok g -> Acyclic g.
  Proof. apply from_dict_validated_acyclic. Qed.

  (** * 2. from_adjacency_matrix *)

  (** ** 2a. any input: shape of the result *)

  Lemma fst_nodes_fold_err k ids : forall x gl,
    fst (fold_left (fun (acc : res graph * graph) id =>
                      match acc with
                      | (Ok g', _) =>
                          match add_node_id parse k g' id VUnspec None with
                          | Ok g'' => (Ok g'', g'')
                          | Err x => (Err x, g')
                          end
                      | (Err x, gl) => (Err x, gl)
                      end) ids (Err x, gl)) = Err x.
  Proof. induction ids as [|id ids IH]; intros x gl; [reflexivity|apply IH]. Qed.

  Lemma add_nodes_from_ok k ids : forall g g0,
    CInv g -> fst (add_nodes_from parse k g ids) = Ok g0 ->
    gsrc g0 = gsrc g /\ node_ids g0 = node_ids g ++ ids.
  Proof.
    unfold add_nodes_from. induction ids as [|id ids IH]; intros g g0 HC; cbn [fold_left].
    - cbn [fst]. intros [= <-]. rewrite app_nil_r. split; reflexivity.
    - destruct (add_node_id parse k g id VUnspec None) as [g1|x] eqn:E.
      + intros H. destruct (add_node_id_c _ _ _ _ _ _ _ HC E) as [HC1 Hids1].
        destruct (IH g1 g0 HC1 H) as [Hs Hn]. split.
        * rewrite Hs. exact (add_node_id_gsrc _ _ _ _ _ _ _ E).
        * rewrite Hn, Hids1, <- app_assoc. reflexivity.
      + rewrite fst_nodes_fold_err. discriminate.
  Qed.

  Lemma add_edge_ids_incl k g sp dp ty m v g' :
    CInv g -> fst (add_edge parse k g sp dp ty m v) = Ok g' -> incl (node_ids g) (node_ids g').
  Proof.
    intros HC. rewrite fst_add_edge. unfold add_edge_try.
    destruct (name_eqb (fst sp) (fst dp)); [discriminate|].
    destruct (add_endpoint parse k g sp) as [g1|x] eqn:E1; [|discriminate].
    destruct (add_endpoint_c _ _ _ _ _ HC E1) as (HC1 & _ & Hi1).
    destruct (add_endpoint parse k g1 dp) as [g2|x] eqn:E2; [|discriminate].
    destruct (add_endpoint_c _ _ _ _ _ HC1 E2) as (HC2 & _ & Hi2).
    destruct (match edge_at g (fst sp) (fst dp) with Some _ => true | None => false end);
      [discriminate|].
    destruct (orient k g2 (fst sp) (fst dp) ty) as [[s' d']|x]; [|discriminate].
    destruct (set_edge g2 s' d' ty _ v) as [g3|x] eqn:Es; [|discriminate].
    cbn [fst]. intros [= <-]. destruct (set_edge_ok _ _ _ _ _ _ _ Es) as [-> _].
    rewrite GraphAcyclicLemmas.insert_edge_ids. eapply incl_tran; eassumption.
  Qed.

  (** one unvalidated [graph.add_edge(s, d, edge_type=ty, validate=False)] of the loop *)
  Lemma add_edge_op_ok k h s d ty h' :
    Inv parse k h -> add_edge_op parse fmt k h s d ty = Ok h' ->
    Inv parse k h' /\ incl (node_ids h) (node_ids h')
    /\ exists e, gsrc h' = gsrc h ++ [e] /\ ety e = ty /\ (ty = Dir -> esrc e = s /\ edst e = d).
  Proof.
    intros HI H. unfold add_edge_op in H.
    split; [exact (inv_run_op_ok parse fmt k h _ h' HI H)|].
    cbn [run_op] in H. split; [exact (add_edge_ids_incl k h _ _ _ _ _ h' (inv_cinv _ _ _ HI) H)|].
    destruct (add_edge parse k h (str_ep s) (str_ep d) ty None false) as [r gl] eqn:E.
    cbn [fst] in H. subst r.
    destruct (add_edge_shape _ _ _ _ _ _ _ _ _ _ E) as [_ (e & Hg & Hty & Hdir & _)].
    exists e. split; [exact Hg|]. split; [exact Hty|]. exact Hdir.
  Qed.

  (** what the construction loop maintains, from the state [g] it starts in *)
  Definition LoopInv (k : kind) (a : matrix) (nodes : list name) (g h : graph) : Prop :=
    Inv parse k h /\ incl (node_ids g) (node_ids h)
    /\ forall e, In e (gsrc h) ->
         In e (gsrc g) \/ ety e = Und
         \/ (ety e = Dir /\ mat_arc a nodes (esrc e) (edst e)).

  Lemma edge_step_loopinv k a nodes g :
    is_binary a = true ->
    forall h p h', LoopInv k a nodes g h ->
      edge_step parse fmt k a nodes (Ok h) p = Ok h' -> LoopInv k a nodes g h'.
  Proof.
    intros Hbin h p h' (HI & Hincl & Hedges). unfold edge_step. cbn [bind].
    destruct (entry a (fst p) (snd p)) as [x|] eqn:Ex; [|discriminate].
    destruct (entry a (snd p) (fst p)) as [y|] eqn:Ey; [|discriminate].
    destruct (nth_error nodes (fst p)) as [ni|] eqn:Eni; [|discriminate].
    destruct (nth_error nodes (snd p)) as [nj|] eqn:Enj; [|discriminate].
    assert (Hneq : x <> y -> fst p <> snd p).
    { intros Hxy E. rewrite E in Ex. congruence. }
    assert (Hstep : forall s d ty,
              (ty = Dir -> mat_arc a nodes s d) -> (ty = Dir \/ ty = Und) ->
              add_edge_op parse fmt k h s d ty = Ok h' -> LoopInv k a nodes g h').
    { intros s d ty Harc Hty H.
      destruct (add_edge_op_ok k h s d ty h' HI H) as (HI' & Hincl' & e & Hg & Hety & Hdir).
      split; [exact HI'|]. split; [eapply incl_tran; eassumption|].
      intros e' He'. rewrite Hg in He'. apply in_app_or in He'.
      destruct He' as [He'|[<-|[]]]; [apply Hedges, He'|]. right.
      destruct Hty as [->| ->]; [right|left; exact Hety].
      split; [exact Hety|]. destruct (Hdir eq_refl) as [-> ->]. apply Harc; reflexivity. }
    destruct (is_binary_entry a _ _ x Hbin Ex) as [->| ->];
      destruct (is_binary_entry a _ _ y Hbin Ey) as [->| ->]; cbn [Z.eqb negb andb].
    - intros [= <-]. split; [exact HI|]. split; [exact Hincl|exact Hedges].
    - apply Hstep; [|left; reflexivity]. intros _.
      exists (snd p), (fst p). split; [apply not_eq_sym, Hneq; discriminate|]. auto.
    - apply Hstep; [|left; reflexivity]. intros _.
      exists (fst p), (snd p). split; [apply Hneq; discriminate|]. auto.
    - apply Hstep; [discriminate|right; reflexivity].
  Qed.

  (** the validated construction is the unvalidated one followed by the cycle scan *)
  Lemma from_matrix_true_unfold k a names :
    from_matrix parse fmt k a names true
    = bind (from_matrix parse fmt k a names false)
        (fun g => bind (check_nodes g (nodes_of a names)) (fun _ => Ok g)).
  Proof.
    unfold from_matrix, nodes_of.
    destruct (negb (is_square a)); [reflexivity|].
    destruct (negb (is_binary a)); [reflexivity|].
    destruct names as [l|].
    - destruct (Nat.eqb (length l) (length a)); cbn [bind]; [|reflexivity].
      destruct (fst (run_op parse fmt k (empty_graph []) (OAddNodesFrom l))) as [g0|x];
        cbn [bind]; [|reflexivity].
      destruct (fold_left (edge_step parse fmt k a l) (pairs (length l)) (Ok g0)) as [g1|x];
        cbn [bind]; reflexivity.
    - cbn [bind].
      destruct (fst (run_op parse fmt k (empty_graph [])
                       (OAddNodesFrom (default_names (length a))))) as [g0|x];
        cbn [bind]; [|reflexivity].
      destruct (fold_left (edge_step parse fmt k a (default_names (length a)))
                  (pairs (length (default_names (length a)))) (Ok g0)) as [g1|x];
        cbn [bind]; reflexivity.
  Qed.

  (** whatever [from_adjacency_matrix] returns (hostile input and either flag included)
      satisfies the state invariant, holds all the listed nodes, and every edge of it is
      undirected or is a directed entry pair of the matrix *)
  Theorem from_matrix_shape k a names v g :
    from_matrix parse fmt k a names v = Ok g ->
    Inv parse k g /\ incl (nodes_of a names) (node_ids g)
    /\ forall e, In e (gsrc g) ->
         ety e = Und \/ (ety e = Dir /\ mat_arc a (nodes_of a names) (esrc e) (edst e)).
  Proof.
    assert (Hfalse : forall g, from_matrix parse fmt k a names false = Ok g ->
              Inv parse k g /\ incl (nodes_of a names) (node_ids g)
              /\ forall e, In e (gsrc g) ->
                   ety e = Und \/ (ety e = Dir /\ mat_arc a (nodes_of a names) (esrc e) (edst e))).
    { clear g. intros g. unfold from_matrix.
      destruct (negb (is_square a)); [discriminate|].
      destruct (is_binary a) eqn:Hbin; cbn [negb]; [|discriminate].
      assert (Hn : match names with
                   | Some l => if Nat.eqb (length l) (length a) then Ok l else Err EAssert
                   | None => Ok (default_names (length a))
                   end = Ok (nodes_of a names)
                   \/ exists x, match names with
                      | Some l => if Nat.eqb (length l) (length a) then Ok l else Err EAssert
                      | None => Ok (default_names (length a))
                      end = Err x).
      { destruct names as [l|]; cbn [nodes_of]; [|left; reflexivity].
        destruct (Nat.eqb (length l) (length a)); [left; reflexivity|right; eexists; reflexivity]. }
      destruct Hn as [->|(x & ->)]; cbn [bind]; [|discriminate].
      set (nodes := nodes_of a names).
      destruct (fst (run_op parse fmt k (empty_graph []) (OAddNodesFrom nodes))) as [g0|x] eqn:E0;
        cbn [bind]; [|discriminate].
      assert (HI0 : Inv parse k g0)
        by exact (inv_run_op_ok parse fmt k _ _ g0 (inv_init parse k []) E0).
      cbn [run_op] in E0.
      destruct (add_nodes_from_ok k nodes (empty_graph []) g0 (cinv_empty []) E0) as [Hs0 Hn0].
      cbn in Hs0, Hn0.
      destruct (fold_left (edge_step parse fmt k a nodes) (pairs (length nodes)) (Ok g0))
        as [g1|x] eqn:E1; cbn [bind]; [|discriminate].
      intros [= <-].
      assert (HL : LoopInv k a nodes g0 g1).
      { apply (fold_res_inv (nat * nat) (LoopInv k a nodes g0) (edge_step parse fmt k a nodes)
                 (fun e x => eq_refl) (edge_step_loopinv k a nodes g0 Hbin) (pairs (length nodes)) g0 g1);
          [|exact E1].
        split; [exact HI0|]. split; [apply incl_refl|]. intros e He. left; exact He. }
      destruct HL as (HI1 & Hincl & Hedges). split; [exact HI1|].
      split; [rewrite <- Hn0; exact Hincl|].
      intros e He. destruct (Hedges e He) as [H|H]; [rewrite Hs0 in H; destruct H|exact H]. }
    destruct v; [|apply Hfalse].
    rewrite from_matrix_true_unfold.
    destruct (from_matrix parse fmt k a names false) as [g1|x]; cbn [bind]; [|discriminate].
    destruct (check_nodes g1 (nodes_of a names)); cbn [bind]; [|discriminate].
    intros [= <-]. apply Hfalse. reflexivity.
  Qed.

  Corollary from_matrix_edges_sound k a names v g :
    from_matrix parse fmt k a names v = Ok g ->
    forall s d, arc (dgraph g) s d -> mat_arc a (nodes_of a names) s d.
  Proof.
    intros H s d Hsd. destruct (from_matrix_shape k a names v g H) as (_ & _ & Hedges).
    apply arc_dgraph in Hsd. destruct Hsd as (e & He & Hty & <- & <-).
    destruct (Hedges e He) as [Hu|[_ Hm]]; [congruence|exact Hm].
  Qed.

  (** ** 2b. any input: the deferred validation is exactly an acyclicity test *)

  Lemma check_nodes_cases k g nodes :
    Inv parse k g -> incl nodes (node_ids g) ->
    (check_nodes g nodes = Ok tt /\ forall n, In n nodes -> ~ path (dgraph g) n n)
    \/ (check_nodes g nodes = Err ECyclic /\ exists n, In n nodes /\ path (dgraph g) n n).
  Proof.
    intros HI. induction nodes as [|n ns IH]; intros Hincl; cbn [check_nodes].
    - left. split; [reflexivity|]. intros n [].
    - destruct (cycle_check parse k g n HI (Hincl n (or_introl eq_refl))) as (b & Hb & Hiff).
      rewrite Hb. destruct b.
      + right. split; [reflexivity|]. exists n. split; [left; reflexivity|apply Hiff; reflexivity].
      + destruct (IH (fun x Hx => Hincl x (or_intror Hx))) as [[Hc Hno]|[Hc (m & Hm & Hp)]].
        * left. split; [exact Hc|]. intros m [<-|Hm]; [|apply Hno, Hm].
          intros Hp. apply Hiff in Hp. discriminate.
        * right. split; [exact Hc|]. exists m. split; [right; exact Hm|exact Hp].
  Qed.

  Theorem from_matrix_validate_ok k a names g :
    from_matrix parse fmt k a names false = Ok g ->
    (Acyclic g /\ from_matrix parse fmt k a names true = Ok g)
    \/ (~ Acyclic g /\ from_matrix parse fmt k a names true = Err ECyclic).
  Proof.
    intros H. destruct (from_matrix_shape k a names false g H) as (HI & Hincl & Hedges).
    rewrite from_matrix_true_unfold, H. cbn [bind].
    destruct (check_nodes_cases k g (nodes_of a names) HI Hincl) as [[-> Hno]|[-> (n & Hn & Hp)]];
      cbn [bind].
    - left. split; [|reflexivity]. intros v Hv.
      destruct (path_first Hv) as (z & Hvz & _).
      destruct (mat_arc_in _ _ _ _ (from_matrix_edges_sound k a names false g H v z Hvz)) as [Hin _].
      exact (Hno v Hin Hv).
    - right. split; [|reflexivity]. intros Hac. exact (Hac n Hp).
  Qed.

  Theorem from_matrix_validate_err k a names e :
    from_matrix parse fmt k a names false = Err e ->
    from_matrix parse fmt k a names true = Err e.
  Proof. intros H. rewrite from_matrix_true_unfold, H. reflexivity. Qed.

  Theorem from_matrix_true_iff k a names g :
    from_matrix parse fmt k a names true = Ok g <->
    from_matrix parse fmt k a names false = Ok g /\ Acyclic g.
  Proof.
    split.
    - intros H. destruct (from_matrix parse fmt k a names false) as [g2|e] eqn:E.
      + destruct (from_matrix_validate_ok k a names g2 E) as [[Hac Ht]|[_ Ht]];
          rewrite Ht in H; [|discriminate].
        injection H as <-. split; [reflexivity|exact Hac].
      + rewrite (from_matrix_validate_err k a names e E) in H. discriminate.
    - intros [H Hac]. destruct (from_matrix_validate_ok k a names g H) as [[_ Ht]|[Hn _]];
        [exact Ht|contradiction].
  Qed.

  (** C02 for [from_adjacency_matrix]: whatever the matrix and the names, a graph returned with
      validation on has no directed cycle *)
  Theorem from_matrix_validated_acyclic k a names g :
    from_matrix parse fmt k a names true = Ok g -> Acyclic g.
  Proof. intros H. exact (proj2 (proj1 (from_matrix_true_iff k a names g) H)). Qed.

  (** ** 2c. well-formed input: the construction succeeds and its directed part IS the directed
      part of the matrix *)

  Lemma edge_of_dir_mat_arc a nodes p e0 :
    is_binary a = true -> In e0 (edge_of a nodes p) -> ety e0 = Dir ->
    mat_arc a nodes (esrc e0) (edst e0).
  Proof.
    intros Hbin. unfold edge_of.
    destruct (entry a (fst p) (snd p)) as [x|] eqn:Ex; [|intros []].
    destruct (entry a (snd p) (fst p)) as [y|] eqn:Ey; [|intros []].
    destruct (nth_error nodes (fst p)) as [ni|] eqn:Eni; [|intros []].
    destruct (nth_error nodes (snd p)) as [nj|] eqn:Enj; [|intros []].
    assert (Hneq : x <> y -> fst p <> snd p).
    { intros Hxy E. rewrite E in Ex. congruence. }
    destruct (is_binary_entry a _ _ x Hbin Ex) as [->| ->];
      destruct (is_binary_entry a _ _ y Hbin Ey) as [->| ->]; cbn [Z.eqb negb andb].
    - intros [].
    - intros [<-|[]] _. cbn [mk_edge esrc edst].
      exists (snd p), (fst p). split; [apply not_eq_sym, Hneq; discriminate|]. auto.
    - intros [<-|[]] _. cbn [mk_edge esrc edst].
      exists (fst p), (snd p). split; [apply Hneq; discriminate|]. auto.
    - intros [<-|[]]. discriminate.
  Qed.

  Lemma mat_arc_edge_of a nodes s d :
    mat_arc a nodes s d ->
    exists p, fst p < snd p /\ snd p < length nodes /\ In (mk_edge s d Dir) (edge_of a nodes p).
  Proof.
    intros (i & j & Hij & Es & Ed & Ex & Ey).
    assert (Hi : i < length nodes) by (apply nth_error_Some; congruence).
    assert (Hj : j < length nodes) by (apply nth_error_Some; congruence).
    destruct (Nat.lt_ge_cases i j) as [Hlt|Hge].
    - exists (i, j). cbn [fst snd]. split; [exact Hlt|]. split; [exact Hj|].
      unfold edge_of. cbn [fst snd]. rewrite Ex, Ey, Es, Ed. cbn. left; reflexivity.
    - exists (j, i). cbn [fst snd]. split; [lia|]. split; [exact Hi|].
      unfold edge_of. cbn [fst snd]. rewrite Ex, Ey, Es, Ed. cbn. left; reflexivity.
  Qed.

  (** the time-series class refuses a directed edge that points backwards in time: the lag
      parsed from the source name must not exceed the one parsed from the destination name *)
  Definition time_respecting (a : matrix) (names : list name) : Prop :=
    forall s d, mat_arc a names s d ->
      exists vs ls vd ld, parse s = Some (vs, ls) /\ parse d = Some (vd, ld) /\ (ls <= ld)%Z.

  Definition all_names_parse (names : list name) : Prop :=
    forall x, In x names -> exists v l, parse x = Some (v, l).

  Theorem from_matrix_built k a names :
    is_square a = true -> is_binary a = true -> length names = length a -> NoDup names ->
    (k = TS -> all_names_parse names) -> (k = TS -> time_respecting a names) ->
    exists g, from_matrix parse fmt k a (Some names) false = Ok g
              /\ node_ids g = names
              /\ (forall s d, arc (dgraph g) s d <-> mat_arc a names s d)
              /\ (forall e, In e (gsrc g) -> ety e = Dir \/ ety e = Und).
  Proof.
    intros Hsq Hbin Hl Hnd Hparse Htime.
    assert (Hd : dims (length names) a) by (rewrite Hl; apply is_square_true_iff, Hsq).
    assert (Hb : forall i j, i < length names -> j < length names ->
                   entry a i j = Some 0%Z \/ entry a i j = Some 1%Z).
    { intros i j Hi Hj. destruct (@entry_some (length names) a i j Hd Hi Hj) as [z Hz].
      destruct (is_binary_entry a i j z Hbin Hz) as [->| ->]; [left|right]; exact Hz. }
    unfold from_matrix. rewrite Hsq, Hbin. cbn [negb].
    rewrite (proj2 (Nat.eqb_eq _ _) Hl). cbn [bind run_op].
    destruct (@add_nodes_any parse k names (empty_graph []) Hnd)
      as (g0 & Hg0 & Hn0 & Hs0 & Hl0 & _ & Hv0).
    { intros x _ []. }
    { intros Hk x Hx. exact (Hparse Hk x Hx). }
    rewrite Hg0. cbn [fst bind]. cbn in Hn0, Hs0.
    destruct (@loop_any parse fmt k a names Hnd Hb (pairs (length names)) g0)
      as (g' & Hg' & Hn' & Hfw & _ & Hnew).
    - intros [i j] Hp. apply in_pairs in Hp. cbn [fst snd]. lia.
    - apply pairs_nodup.
    - intros x Hx. rewrite Hn0. exact Hx.
    - exact Hl0.
    - intros Hk p e0 Hp He0 Ht.
      destruct (Htime Hk _ _ (edge_of_dir_mat_arc a names p e0 Hbin He0 Ht))
        as (vs & ls & vd & ld & Hps & Hpd & Hle).
      destruct (mat_arc_in _ _ _ _ (edge_of_dir_mat_arc a names p e0 Hbin He0 Ht)) as [Hsn Hdn].
      exists ls, ld. split; [exact (Hv0 Hk _ vs ls Hsn Hps)|].
      split; [exact (Hv0 Hk _ vd ld Hdn Hpd)|exact Hle].
    - intros e p ni nj He. rewrite Hs0 in He. destruct He.
    - rewrite Hg'. cbn [bind]. exists g'. split; [reflexivity|]. split; [congruence|].
      assert (Hsrc : forall e', In e' (gsrc g') ->
                exists p e0, In p (pairs (length names)) /\ In e0 (edge_of a names p) /\ sim e' e0).
      { intros e' He'. destruct (Hfw e' He') as [H|H]; [rewrite Hs0 in H; destruct H|exact H]. }
      split.
      + intros s d. split.
        * intros Hsd. apply arc_dgraph in Hsd. destruct Hsd as (e' & He' & Hty & Hes & Hed).
          destruct (Hsrc e' He') as (p & e0 & _ & He0 & [Hty0 Hk0]).
          assert (Hd0 : ety e0 = Dir) by congruence.
          pose proof (edge_of_dir_mat_arc a names p e0 Hbin He0 Hd0) as Hm.
          destruct Hk0 as [Hk0|[Hu _]]; [|congruence].
          unfold edge_key in Hk0. injection Hk0 as E1 E2. congruence.
        * intros Hm. destruct (mat_arc_edge_of a names s d Hm) as ([i j] & Hlt & Hj & He0).
          cbn [fst snd] in Hlt, Hj.
          destruct (Hnew (i, j) _ (proj2 (in_pairs (length names) i j) (conj Hlt Hj)) He0)
            as (e' & He' & [Hty Hk0]).
          cbn [mk_edge ety esrc edst] in Hty, Hk0.
          destruct Hk0 as [Hk0|[Hu _]]; [|discriminate].
          unfold edge_key in Hk0. cbn [mk_edge esrc edst] in Hk0. injection Hk0 as E1 E2.
          apply arc_dgraph. exists e'. repeat split; assumption.
      + intros e' He'. destruct (Hsrc e' He') as (p & e0 & _ & He0 & [Hty0 _]).
        rewrite Hty0. clear - He0. unfold edge_of in He0.
        destruct (entry a (fst p) (snd p)) as [x|]; [|destruct He0].
        destruct (entry a (snd p) (fst p)) as [y|]; [|destruct He0].
        destruct (nth_error names (fst p)) as [ni|]; [|destruct He0].
        destruct (nth_error names (snd p)) as [nj|]; [|destruct He0].
        destruct (negb (Z.eqb x 0) && Z.eqb y 0); [destruct He0 as [<-|[]]; left; reflexivity|].
        destruct (Z.eqb x 0 && negb (Z.eqb y 0)); [destruct He0 as [<-|[]]; left; reflexivity|].
        destruct (negb (Z.eqb x 0) && negb (Z.eqb y 0));
          [destruct He0 as [<-|[]]; right; reflexivity|destruct He0].
  Qed.

  Lemma acyclic_iff_mat a names g :
    (forall s d, arc (dgraph g) s d <-> mat_arc a names s d) ->
    (Acyclic g <-> acyclic (mat_dgraph a names)).
  Proof.
    intros Harcs.
    assert (Hext : forall s d, arc (dgraph g) s d <-> arc (mat_dgraph a names) s d).
    { intros s d. rewrite mat_arcs_spec. apply Harcs. }
    unfold Acyclic, acyclic.
    split; intros H v Hp; apply (H v); apply (path_ext _ _ Hext); exact Hp.
  Qed.

  (** if the directed part of the matrix has a cycle the validated construction raises
      CyclicConnectionError ... *)
  Theorem from_matrix_cyclic_refused k a names :
    is_square a = true -> is_binary a = true -> length names = length a -> NoDup names ->
    (k = TS -> all_names_parse names) -> (k = TS -> time_respecting a names) ->
    ~ acyclic (mat_dgraph a names) ->
    from_matrix parse fmt k a (Some names) true = Err ECyclic.
  Proof.
    intros Hsq Hbin Hl Hnd Hparse Htime Hcyc.
    destruct (from_matrix_built k a names Hsq Hbin Hl Hnd Hparse Htime) as (g & Hg & _ & Harcs & _).
    destruct (from_matrix_validate_ok k a (Some names) g Hg) as [[Hac _]|[_ Ht]]; [|exact Ht].
    exfalso. apply Hcyc. apply (acyclic_iff_mat a names g Harcs). exact Hac.
  Qed.

  (** ... and if it is acyclic the construction succeeds, with exactly that directed part *)
  Theorem from_matrix_acyclic_accepted k a names :
    is_square a = true -> is_binary a = true -> length names = length a -> NoDup names ->
    (k = TS -> all_names_parse names) -> (k = TS -> time_respecting a names) ->
    acyclic (mat_dgraph a names) ->
    exists g, from_matrix parse fmt k a (Some names) true = Ok g
              /\ node_ids g = names
              /\ (forall s d, arc (dgraph g) s d <-> mat_arc a names s d)
              /\ Acyclic g.
  Proof.
    intros Hsq Hbin Hl Hnd Hparse Htime Hac.
    destruct (from_matrix_built k a names Hsq Hbin Hl Hnd Hparse Htime) as (g & Hg & Hids & Harcs & _).
    assert (Hacg : Acyclic g) by (apply (acyclic_iff_mat a names g Harcs); exact Hac).
    exists g. split; [|auto]. apply from_matrix_true_iff. split; assumption.
  Qed.

  (** both at once, decided by the executable test [acyclicb] on the matrix *)
  Theorem from_matrix_decide k a names :
    is_square a = true -> is_binary a = true -> length names = length a -> NoDup names ->
    (k = TS -> all_names_parse names) -> (k = TS -> time_respecting a names) ->
    from_matrix parse fmt k a (Some names) true
    = if acyclicb name_eqb (mat_dgraph a names)
      then from_matrix parse fmt k a (Some names) false else Err ECyclic.
  Proof.
    intros Hsq Hbin Hl Hnd Hparse Htime.
    pose proof (acyclicb_spec name_eqb name_eqb_spec (mat_dgraph_wf a names Hnd)) as Hspec.
    destruct (acyclicb name_eqb (mat_dgraph a names)).
    - destruct (from_matrix_acyclic_accepted k a names Hsq Hbin Hl Hnd Hparse Htime
                  (proj1 Hspec eq_refl)) as (g & Hg & _).
      rewrite Hg. symmetry. apply (proj1 (from_matrix_true_iff k a (Some names) g) Hg).
    - apply from_matrix_cyclic_refused; try assumption.
      intros Hac. apply Hspec in Hac. discriminate.
  Qed.

  (** * 3. from_networkx (and from_gml_string = from_networkx of the parsed text),
        from_skeleton, Skeleton.from_dict *)

  (** the directed part of a networkx graph as [from_networkx] reads it through
      [networkx.to_numpy_array]: an edge [s -> d] without its reverse (self loops are ignored,
      a pair of opposite edges becomes ONE undirected edge) *)
  Definition nx_arc (x : nxgraph) (s d : name) : Prop :=
    In s (nx_nodes x) /\ In d (nx_nodes x) /\ s <> d
    /\ nx_has x s d = true /\ nx_has x d s = false.

  Lemma nx_nodes_nodup x : NoDup (nx_nodes x).
  Proof. destruct x as [[dir ns] es]. apply dedup_nodup. Qed.

  Lemma nx_mat_arc x s d : mat_arc (nx_to_matrix x) (nx_nodes x) s d <-> nx_arc x s d.
  Proof.
    split.
    - intros (i & j & Hij & Es & Ed & Ex & Ey).
      rewrite (nx_to_matrix_entry x i j Es Ed) in Ex.
      rewrite (nx_to_matrix_entry x j i Ed Es) in Ey.
      split; [eapply nth_error_In; exact Es|]. split; [eapply nth_error_In; exact Ed|].
      split.
      + intros ->. apply Hij.
        eapply nodup_nth_inj; [apply (nx_nodes_nodup x)|exact Es|exact Ed].
      + split; [destruct (nx_has x s d); [reflexivity|discriminate]
               |destruct (nx_has x d s); [discriminate|reflexivity]].
    - intros (Hs & Hd & Hne & H1 & H0).
      apply In_nth_error in Hs, Hd. destruct Hs as [i Es]. destruct Hd as [j Ed].
      exists i, j. split; [intros ->; congruence|]. split; [exact Es|]. split; [exact Ed|].
      rewrite (nx_to_matrix_entry x i j Es Ed), (nx_to_matrix_entry x j i Ed Es), H1, H0.
      split; reflexivity.
  Qed.

  Lemma nx_arc_directed ns es s d :
    nx_arc (true, ns, es) s d <-> In (s, d) es /\ ~ In (d, s) es /\ s <> d.
  Proof.
    unfold nx_arc. split.
    - intros (_ & _ & Hne & H1 & H0). apply nx_has_spec in H1.
      destruct H1 as [H1|[Hf _]]; [|discriminate]. split; [exact H1|]. split; [|exact Hne].
      intros Hr. assert (Ht : nx_has (true, ns, es) d s = true) by (apply nx_has_spec; left; exact Hr).
      congruence.
    - intros (H1 & H0 & Hne).
      assert (Hin : forall y, y = s \/ y = d -> In y (nx_nodes (true, ns, es))).
      { intros y Hy. unfold nx_nodes. apply dedup_in, in_or_app. right. apply in_flat_map.
        exists (s, d). split; [exact H1|]. cbn [fst snd]. destruct Hy as [->| ->]; cbn; auto. }
      split; [apply Hin; left; reflexivity|]. split; [apply Hin; right; reflexivity|].
      split; [exact Hne|]. split; [apply nx_has_spec; left; exact H1|].
      apply not_true_is_false. intros Ht. apply nx_has_spec in Ht.
      destruct Ht as [Ht|[Hf _]]; [contradiction|discriminate].
  Qed.

  Lemma nx_arc_undirected ns es s d : ~ nx_arc (false, ns, es) s d.
  Proof.
    intros (_ & _ & _ & H1 & H0). apply nx_has_spec in H1.
    assert (Ht : nx_has (false, ns, es) d s = true).
    { apply nx_has_spec. destruct H1 as [H1|[_ H1]]; [right; split; [reflexivity|exact H1]|left; exact H1]. }
    congruence.
  Qed.

  Lemma nx_matrix_wf x :
    is_square (nx_to_matrix x) = true /\ is_binary (nx_to_matrix x) = true
    /\ length (nx_nodes x) = length (nx_to_matrix x).
  Proof.
    pose proof (nx_to_matrix_dims x) as Hd.
    assert (Hl : length (nx_nodes x) = length (nx_to_matrix x)) by (symmetry; apply Hd).
    split; [apply is_square_true_iff; rewrite <- Hl; exact Hd|]. split; [|exact Hl].
    apply (binary_is_binary Hd). intros i j Hi Hj.
    destruct (nth_error (nx_nodes x) i) as [ni|] eqn:Ei; [|apply nth_error_None in Ei; lia].
    destruct (nth_error (nx_nodes x) j) as [nj|] eqn:Ej; [|apply nth_error_None in Ej; lia].
    rewrite (nx_to_matrix_entry x i j Ei Ej). destruct (nx_has x ni nj); auto.
  Qed.

  Theorem from_nx_validated_acyclic k x g : from_nx parse fmt k x true = Ok g -> Acyclic g.
  Proof. apply from_matrix_validated_acyclic. Qed.

  Theorem from_nx_true_iff k x g :
    from_nx parse fmt k x true = Ok g <-> from_nx parse fmt k x false = Ok g /\ Acyclic g.
  Proof. apply from_matrix_true_iff. Qed.

  Theorem from_nx_validate_ok k x g :
    from_nx parse fmt k x false = Ok g ->
    (Acyclic g /\ from_nx parse fmt k x true = Ok g)
    \/ (~ Acyclic g /\ from_nx parse fmt k x true = Err ECyclic).
  Proof. apply from_matrix_validate_ok. Qed.

  Theorem from_nx_edges_sound k x v g :
    from_nx parse fmt k x v = Ok g -> forall s d, arc (dgraph g) s d -> nx_arc x s d.
  Proof.
    intros H s d Hsd. apply nx_mat_arc.
    exact (from_matrix_edges_sound k _ (Some (nx_nodes x)) v g H s d Hsd).
  Qed.

  Lemma clos_trans_ext (R S : name -> name -> Prop) :
    (forall a b, R a b -> S a b) -> forall x y, clos_trans name R x y -> clos_trans name S x y.
  Proof.
    intros H x y Hp. induction Hp as [x y Hxy|x y z _ IH1 _ IH2].
    - apply t_step, H, Hxy.
    - eapply t_trans; eassumption.
  Qed.

  Lemma nx_path_iff x u v :
    path (mat_dgraph (nx_to_matrix x) (nx_nodes x)) u v <-> clos_trans name (nx_arc x) u v.
  Proof.
    unfold path. split; apply clos_trans_ext; intros a b H.
    - apply nx_mat_arc, mat_arcs_spec, H.
    - apply mat_arcs_spec, nx_mat_arc, H.
  Qed.

  (** the hypotheses the time-series class needs: names parse and no directed edge of the
      networkx graph points backwards in time *)
  Definition nx_time_respecting (x : nxgraph) : Prop :=
    forall s d, nx_arc x s d ->
      exists vs ls vd ld, parse s = Some (vs, ls) /\ parse d = Some (vd, ld) /\ (ls <= ld)%Z.

  Theorem from_nx_cyclic_refused k x :
    (k = TS -> all_names_parse (nx_nodes x)) -> (k = TS -> nx_time_respecting x) ->
    (exists v, clos_trans name (nx_arc x) v v) ->
    from_nx parse fmt k x true = Err ECyclic.
  Proof.
    intros Hparse Htime (v & Hv). destruct (nx_matrix_wf x) as (Hsq & Hbin & Hl).
    apply from_matrix_cyclic_refused; try assumption.
    - apply nx_nodes_nodup.
    - intros Hk s d Hm. apply (Htime Hk), nx_mat_arc, Hm.
    - intros Hac. apply (Hac v), nx_path_iff, Hv.
  Qed.

  Theorem from_nx_acyclic_accepted k x :
    (k = TS -> all_names_parse (nx_nodes x)) -> (k = TS -> nx_time_respecting x) ->
    (forall v, ~ clos_trans name (nx_arc x) v v) ->
    exists g, from_nx parse fmt k x true = Ok g /\ node_ids g = nx_nodes x
              /\ (forall s d, arc (dgraph g) s d <-> nx_arc x s d) /\ Acyclic g.
  Proof.
    intros Hparse Htime Hac. destruct (nx_matrix_wf x) as (Hsq & Hbin & Hl).
    destruct (from_matrix_acyclic_accepted k (nx_to_matrix x) (nx_nodes x) Hsq Hbin Hl
                (nx_nodes_nodup x) Hparse) as (g & Hg & Hids & Harcs & Hacg).
    - intros Hk s d Hm. apply (Htime Hk), nx_mat_arc, Hm.
    - intros v Hv. apply (Hac v), nx_path_iff, Hv.
    - exists g. split; [exact Hg|]. split; [exact Hids|]. split; [|exact Hacg].
      intros s d. rewrite Harcs. apply nx_mat_arc.
  Qed.

  (** [CausalGraph.from_skeleton(skeleton, validate)] =
      [cls.from_networkx(skeleton.to_networkx(), validate=validate)], for the skeleton of the
      graph state [g0] *)
  Definition from_skeleton (k : kind) (g0 : graph) (v : bool) : res graph :=
    from_nx parse fmt k (sk_to_nx g0) v.

  (** a graph built from a skeleton has undirected edges only: it is trivially free of
      directed cycles and the [validate] flag makes no difference *)
  Theorem from_skeleton_undirected k g0 v g :
    from_skeleton k g0 v = Ok g ->
    (forall e, In e (gsrc g) -> ety e = Und) /\ Acyclic g
    /\ from_skeleton k g0 true = Ok g /\ from_skeleton k g0 false = Ok g.
  Proof.
    unfold from_skeleton, from_nx. intros H.
    destruct (from_matrix_shape k _ _ v g H) as (_ & _ & Hedges).
    assert (Hund : forall e, In e (gsrc g) -> ety e = Und).
    { intros e He. destruct (Hedges e He) as [Hu|[_ Hm]]; [exact Hu|]. exfalso.
      cbn [nodes_of] in Hm. apply nx_mat_arc in Hm. unfold sk_to_nx in Hm.
      exact (nx_arc_undirected _ _ _ _ Hm). }
    assert (Hac : Acyclic g).
    { intros u Hu. destruct (path_first Hu) as (z & Huz & _). apply arc_dgraph in Huz.
      destruct Huz as (e & He & Hty & _). rewrite (Hund e He) in Hty. discriminate. }
    split; [exact Hund|]. split; [exact Hac|].
    destruct v.
    - split; [exact H|]. exact (proj1 (proj1 (from_matrix_true_iff k _ _ g) H)).
    - split; [|exact H]. apply from_matrix_true_iff. split; assumption.
  Qed.

  Corollary from_skeleton_acyclic k g0 v g : from_skeleton k g0 v = Ok g -> Acyclic g.
  Proof. intros H. exact (proj1 (proj2 (from_skeleton_undirected k g0 v g H))). Qed.

  (** the Skeleton class methods [Skeleton.from_adjacency_matrix] / [Skeleton.from_networkx]
      (they delegate to the graph class) and [Skeleton.from_dict(sk.to_dict(), graph_class)]
      as modelled in Skeleton.v ([sk_from_dict]: the node objects, then the undirected edge
      objects, each added with validate=True) *)
  Corollary sk_from_matrix_acyclic k a names g :
    sk_from_matrix parse fmt k a names true = Ok g -> Acyclic g.
  Proof. apply from_matrix_validated_acyclic. Qed.

  Corollary sk_from_nx_acyclic k x g : sk_from_nx parse fmt k x true = Ok g -> Acyclic g.
  Proof. apply from_nx_validated_acyclic. Qed.

  Lemma run_all_good k ops : forall g g',
    (forall o, In o ops ->
       (exists id vt m, o = OAddNodeObj id vt m) \/ (exists sp dp ty m, o = OAddEdge sp dp ty m true)) ->
    Good g -> run_all parse fmt k ops g = Ok g' -> Good g'.
  Proof.
    unfold run_all. induction ops as [|o ops IH]; intros g g' Hops HG; cbn [fold_left].
    - intros [= <-]. exact HG.
    - cbn [bind]. destruct (fst (run_op parse fmt k g o)) as [g1|x] eqn:E.
      + apply IH; [intros o' Ho'; apply Hops; right; exact Ho'|].
        destruct (Hops o (or_introl eq_refl)) as [(id & vt & m & ->)|(sp & dp & ty & m & ->)];
          cbn [run_op] in E.
        * destruct (add_node_obj parse k g id vt m) as [g2|y] eqn:E2; cbn [lift fst] in E;
            [|discriminate].
          injection E as <-. exact (good_add_node_obj parse k g id vt m g2 HG E2).
        * destruct (good_add_edge parse k g sp dp ty m HG) as [HG' Heq].
          rewrite <- (Heq g1 E) in HG'. exact HG'.
      + intros H. exfalso. revert H. clear. induction ops as [|o' ops IH]; cbn [fold_left bind];
          [discriminate|exact IH].
  Qed.

  Theorem sk_from_dict_acyclic k g0 g : sk_from_dict parse fmt k g0 = Ok g -> Acyclic g.
  Proof.
    unfold sk_from_dict. intros H.
    refine (proj2 (run_all_good k _ _ g _ (conj (cinv_empty []) (acyclic_empty [])) H)).
    intros o Ho. unfold sk_dict_ops in Ho. apply in_app_or in Ho. destruct Ho as [Ho|Ho];
      apply in_map_iff in Ho; destruct Ho as (y & <- & _).
    - left. eexists; eexists; eexists; reflexivity.
    - right. eexists; eexists; eexists; eexists; reflexivity.
  Qed.

  (** * 4. is_dag() of a constructed graph *)

  (** [Built k v g]: [g] was returned by one of the constructors of class [k] called with
      [validate = v] *)
  Inductive Built : kind -> bool -> graph -> Prop :=
  | B_from_dict k j v g : from_dict parse fmt k j v = Ok g -> Built k v g
  | B_skeleton_from_dict k j g : skeleton_from_dict parse fmt k j = Ok g -> Built k true g
  | B_from_matrix k a names v g : from_matrix parse fmt k a names v = Ok g -> Built k v g
  | B_from_nx k x v g : from_nx parse fmt k x v = Ok g -> Built k v g
  | B_from_skeleton k g0 v g : from_skeleton k g0 v = Ok g -> Built k v g
  | B_copy k g0 im g : copy parse fmt k g0 im = Ok g -> Built k false g
  | B_from_causal_graph g0 g : from_causal_graph parse fmt g0 = Ok g -> Built TS false g
  | B_ts_to_cg g0 g : ts_to_cg parse fmt g0 = Ok g -> Built Plain true g
  | B_sk_from_dict k g0 g : sk_from_dict parse fmt k g0 = Ok g -> Built k true g.

  Lemma run_all_inv k ops : forall g g',
    Inv parse k g -> run_all parse fmt k ops g = Ok g' -> Inv parse k g'.
  Proof.
    unfold run_all. induction ops as [|o ops IH]; intros g g' HI; cbn [fold_left].
    - intros [= <-]. exact HI.
    - cbn [bind]. destruct (fst (run_op parse fmt k g o)) as [g1|x] eqn:E.
      + apply IH. exact (inv_run_op_ok parse fmt k g o g1 HI E).
      + intros H. exfalso. revert H. clear. induction ops as [|o' ops IH]; cbn [fold_left bind];
          [discriminate|exact IH].
  Qed.

  Lemma from_dict_inv' k j v g : from_dict parse fmt k j v = Ok g -> Inv parse k g.
  Proof.
    apply (@SerialProofs.from_dict_inv parse fmt).
    intros k0 g0 o H. exact (proj1 (good_run_op parse fmt k0 g0 o H)).
  Qed.

  Theorem built_inv k v g : Built k v g -> Inv parse k g.
  Proof.
    intros [k' j v' g' H|k' j g' H|k' a names v' g' H|k' x v' g' H|k' g0 v' g' H|k' g0 im g' H
           |g0 g' H|g0 g' H|k' g0 g' H].
    - exact (from_dict_inv' k' j v' g' H).
    - exact (from_dict_inv' k' j true g' H).
    - exact (proj1 (from_matrix_shape k' a names v' g' H)).
    - exact (proj1 (from_matrix_shape k' _ _ v' g' H)).
    - exact (proj1 (from_matrix_shape k' _ _ v' g' H)).
    - unfold copy in H. destruct (to_dict k' g0 im) as [j|x]; cbn [bind] in H; [|discriminate].
      exact (from_dict_inv' k' j false g' H).
    - unfold from_causal_graph in H.
      destruct (to_dict Plain g0 true) as [j|x]; cbn [bind] in H; [|discriminate].
      exact (from_dict_inv' TS j false g' H).
    - unfold ts_to_cg in H.
      destruct (to_dict TS g0 true) as [j|x]; cbn [bind] in H; [|discriminate].
      exact (from_dict_inv' Plain j true g' H).
    - exact (run_all_inv k' _ _ g' (inv_init parse k' []) H).
  Qed.

  (** C02, constructors: with validation on, no constructor returns a graph whose directed
      edges contain a cycle *)
  Theorem built_validated_acyclic k g : Built k true g -> Acyclic g.
  Proof.
    intros HB. remember true as v eqn:Ev.
    destruct HB as [k j v g H|k j g H|k a names v g H|k x v g H|k g0 v g H|k g0 im g H
                   |g0 g H|g0 g H|k g0 g H]; try subst v.
    - exact (from_dict_validated_acyclic k j g H).
    - exact (skeleton_from_dict_acyclic k j g H).
    - exact (from_matrix_validated_acyclic k a names g H).
    - exact (from_nx_validated_acyclic k x g H).
    - exact (from_skeleton_acyclic k g0 true g H).
    - discriminate.
    - discriminate.
    - unfold ts_to_cg in H.
      destruct (to_dict TS g0 true) as [j|x]; cbn [bind] in H; [|discriminate].
      exact (from_dict_validated_acyclic Plain j g H).
    - exact (sk_from_dict_acyclic k g0 g H).
  Qed.

  (** C02, is_dag: for a graph however it was constructed (validate=False included),
      [is_dag()] is true exactly when every edge is directed and the directed edges are
      acyclic *)
  Theorem is_dag_of_constructed k v g :
    Built k v g ->
    (is_dag_model g = true <-> (forall e, In e (gsrc g) -> ety e = Dir) /\ Acyclic g).
  Proof. intros HB. exact (is_dag_spec parse k g (built_inv k v g HB)). Qed.

  (** ... so with validation on it is true exactly when every edge is directed *)
  Corollary is_dag_of_validated k g :
    Built k true g -> (is_dag_model g = true <-> forall e, In e (gsrc g) -> ety e = Dir).
  Proof.
    intros HB. rewrite (is_dag_of_constructed k true g HB). split; [intros [H _]; exact H|].
    intros H. split; [exact H|exact (built_validated_acyclic k g HB)].
  Qed.

  (** a graph built from a skeleton is a DAG only if it has no edge at all *)
  Corollary is_dag_of_from_skeleton k g0 v g :
    from_skeleton k g0 v = Ok g -> (is_dag_model g = true <-> gsrc g = []).
  Proof.
    intros H. rewrite (is_dag_of_constructed k v g (B_from_skeleton k g0 v g H)).
    destruct (from_skeleton_undirected k g0 v g H) as (Hund & Hac & _). split.
    - intros [Hd _]. destruct (gsrc g) as [|e es]; [reflexivity|]. exfalso.
      pose proof (Hund e (or_introl eq_refl)) as H1. pose proof (Hd e (or_introl eq_refl)) as H2.
      congruence.
    - intros E. split; [rewrite E; intros e []|exact Hac].
  Qed.
End Ctor.

(** * 5. Autogenerated node names ([node_names=None]: 'node_0', 'node_1', ...) *)

From CG Require Import Dec Names NamesProofs.

Lemma default_names_length n : length (default_names n) = n.
Proof. unfold default_names. rewrite map_length, seq_length. reflexivity. Qed.

Lemma dec_N_inj a b : dec_N a = dec_N b -> a = b.
Proof.
  intros E. pose proof (read_dec_N a) as Ha. rewrite E, read_dec_N in Ha. congruence.
Qed.

Lemma default_names_nodup n : NoDup (default_names n).
Proof.
  unfold default_names. generalize (seq_NoDup n 0). generalize (seq 0 n).
  intros l Hl. induction Hl as [|i l Hi Hl IH]; cbn [map]; constructor; [|exact IH].
  rewrite in_map_iff. intros (j & E & Hj). apply app_inv_head, dec_N_inj, Nat2N.inj in E.
  subst j. contradiction.
Qed.

Lemma from_matrix_none_eq parse fmt k a v :
  from_matrix parse fmt k a None v
  = from_matrix parse fmt k a (Some (default_names (length a))) v.
Proof.
  unfold from_matrix. rewrite default_names_length, Nat.eqb_refl. reflexivity.
Qed.

(** an autogenerated name is a good variable name: the time-series class reads it as that
    variable at lag 0 *)
Lemma default_name_good i : good (node_prefix ++ dec_N i) = true.
Proof.
  apply good_iff. split; [discriminate|].
  assert (Hnot : forall c, is_digit c = false -> ~ In c node_prefix ->
                           ~ In c (node_prefix ++ dec_N i)).
  { intros c Hc Hp Hin. apply in_app_or in Hin. destruct Hin as [Hin|Hin]; [exact (Hp Hin)|].
    exact (digits_not_in c (dec_N i) (dec_N_digits i) Hc Hin). }
  split.
  - apply (occurs_not_in w_lag 108%N [97; 103]%N); [reflexivity|].
    apply Hnot; [reflexivity|]. cbn. intuition discriminate.
  - apply (occurs_not_in w_future 102%N [117; 116; 117; 114; 101]%N); [reflexivity|].
    apply Hnot; [reflexivity|]. cbn. intuition discriminate.
Qed.

Lemma default_names_parse n x :
  In x (default_names n) -> Names.parse x = Some (x, 0%Z).
Proof.
  unfold default_names. rewrite in_map_iff. intros (i & <- & _).
  apply parse_good, default_name_good.
Qed.

(** with autogenerated names a square binary matrix is never refused for another reason than
    a directed cycle, in either class *)
Theorem from_matrix_default_names k a :
  is_square a = true -> is_binary a = true ->
  (exists g, from_matrix Names.parse Names.fmt k a None false = Ok g
             /\ node_ids g = default_names (length a)
             /\ forall s d, arc (dgraph g) s d <-> mat_arc a (default_names (length a)) s d)
  /\ from_matrix Names.parse Names.fmt k a None true
     = if acyclicb name_eqb (mat_dgraph a (default_names (length a)))
       then from_matrix Names.parse Names.fmt k a None false else Err ECyclic.
Proof.
  intros Hsq Hbin. rewrite !from_matrix_none_eq.
  assert (Hp : k = TS -> all_names_parse Names.parse (default_names (length a))).
  { intros _ x Hx. exists x, 0%Z. exact (default_names_parse _ x Hx). }
  assert (Ht : k = TS -> time_respecting Names.parse a (default_names (length a))).
  { intros _ s d Hm. destruct (mat_arc_in _ _ _ _ Hm) as [Hs Hd].
    exists s, 0%Z, d, 0%Z. rewrite (default_names_parse _ s Hs), (default_names_parse _ d Hd).
    split; [reflexivity|]. split; [reflexivity|lia]. }
  split.
  - destruct (from_matrix_built Names.parse Names.fmt k a (default_names (length a)) Hsq Hbin
                (default_names_length _) (default_names_nodup _) Hp Ht) as (g & Hg & Hids & Harcs & _).
    exists g. auto.
  - apply from_matrix_decide; try assumption;
      [apply default_names_length|apply default_names_nodup].
Qed.

(** * 6. The theorems at the verified name codec *)

Definition from_dict_validated_acyclic_names := from_dict_validated_acyclic Names.parse Names.fmt.
Definition from_dict_true_iff_names := from_dict_true_iff Names.parse Names.fmt.
Definition from_dict_validate_ok_names := from_dict_validate_ok Names.parse Names.fmt.
Definition from_dict_validate_err_names := from_dict_validate_err Names.parse Names.fmt.
Definition from_matrix_validated_acyclic_names := from_matrix_validated_acyclic Names.parse Names.fmt.
Definition from_matrix_true_iff_names := from_matrix_true_iff Names.parse Names.fmt.
Definition from_matrix_cyclic_refused_names := from_matrix_cyclic_refused Names.parse Names.fmt.
Definition from_matrix_acyclic_accepted_names := from_matrix_acyclic_accepted Names.parse Names.fmt.
Definition from_nx_validated_acyclic_names := from_nx_validated_acyclic Names.parse Names.fmt.
Definition from_skeleton_undirected_names := from_skeleton_undirected Names.parse Names.fmt.
Definition built_validated_acyclic_names := built_validated_acyclic Names.parse Names.fmt.
Definition is_dag_of_constructed_names := is_dag_of_constructed Names.parse Names.fmt.

(** * 7. Non-vacuity, and behaviour pinned to the implementation

    Every [vm_compute] example below was checked against /repo (CausalGraph and
    TimeSeriesCausalGraph: [from_dict], [from_adjacency_matrix], [from_networkx],
    [from_skeleton], [Skeleton.from_dict], with validate True / False). *)
Module CtorExamples.
  Local Open Scope N_scope.
  Notation parse := Names.parse.
  Notation fmt := Names.fmt.

  Definition na : name := [97].   Definition nb : name := [98].   Definition nc : name := [99].
  Definition nd : name := [100].
  Definition x0 : name := [120].  (* "x" *)
  Definition x1 : name := [120; 32; 108; 97; 103; 40; 110; 61; 49; 41].  (* "x lag(n=1)" *)
  Definition ny : name := [121].  Definition nz : name := [122].

  (** minimal dictionaries: {'identifier': id} and
      {'source': .., 'destination': .., 'edge_type': ..} *)
  Definition jn (id : name) : json := JObj [(s_identifier, JStr id)].
  Definition je (s d : name) (ty : etype) : json :=
    JObj [(s_source, jn s); (s_destination, jn d); (s_edge_type, JStr (etype_str ty))].
  Definition jdict (nodes : list name) (groups : list (name * list (name * json))) : json :=
    JObj [(s_nodes, JObj (map (fun n => (n, jn n)) nodes));
          (s_edges, JObj (map (fun g => (fst g, JObj (snd g))) groups))].

  (** what we look at: node order, stored edges, is_dag() *)
  Definition show (r : res graph) : res (list name * list (name * name * etype) * bool) :=
    match r with
    | Ok g => Ok (map nid (gnodes g), map (fun e => (esrc e, edst e, ety e)) (gsrc g),
                 is_dag_model g)
    | Err e => Err e
    end.

  (** ** from_dict *)

  (** a -> b, b -> c, c -> a *)
  Definition cyc : json :=
    jdict [na; nb; nc] [(na, [(nb, je na nb Dir)]); (nb, [(nc, je nb nc Dir)]);
                        (nc, [(na, je nc na Dir)])].
  (** a -> b, a -> c, b -> c *)
  Definition acy : json :=
    jdict [na; nb; nc] [(na, [(nb, je na nb Dir); (nc, je na nc Dir)]); (nb, [(nc, je nb nc Dir)])].
  (** a -> b, b -> c, c -- a: the closing edge is undirected *)
  Definition mix : json :=
    jdict [na; nb; nc] [(na, [(nb, je na nb Dir)]); (nb, [(nc, je nb nc Dir)]);
                        (nc, [(na, je nc na Und)])].

  (** CyclicConnectionError with validation, the 3-cycle without (is_dag() False) *)
  Example ex_dict_cyc k :
    from_dict parse fmt k cyc true = Err ECyclic
    /\ show (from_dict parse fmt k cyc false)
       = Ok ([na; nb; nc], [(na, nb, Dir); (nb, nc, Dir); (nc, na, Dir)], false)
    /\ skeleton_from_dict parse fmt k cyc = Err ECyclic.
  Proof. destruct k; vm_compute; repeat split; reflexivity. Qed.

  Example ex_dict_acy k :
    show (from_dict parse fmt k acy true)
    = Ok ([na; nb; nc], [(na, nb, Dir); (na, nc, Dir); (nb, nc, Dir)], true).
  Proof. destruct k; vm_compute; reflexivity. Qed.

  Example ex_dict_mix k :
    show (from_dict parse fmt k mix true)
    = Ok ([na; nb; nc], [(na, nb, Dir); (nb, nc, Dir); (nc, na, Und)], false).
  Proof. destruct k; vm_compute; reflexivity. Qed.

  (** hostile dictionaries: no 'nodes' entries (the edges create the nodes), keys that lie
      about the edge below them, a reversed duplicate, a self loop, and a malformed entry
      AFTER the cycle-closing one (KeyError 'destination' without validation, but
      CyclicConnectionError with it: the case [Err ECyclic] of [from_dict_validate_err]) *)
  Definition hostile_cyc : json :=
    jdict [] [(nz, [(ny, je na nb Dir)]); (nb, [(nc, je nb nc Dir)]); (nc, [(na, je nc na Dir)])].
  Definition hostile_rev : json := jdict [] [(nz, [(ny, je na nb Dir); (x0, je nb na Dir)])].
  Definition hostile_self : json := jdict [] [(nz, [(ny, je na na Dir)])].
  Definition hostile_then_bad : json :=
    jdict [] [(na, [(nb, je na nb Dir)]); (nb, [(nc, je nb nc Dir)]);
              (nc, [(na, je nc na Dir); (nd, JObj [(s_source, jn nc)])])].

  Example ex_dict_hostile k :
    from_dict parse fmt k hostile_cyc true = Err ECyclic
    /\ show (from_dict parse fmt k hostile_cyc false)
       = Ok ([na; nb; nc], [(na, nb, Dir); (nb, nc, Dir); (nc, na, Dir)], false)
    /\ from_dict parse fmt k hostile_rev true = Err EReverse
    /\ from_dict parse fmt k hostile_self true = Err ECyclic
    /\ from_dict parse fmt k hostile_self false = Err ECyclic
    /\ from_dict parse fmt k hostile_then_bad true = Err ECyclic
    /\ from_dict parse fmt k hostile_then_bad false = Err EKey.
  Proof. destruct k; vm_compute; repeat split; reflexivity. Qed.

  (** the theorems applied: the unvalidated 3-cycle *)
  Definition gcyc (k : kind) : graph :=
    match from_dict parse fmt k cyc false with Ok g => g | Err _ => empty_graph [] end.

  Example gcyc_built k : from_dict parse fmt k cyc false = Ok (gcyc k).
  Proof. destruct k; vm_compute; reflexivity. Qed.

  Example gcyc_cyclic k : ~ Acyclic (gcyc k).
  Proof.
    intros H. apply (H na).
    assert (Hab : arc (dgraph (gcyc k)) na nb) by (destruct k; vm_compute; tauto).
    assert (Hbc : arc (dgraph (gcyc k)) nb nc) by (destruct k; vm_compute; tauto).
    assert (Hca : arc (dgraph (gcyc k)) nc na) by (destruct k; vm_compute; tauto).
    eapply t_trans; [apply t_step, Hab|]. eapply t_trans; [apply t_step, Hbc|apply t_step, Hca].
  Qed.

  (** [from_dict_cyclic_refused] DERIVES the refusal ... *)
  Example ex_dict_refused_thm k : from_dict parse fmt k cyc true = Err ECyclic.
  Proof.
    exact (from_dict_cyclic_refused parse fmt k cyc (gcyc k) (gcyc_built k) (gcyc_cyclic k)).
  Qed.

  (** ... [from_dict_validated_acyclic] applies to the accepted dictionary ... *)
  Example ex_dict_accepted_thm k :
    exists g, from_dict parse fmt k acy true = Ok g /\ Acyclic g
              /\ from_dict parse fmt k acy false = Ok g.
  Proof.
    destruct (from_dict parse fmt k acy true) as [g|e] eqn:E;
      [|destruct k; vm_compute in E; discriminate].
    exists g. split; [reflexivity|].
    split; [exact (from_dict_validated_acyclic parse fmt k acy g E)|].
    exact (proj1 (proj1 (from_dict_true_iff parse fmt k acy g) E)).
  Qed.

  (** ... and [is_dag_of_constructed] turns the computed is_dag() = False of the unvalidated
      3-cycle, all of whose edges are directed, into "the directed edges contain a cycle" *)
  Example ex_is_dag_constructed k :
    Built parse fmt k false (gcyc k)
    /\ is_dag_model (gcyc k) = false
    /\ (forall e, In e (gsrc (gcyc k)) -> ety e = Dir)
    /\ ~ Acyclic (gcyc k).
  Proof.
    assert (HB : Built parse fmt k false (gcyc k)) by (apply B_from_dict with (j := cyc), gcyc_built).
    assert (Hd : forall e, In e (gsrc (gcyc k)) -> ety e = Dir).
    { destruct k; vm_compute; intros e [<-|[<-|[<-|[]]]]; reflexivity. }
    assert (Hf : is_dag_model (gcyc k) = false) by (destruct k; vm_compute; reflexivity).
    split; [exact HB|]. split; [exact Hf|]. split; [exact Hd|].
    intros Hac. pose proof (proj2 (is_dag_of_constructed parse fmt k false (gcyc k) HB) (conj Hd Hac)).
    congruence.
  Qed.

  (** [dict_roundtrip_cyclic_refused] on the 3-cycle built by the public mutators with
      validate=False ([ex_cyc3] of GraphAcyclicProofs.v): g.to_dict() is refused by from_dict *)
  Example ex_dict_roundtrip_refused :
    exists j, to_dict Plain ex_cyc3 true = Ok j /\ from_dict parse fmt Plain j true = Err ECyclic.
  Proof.
    apply dict_roundtrip_cyclic_refused;
      [exact ex_cyc3_inv|discriminate|exact ex_cyc3_not_acyclic].
  Qed.

  (** ** from_adjacency_matrix *)

  Definition m_cyc : matrix := [[0; 1; 0]; [0; 0; 1]; [1; 0; 0]]%Z.   (* 0 -> 1 -> 2 -> 0 *)
  Definition m_acy : matrix := [[0; 1; 1]; [0; 0; 1]; [0; 0; 0]]%Z.   (* 0 -> 1, 0 -> 2, 1 -> 2 *)
  Definition m_mix : matrix := [[0; 1; 0]; [0; 0; 1]; [1; 1; 0]]%Z.   (* 0 -> 1, 1 -- 2, 2 -> 0 *)

  Example ex_matrix_plain :
    from_matrix parse fmt Plain m_cyc (Some [na; nb; nc]) true = Err ECyclic
    /\ show (from_matrix parse fmt Plain m_cyc (Some [na; nb; nc]) false)
       = Ok ([na; nb; nc], [(na, nb, Dir); (nc, na, Dir); (nb, nc, Dir)], false)
    /\ show (from_matrix parse fmt Plain m_acy (Some [na; nb; nc]) true)
       = Ok ([na; nb; nc], [(na, nb, Dir); (na, nc, Dir); (nb, nc, Dir)], true)
    /\ show (from_matrix parse fmt Plain m_mix (Some [na; nb; nc]) true)
       = Ok ([na; nb; nc], [(na, nb, Dir); (nc, na, Dir); (nb, nc, Und)], false)
    /\ from_matrix parse fmt Plain m_cyc (Some [na; na; nc]) true = Err ENodeDup
    /\ from_matrix parse fmt Plain m_cyc None true = Err ECyclic.
  Proof. vm_compute. repeat split; reflexivity. Qed.

  Example ex_matrix_ts :
    from_matrix parse fmt TS m_cyc (Some [x0; ny; nz]) true = Err ECyclic
    /\ show (from_matrix parse fmt TS m_cyc (Some [x0; ny; nz]) false)
       = Ok ([x0; ny; nz], [(x0, ny, Dir); (nz, x0, Dir); (ny, nz, Dir)], false)
    /\ show (from_matrix parse fmt TS m_acy (Some [x1; x0; ny]) true)
       = Ok ([x1; x0; ny], [(x1, x0, Dir); (x1, ny, Dir); (x0, ny, Dir)], true)
    /\ from_matrix parse fmt TS m_cyc None true = Err ECyclic
    /\ from_matrix parse fmt TS [[0; 1]; [0; 0]]%Z (Some [x0; x1]) true = Err EValue.
  Proof. vm_compute. repeat split; reflexivity. Qed.

  Lemma names3_nodup (a b c : name) : a <> b -> a <> c -> b <> c -> NoDup [a; b; c].
  Proof.
    intros H1 H2 H3. repeat constructor; cbn; intuition congruence.
  Qed.

  Lemma m_cyc_cyclic (a b c : name) : ~ acyclic (mat_dgraph m_cyc [a; b; c]).
  Proof.
    intros H. apply (H a).
    assert (Hab : arc (mat_dgraph m_cyc [a; b; c]) a b) by (cbv; tauto).
    assert (Hbc : arc (mat_dgraph m_cyc [a; b; c]) b c) by (cbv; tauto).
    assert (Hca : arc (mat_dgraph m_cyc [a; b; c]) c a) by (cbv; tauto).
    eapply t_trans; [apply t_step, Hab|]. eapply t_trans; [apply t_step, Hbc|apply t_step, Hca].
  Qed.

  (** [from_matrix_cyclic_refused] derives the refusal (plain class) ... *)
  Example ex_matrix_refused_thm :
    from_matrix parse fmt Plain m_cyc (Some [na; nb; nc]) true = Err ECyclic.
  Proof.
    apply from_matrix_cyclic_refused; try reflexivity; try discriminate.
    - apply names3_nodup; discriminate.
    - apply m_cyc_cyclic.
  Qed.

  (** ... and for the time-series class: the three names parse to lag 0, so the 3-cycle
      respects time and the only obstacle is the cycle *)
  Example ex_matrix_refused_thm_ts :
    from_matrix parse fmt TS m_cyc (Some [x0; ny; nz]) true = Err ECyclic.
  Proof.
    apply from_matrix_cyclic_refused; try reflexivity.
    - apply names3_nodup; discriminate.
    - intros _ x [<-|[<-|[<-|[]]]]; eexists; eexists; vm_compute; reflexivity.
    - intros _ s d Hm. apply mat_arcs_spec in Hm. vm_compute in Hm.
      destruct Hm as [H|[H|[H|[]]]]; injection H as <- <-;
        eexists; eexists; eexists; eexists;
        (split; [vm_compute; reflexivity|split; [vm_compute; reflexivity|lia]]).
    - apply m_cyc_cyclic.
  Qed.

  (** [from_matrix_acyclic_accepted] derives the acceptance, both classes; the time-series
      names are x lag(n=1), x, y and every directed entry goes forward in time *)
  Example ex_matrix_accepted_thm :
    exists g, from_matrix parse fmt Plain m_acy (Some [na; nb; nc]) true = Ok g
              /\ node_ids g = [na; nb; nc] /\ Acyclic g.
  Proof.
    destruct (from_matrix_acyclic_accepted parse fmt Plain m_acy [na; nb; nc])
      as (g & Hg & Hids & _ & Hac); try reflexivity; try discriminate.
    - apply names3_nodup; discriminate.
    - apply (proj1 (acyclicb_spec name_eqb name_eqb_spec
                      (mat_dgraph_wf m_acy _ (names3_nodup na nb nc ltac:(discriminate)
                                                 ltac:(discriminate) ltac:(discriminate))))).
      vm_compute. reflexivity.
    - exists g. auto.
  Qed.

  Example ex_matrix_accepted_thm_ts :
    exists g, from_matrix parse fmt TS m_acy (Some [x1; x0; ny]) true = Ok g
              /\ node_ids g = [x1; x0; ny] /\ Acyclic g.
  Proof.
    destruct (from_matrix_acyclic_accepted parse fmt TS m_acy [x1; x0; ny])
      as (g & Hg & Hids & _ & Hac); try reflexivity.
    - apply names3_nodup; discriminate.
    - intros _ x [<-|[<-|[<-|[]]]]; eexists; eexists; vm_compute; reflexivity.
    - intros _ s d Hm. apply mat_arcs_spec in Hm. vm_compute in Hm.
      destruct Hm as [H|[H|[H|[]]]]; injection H as <- <-;
        eexists; eexists; eexists; eexists;
        (split; [vm_compute; reflexivity|split; [vm_compute; reflexivity|lia]]).
    - apply (proj1 (acyclicb_spec name_eqb name_eqb_spec
                      (mat_dgraph_wf m_acy _ (names3_nodup x1 x0 ny ltac:(discriminate)
                                                 ltac:(discriminate) ltac:(discriminate))))).
      vm_compute. reflexivity.
    - exists g. auto.
  Qed.

  (** the time hypothesis is needed: x -> x lag(n=1) is acyclic but points backwards in time,
      and the time-series class answers ValueError *)
  Example ex_time_hypothesis_needed :
    acyclic (mat_dgraph [[0; 1]; [0; 0]]%Z [x0; x1])
    /\ ~ time_respecting parse [[0; 1]; [0; 0]]%Z [x0; x1]
    /\ from_matrix parse fmt TS [[0; 1]; [0; 0]]%Z (Some [x0; x1]) true = Err EValue.
  Proof.
    split; [|split; [|vm_compute; reflexivity]].
    - assert (Hnd : NoDup [x0; x1]) by (repeat constructor; cbn; intuition discriminate).
      apply (proj1 (acyclicb_spec name_eqb name_eqb_spec (mat_dgraph_wf _ _ Hnd))).
      vm_compute. reflexivity.
    - intros H. destruct (H x0 x1) as (vs & ls & vd & ld & Hs & Hd & Hle).
      + exists 0%nat, 1%nat. repeat split; try reflexivity. discriminate.
      + vm_compute in Hs, Hd. injection Hs as _ <-. injection Hd as _ <-. lia.
  Qed.

  (** autogenerated names: [from_matrix_default_names] applies *)
  Example ex_matrix_default_names k :
    from_matrix parse fmt k m_cyc None true = Err ECyclic
    /\ exists g, from_matrix parse fmt k m_acy None true = Ok g /\ is_dag_model g = true.
  Proof.
    split.
    - destruct (from_matrix_default_names k m_cyc eq_refl eq_refl) as [_ H]. rewrite H.
      reflexivity.
    - destruct (from_matrix_default_names k m_acy eq_refl eq_refl) as [(g & Hg & _) H].
      exists g. rewrite H, Hg. split; [reflexivity|].
      destruct k; vm_compute in Hg; injection Hg as <-; vm_compute; reflexivity.
  Qed.

  (** ** from_networkx, from_skeleton *)

  (** DiGraph a -> b -> c -> a *)
  Definition nx_cyc : nxgraph := (true, [], [(na, nb); (nb, nc); (nc, na)]).
  (** DiGraph with a <-> b (one undirected edge), b -> c and the self loop c -> c (ignored) *)
  Definition nx_mix : nxgraph := (true, [na; nb; nc], [(na, nb); (nb, na); (nb, nc); (nc, nc)]).

  Example ex_nx k :
    from_nx parse fmt k nx_cyc true = Err ECyclic
    /\ show (from_nx parse fmt k nx_cyc false)
       = Ok ([na; nb; nc], [(na, nb, Dir); (nc, na, Dir); (nb, nc, Dir)], false)
    /\ show (from_nx parse fmt k nx_mix true)
       = Ok ([na; nb; nc], [(na, nb, Und); (nb, nc, Dir)], false).
  Proof. destruct k; vm_compute; repeat split; reflexivity. Qed.

  Example ex_nx_refused_thm : from_nx parse fmt Plain nx_cyc true = Err ECyclic.
  Proof.
    apply from_nx_cyclic_refused; try discriminate.
    exists na.
    assert (Harc : forall s d, In (s, d) [(na, nb); (nb, nc); (nc, na)] -> nx_arc nx_cyc s d).
    { intros s d H. apply nx_arc_directed.
      cbn in H. destruct H as [H|[H|[H|[]]]]; injection H as <- <-;
        (split; [cbn; tauto|split; [cbn; intuition discriminate|discriminate]]). }
    eapply t_trans; [apply t_step, Harc; cbn; tauto|].
    eapply t_trans; apply t_step, Harc; cbn; tauto.
  Qed.

  (** from_skeleton of the (unvalidated) 3-cycle: three undirected edges, not a DAG, accepted
      with either flag *)
  Example ex_from_skeleton k :
    show (from_skeleton parse fmt k (gcyc k) true)
    = Ok ([na; nb; nc], [(na, nb, Und); (na, nc, Und); (nb, nc, Und)], false)
    /\ from_skeleton parse fmt k (gcyc k) false = from_skeleton parse fmt k (gcyc k) true.
  Proof. destruct k; vm_compute; split; reflexivity. Qed.

  Example ex_from_skeleton_thm k :
    exists g, from_skeleton parse fmt k (gcyc k) true = Ok g
              /\ (forall e, In e (gsrc g) -> ety e = Und) /\ Acyclic g
              /\ is_dag_model g = false.
  Proof.
    destruct (from_skeleton parse fmt k (gcyc k) true) as [g|e] eqn:E;
      [|destruct k; vm_compute in E; discriminate].
    destruct (from_skeleton_undirected parse fmt k (gcyc k) true g E) as (Hu & Hac & _).
    exists g. split; [reflexivity|]. split; [exact Hu|]. split; [exact Hac|].
    destruct (is_dag_model g) eqn:Ed; [|reflexivity].
    apply (is_dag_of_from_skeleton parse fmt k (gcyc k) true g E) in Ed.
    destruct k; vm_compute in E; injection E as <-; discriminate.
  Qed.

  (** the skeleton of the time-series graph x lag(n=1) -> x -> y, rebuilt with the time-series
      class (the undirected edge x lag(n=1) -- x is stored earlier -> later) and with the
      plain class (stored as networkx lists it); nodes and edges in get_edges() order *)
  Definition gts : graph :=
    run parse fmt TS [OAddEdge (str_ep x1) (str_ep x0) Dir None true;
                      OAddEdge (str_ep x0) (str_ep ny) Dir None true] (empty_graph []).
  Definition showv (r : res graph) : res (list name * list (name * name * etype) * bool) :=
    match r with
    | Ok g => Ok (v_node_names g, map (fun e => (esrc e, edst e, ety e)) (v_edges g),
                 is_dag_model g)
    | Err e => Err e
    end.
  Example ex_from_skeleton_ts :
    showv (from_skeleton parse fmt TS gts true)
    = Ok ([x0; x1; ny], [(x0, ny, Und); (x1, x0, Und)], false)
    /\ showv (from_skeleton parse fmt Plain gts false)
       = Ok ([x0; x1; ny], [(x0, x1, Und); (x0, ny, Und)], false).
  Proof. vm_compute. split; reflexivity. Qed.
End CtorExamples.

(* Print Assumptions from_dict_validated_acyclic. from_dict_validate_ok. from_dict_validate_err.
   from_dict_true_iff. from_dict_cyclic_refused. dict_roundtrip_cyclic_refused.
   skeleton_from_dict_acyclic. from_matrix_shape. from_matrix_edges_sound.
   from_matrix_validate_ok. from_matrix_true_iff. from_matrix_validated_acyclic.
   from_matrix_built. from_matrix_cyclic_refused. from_matrix_acyclic_accepted.
   from_matrix_decide. from_matrix_default_names. from_nx_validated_acyclic.
   from_nx_cyclic_refused. from_nx_acyclic_accepted. from_skeleton_undirected. built_inv.
   built_validated_acyclic. is_dag_of_constructed. is_dag_of_validated. is_dag_of_from_skeleton.
   — all "Closed under the global context". *)
