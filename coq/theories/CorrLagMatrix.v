(** CorrLagMatrix.v — entry points for a correspondence check of the per-lag matrix conversions
    (LagMatrix.v) against the implementation, and [Example]s pinned to what the Python library
    returned (cai-causal-graph in /repo, run with PYTHONHASHSEED=0).  DEFINITIONS + examples
    by computation only; the theorems are in LagMatrixProofs.v.

    Plain data in, plain data out:
      - a time-series graph is a [tsg] as the implementation stores it (nodes in the order of
        [_nodes_by_identifier], user metadata without the two reserved tags, edges in any order);
      - a dict of arrays is the list of its (key, rows) pairs in dict order, an entry being
        [true] iff it is non-zero;
      - names are lists of code points ([str(v)] for an int variable name).
    Expected values are compared exactly: dict in insertion order, nodes in insertion order with
    attributes, edges in [get_edges()] order ([CorrTS.tsg_eqb]). *)
From CG Require Import Base Dec Digraph Names Tok TSGraph TSGraphProofs CorrTS LagMatrix.
Local Open Scope Z_scope.

(** * Entry points *)

(** [g.to_numpy_by_lag()] *)
Definition corr_to_numpy_by_lag (g : tsg) : res (list (Z * list (list bool)) * list name) :=
  to_numpy_by_lag g.

(** [TimeSeriesCausalGraph.from_adjacency_matrices(dict(pairs), names, construct_minimal, validate)] *)
Definition corr_from_adjacency_matrices (pairs : list (Z * list (list bool)))
  (names : option (list name)) (construct_minimal validate : bool) : res tsg :=
  from_adjacency_matrices pairs names construct_minimal validate.

(** [TimeSeriesCausalGraph.from_adjacency_matrices( *g.to_numpy_by_lag(), validate=validate)] *)
Definition corr_lag_roundtrip (validate : bool) (g : tsg) : res tsg := lag_roundtrip validate g.

(** * Comparison and token forms *)

Definition np_eqb (a b : list (Z * matrix) * list name) : bool :=
  CorrTS.list_eqb (fun p q => Z.eqb (fst p) (fst q) && matrix_eqb (snd p) (snd q)) (fst a) (fst b)
  && CorrTS.list_eqb name_eqb (snd a) (snd b).

Definition tk_bmatrix (a : matrix) : list N := tk_list (tk_list tk_bool) a.
Definition tk_lagdict (d : list (Z * matrix)) : list N :=
  tk_list (fun p => tk_Z (fst p) ++ tk_bmatrix (snd p)) d.
Definition tk_tnode (n : tnode) : list N :=
  tk_name (tv n) ++ tk_Z (tl n) ++ tk_vtype (tvt n) ++ tk_meta (tm n).
Definition tk_tedge (e : tedge) : list N :=
  tk_name (es e) ++ tk_Z (esl e) ++ tk_name (ed e) ++ tk_Z (edl e) ++ tk_etype (ety e)
  ++ tk_meta (em e).
(** nodes in insertion order, edges in [get_edges()] order, graph metadata *)
Definition tk_tsg (g : tsg) : list N :=
  tk_list tk_tnode (tnodes g) ++ tk_list tk_tedge (sorted_edges g) ++ tk_meta (tgmeta g).

Definition corr_to_numpy_by_lag_tokens (g : tsg) : list N :=
  tk_res (fun p => tk_lagdict (fst p) ++ tk_names (snd p)) (corr_to_numpy_by_lag g).
Definition corr_from_adjacency_matrices_tokens (pairs : list (Z * list (list bool)))
  (names : option (list name)) (construct_minimal validate : bool) : list N :=
  tk_res tk_tsg (corr_from_adjacency_matrices pairs names construct_minimal validate).

(** * Cases *)

(** a graph with what the implementation returned for to_numpy_by_lag(), the round trip with
    validate=True / False and get_minimal_graph() *)
Record lcase := {
  lc_g : tsg;
  lc_numpy : res (list (Z * matrix) * list name);
  lc_rt_true : res tsg;
  lc_rt_false : res tsg;
  lc_min : res tsg
}.

(** result vector:
    [numpy_eq; roundtrip(validate=True)_eq; roundtrip(validate=False)_eq;
     oracle validate=False; oracle validate=True]
    The oracles are evaluated on the IMPLEMENTATION's outputs and are 2 when the premises of
    [LagMatrixProofs.lag_matrices_roundtrip] do not hold: consistent graph, marker-free variable
    names, directed and contemporaneous undirected edges only, at least one edge.  Oracle
    validate=False: the result has the shape of the minimal graph and [==] it both ways.  Oracle
    validate=True: the same when the directed part of the minimal graph is acyclic,
    CyclicConnectionError otherwise. *)
Definition lc_premises (g : tsg) : bool :=
  consistent_b g && good_vars_b g && dir_or_und0_b g
  && negb (match tedges g with [] => true | _ => false end).

Definition rt_good (r m : res tsg) : bool :=
  match r, m with
  | Ok a, Ok b => same_shape_b a b && ts_graph_eqb a b && ts_graph_eqb b a
  | _, _ => false
  end.

Definition check_lcase (c : lcase) : list N :=
  let g := lc_g c in
  [ b2n (res_eqb np_eqb (corr_to_numpy_by_lag g) (lc_numpy c));
    b2n (res_eqb tsg_eqb (corr_lag_roundtrip true g) (lc_rt_true c));
    b2n (res_eqb tsg_eqb (corr_lag_roundtrip false g) (lc_rt_false c));
    oracle (lc_premises g) (fun _ => rt_good (lc_rt_false c) (lc_min c));
    oracle (lc_premises g) (fun _ =>
      match lc_min c with
      | Ok m => if acyclicb key_eqb (dir_digraph m) then rt_good (lc_rt_true c) (lc_min c)
                else match lc_rt_true c with Err ECyclic => true | _ => false end
      | Err _ => false
      end) ].
Definition check_lcases (cs : list lcase) : list (list N) := map check_lcase cs.

(** from_adjacency_matrices on an explicit dict *)
Record fdcase := {
  fd_pairs : list (Z * list (list bool));
  fd_names : option (list name);
  fd_minimal : bool;
  fd_validate : bool;
  fd_expected : res tsg
}.
Definition fdcase_ok (c : fdcase) : bool :=
  res_eqb tsg_eqb
    (corr_from_adjacency_matrices (fd_pairs c) (fd_names c) (fd_minimal c) (fd_validate c))
    (fd_expected c).
Fixpoint fd_mism_from (i : nat) (cs : list fdcase) : list nat :=
  match cs with
  | [] => []
  | c :: cs' => if fdcase_ok c then fd_mism_from (S i) cs' else i :: fd_mism_from (S i) cs'
  end.
Definition fd_mismatches (cs : list fdcase) : list nat := fd_mism_from 0 cs.

(** * Examples pinned to the Python library (X=88 Y=89 Z=90 A=65 B=66 C=67 P=80 Q=81) *)

(** Python: add_edge('X lag(n=1)','Y'); add_edge('Y lag(n=2)','X'); add_edge('X','Y','--'); add_node('Z')
    negative lags, an undirected contemporaneous edge, a floating variable *)
Definition corr_g1 : tsg :=
  Gr [(Nd [88]%N (-1)%Z VUnspec []); (Nd [89]%N (0)%Z VUnspec []); (Nd [89]%N (-2)%Z VUnspec []); (Nd [88]%N (0)%Z VUnspec []); (Nd [90]%N (0)%Z VUnspec [])] [(Ed [88]%N (0)%Z [89]%N (0)%Z Und []); (Ed [88]%N (-1)%Z [89]%N (0)%Z Dir []); (Ed [89]%N (-2)%Z [88]%N (0)%Z Dir [])] [].
Example corr_numpy_1 :
  res_eqb np_eqb (corr_to_numpy_by_lag corr_g1)
    (Ok ([((0)%Z, [[false; true; false]; [true; false; false]; [false; false; false]]); ((-1)%Z, [[false; true; false]; [false; false; false]; [false; false; false]]); ((-2)%Z, [[false; false; false]; [true; false; false]; [false; false; false]])], [[88]%N; [89]%N; [90]%N])) = true.
Proof. vm_compute; reflexivity. Qed.
(** ... and from_adjacency_matrices( *g.to_numpy_by_lag()); == get_minimal_graph(): True *)
Example corr_roundtrip_1 :
  res_eqb tsg_eqb (corr_lag_roundtrip true corr_g1)
    (Ok (Gr [(Nd [88]%N (0)%Z VUnspec []); (Nd [89]%N (0)%Z VUnspec []); (Nd [88]%N (-1)%Z VUnspec []); (Nd [89]%N (-2)%Z VUnspec []); (Nd [90]%N (0)%Z VUnspec [])] [(Ed [88]%N (0)%Z [89]%N (0)%Z Und []); (Ed [88]%N (-1)%Z [89]%N (0)%Z Dir []); (Ed [89]%N (-2)%Z [88]%N (0)%Z Dir [])] [])) = true.
Proof. vm_compute; reflexivity. Qed.
Example corr_roundtrip_eq_1 :
  match corr_lag_roundtrip true corr_g1, minimal corr_g1 with
  | Ok a, Ok b => Bool.eqb (ts_graph_eqb a b) true | _, _ => false end = true.
Proof. vm_compute; reflexivity. Qed.

(** Python: add_edge('B future(n=2)','A future(n=3)'); add_edge('A future(n=1)','B future(n=1)'); add_edge('C future(n=2)','C future(n=4)')
    future lags only: the templates are shifted back to end at lag 0 *)
Definition corr_g2 : tsg :=
  Gr [(Nd [66]%N (2)%Z VUnspec []); (Nd [65]%N (3)%Z VUnspec []); (Nd [65]%N (1)%Z VUnspec []); (Nd [66]%N (1)%Z VUnspec []); (Nd [67]%N (2)%Z VUnspec []); (Nd [67]%N (4)%Z VUnspec [])] [(Ed [65]%N (1)%Z [66]%N (1)%Z Dir []); (Ed [66]%N (2)%Z [65]%N (3)%Z Dir []); (Ed [67]%N (2)%Z [67]%N (4)%Z Dir [])] [].
Example corr_numpy_2 :
  res_eqb np_eqb (corr_to_numpy_by_lag corr_g2)
    (Ok ([((0)%Z, [[false; true; false]; [false; false; false]; [false; false; false]]); ((-1)%Z, [[false; false; false]; [true; false; false]; [false; false; false]]); ((-2)%Z, [[false; false; false]; [false; false; false]; [false; false; true]])], [[65]%N; [66]%N; [67]%N])) = true.
Proof. vm_compute; reflexivity. Qed.
(** ... and from_adjacency_matrices( *g.to_numpy_by_lag()); == get_minimal_graph(): True *)
Example corr_roundtrip_2 :
  res_eqb tsg_eqb (corr_lag_roundtrip true corr_g2)
    (Ok (Gr [(Nd [65]%N (0)%Z VUnspec []); (Nd [66]%N (0)%Z VUnspec []); (Nd [66]%N (-1)%Z VUnspec []); (Nd [67]%N (-2)%Z VUnspec []); (Nd [67]%N (0)%Z VUnspec [])] [(Ed [65]%N (0)%Z [66]%N (0)%Z Dir []); (Ed [66]%N (-1)%Z [65]%N (0)%Z Dir []); (Ed [67]%N (-2)%Z [67]%N (0)%Z Dir [])] [])) = true.
Proof. vm_compute; reflexivity. Qed.
Example corr_roundtrip_eq_2 :
  match corr_lag_roundtrip true corr_g2, minimal corr_g2 with
  | Ok a, Ok b => Bool.eqb (ts_graph_eqb a b) true | _, _ => false end = true.
Proof. vm_compute; reflexivity. Qed.

(** Python: add_edge('Y','X','--'); add_edge('X lag(n=1)','X'); add_node('Q lag(n=5)'); add_node('P future(n=1)')
    undirected edge stored Y -- X comes back X -- Y; two floating variables (one only at lag -5, one only in the future) *)
Definition corr_g3 : tsg :=
  Gr [(Nd [89]%N (0)%Z VUnspec []); (Nd [88]%N (0)%Z VUnspec []); (Nd [88]%N (-1)%Z VUnspec []); (Nd [81]%N (-5)%Z VUnspec []); (Nd [80]%N (1)%Z VUnspec [])] [(Ed [88]%N (-1)%Z [88]%N (0)%Z Dir []); (Ed [89]%N (0)%Z [88]%N (0)%Z Und [])] [].
Example corr_numpy_3 :
  res_eqb np_eqb (corr_to_numpy_by_lag corr_g3)
    (Ok ([((-1)%Z, [[false; false; false; false]; [false; false; false; false]; [false; false; true; false]; [false; false; false; false]]); ((0)%Z, [[false; false; false; false]; [false; false; false; false]; [false; false; false; true]; [false; false; true; false]])], [[80]%N; [81]%N; [88]%N; [89]%N])) = true.
Proof. vm_compute; reflexivity. Qed.
(** ... and from_adjacency_matrices( *g.to_numpy_by_lag()); == get_minimal_graph(): True *)
Example corr_roundtrip_3 :
  res_eqb tsg_eqb (corr_lag_roundtrip true corr_g3)
    (Ok (Gr [(Nd [88]%N (0)%Z VUnspec []); (Nd [89]%N (0)%Z VUnspec []); (Nd [88]%N (-1)%Z VUnspec []); (Nd [80]%N (0)%Z VUnspec []); (Nd [81]%N (0)%Z VUnspec [])] [(Ed [88]%N (0)%Z [89]%N (0)%Z Und []); (Ed [88]%N (-1)%Z [88]%N (0)%Z Dir [])] [])) = true.
Proof. vm_compute; reflexivity. Qed.
Example corr_roundtrip_eq_3 :
  match corr_lag_roundtrip true corr_g3, minimal corr_g3 with
  | Ok a, Ok b => Bool.eqb (ts_graph_eqb a b) true | _, _ => false end = true.
Proof. vm_compute; reflexivity. Qed.

(** Python: add_edge('Z lag(n=2)','A'); add_edge('A','B'); add_edge('B lag(n=1)','A'); add_edge('A lag(n=3)','B')
    key order is first-seen over get_edges(): 0, -3, -1, -2 *)
Definition corr_g4 : tsg :=
  Gr [(Nd [90]%N (-2)%Z VUnspec []); (Nd [65]%N (0)%Z VUnspec []); (Nd [66]%N (0)%Z VUnspec []); (Nd [66]%N (-1)%Z VUnspec []); (Nd [65]%N (-3)%Z VUnspec [])] [(Ed [65]%N (0)%Z [66]%N (0)%Z Dir []); (Ed [65]%N (-3)%Z [66]%N (0)%Z Dir []); (Ed [66]%N (-1)%Z [65]%N (0)%Z Dir []); (Ed [90]%N (-2)%Z [65]%N (0)%Z Dir [])] [].
Example corr_numpy_4 :
  res_eqb np_eqb (corr_to_numpy_by_lag corr_g4)
    (Ok ([((0)%Z, [[false; true; false]; [false; false; false]; [false; false; false]]); ((-3)%Z, [[false; true; false]; [false; false; false]; [false; false; false]]); ((-1)%Z, [[false; false; false]; [true; false; false]; [false; false; false]]); ((-2)%Z, [[false; false; false]; [false; false; false]; [true; false; false]])], [[65]%N; [66]%N; [90]%N])) = true.
Proof. vm_compute; reflexivity. Qed.
(** ... and from_adjacency_matrices( *g.to_numpy_by_lag()); == get_minimal_graph(): True *)
Example corr_roundtrip_4 :
  res_eqb tsg_eqb (corr_lag_roundtrip true corr_g4)
    (Ok (Gr [(Nd [65]%N (0)%Z VUnspec []); (Nd [66]%N (0)%Z VUnspec []); (Nd [65]%N (-3)%Z VUnspec []); (Nd [66]%N (-1)%Z VUnspec []); (Nd [90]%N (-2)%Z VUnspec [])] [(Ed [65]%N (0)%Z [66]%N (0)%Z Dir []); (Ed [65]%N (-3)%Z [66]%N (0)%Z Dir []); (Ed [66]%N (-1)%Z [65]%N (0)%Z Dir []); (Ed [90]%N (-2)%Z [65]%N (0)%Z Dir [])] [])) = true.
Proof. vm_compute; reflexivity. Qed.
Example corr_roundtrip_eq_4 :
  match corr_lag_roundtrip true corr_g4, minimal corr_g4 with
  | Ok a, Ok b => Bool.eqb (ts_graph_eqb a b) true | _, _ => false end = true.
Proof. vm_compute; reflexivity. Qed.

(** Python: add_edge('X lag(n=1)','Y','--')
    a LAGGED undirected edge comes back as two directed edges *)
Definition corr_g5 : tsg :=
  Gr [(Nd [88]%N (-1)%Z VUnspec []); (Nd [89]%N (0)%Z VUnspec [])] [(Ed [88]%N (-1)%Z [89]%N (0)%Z Und [])] [].
Example corr_numpy_5 :
  res_eqb np_eqb (corr_to_numpy_by_lag corr_g5)
    (Ok ([((-1)%Z, [[false; true]; [true; false]])], [[88]%N; [89]%N])) = true.
Proof. vm_compute; reflexivity. Qed.
(** ... and from_adjacency_matrices( *g.to_numpy_by_lag()); == get_minimal_graph(): False *)
Example corr_roundtrip_5 :
  res_eqb tsg_eqb (corr_lag_roundtrip true corr_g5)
    (Ok (Gr [(Nd [88]%N (-1)%Z VUnspec []); (Nd [89]%N (0)%Z VUnspec []); (Nd [89]%N (-1)%Z VUnspec []); (Nd [88]%N (0)%Z VUnspec [])] [(Ed [88]%N (-1)%Z [89]%N (0)%Z Dir []); (Ed [89]%N (-1)%Z [88]%N (0)%Z Dir [])] [])) = true.
Proof. vm_compute; reflexivity. Qed.
Example corr_roundtrip_eq_5 :
  match corr_lag_roundtrip true corr_g5, minimal corr_g5 with
  | Ok a, Ok b => Bool.eqb (ts_graph_eqb a b) false | _, _ => false end = true.
Proof. vm_compute; reflexivity. Qed.

(** Python: add_edge('X','Y'); add_edge('Y lag(n=1)','X','<>')
    a bi-directed edge: TypeError *)
Definition corr_g6 : tsg :=
  Gr [(Nd [88]%N (0)%Z VUnspec []); (Nd [89]%N (0)%Z VUnspec []); (Nd [89]%N (-1)%Z VUnspec [])] [(Ed [88]%N (0)%Z [89]%N (0)%Z Dir []); (Ed [89]%N (-1)%Z [88]%N (0)%Z Bi [])] [].
Example corr_numpy_6 :
  res_eqb np_eqb (corr_to_numpy_by_lag corr_g6)
    (Err EType) = true.
Proof. vm_compute; reflexivity. Qed.

(** Python: add_node('A'); add_node('B lag(n=1)')
    no edge: ({}, variables), then AssertionError *)
Definition corr_g7 : tsg :=
  Gr [(Nd [65]%N (0)%Z VUnspec []); (Nd [66]%N (-1)%Z VUnspec [])] [] [].
Example corr_numpy_7 :
  res_eqb np_eqb (corr_to_numpy_by_lag corr_g7)
    (Ok ([], [[65]%N; [66]%N])) = true.
Proof. vm_compute; reflexivity. Qed.
(** ... and from_adjacency_matrices( *g.to_numpy_by_lag()); == get_minimal_graph(): None *)
Example corr_roundtrip_7 :
  res_eqb tsg_eqb (corr_lag_roundtrip true corr_g7)
    (Err EAssert) = true.
Proof. vm_compute; reflexivity. Qed.

(** Python: add_edge('X lag(n=2)','Y lag(n=2)'); add_edge('Y lag(n=1)','Z lag(n=1)'); add_edge('Z','X')
    a DAG whose minimal graph is the contemporaneous cycle X -> Y -> Z -> X: CyclicConnectionError *)
Definition corr_g8 : tsg :=
  Gr [(Nd [88]%N (-2)%Z VUnspec []); (Nd [89]%N (-2)%Z VUnspec []); (Nd [89]%N (-1)%Z VUnspec []); (Nd [90]%N (-1)%Z VUnspec []); (Nd [90]%N (0)%Z VUnspec []); (Nd [88]%N (0)%Z VUnspec [])] [(Ed [88]%N (-2)%Z [89]%N (-2)%Z Dir []); (Ed [89]%N (-1)%Z [90]%N (-1)%Z Dir []); (Ed [90]%N (0)%Z [88]%N (0)%Z Dir [])] [].
Example corr_numpy_8 :
  res_eqb np_eqb (corr_to_numpy_by_lag corr_g8)
    (Ok ([((0)%Z, [[false; true; false]; [false; false; true]; [true; false; false]])], [[88]%N; [89]%N; [90]%N])) = true.
Proof. vm_compute; reflexivity. Qed.
(** ... and from_adjacency_matrices( *g.to_numpy_by_lag()); == get_minimal_graph(): None *)
Example corr_roundtrip_8 :
  res_eqb tsg_eqb (corr_lag_roundtrip true corr_g8)
    (Err ECyclic) = true.
Proof. vm_compute; reflexivity. Qed.

(** Python: from_adjacency_matrices({-2: [[0, 0, 0], [1, 0, 0], [0, 0, 1]], -1: [[0, 1, 0], [1, 0, 0], [0, 0, 0]], 0: [[0, 1, 1], [0, 0, 1], [0, 0, 0]]}, ['X', 'Y', 'Z'], construct_minimal=True, validate=True)
    the docstring example *)
Example corr_from_9 :
  res_eqb tsg_eqb (corr_from_adjacency_matrices [((-2)%Z, [[false; false; false]; [true; false; false]; [false; false; true]]); ((-1)%Z, [[false; true; false]; [true; false; false]; [false; false; false]]); ((0)%Z, [[false; true; true]; [false; false; true]; [false; false; false]])] (Some [[88]%N; [89]%N; [90]%N]) true true)
    (Ok (Gr [(Nd [88]%N (0)%Z VUnspec []); (Nd [89]%N (0)%Z VUnspec []); (Nd [90]%N (0)%Z VUnspec []); (Nd [88]%N (-1)%Z VUnspec []); (Nd [89]%N (-1)%Z VUnspec []); (Nd [89]%N (-2)%Z VUnspec []); (Nd [90]%N (-2)%Z VUnspec [])] [(Ed [88]%N (0)%Z [89]%N (0)%Z Dir []); (Ed [88]%N (0)%Z [90]%N (0)%Z Dir []); (Ed [88]%N (-1)%Z [89]%N (0)%Z Dir []); (Ed [89]%N (0)%Z [90]%N (0)%Z Dir []); (Ed [89]%N (-1)%Z [88]%N (0)%Z Dir []); (Ed [89]%N (-2)%Z [88]%N (0)%Z Dir []); (Ed [90]%N (-2)%Z [90]%N (0)%Z Dir [])] [])) = true.
Proof. vm_compute; reflexivity. Qed.

(** Python: from_adjacency_matrices({-1: [[1, 0], [0, 0]], -2: [[0, 1], [0, 0]]}, ['X', 'Y'], construct_minimal=False, validate=True)
    construct_minimal=False: every (variable, key) node, variable-major, in dict order *)
Example corr_from_10 :
  res_eqb tsg_eqb (corr_from_adjacency_matrices [((-1)%Z, [[true; false]; [false; false]]); ((-2)%Z, [[false; true]; [false; false]])] (Some [[88]%N; [89]%N]) false true)
    (Ok (Gr [(Nd [88]%N (-1)%Z VUnspec []); (Nd [88]%N (-2)%Z VUnspec []); (Nd [88]%N (0)%Z VUnspec []); (Nd [89]%N (-1)%Z VUnspec []); (Nd [89]%N (-2)%Z VUnspec []); (Nd [89]%N (0)%Z VUnspec [])] [(Ed [88]%N (-1)%Z [88]%N (0)%Z Dir []); (Ed [88]%N (-2)%Z [89]%N (0)%Z Dir [])] [])) = true.
Proof. vm_compute; reflexivity. Qed.

(** Python: from_adjacency_matrices({0: [[0, 1], [0, 0]], -1: [[1, 0], [0, 0]]}, ['X', 'Y'], construct_minimal=False, validate=True)
    key 0 first in the dict *)
Example corr_from_11 :
  res_eqb tsg_eqb (corr_from_adjacency_matrices [((0)%Z, [[false; true]; [false; false]]); ((-1)%Z, [[true; false]; [false; false]])] (Some [[88]%N; [89]%N]) false true)
    (Ok (Gr [(Nd [88]%N (0)%Z VUnspec []); (Nd [88]%N (-1)%Z VUnspec []); (Nd [89]%N (0)%Z VUnspec []); (Nd [89]%N (-1)%Z VUnspec [])] [(Ed [88]%N (0)%Z [89]%N (0)%Z Dir []); (Ed [88]%N (-1)%Z [88]%N (0)%Z Dir [])] [])) = true.
Proof. vm_compute; reflexivity. Qed.

(** Python: from_adjacency_matrices({-1: [[0, 1], [0, 0]]}, None, construct_minimal=True, validate=True)
    default names node_0, node_1 *)
Example corr_from_12 :
  res_eqb tsg_eqb (corr_from_adjacency_matrices [((-1)%Z, [[false; true]; [false; false]])] (None) true true)
    (Ok (Gr [(Nd [110; 111; 100; 101; 95; 48]%N (-1)%Z VUnspec []); (Nd [110; 111; 100; 101; 95; 49]%N (0)%Z VUnspec [])] [(Ed [110; 111; 100; 101; 95; 48]%N (-1)%Z [110; 111; 100; 101; 95; 49]%N (0)%Z Dir [])] [])) = true.
Proof. vm_compute; reflexivity. Qed.

(** Python: from_adjacency_matrices({1: [[0, 1], [0, 0]]}, ['X', 'Y'], construct_minimal=True, validate=True)
    a positive key with a non-zero entry: the directed edge X future(n=1) -> Y does not respect time: ValueError *)
Example corr_from_13 :
  res_eqb tsg_eqb (corr_from_adjacency_matrices [((1)%Z, [[false; true]; [false; false]])] (Some [[88]%N; [89]%N]) true true)
    (Err EValue) = true.
Proof. vm_compute; reflexivity. Qed.

(** Python: from_adjacency_matrices({1: [[0, 0], [0, 0]], -1: [[0, 1], [0, 0]]}, ['X', 'Y'], construct_minimal=False, validate=True)
    a positive key with an all-zero matrix is accepted *)
Example corr_from_14 :
  res_eqb tsg_eqb (corr_from_adjacency_matrices [((1)%Z, [[false; false]; [false; false]]); ((-1)%Z, [[false; true]; [false; false]])] (Some [[88]%N; [89]%N]) false true)
    (Ok (Gr [(Nd [88]%N (1)%Z VUnspec []); (Nd [88]%N (-1)%Z VUnspec []); (Nd [88]%N (0)%Z VUnspec []); (Nd [89]%N (1)%Z VUnspec []); (Nd [89]%N (-1)%Z VUnspec []); (Nd [89]%N (0)%Z VUnspec [])] [(Ed [88]%N (-1)%Z [89]%N (0)%Z Dir [])] [])) = true.
Proof. vm_compute; reflexivity. Qed.

(** Python: from_adjacency_matrices({}, ['X'], construct_minimal=True, validate=True)
    empty dict: AssertionError *)
Example corr_from_15 :
  res_eqb tsg_eqb (corr_from_adjacency_matrices [] (Some [[88]%N]) true true)
    (Err EAssert) = true.
Proof. vm_compute; reflexivity. Qed.

(** Python: from_adjacency_matrices({-1: [[0, 1], [0, 0]], 0: [[0]]}, ['X', 'Y'], construct_minimal=True, validate=True)
    different shapes: AssertionError *)
Example corr_from_16 :
  res_eqb tsg_eqb (corr_from_adjacency_matrices [((-1)%Z, [[false; true]; [false; false]]); ((0)%Z, [[false]])] (Some [[88]%N; [89]%N]) true true)
    (Err EAssert) = true.
Proof. vm_compute; reflexivity. Qed.

(** Python: from_adjacency_matrices({-1: [[0, 1], [0, 0]]}, ['X'], construct_minimal=True, validate=True)
    wrong number of names: AssertionError *)
Example corr_from_17 :
  res_eqb tsg_eqb (corr_from_adjacency_matrices [((-1)%Z, [[false; true]; [false; false]])] (Some [[88]%N]) true true)
    (Err EAssert) = true.
Proof. vm_compute; reflexivity. Qed.

(** Python: from_adjacency_matrices({0: [[0, 1], [0, 0]]}, ['X', 'X'], construct_minimal=True, validate=True)
    duplicate names: NodeDuplicatedError *)
Example corr_from_18 :
  res_eqb tsg_eqb (corr_from_adjacency_matrices [((0)%Z, [[false; true]; [false; false]])] (Some [[88]%N; [88]%N]) true true)
    (Err ENodeDup) = true.
Proof. vm_compute; reflexivity. Qed.

(** Python: from_adjacency_matrices({0: [[0, 1], [0, 0]]}, ['X lag(n=1)', 'Y'], construct_minimal=True, validate=True)
    a lag inside a variable name is dropped *)
Example corr_from_19 :
  res_eqb tsg_eqb (corr_from_adjacency_matrices [((0)%Z, [[false; true]; [false; false]])] (Some [[88; 32; 108; 97; 103; 40; 110; 61; 49; 41]%N; [89]%N]) true true)
    (Ok (Gr [(Nd [88]%N (0)%Z VUnspec []); (Nd [89]%N (0)%Z VUnspec [])] [(Ed [88]%N (0)%Z [89]%N (0)%Z Dir [])] [])) = true.
Proof. vm_compute; reflexivity. Qed.

(** Python: from_adjacency_matrices({0: [[0, 1], [0, 0]]}, ['X lag(n=1)', 'X'], construct_minimal=True, validate=True)
    ... so 'X lag(n=1)' and 'X' collide: NodeDuplicatedError *)
Example corr_from_20 :
  res_eqb tsg_eqb (corr_from_adjacency_matrices [((0)%Z, [[false; true]; [false; false]])] (Some [[88; 32; 108; 97; 103; 40; 110; 61; 49; 41]%N; [88]%N]) true true)
    (Err ENodeDup) = true.
Proof. vm_compute; reflexivity. Qed.

(** Python: from_adjacency_matrices({0: [[0, 1], [0, 0]]}, ['', 'Y'], construct_minimal=True, validate=True)
    empty variable name: ValueError *)
Example corr_from_21 :
  res_eqb tsg_eqb (corr_from_adjacency_matrices [((0)%Z, [[false; true]; [false; false]])] (Some [[]%N; [89]%N]) true true)
    (Err EValue) = true.
Proof. vm_compute; reflexivity. Qed.

(** Python: from_adjacency_matrices({-1: [[0, 1], [0, 0]]}, ['lag(n=1)', 'Y'], construct_minimal=True, validate=True)
    variable named 'lag(n=1)' with a lag -1 matrix: ValueError *)
Example corr_from_22 :
  res_eqb tsg_eqb (corr_from_adjacency_matrices [((-1)%Z, [[false; true]; [false; false]])] (Some [[108; 97; 103; 40; 110; 61; 49; 41]%N; [89]%N]) true true)
    (Err EValue) = true.
Proof. vm_compute; reflexivity. Qed.

(** Python: from_adjacency_matrices({-1: [[0, 1], [0, 0], [1, 0]]}, ['X', 'Y', 'Z'], construct_minimal=True, validate=True)
    3 x 2 arrays are accepted (only shape[0] is used) *)
Example corr_from_23 :
  res_eqb tsg_eqb (corr_from_adjacency_matrices [((-1)%Z, [[false; true]; [false; false]; [true; false]])] (Some [[88]%N; [89]%N; [90]%N]) true true)
    (Ok (Gr [(Nd [88]%N (-1)%Z VUnspec []); (Nd [89]%N (0)%Z VUnspec []); (Nd [90]%N (-1)%Z VUnspec []); (Nd [88]%N (0)%Z VUnspec [])] [(Ed [88]%N (-1)%Z [89]%N (0)%Z Dir []); (Ed [90]%N (-1)%Z [88]%N (0)%Z Dir [])] [])) = true.
Proof. vm_compute; reflexivity. Qed.

(** Python: from_adjacency_matrices({-1: [[0, 1, 1], [0, 0, 0]]}, ['X', 'Y'], construct_minimal=True, validate=True)
    2 x 3 arrays: IndexError when a non-zero entry is in a column >= 2 *)
Example corr_from_24 :
  res_eqb tsg_eqb (corr_from_adjacency_matrices [((-1)%Z, [[false; true; true]; [false; false; false]])] (Some [[88]%N; [89]%N]) true true)
    (Err EIndex) = true.
Proof. vm_compute; reflexivity. Qed.

(** Python: from_adjacency_matrices({-1: [[0, 1, 0], [0, 0, 0]]}, ['X', 'Y'], construct_minimal=True, validate=True)
    ... and accepted otherwise *)
Example corr_from_25 :
  res_eqb tsg_eqb (corr_from_adjacency_matrices [((-1)%Z, [[false; true; false]; [false; false; false]])] (Some [[88]%N; [89]%N]) true true)
    (Ok (Gr [(Nd [88]%N (-1)%Z VUnspec []); (Nd [89]%N (0)%Z VUnspec [])] [(Ed [88]%N (-1)%Z [89]%N (0)%Z Dir [])] [])) = true.
Proof. vm_compute; reflexivity. Qed.

(** Python: from_adjacency_matrices({0: [[0, 1, 0], [0, 0, 1], [1, 0, 0]]}, ['X', 'Y', 'Z'], construct_minimal=True, validate=True)
    contemporaneous directed cycle, validate=True: CyclicConnectionError *)
Example corr_from_26 :
  res_eqb tsg_eqb (corr_from_adjacency_matrices [((0)%Z, [[false; true; false]; [false; false; true]; [true; false; false]])] (Some [[88]%N; [89]%N; [90]%N]) true true)
    (Err ECyclic) = true.
Proof. vm_compute; reflexivity. Qed.

(** Python: from_adjacency_matrices({0: [[0, 1, 0], [0, 0, 1], [1, 0, 0]]}, ['X', 'Y', 'Z'], construct_minimal=True, validate=False)
    ... validate=False *)
Example corr_from_27 :
  res_eqb tsg_eqb (corr_from_adjacency_matrices [((0)%Z, [[false; true; false]; [false; false; true]; [true; false; false]])] (Some [[88]%N; [89]%N; [90]%N]) true false)
    (Ok (Gr [(Nd [88]%N (0)%Z VUnspec []); (Nd [89]%N (0)%Z VUnspec []); (Nd [90]%N (0)%Z VUnspec [])] [(Ed [88]%N (0)%Z [89]%N (0)%Z Dir []); (Ed [89]%N (0)%Z [90]%N (0)%Z Dir []); (Ed [90]%N (0)%Z [88]%N (0)%Z Dir [])] [])) = true.
Proof. vm_compute; reflexivity. Qed.

(** Python: from_adjacency_matrices({0: [[1, 0], [0, 0]], -1: [[1, 0], [0, 0]]}, ['X', 'Y'], construct_minimal=True, validate=True)
    diagonal entries: ignored at lag 0, a self-template at lag -1 *)
Example corr_from_28 :
  res_eqb tsg_eqb (corr_from_adjacency_matrices [((0)%Z, [[true; false]; [false; false]]); ((-1)%Z, [[true; false]; [false; false]])] (Some [[88]%N; [89]%N]) true true)
    (Ok (Gr [(Nd [88]%N (-1)%Z VUnspec []); (Nd [88]%N (0)%Z VUnspec []); (Nd [89]%N (0)%Z VUnspec [])] [(Ed [88]%N (-1)%Z [88]%N (0)%Z Dir [])] [])) = true.
Proof. vm_compute; reflexivity. Qed.

(** Python: from_adjacency_matrices({0: [[0, 1], [1, 0]], -1: [[0, 1], [1, 0]]}, ['X', 'Y'], construct_minimal=True, validate=True)
    symmetric lag-0 pair: one undirected edge; symmetric lag -1 pair: two directed edges *)
Example corr_from_29 :
  res_eqb tsg_eqb (corr_from_adjacency_matrices [((0)%Z, [[false; true]; [true; false]]); ((-1)%Z, [[false; true]; [true; false]])] (Some [[88]%N; [89]%N]) true true)
    (Ok (Gr [(Nd [88]%N (0)%Z VUnspec []); (Nd [89]%N (0)%Z VUnspec []); (Nd [88]%N (-1)%Z VUnspec []); (Nd [89]%N (-1)%Z VUnspec [])] [(Ed [88]%N (0)%Z [89]%N (0)%Z Und []); (Ed [88]%N (-1)%Z [89]%N (0)%Z Dir []); (Ed [89]%N (-1)%Z [88]%N (0)%Z Dir [])] [])) = true.
Proof. vm_compute; reflexivity. Qed.

(** Python: from_adjacency_matrices({-1: []}, [], construct_minimal=True, validate=True)
    0 x 0 arrays: the empty graph *)
Example corr_from_30 :
  res_eqb tsg_eqb (corr_from_adjacency_matrices [((-1)%Z, [])] (Some []) true true)
    (Ok (Gr [] [] [])) = true.
Proof. vm_compute; reflexivity. Qed.

(** Python: from_adjacency_matrices({-1: [[2, 0], [0, 0]]}, ['X', 'Y'], construct_minimal=True, validate=True)
    non-binary entries count as non-zero *)
Example corr_from_31 :
  res_eqb tsg_eqb (corr_from_adjacency_matrices [((-1)%Z, [[true; false]; [true; false]])] (Some [[88]%N; [89]%N]) true true)
    (Ok (Gr [(Nd [88]%N (-1)%Z VUnspec []); (Nd [88]%N (0)%Z VUnspec []); (Nd [89]%N (-1)%Z VUnspec [])] [(Ed [88]%N (-1)%Z [88]%N (0)%Z Dir []); (Ed [89]%N (-1)%Z [88]%N (0)%Z Dir [])] [])) = true.
Proof. vm_compute; reflexivity. Qed.

(** * The case checker on three graphs with the implementation's outputs: premises hold and
      acyclic / premises hold and the minimal graph is cyclic / lagged undirected edge (premises
      do not hold, oracles not evaluated) *)
Example corr_lcases :
  check_lcases [
    {| lc_g := Gr [(Nd [89]%N (0)%Z VUnspec []); (Nd [88]%N (0)%Z VUnspec []); (Nd [88]%N (-1)%Z VUnspec []); (Nd [81]%N (-5)%Z VUnspec [])] [(Ed [88]%N (-1)%Z [88]%N (0)%Z Dir []); (Ed [89]%N (0)%Z [88]%N (0)%Z Und [])] [];
     lc_numpy := Ok ([((-1)%Z, [[false; false; false]; [false; true; false]; [false; false; false]]); ((0)%Z, [[false; false; false]; [false; false; true]; [false; true; false]])], [[81]%N; [88]%N; [89]%N]);
     lc_rt_true := Ok (Gr [(Nd [88]%N (0)%Z VUnspec []); (Nd [89]%N (0)%Z VUnspec []); (Nd [88]%N (-1)%Z VUnspec []); (Nd [81]%N (0)%Z VUnspec [])] [(Ed [88]%N (0)%Z [89]%N (0)%Z Und []); (Ed [88]%N (-1)%Z [88]%N (0)%Z Dir [])] []);
     lc_rt_false := Ok (Gr [(Nd [88]%N (0)%Z VUnspec []); (Nd [89]%N (0)%Z VUnspec []); (Nd [88]%N (-1)%Z VUnspec []); (Nd [81]%N (0)%Z VUnspec [])] [(Ed [88]%N (0)%Z [89]%N (0)%Z Und []); (Ed [88]%N (-1)%Z [88]%N (0)%Z Dir [])] []);
     lc_min := Ok (Gr [(Nd [88]%N (-1)%Z VUnspec []); (Nd [88]%N (0)%Z VUnspec []); (Nd [89]%N (0)%Z VUnspec []); (Nd [81]%N (0)%Z VUnspec [])] [(Ed [88]%N (-1)%Z [88]%N (0)%Z Dir []); (Ed [89]%N (0)%Z [88]%N (0)%Z Und [])] []) |};
    {| lc_g := Gr [(Nd [88]%N (-2)%Z VUnspec []); (Nd [89]%N (-2)%Z VUnspec []); (Nd [89]%N (-1)%Z VUnspec []); (Nd [90]%N (-1)%Z VUnspec []); (Nd [90]%N (0)%Z VUnspec []); (Nd [88]%N (0)%Z VUnspec [])] [(Ed [88]%N (-2)%Z [89]%N (-2)%Z Dir []); (Ed [89]%N (-1)%Z [90]%N (-1)%Z Dir []); (Ed [90]%N (0)%Z [88]%N (0)%Z Dir [])] [];
     lc_numpy := Ok ([((0)%Z, [[false; true; false]; [false; false; true]; [true; false; false]])], [[88]%N; [89]%N; [90]%N]);
     lc_rt_true := Err ECyclic;
     lc_rt_false := Ok (Gr [(Nd [88]%N (0)%Z VUnspec []); (Nd [89]%N (0)%Z VUnspec []); (Nd [90]%N (0)%Z VUnspec [])] [(Ed [88]%N (0)%Z [89]%N (0)%Z Dir []); (Ed [89]%N (0)%Z [90]%N (0)%Z Dir []); (Ed [90]%N (0)%Z [88]%N (0)%Z Dir [])] []);
     lc_min := Ok (Gr [(Nd [88]%N (0)%Z VUnspec []); (Nd [89]%N (0)%Z VUnspec []); (Nd [90]%N (0)%Z VUnspec [])] [(Ed [88]%N (0)%Z [89]%N (0)%Z Dir []); (Ed [89]%N (0)%Z [90]%N (0)%Z Dir []); (Ed [90]%N (0)%Z [88]%N (0)%Z Dir [])] []) |};
    {| lc_g := Gr [(Nd [88]%N (-1)%Z VUnspec []); (Nd [89]%N (0)%Z VUnspec [])] [(Ed [88]%N (-1)%Z [89]%N (0)%Z Und [])] [];
     lc_numpy := Ok ([((-1)%Z, [[false; true]; [true; false]])], [[88]%N; [89]%N]);
     lc_rt_true := Ok (Gr [(Nd [88]%N (-1)%Z VUnspec []); (Nd [89]%N (0)%Z VUnspec []); (Nd [89]%N (-1)%Z VUnspec []); (Nd [88]%N (0)%Z VUnspec [])] [(Ed [88]%N (-1)%Z [89]%N (0)%Z Dir []); (Ed [89]%N (-1)%Z [88]%N (0)%Z Dir [])] []);
     lc_rt_false := Ok (Gr [(Nd [88]%N (-1)%Z VUnspec []); (Nd [89]%N (0)%Z VUnspec []); (Nd [89]%N (-1)%Z VUnspec []); (Nd [88]%N (0)%Z VUnspec [])] [(Ed [88]%N (-1)%Z [89]%N (0)%Z Dir []); (Ed [89]%N (-1)%Z [88]%N (0)%Z Dir [])] []);
     lc_min := Ok (Gr [(Nd [88]%N (-1)%Z VUnspec []); (Nd [89]%N (0)%Z VUnspec [])] [(Ed [88]%N (-1)%Z [89]%N (0)%Z Und [])] []) |} ]
  = [[1; 1; 1; 1; 1]; [1; 1; 1; 1; 1]; [1; 1; 1; 2; 2]]%N.
Proof. vm_compute; reflexivity. Qed.
