(** DigraphProofs.v — proofs about the executable definitions of Digraph.v.

    Everything is generic in the vertex type [A] with a reflected boolean equality.
    Main results: set lemmas, [desc_spec]/[anc_spec] (for ALL well-formed graphs, cyclic or
    not), [acyclicb_spec], arc insertion / deletion and acyclicity, rank functions. *)
From Coq Require Import Relations.Relation_Operators.
From CG Require Import Base Digraph.
Set Implicit Arguments.

Section DigraphProofs.
  Variable A : Type.
  Variable eqb : A -> A -> bool.
  Hypothesis eqb_spec : forall x y, reflect (x = y) (eqb x y).

  Notation digraph := (digraph A).

  (** * Equality *)

  Lemma eqb_refl x : eqb x x = true.
  Proof. destruct (eqb_spec x x) as [_|Hn]; [reflexivity|contradiction]. Qed.

  Lemma eqb_eq x y : eqb x y = true <-> x = y.
  Proof. destruct (eqb_spec x y); split; congruence. Qed.

  Lemma eqb_neq x y : eqb x y = false <-> x <> y.
  Proof. destruct (eqb_spec x y); split; congruence. Qed.

  Lemma eqb_sym x y : eqb x y = eqb y x.
  Proof. destruct (eqb_spec x y), (eqb_spec y x); congruence. Qed.

  Definition eq_dec (x y : A) : {x = y} + {x <> y}.
  Proof. destruct (eqb_spec x y); [left|right]; assumption. Defined.

  (** * Lists as sets *)

  Lemma memb_in x l : memb eqb x l = true <-> In x l.
  Proof.
    unfold memb; rewrite existsb_exists; split.
    - intros (y & Hy & E). apply eqb_eq in E; subst; exact Hy.
    - intros H; exists x; split; [exact H|apply eqb_refl].
  Qed.

  Lemma memb_false x l : memb eqb x l = false <-> ~ In x l.
  Proof. rewrite <- memb_in; destruct (memb eqb x l); split; congruence. Qed.

  Lemma memb_reflect x l : reflect (In x l) (memb eqb x l).
  Proof.
    destruct (memb eqb x l) eqn:E; constructor.
    - apply memb_in; exact E.
    - apply memb_false; exact E.
  Qed.

  Lemma union_cons a l1 l2 :
    union eqb (a :: l1) l2 =
    if memb eqb a (union eqb l1 l2) then union eqb l1 l2 else a :: union eqb l1 l2.
  Proof. reflexivity. Qed.

  Lemma union_in x l1 l2 : In x (union eqb l1 l2) <-> In x l1 \/ In x l2.
  Proof.
    revert x; induction l1 as [|a l1 IH]; intros x.
    - simpl; tauto.
    - rewrite union_cons. destruct (memb eqb a (union eqb l1 l2)) eqn:E.
      + apply memb_in in E. rewrite IH in E. rewrite IH. simpl. split; [tauto|].
        intros [[Hax|H]|H]; [subst; exact E|tauto|tauto].
      + simpl. rewrite IH. tauto.
  Qed.

  Lemma union_nodup l1 l2 : NoDup l2 -> NoDup (union eqb l1 l2).
  Proof.
    intros Hnd; induction l1 as [|a l1 IH]; [exact Hnd|].
    rewrite union_cons. destruct (memb eqb a (union eqb l1 l2)) eqn:E; [exact IH|].
    constructor; [apply memb_false; exact E|exact IH].
  Qed.

  Lemma union_nil_nodup l : NoDup (union eqb l []).
  Proof. apply union_nodup; constructor. Qed.

  Lemma inter_in x l1 l2 : In x (inter eqb l1 l2) <-> In x l1 /\ In x l2.
  Proof. unfold inter; rewrite filter_In, memb_in; tauto. Qed.

  Lemma diff_in x l1 l2 : In x (diff eqb l1 l2) <-> In x l1 /\ ~ In x l2.
  Proof. unfold diff; rewrite filter_In, negb_true_iff, memb_false; tauto. Qed.

  Lemma inter_nodup l1 l2 : NoDup l1 -> NoDup (inter eqb l1 l2).
  Proof. apply NoDup_filter. Qed.

  Lemma diff_nodup l1 l2 : NoDup l1 -> NoDup (diff eqb l1 l2).
  Proof. apply NoDup_filter. Qed.

  Lemma subsetb_spec l1 l2 : subsetb eqb l1 l2 = true <-> incl l1 l2.
  Proof.
    unfold subsetb, incl; rewrite forallb_forall; split; intros H x Hx.
    - apply memb_in, H, Hx.
    - apply memb_in, H, Hx.
  Qed.

  Lemma seteqb_spec l1 l2 : seteqb eqb l1 l2 = true <-> (forall x, In x l1 <-> In x l2).
  Proof.
    unfold seteqb; rewrite andb_true_iff, !subsetb_spec; unfold incl; split.
    - intros [H1 H2] x; split; [apply H1|apply H2].
    - intros H; split; intros x; apply H.
  Qed.

  (** * Arcs, children, parents *)

  Lemma children_in (g : digraph) x y : In y (children eqb g x) <-> arc g x y.
  Proof.
    unfold children, arc; rewrite in_map_iff; split.
    - intros ([a b] & Hb & Hin); simpl in Hb; subst b.
      apply filter_In in Hin; destruct Hin as [Hin E]; simpl in E.
      apply eqb_eq in E; subst a; exact Hin.
    - intros H; exists (x, y); split; [reflexivity|].
      apply filter_In; split; [exact H|simpl; apply eqb_refl].
  Qed.

  Lemma parents_in (g : digraph) x y : In y (parents eqb g x) <-> arc g y x.
  Proof.
    unfold parents, arc; rewrite in_map_iff; split.
    - intros ([a b] & Ha & Hin); simpl in Ha; subst a.
      apply filter_In in Hin; destruct Hin as [Hin E]; simpl in E.
      apply eqb_eq in E; subst b; exact Hin.
    - intros H; exists (y, x); split; [reflexivity|].
      apply filter_In; split; [exact H|simpl; apply eqb_refl].
  Qed.

  Lemma has_arc_spec (g : digraph) a b : has_arc eqb g a b = true <-> arc g a b.
  Proof.
    unfold has_arc, arc; rewrite existsb_exists; split.
    - intros ([c d] & Hin & E); simpl in E. apply andb_true_iff in E; destruct E as [E1 E2].
      apply eqb_eq in E1, E2; subst; exact Hin.
    - intros H; exists (a, b); split; [exact H|simpl; rewrite !eqb_refl; reflexivity].
  Qed.

  Lemma has_arc_false (g : digraph) a b : has_arc eqb g a b = false <-> ~ arc g a b.
  Proof. rewrite <- has_arc_spec; destruct (has_arc eqb g a b); split; congruence. Qed.

  Lemma adjacentb_spec (g : digraph) a b :
    adjacentb eqb g a b = true <-> arc g a b \/ arc g b a.
  Proof. unfold adjacentb; rewrite orb_true_iff, !has_arc_spec; tauto. Qed.

  (** * Paths *)

  Lemma path_arc (g : digraph) a b : arc g a b -> path g a b.
  Proof. intros H; apply t_step; exact H. Qed.

  Lemma path_trans (g : digraph) a b c : path g a b -> path g b c -> path g a c.
  Proof. intros H1 H2; eapply t_trans; eassumption. Qed.

  Lemma path_mono (g1 g2 : digraph) :
    (forall a b, arc g1 a b -> arc g2 a b) -> forall x y, path g1 x y -> path g2 x y.
  Proof.
    intros Hsub x y Hp; induction Hp as [x y Harc|x y z _ IH1 _ IH2].
    - apply t_step, Hsub, Harc.
    - eapply t_trans; eassumption.
  Qed.

  (** A path starts with an arc and ends with an arc. *)
  Lemma path_first (g : digraph) x y :
    path g x y -> exists z, arc g x z /\ (z = y \/ path g z y).
  Proof.
    intros Hp; induction Hp as [x y Harc|x y z _ IH1 Hyz _].
    - exists y; split; [exact Harc|left; reflexivity].
    - destruct IH1 as (w & Hxw & Hwy); exists w; split; [exact Hxw|right].
      destruct Hwy as [->|Hwy]; [exact Hyz|eapply t_trans; eassumption].
  Qed.

  Lemma path_last (g : digraph) x y :
    path g x y -> exists z, arc g z y /\ (x = z \/ path g x z).
  Proof.
    intros Hp; induction Hp as [x y Harc|x y z Hxy _ _ IH2].
    - exists x; split; [exact Harc|left; reflexivity].
    - destruct IH2 as (w & Hwz & Hyw); exists w; split; [exact Hwz|right].
      destruct Hyw as [<-|Hyw]; [exact Hxy|eapply t_trans; eassumption].
  Qed.

  Lemma path_in_verts (g : digraph) x y :
    wf g -> path g x y -> In x (verts g) /\ In y (verts g).
  Proof.
    intros [_ Hwf] Hp; induction Hp as [x y Harc|x y z _ IH1 _ IH2].
    - apply Hwf, Harc.
    - split; [apply IH1|apply IH2].
  Qed.

  (** * Reversal *)

  Lemma rev_arc (g : digraph) a b : arc (rev_graph g) a b <-> arc g b a.
  Proof.
    unfold arc, rev_graph; simpl; rewrite in_map_iff; split.
    - intros ([c d] & E & Hin); simpl in E; inversion E; subst; exact Hin.
    - intros H; exists (b, a); split; [reflexivity|exact H].
  Qed.

  Lemma rev_path (g : digraph) a b : path (rev_graph g) a b <-> path g b a.
  Proof.
    split; intros Hp.
    - induction Hp as [x y Harc|x y z _ IH1 _ IH2].
      + apply t_step, rev_arc, Harc.
      + eapply t_trans; eassumption.
    - induction Hp as [x y Harc|x y z _ IH1 _ IH2].
      + apply t_step, rev_arc, Harc.
      + eapply t_trans; eassumption.
  Qed.

  Lemma rev_verts (g : digraph) : verts (rev_graph g) = verts g.
  Proof. reflexivity. Qed.

  Lemma rev_wf (g : digraph) : wf g -> wf (rev_graph g).
  Proof.
    intros [Hnd Hwf]; split; [exact Hnd|].
    intros a b Hab; apply (proj1 (rev_arc g a b)) in Hab; simpl; destruct (Hwf _ _ Hab); split; assumption.
  Qed.

  Lemma rev_acyclic (g : digraph) : acyclic (rev_graph g) <-> acyclic g.
  Proof. unfold acyclic; split; intros H v Hp; apply (H v), rev_path, Hp. Qed.

  Lemma rev_children (g : digraph) x y : In y (children eqb (rev_graph g) x) <-> In y (parents eqb g x).
  Proof. rewrite children_in, parents_in; apply rev_arc. Qed.

  (** * Walks as vertex lists

      [chain g x l]: [l] lists the successive vertices visited after [x].  The walk ends in
      [last l x] and has [length l] arcs. *)

  Fixpoint chain (g : digraph) (x : A) (l : list A) : Prop :=
    match l with
    | [] => True
    | y :: l' => arc g x y /\ chain g y l'
    end.

  Lemma last_cons (a : A) l d : last (a :: l) d = last l a.
  Proof.
    revert a d; induction l as [|b l IH]; intros a d; [reflexivity|].
    change (last (a :: b :: l) d) with (last (b :: l) d). rewrite (IH b d), (IH b a). reflexivity.
  Qed.

  Lemma last_in_cons (a : A) l : In (last l a) (a :: l).
  Proof.
    revert a; induction l as [|b l IH]; intros a; [left; reflexivity|].
    rewrite last_cons. right; apply IH.
  Qed.

  Lemma last_app_cons (l1 : list A) a l2 d : last (l1 ++ a :: l2) d = last l2 a.
  Proof.
    revert d; induction l1 as [|b l1 IH]; intros d; simpl app.
    - apply last_cons.
    - rewrite last_cons. apply IH.
  Qed.

  Lemma chain_app (g : digraph) x l1 l2 :
    chain g x (l1 ++ l2) <-> chain g x l1 /\ chain g (last l1 x) l2.
  Proof.
    revert x; induction l1 as [|a l1 IH]; intros x.
    - simpl; tauto.
    - simpl app. rewrite last_cons. simpl chain. rewrite IH. tauto.
  Qed.

  Lemma chain_path (g : digraph) x l : chain g x l -> l <> [] -> path g x (last l x).
  Proof.
    revert x; induction l as [|a l IH]; intros x Hc Hne; [contradiction|].
    destruct Hc as [Hxa Hc]. rewrite last_cons.
    destruct l as [|b l].
    - simpl. apply t_step, Hxa.
    - eapply t_trans; [apply t_step, Hxa|]. apply IH; [exact Hc|discriminate].
  Qed.

  Lemma path_chain (g : digraph) x y :
    path g x y -> exists l, l <> [] /\ chain g x l /\ last l x = y.
  Proof.
    intros Hp; induction Hp as [x y Harc|x y z _ IH1 _ IH2].
    - exists [y]; simpl; repeat split; [discriminate|exact Harc].
    - destruct IH1 as (l1 & Hne1 & Hc1 & Hl1), IH2 as (l2 & Hne2 & Hc2 & Hl2).
      exists (l1 ++ l2); repeat split.
      + destruct l1; [contradiction|discriminate].
      + apply chain_app; split; [exact Hc1|rewrite Hl1; exact Hc2].
      + destruct l2 as [|b l2]; [contradiction|].
        rewrite last_app_cons. rewrite <- Hl2, last_cons. reflexivity.
  Qed.

  Lemma chain_incl_verts (g : digraph) x l : wf g -> chain g x l -> incl l (verts g).
  Proof.
    intros [_ Hwf]; revert x; induction l as [|a l IH]; intros x Hc y Hy; [contradiction|].
    destruct Hc as [Hxa Hc]. destruct Hy as [<-|Hy].
    - apply (Hwf _ _ Hxa).
    - apply (IH _ Hc), Hy.
  Qed.

  Lemma NoDup_app_r (l1 l2 : list A) : NoDup (l1 ++ l2) -> NoDup l2.
  Proof.
    induction l1 as [|a l1 IH]; simpl; intros H; [exact H|].
    apply IH. inversion H; assumption.
  Qed.

  Lemma NoDup_app_l (l1 l2 : list A) : NoDup (l1 ++ l2) -> NoDup l1.
  Proof.
    induction l1 as [|a l1 IH]; simpl; intros H; [constructor|].
    inversion H as [|? ? Hnin Hnd]; subst. constructor; [|apply IH, Hnd].
    intros Hin; apply Hnin, in_or_app; left; exact Hin.
  Qed.

  (** Pigeonhole: a walk can be cut down to one that never visits a vertex twice. *)
  Lemma chain_simplify (g : digraph) x l :
    chain g x l -> l <> [] ->
    exists l', l' <> [] /\ chain g x l' /\ last l' x = last l x /\ NoDup l' /\ incl l' l.
  Proof.
    revert x; induction l as [|a l IH]; intros x Hc Hne; [contradiction|].
    destruct Hc as [Hxa Hc]. destruct l as [|b l].
    - exists [a]; simpl; repeat split; try assumption; try discriminate.
      + constructor; [intros []|constructor].
      + apply incl_refl.
    - destruct (IH a Hc) as (l' & Hne' & Hc' & Hl' & Hnd' & Hincl'); [discriminate|].
      rewrite (last_cons a (b :: l) x).
      destruct (memb_reflect a l') as [Hin|Hnin].
      + apply in_split in Hin; destruct Hin as (l1 & l2 & ->).
        exists (a :: l2); repeat split.
        * discriminate.
        * exact Hxa.
        * apply chain_app in Hc'; destruct Hc' as [_ [_ Hc']]. exact Hc'.
        * rewrite last_cons, <- Hl', last_app_cons. reflexivity.
        * apply NoDup_remove_1 in Hnd' as Hnd1. apply NoDup_remove_2 in Hnd'.
          constructor.
          -- intros Hin; apply Hnd'; apply in_or_app; right; exact Hin.
          -- apply NoDup_app_r in Hnd1. exact Hnd1.
        * intros y Hy. destruct Hy as [<-|Hy]; [left; reflexivity|].
          right; apply Hincl'; apply in_or_app; right; right; exact Hy.
      + exists (a :: l'); repeat split.
        * discriminate.
        * exact Hxa.
        * exact Hc'.
        * rewrite last_cons. exact Hl'.
        * constructor; assumption.
        * intros y [<-|Hy]; [left; reflexivity|right; apply Hincl', Hy].
  Qed.
  (** * Descendants and ancestors *)

  Lemma iter_in (g : digraph) n S y :
    In y (iter eqb n g S) <->
    exists s l, In s S /\ length l <= n /\ chain g s l /\ last l s = y.
  Proof.
    revert S; induction n as [|n IH]; intros S.
    - simpl. split.
      + intros H; exists y, []; simpl. split; [exact H|]. split; [lia|]. split; [exact I|reflexivity].
      + intros (s & l & Hs & Hlen & _ & Hl).
        destruct l as [|a l]; [simpl in Hl; subst; exact Hs|simpl in Hlen; lia].
    - simpl iter. rewrite IH. split.
      + intros (s & l & Hs & Hlen & Hc & Hl). apply union_in in Hs. destruct Hs as [Hs|Hs].
        * apply in_flat_map in Hs. destruct Hs as (s0 & Hs0 & Hch). apply children_in in Hch.
          exists s0, (s :: l). split; [exact Hs0|]. split; [simpl; lia|].
          split; [split; [exact Hch|exact Hc]|]. rewrite last_cons; exact Hl.
        * exists s, l. split; [exact Hs|]. split; [lia|]. split; [exact Hc|exact Hl].
      + intros (s & l & Hs & Hlen & Hc & Hl). destruct l as [|a l].
        * exists s, []. split; [apply union_in; right; exact Hs|]. split; [simpl; lia|].
          split; [exact I|exact Hl].
        * destruct Hc as [Hsa Hc]. exists a, l. split.
          { apply union_in; left. apply in_flat_map. exists s; split; [exact Hs|].
            apply children_in, Hsa. }
          split; [simpl in Hlen; lia|]. split; [exact Hc|].
          rewrite last_cons in Hl; exact Hl.
  Qed.

  Lemma iter_nodup (g : digraph) n S : NoDup S -> NoDup (iter eqb n g S).
  Proof.
    revert S; induction n as [|n IH]; intros S Hnd; [exact Hnd|].
    simpl. apply IH, union_nodup, Hnd.
  Qed.

  Lemma desc_nodup (g : digraph) x : NoDup (desc eqb g x).
  Proof. unfold desc. apply iter_nodup, union_nil_nodup. Qed.

  Lemma anc_nodup (g : digraph) x : NoDup (anc eqb g x).
  Proof. unfold anc. apply desc_nodup. Qed.

  (** [desc] computes exactly the vertices reachable by a non-empty directed path, on every
      well-formed graph (cyclic ones included). *)
  Theorem desc_spec (g : digraph) x y : wf g -> (In y (desc eqb g x) <-> path g x y).
  Proof.
    intros Hwf. unfold desc. rewrite iter_in. split.
    - intros (s & l & Hs & _ & Hc & Hl). apply union_in in Hs. destruct Hs as [Hs|[]].
      apply children_in in Hs.
      assert (Hc' : chain g x (s :: l)) by (split; assumption).
      rewrite <- Hl, <- (last_cons s l x). apply chain_path; [exact Hc'|discriminate].
    - intros Hp. apply path_chain in Hp. destruct Hp as (l & Hne & Hc & Hl).
      destruct (@chain_simplify g x l Hc Hne) as (l' & Hne' & Hc' & Hl' & Hnd' & _).
      destruct l' as [|s l']; [contradiction|].
      assert (Hincl : incl (s :: l') (verts g)) by (apply (@chain_incl_verts g x (s :: l') Hwf Hc')).
      destruct Hc' as [Hxs Hc'].
      exists s, l'. split; [apply union_in; left; apply children_in, Hxs|].
      split.
      + pose proof (NoDup_incl_length Hnd' Hincl) as Hlen. simpl in Hlen. lia.
      + split; [exact Hc'|]. rewrite <- Hl, <- Hl', last_cons. reflexivity.
  Qed.

  Theorem anc_spec (g : digraph) x y : wf g -> (In y (anc eqb g x) <-> path g y x).
  Proof.
    intros Hwf. unfold anc. rewrite desc_spec; [apply rev_path|apply rev_wf, Hwf].
  Qed.

  Lemma reachb_spec (g : digraph) x y : wf g -> (reachb eqb g x y = true <-> path g x y).
  Proof. intros Hwf. unfold reachb. rewrite memb_in. apply desc_spec, Hwf. Qed.

  Lemma reachb_false (g : digraph) x y : wf g -> (reachb eqb g x y = false <-> ~ path g x y).
  Proof.
    intros Hwf. rewrite <- (reachb_spec x y Hwf). destruct (reachb eqb g x y); split; congruence.
  Qed.

  Lemma desc_in_verts (g : digraph) x y : wf g -> In y (desc eqb g x) -> In y (verts g).
  Proof. intros Hwf H. apply (desc_spec x y Hwf) in H. apply (path_in_verts Hwf H). Qed.

  Lemma anc_in_verts (g : digraph) x y : wf g -> In y (anc eqb g x) -> In y (verts g).
  Proof. intros Hwf H. apply (anc_spec x y Hwf) in H. apply (path_in_verts Hwf H). Qed.

  Lemma path_dec (g : digraph) x y : wf g -> {path g x y} + {~ path g x y}.
  Proof.
    intros Hwf. destruct (reachb eqb g x y) eqn:E.
    - left; apply (reachb_spec x y Hwf), E.
    - right; apply (reachb_false x y Hwf), E.
  Qed.

  (** * Acyclicity *)

  Theorem acyclicb_spec (g : digraph) : wf g -> (acyclicb eqb g = true <-> acyclic g).
  Proof.
    intros Hwf. unfold acyclicb, acyclic. rewrite forallb_forall. split.
    - intros H v Hp. assert (Hv : In v (verts g)) by (apply (path_in_verts Hwf Hp)).
      specialize (H v Hv). apply negb_true_iff in H.
      apply (reachb_spec v v Hwf) in Hp. congruence.
    - intros H v _. apply negb_true_iff. destruct (reachb eqb g v v) eqn:E; [|reflexivity].
      apply (reachb_spec v v Hwf) in E. exfalso; apply (H v E).
  Qed.

  Lemma acyclic_no_loop (g : digraph) a : acyclic g -> ~ arc g a a.
  Proof. intros Hac H. apply (Hac a), t_step, H. Qed.

  Lemma acyclic_antisym (g : digraph) a b : acyclic g -> path g a b -> ~ path g b a.
  Proof. intros Hac H1 H2. apply (Hac a). eapply t_trans; eassumption. Qed.

  (** * Adding and removing arcs *)

  Lemma add_arc_arc (g : digraph) a b x y :
    arc (add_arc g a b) x y <-> arc g x y \/ (x = a /\ y = b).
  Proof.
    unfold arc, add_arc; simpl. rewrite in_app_iff; simpl. split.
    - intros [H|[H|[]]]; [left; exact H|right; inversion H; split; reflexivity].
    - intros [H|[-> ->]]; [left; exact H|right; left; reflexivity].
  Qed.

  Lemma add_arc_verts (g : digraph) a b : verts (add_arc g a b) = verts g.
  Proof. reflexivity. Qed.

  Lemma add_arc_wf (g : digraph) a b :
    wf g -> In a (verts g) -> In b (verts g) -> wf (add_arc g a b).
  Proof.
    intros [Hnd Hwf] Ha Hb; split; [exact Hnd|].
    intros x y Hxy; apply add_arc_arc in Hxy; simpl.
    destruct Hxy as [Hxy|[-> ->]]; [apply Hwf, Hxy|split; assumption].
  Qed.

  Lemma path_add_arc_mono (g : digraph) a b x y : path g x y -> path (add_arc g a b) x y.
  Proof. apply path_mono. intros u v H; apply add_arc_arc; left; exact H. Qed.

  (** A path of [add_arc g a b] is a path of [g] or goes through the new arc. *)
  Lemma path_add_arc_inv (g : digraph) a b x y :
    path (add_arc g a b) x y ->
    path g x y \/ ((x = a \/ path g x a) /\ (b = y \/ path g b y)).
  Proof.
    intros Hp; induction Hp as [x y Harc|x y z _ IH1 _ IH2].
    - apply add_arc_arc in Harc. destruct Harc as [H|[-> ->]].
      + left; apply t_step, H.
      + right; split; left; reflexivity.
    - destruct IH1 as [H1|[H1a H1b]], IH2 as [H2|[H2a H2b]].
      + left; eapply t_trans; eassumption.
      + right; split; [|exact H2b]. right.
        destruct H2a as [<-|H2a]; [exact H1|eapply t_trans; eassumption].
      + right; split; [exact H1a|]. right.
        destruct H1b as [->|H1b]; [exact H2|eapply t_trans; eassumption].
      + right; split; assumption.
  Qed.

  Lemma path_add_arc_iff (g : digraph) a b x y :
    path (add_arc g a b) x y <->
    path g x y \/ ((x = a \/ path g x a) /\ (b = y \/ path g b y)).
  Proof.
    split; [apply path_add_arc_inv|].
    intros [H|[Hxa Hby]]; [apply path_add_arc_mono, H|].
    assert (Hab : path (add_arc g a b) a b) by (apply t_step, add_arc_arc; right; split; reflexivity).
    assert (Hxb : path (add_arc g a b) x b).
    { destruct Hxa as [->|Hxa]; [exact Hab|].
      eapply t_trans; [apply path_add_arc_mono, Hxa|exact Hab]. }
    destruct Hby as [<-|Hby]; [exact Hxb|].
    eapply t_trans; [exact Hxb|apply path_add_arc_mono, Hby].
  Qed.

  Lemma add_arc_acyclic_nowf (g : digraph) a b :
    acyclic g -> a <> b -> ~ path g b a -> acyclic (add_arc g a b).
  Proof.
    intros Hac Hne Hnp v Hp. apply path_add_arc_inv in Hp.
    destruct Hp as [Hp|[Hva Hbv]]; [exact (Hac v Hp)|].
    destruct Hva as [->|Hva], Hbv as [Hbv|Hbv].
    - apply Hne; symmetry; exact Hbv.
    - exact (Hnp Hbv).
    - subst v. exact (Hnp Hva).
    - apply Hnp. eapply t_trans; eassumption.
  Qed.

  Theorem add_arc_acyclic (g : digraph) a b :
    wf g -> acyclic g -> a <> b -> ~ path g b a -> acyclic (add_arc g a b).
  Proof. intros _. apply add_arc_acyclic_nowf. Qed.

  Theorem add_arc_cyclic (g : digraph) a b :
    acyclic g -> (a = b \/ path g b a) -> ~ acyclic (add_arc g a b).
  Proof.
    intros _ H Hac. apply (Hac a). apply path_add_arc_iff. right.
    split; [left; reflexivity|]. destruct H as [->|H]; [left; reflexivity|right; exact H].
  Qed.

  Lemma add_arc_acyclic_iff (g : digraph) a b :
    acyclic g -> (acyclic (add_arc g a b) <-> a <> b /\ ~ path g b a).
  Proof.
    intros Hac; split.
    - intros Hac'; split.
      + intros E; apply (add_arc_cyclic (a:=a) (b:=b) Hac); [left; exact E|exact Hac'].
      + intros Hp; apply (add_arc_cyclic (a:=a) (b:=b) Hac); [right; exact Hp|exact Hac'].
    - intros [Hne Hnp]; apply add_arc_acyclic_nowf; assumption.
  Qed.

  Lemma del_arcs_arc (g : digraph) xs x y :
    arc (del_arcs_from eqb g xs) x y <-> arc g x y /\ ~ In x xs.
  Proof.
    unfold arc, del_arcs_from; simpl. rewrite filter_In; simpl.
    rewrite negb_true_iff, memb_false. tauto.
  Qed.

  Lemma del_arcs_verts (g : digraph) xs : verts (del_arcs_from eqb g xs) = verts g.
  Proof. reflexivity. Qed.

  Lemma del_arcs_wf (g : digraph) xs : wf g -> wf (del_arcs_from eqb g xs).
  Proof.
    intros [Hnd Hwf]; split; [exact Hnd|].
    intros a b Hab; apply del_arcs_arc in Hab; simpl. apply Hwf, Hab.
  Qed.

  Lemma del_arcs_path (g : digraph) xs x y : path (del_arcs_from eqb g xs) x y -> path g x y.
  Proof. apply path_mono. intros a b H; apply del_arcs_arc in H; apply H. Qed.

  Lemma subgraph_acyclic (g1 g2 : digraph) :
    (forall a b, arc g1 a b -> arc g2 a b) -> acyclic g2 -> acyclic g1.
  Proof. intros Hsub Hac v Hp. apply (Hac v), (@path_mono g1 g2 Hsub), Hp. Qed.

  Theorem del_arcs_acyclic (g : digraph) xs : acyclic g -> acyclic (del_arcs_from eqb g xs).
  Proof. intros Hac v Hp. apply (Hac v), (del_arcs_path Hp). Qed.

  (** * Rank functions *)

  Lemma rank_path (g : digraph) (rank : A -> nat) :
    (forall a b, arc g a b -> rank a < rank b) -> forall a b, path g a b -> rank a < rank b.
  Proof.
    intros Hr a b Hp; induction Hp as [x y Harc|x y z _ IH1 _ IH2]; [apply Hr, Harc|lia].
  Qed.

  Theorem rank_acyclic (g : digraph) (rank : A -> nat) :
    (forall a b, arc g a b -> rank a < rank b) -> acyclic g.
  Proof. intros Hr v Hp. pose proof (@rank_path g rank Hr v v Hp) as Hlt. lia. Qed.

  Lemma anc_rank (g : digraph) a b :
    wf g -> acyclic g -> arc g a b -> length (anc eqb g a) < length (anc eqb g b).
  Proof.
    intros Hwf Hac Hab.
    assert (Hnd : NoDup (a :: anc eqb g a)).
    { constructor; [|apply anc_nodup]. intros Hin. apply (anc_spec a a Hwf) in Hin.
      exact (Hac a Hin). }
    assert (Hincl : incl (a :: anc eqb g a) (anc eqb g b)).
    { intros y [<-|Hy]; apply (anc_spec b); try exact Hwf.
      - apply t_step, Hab.
      - apply (anc_spec a y Hwf) in Hy. eapply t_trans; [exact Hy|apply t_step, Hab]. }
    pose proof (NoDup_incl_length Hnd Hincl) as Hlen. simpl in Hlen. lia.
  Qed.

  Theorem acyclic_rank (g : digraph) :
    wf g -> acyclic g -> exists rank : A -> nat, forall a b, arc g a b -> rank a < rank b.
  Proof.
    intros Hwf Hac. exists (fun v => length (anc eqb g v)). intros a b; apply anc_rank; assumption.
  Qed.

  Lemma acyclic_iff_rank (g : digraph) :
    wf g -> (acyclic g <-> exists rank : A -> nat, forall a b, arc g a b -> rank a < rank b).
  Proof.
    intros Hwf; split; [apply acyclic_rank, Hwf|intros (rank & Hr); exact (@rank_acyclic g rank Hr)].
  Qed.
  (** * Further lemmas used by QueriesProofs.v *)

  (** Induction on a path, peeling arcs off its left / right end. *)
  Lemma path_ind_left (g : digraph) (v : A) (P : A -> Prop) :
    (forall x, arc g x v -> P x) ->
    (forall x y, arc g x y -> path g y v -> P y -> P x) ->
    forall x, path g x v -> P x.
  Proof.
    intros Hstep Htrans x Hp. apply path_chain in Hp. destruct Hp as (l & Hne & Hc & Hl).
    revert x Hne Hc Hl; induction l as [|a l IH]; intros x Hne Hc Hl; [contradiction|].
    destruct Hc as [Hxa Hc]. rewrite last_cons in Hl. destruct l as [|c l].
    - simpl in Hl; subst a. apply Hstep, Hxa.
    - apply (Htrans x a Hxa).
      + rewrite <- Hl. apply chain_path; [exact Hc|discriminate].
      + apply IH; [discriminate|exact Hc|exact Hl].
  Qed.

  Lemma path_ind_right (g : digraph) (u : A) (P : A -> Prop) :
    (forall y, arc g u y -> P y) ->
    (forall x y, path g u x -> P x -> arc g x y -> P y) ->
    forall y, path g u y -> P y.
  Proof.
    intros Hstep Htrans y Hp. apply rev_path in Hp.
    apply (@path_ind_left (rev_graph g) u P); [| |exact Hp].
    - intros x Hx. apply Hstep, rev_arc, Hx.
    - intros x z Hxz Hzu HPz. apply (Htrans z x); [apply rev_path, Hzu|exact HPz|apply rev_arc, Hxz].
  Qed.

  Lemma desc_rank (g : digraph) a b :
    wf g -> acyclic g -> arc g a b -> length (desc eqb g b) < length (desc eqb g a).
  Proof.
    intros Hwf Hac Hab.
    assert (Hnd : NoDup (b :: desc eqb g b)).
    { constructor; [|apply desc_nodup]. intros Hin. apply (desc_spec b b Hwf) in Hin.
      exact (Hac b Hin). }
    assert (Hincl : incl (b :: desc eqb g b) (desc eqb g a)).
    { intros y [<-|Hy]; apply (desc_spec a); try exact Hwf.
      - apply t_step, Hab.
      - apply (desc_spec b y Hwf) in Hy. eapply t_trans; [apply t_step, Hab|exact Hy]. }
    pose proof (NoDup_incl_length Hnd Hincl) as Hlen. simpl in Hlen. lia.
  Qed.

  Lemma desc_length_le (g : digraph) x : wf g -> length (desc eqb g x) <= length (verts g).
  Proof.
    intros Hwf. apply NoDup_incl_length; [apply desc_nodup|].
    intros y Hy. apply (desc_in_verts x y Hwf Hy).
  Qed.

  Lemma desc_length_lt (g : digraph) x :
    wf g -> acyclic g -> In x (verts g) -> length (desc eqb g x) < length (verts g).
  Proof.
    intros Hwf Hac Hx.
    assert (Hnd : NoDup (x :: desc eqb g x)).
    { constructor; [|apply desc_nodup]. intros Hin. apply (desc_spec x x Hwf) in Hin.
      exact (Hac x Hin). }
    assert (Hincl : incl (x :: desc eqb g x) (verts g)).
    { intros y [<-|Hy]; [exact Hx|apply (desc_in_verts x y Hwf Hy)]. }
    pose proof (NoDup_incl_length Hnd Hincl) as Hlen. simpl in Hlen. lia.
  Qed.

  Lemma last_in (l : list A) d : l <> [] -> In (last l d) l.
  Proof.
    destruct l as [|a l]; intros Hne; [contradiction|]. rewrite last_cons. apply last_in_cons.
  Qed.

  Lemma NoDup_app_intro (X : Type) (l1 l2 : list X) :
    NoDup l1 -> NoDup l2 -> (forall x, In x l1 -> ~ In x l2) -> NoDup (l1 ++ l2).
  Proof.
    intros H1 H2 Hd; induction l1 as [|a l1 IH]; simpl; [exact H2|].
    inversion H1 as [|? ? Hnin Hnd]; subst. constructor.
    - intros Hin; apply in_app_or in Hin; destruct Hin as [Hin|Hin]; [exact (Hnin Hin)|].
      apply (Hd a); [left; reflexivity|exact Hin].
    - apply IH; [exact Hnd|]. intros x Hx; apply Hd; right; exact Hx.
  Qed.

  Lemma NoDup_flat_map (X Y : Type) (f : X -> list Y) (l : list X) :
    NoDup l -> (forall x, In x l -> NoDup (f x)) ->
    (forall x1 x2 y, In x1 l -> In x2 l -> In y (f x1) -> In y (f x2) -> x1 = x2) ->
    NoDup (flat_map f l).
  Proof.
    intros Hnd Hf Hdisj; induction l as [|a l IH]; simpl; [constructor|].
    inversion Hnd as [|? ? Hnin Hnd']; subst. apply NoDup_app_intro.
    - apply Hf; left; reflexivity.
    - apply IH; [exact Hnd'| |].
      + intros x Hx; apply Hf; right; exact Hx.
      + intros x1 x2 y H1 H2; apply Hdisj; right; assumption.
    - intros y Hy Hy'. apply in_flat_map in Hy'. destruct Hy' as (x & Hx & Hyx).
      assert (a = x) by (apply (Hdisj a x y); [left; reflexivity|right; exact Hx|exact Hy|exact Hyx]).
      subst x. exact (Hnin Hx).
  Qed.

  Lemma NoDup_map_cons (X : Type) (c : X) (ll : list (list X)) :
    NoDup ll -> NoDup (map (cons c) ll).
  Proof.
    induction 1 as [|l ll Hnin Hnd IH]; simpl; constructor; [|exact IH].
    intros Hin. apply in_map_iff in Hin. destruct Hin as (l' & E & Hl').
    inversion E; subst. exact (Hnin Hl').
  Qed.

  (** * A boolean well-formedness checker (used to discharge [wf] on concrete graphs) *)

  Fixpoint nodupb (l : list A) : bool :=
    match l with
    | [] => true
    | x :: l' => negb (memb eqb x l') && nodupb l'
    end.

  Lemma nodupb_spec l : nodupb l = true <-> NoDup l.
  Proof.
    induction l as [|x l IH]; simpl.
    - split; [constructor|reflexivity].
    - rewrite andb_true_iff, negb_true_iff, memb_false, IH. split.
      + intros [Hnin Hnd]; constructor; assumption.
      + intros H; inversion H; subst; split; assumption.
  Qed.

  Definition wfb (g : digraph) : bool :=
    nodupb (verts g) &&
    forallb (fun e => memb eqb (fst e) (verts g) && memb eqb (snd e) (verts g)) (arcs g).

  Lemma wfb_spec (g : digraph) : wfb g = true <-> wf g.
  Proof.
    unfold wfb, wf, arc. rewrite andb_true_iff, nodupb_spec, forallb_forall. split.
    - intros [Hnd H]; split; [exact Hnd|]. intros a b Hab. specialize (H _ Hab); simpl in H.
      apply andb_true_iff in H. rewrite !memb_in in H. exact H.
    - intros [Hnd H]; split; [exact Hnd|]. intros [a b] Hab; simpl.
      apply andb_true_iff. rewrite !memb_in. apply H, Hab.
  Qed.
End DigraphProofs.

(** * Non-vacuity: concrete graphs over [nat] satisfying the hypotheses above *)

Definition ex_dag : digraph nat :=
  {| verts := [0; 1; 2; 3; 4]; arcs := [(0, 1); (1, 2); (0, 2); (2, 3); (4, 3)] |}.
Definition ex_cyc : digraph nat :=
  {| verts := [0; 1; 2; 3]; arcs := [(0, 1); (1, 2); (2, 0); (2, 3)] |}.

Example ex_dag_wf : wf ex_dag.
Proof. apply (proj1 (wfb_spec Nat.eqb Nat.eqb_spec _)); reflexivity. Qed.
Example ex_cyc_wf : wf ex_cyc.
Proof. apply (proj1 (wfb_spec Nat.eqb Nat.eqb_spec _)); reflexivity. Qed.

Example ex_dag_acyclic : acyclic ex_dag.
Proof. apply (proj1 (acyclicb_spec Nat.eqb Nat.eqb_spec ex_dag_wf)); reflexivity. Qed.
Example ex_cyc_cyclic : ~ acyclic ex_cyc.
Proof.
  intros H. apply (proj2 (acyclicb_spec Nat.eqb Nat.eqb_spec ex_cyc_wf)) in H.
  vm_compute in H. discriminate.
Qed.

(** [desc_spec] on a cyclic graph: 0 is its own strict descendant. *)
Example ex_cyc_desc : desc Nat.eqb ex_cyc 0 = [0; 3; 2; 1].
Proof. vm_compute. reflexivity. Qed.
Example ex_cyc_path : path ex_cyc 0 0.
Proof. apply (proj1 (desc_spec Nat.eqb Nat.eqb_spec 0 0 ex_cyc_wf)). vm_compute. tauto. Qed.
Example ex_dag_desc : desc Nat.eqb ex_dag 0 = [3; 1; 2].
Proof. vm_compute. reflexivity. Qed.
Example ex_dag_anc : anc Nat.eqb ex_dag 3 = [1; 0; 2; 4].
Proof. vm_compute. reflexivity. Qed.

(** [add_arc_acyclic] applies (1 -> 3 keeps the graph acyclic) and so does its converse
    (3 -> 0 closes a cycle). *)
Example ex_add_arc_ok : acyclic (add_arc ex_dag 1 3).
Proof.
  apply (add_arc_acyclic ex_dag_wf ex_dag_acyclic); [discriminate|].
  apply (proj1 (reachb_false Nat.eqb Nat.eqb_spec 3 1 ex_dag_wf)). reflexivity.
Qed.
Example ex_add_arc_bad : ~ acyclic (add_arc ex_dag 3 0).
Proof.
  apply (add_arc_cyclic ex_dag_acyclic). right.
  apply (proj1 (reachb_spec Nat.eqb Nat.eqb_spec 0 3 ex_dag_wf)). reflexivity.
Qed.
Example ex_del_arcs : acyclic (del_arcs_from Nat.eqb ex_dag [2; 4]).
Proof. apply (@del_arcs_acyclic _ Nat.eqb Nat.eqb_spec), ex_dag_acyclic. Qed.
Example ex_rank : exists rank : nat -> nat, forall a b, arc ex_dag a b -> rank a < rank b.
Proof. exact (acyclic_rank Nat.eqb Nat.eqb_spec ex_dag_wf ex_dag_acyclic). Qed.

(* Print Assumptions desc_spec. anc_spec. acyclicb_spec. add_arc_acyclic. add_arc_cyclic.
   del_arcs_acyclic. acyclic_rank. rank_acyclic.  — all "Closed under the global context". *)
