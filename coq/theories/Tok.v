(** Tok.v — canonical token serialisation shared by the model side of every correspondence
    check (the Python mirror is harness/tok.py), and the 63-bit rolling hash used to compare
    long observations cheaply.  DEFINITIONS ONLY. *)
From CG Require Import Base.
From Coq Require Import Uint63.

Definition tk_N (n : N) : list N := [n].
Definition zigzag (z : Z) : N :=
  match z with Z0 => 0 | Zpos p => Npos p~0 | Zneg p => Pos.pred_N p~0 end%N.
Definition tk_Z (z : Z) : list N := [zigzag z].
Definition tk_bool (b : bool) : list N := [if b then 1 else 0]%N.
Definition tk_nat (n : nat) : list N := [N.of_nat n].
Definition tk_name (s : name) : list N := N.of_nat (length s) :: s.
Definition tk_list {A} (f : A -> list N) (l : list A) : list N :=
  N.of_nat (length l) :: flat_map f l.
Definition tk_opt {A} (f : A -> list N) (o : option A) : list N :=
  match o with None => [0%N] | Some x => 1%N :: f x end.
Definition tk_pair {A B} (f : A -> list N) (g : B -> list N) (p : A * B) : list N :=
  f (fst p) ++ g (snd p).
Definition tk_names (l : list name) : list N := tk_list tk_name l.
Definition tk_etype (t : etype) : list N := [etype_code t].
Definition tk_vtype (t : vtype) : list N := [vtype_code t].
Definition tk_res {A} (f : A -> list N) (r : res A) : list N :=
  match r with Ok a => 0%N :: f a | Err e => [err_code e] end.
Definition tk_err (o : option err) : list N :=
  match o with None => [0%N] | Some e => [err_code e] end.

Fixpoint tk_json (j : json) : list N :=
  match j with
  | JNull => [0%N]
  | JBool b => 1%N :: tk_bool b
  | JInt z => 2%N :: tk_Z z
  | JStr s => 3%N :: tk_name s
  | JList l => 4%N :: N.of_nat (length l) :: flat_map tk_json l
  | JObj l =>
      5%N :: N.of_nat (length l) ::
        (fix go (l : list (name * json)) : list N :=
           match l with [] => [] | (k, v) :: l' => tk_name k ++ tk_json v ++ go l' end) l
  end.
Definition tk_meta (m : meta) : list N := tk_json (JObj m).

(** Rolling hash over tokens, arithmetic modulo 2^63 (primitive integers are used by the
    correspondence check only, never inside a theorem). *)
Definition hash_step (h : int) (t : N) : int :=
  (h * 1000003 + of_Z (Z.of_N t) + 1)%uint63.
Definition hash_tokens (l : list N) : int := fold_left hash_step l 7%uint63.

(** Bit mask helper. *)
Fixpoint mask_of (bs : list bool) : N :=
  match bs with [] => 0 | b :: bs' => (if b then 1 else 0) + 2 * mask_of bs' end%N.
