(** Skeleton.v — executable model of the [Skeleton] class of cai_causal_graph/causal_graph.py
    (DEFINITIONS ONLY; proofs are in SkeletonProofs.v).

    A [Skeleton] object holds nothing but a reference to its graph ([self._graph]); every one of
    its members recomputes its answer from the graph's CURRENT state.  Accordingly every view
    below is a function of the current model state [g]: there is no skeleton state that could
    go stale, which is why "the skeleton follows every later mutation" needs no separate
    theorem in the model (the correspondence check exercises [graph.skeleton] obtained BEFORE
    the mutations to confirm that the implementation really keeps no copy). *)
From CG Require Import Base Graph GraphObs Tok Matrix.
Set Implicit Arguments.

Fixpoint map_res {A B} (f : A -> res B) (l : list A) : res (list B) :=
  match l with
  | [] => Ok []
  | x :: l' => bind (f x) (fun y => bind (map_res f l') (fun r => Ok (y :: r)))
  end.

Definition node3 := (name * vtype * meta)%type.
Definition n3_id (n : node3) : name := fst (fst n).

(** [Edge(e.source, e.destination, edge_type=UNDIRECTED_EDGE, meta=e.meta)] *)
Definition retype_und (e : edge) : edge :=
  {| esrc := esrc e; edst := edst e; ety := Und; emeta := emeta e |}.

(** [Skeleton.edges] *)
Definition sk_edges (g : graph) : list edge := map retype_und (v_edges g).

(** [Skeleton.get_edge_pairs] *)
Definition sk_edge_pairs (g : graph) : list (name * name) := map edge_key (sk_edges g).

(** [Skeleton.get_node_names] *)
Definition sk_node_names (g : graph) : list name := v_node_names g.

(** [Skeleton.node_exists] *)
Definition sk_node_exists (g : graph) (id : name) : bool := mem id (sk_node_names g).

Definition pair_mem (p : name * name) (l : list (name * name)) : bool := existsb (pair_eqb p) l.

(** [Skeleton.edge_exists] / [is_edge_by_pair] *)
Definition sk_edge_exists (g : graph) (s d : name) : bool :=
  pair_mem (s, d) (sk_edge_pairs g) || pair_mem (d, s) (sk_edge_pairs g).

(** [Skeleton.get_edge] / [get_edge_by_pair]: both assertions raise AssertionError *)
Definition sk_get_edge (g : graph) (s d : name) : res edge :=
  match filter (fun e => pair_eqb (edge_key e) (s, d) || pair_eqb (edge_key e) (d, s)) (sk_edges g) with
  | [] => Err EAssert
  | [e] => Ok e
  | _ :: _ :: _ => Err EAssert
  end.

(** [Skeleton.get_neighbors] *)
Definition sk_neighbors (g : graph) (n : name) : res (list name) :=
  if mem n (sk_node_names g) then v_neighbors g n else Err EAssert.

(** [Skeleton.adjacency_matrix]: [node_names.index(x)] raises ValueError for an unknown name *)
Definition sk_adj_step (names : list name) (acc : res matrix) (e : edge) : res matrix :=
  bind acc (fun a =>
    match index_of (esrc e) names, index_of (edst e) names with
    | Some i, Some j =>
        match mset a i j 1%Z with
        | Some a' => match mset a' j i 1%Z with Some a'' => Ok a'' | None => Err EIndex end
        | None => Err EIndex
        end
    | _, _ => Err EValue
    end).

Definition sk_adjacency (g : graph) : res matrix :=
  let names := v_node_names g in
  fold_left (sk_adj_step names) (sk_edges g) (Ok (zeros (length names))).

(** [Skeleton.to_numpy] *)
Definition sk_to_numpy (g : graph) : res (matrix * list name) :=
  bind (sk_adjacency g) (fun a => Ok (a, v_node_names g)).

(** [Skeleton.to_networkx]: always an undirected networkx.Graph *)
Definition sk_to_nx (g : graph) : nxgraph := (false, v_node_names g, sk_edge_pairs g).

(** [Skeleton.__eq__] (shallow) on two skeletons of the same graph class.  After the count,
    name-set and pair-set comparisons the per-node and per-edge loops of the code cannot
    return [False] (all edges are undirected, shallow node equality is identifier equality and
    for a time-series node the tags are functions of the identifier). *)
Definition unordered_eqb (p q : name * name) : bool :=
  pair_eqb p q || pair_eqb p (snd q, fst q).
Definition sk_eqb (g h : graph) : bool :=
  Nat.eqb (length (v_node_names g)) (length (v_node_names h))
  && Nat.eqb (length (sk_edges g)) (length (sk_edges h))
  && forallb (fun n => mem n (v_node_names h)) (v_node_names g)
  && forallb (fun n => mem n (v_node_names g)) (v_node_names h)
  && forallb (fun p => existsb (unordered_eqb p) (sk_edge_pairs h)) (sk_edge_pairs g)
  && forallb (fun p => existsb (unordered_eqb p) (sk_edge_pairs g)) (sk_edge_pairs h).

Section Skeleton.
  Variable parse : name -> option (name * Z).
  Variable fmt : name -> Z -> option name.
  Variable k : kind.

  (** [self._graph._NodeCls(n.identifier, meta=n.meta, variable_type=n.variable_type)]: the
      time-series node class re-derives the reserved tags from the identifier (ValueError if
      it does not parse). *)
  Definition sk_node (n : node) : res node3 :=
    bind (mk_node parse k (nid n) (nvt n) (nmeta n)) (fun x => Ok (nid x, nvt x, nmeta x)).

  (** [Skeleton.nodes] *)
  Definition sk_nodes (g : graph) : res (list node3) := map_res sk_node (nodes_sorted g).

  (** [Skeleton.get_node] *)
  Definition sk_get_node (g : graph) (id : name) : res node3 :=
    bind (sk_nodes g) (fun ns =>
      match filter (fun n => name_eqb (n3_id n) id) ns with
      | [] => Err EAssert
      | [n] => Ok n
      | _ :: _ :: _ => Err EAssert
      end).

  (** [Skeleton.get_neighbor_nodes] *)
  Definition sk_neighbor_nodes (g : graph) (n : name) : res (list node3) :=
    bind (sk_neighbors g n) (fun ids =>
      bind (sk_nodes g) (fun ns => Ok (filter (fun x => mem (n3_id x) ids) ns))).

  (** [Skeleton.is_empty] *)
  Definition sk_is_empty (g : graph) : res bool :=
    bind (sk_nodes g) (fun ns =>
      Ok (Nat.eqb (length ns) 0 && Nat.eqb (length (sk_edges g)) 0)).

  (** [Skeleton.from_adjacency_matrix(adjacency, node_names, graph_class, validate)._graph] *)
  Definition sk_from_matrix (a : matrix) (names : option (list name)) (validate : bool) : res graph :=
    from_matrix parse fmt k a names validate.

  (** [Skeleton.from_networkx(g, graph_class, validate)._graph] *)
  Definition sk_from_nx (x : nxgraph) (validate : bool) : res graph :=
    from_nx parse fmt k x validate.

  (** [Skeleton.from_dict(sk.to_dict(), graph_class)._graph]: [graph_class.from_dict] adds
      every node object ([add_node(node=...)]) in the order of [Skeleton.nodes], then every edge
      object ([add_edge(edge=..., validate=True)]) in the order of [Skeleton.edges]; the edge
      dictionaries carry their endpoint nodes' type and metadata. *)
  Definition attr_of (g : graph) (id : name) : option (vtype * meta) :=
    match get_node g id with Some n => Some (nvt n, nmeta n) | None => None end.
  Definition sk_dict_ops (g : graph) : list op :=
    map (fun n => OAddNodeObj (nid n) (nvt n) (nmeta n)) (nodes_sorted g)
    ++ map (fun e => OAddEdge (esrc e, attr_of g (esrc e)) (edst e, attr_of g (edst e)) Und
                       (Some (emeta e)) true) (sk_edges g).

  (** [Ok] only when every step succeeds (the first exception aborts [from_dict]) *)
  Definition run_all (ops : list op) (g : graph) : res graph :=
    fold_left (fun acc o => bind acc (fun g' => fst (run_op parse fmt k g' o))) ops (Ok g).
  Definition sk_from_dict (g : graph) : res graph := run_all (sk_dict_ops g) (empty_graph []).

  (** * Token form used by the correspondence check *)
  Definition tk_n3 (n : node3) : list N :=
    let '(i, t, m) := n in tk_name i ++ tk_vtype t ++ tk_meta m.
  Definition tk_edge4 (e : edge) : list N :=
    tk_name (esrc e) ++ tk_name (edst e) ++ tk_etype (ety e) ++ tk_meta (emeta e).

  Definition obs_skeleton (g : graph) (pool : list name) : list N :=
    tk_res (tk_list tk_n3) (sk_nodes g)
    ++ tk_names (sk_node_names g)
    ++ tk_list tk_edge4 (sk_edges g)
    ++ tk_pairs (sk_edge_pairs g)
    ++ tk_res tk_bool (sk_is_empty g)
    ++ tk_res tk_matrix (sk_adjacency g)
    ++ tk_res (fun p => tk_matrix (fst p) ++ tk_names (snd p)) (sk_to_numpy g)
    ++ tk_nx (sk_to_nx g)
    ++ flat_map (fun n =>
         tk_bool (sk_node_exists g n)
         ++ tk_res tk_n3 (sk_get_node g n)
         ++ tk_res tk_names (sk_neighbors g n)
         ++ tk_res (tk_list tk_n3) (sk_neighbor_nodes g n)) pool
    ++ flat_map (fun s => flat_map (fun d =>
         tk_bool (sk_edge_exists g s d)
         ++ tk_res tk_edge4 (sk_get_edge g s d)) pool) pool.
End Skeleton.
