(** IdentifyGenMBProofs.v — property C20: the functions of IdentifyGenMB.v, GENERATED from
    cai_causal_graph/identify_utils.py by /verif/tools/translate_identify.py
    ([identify_markov_boundary], [identify_colliders]), compute the same sets as the hand-written
    model Markov.v, for every iteration order that is a permutation ([pyorder_ok]).

    IdentifyGenMB.v is regenerated from the Python source on every verification run; this file is
    NOT regenerated.  It depends on IdentifyGenConf.v only through [_verify_identify_inputs]
    (called by [identify_markov_boundary]) and NOT on IdentifyGenConfProofs.v: the one fact needed
    about the checks ([gmb_verify_cases]) is re-proved here, so that a change of
    [identify_confounders] cannot break this file.

    - [gen_markov_boundary_equiv]  [identify_markov_boundary] = [Markov.markov_boundary] for every
      node of a DAG ([gen_markov_total_holds]; before the repair of finding F17 the node whose
      identifier is the empty string was refused with ValueError);
    - [gen_colliders_equiv]  [identify_colliders] = [Markov.identify_colliders] on graphs with
      arbitrary edge types, no hypothesis. *)
From Coq Require Import Relations.Relation_Operators.
From CG Require Import Base Digraph DigraphProofs Identify IdentifyProofs Markov MarkovProofs PyRt
  IdentifyGenLemmas IdentifyGenConf IdentifyGenMB.
Set Implicit Arguments.

Section GenMBProofs.
  Variable A : Type.
  Variable eqb : A -> A -> bool.
  Hypothesis eqb_spec : forall x y, reflect (x = y) (eqb x y).
  (** the iteration-order oracle: ANY function that returns a permutation of its argument *)
  Variable ord : pyorder.
  Hypothesis ord_ok : pyorder_ok ord.
  Variables py_None py_empty_str : A.

  (** the shared lemmas, at the parameters of this section *)
  Let gp_ord_in := @IdentifyGenLemmas.gp_ord_in ord ord_ok.
  Let gp_ord_nodup := @IdentifyGenLemmas.gp_ord_nodup ord ord_ok.
  Let gp_ord_length := @IdentifyGenLemmas.gp_ord_length ord ord_ok.
  Let gp_iter_set_in := @IdentifyGenLemmas.gp_iter_set_in ord ord_ok.
  Let gp_iter_set_nodup := @IdentifyGenLemmas.gp_iter_set_nodup ord ord_ok.
  Let gp_memb_in := @IdentifyGenLemmas.gp_memb_in A eqb eqb_spec.
  Let gp_memb_false := @IdentifyGenLemmas.gp_memb_false A eqb eqb_spec.
  Let gp_memb_seteq := @IdentifyGenLemmas.gp_memb_seteq A eqb eqb_spec.
  Let gp_set_of_in := @IdentifyGenLemmas.gp_set_of_in A eqb eqb_spec.
  Let gp_set_of_nodup := @IdentifyGenLemmas.gp_set_of_nodup A eqb eqb_spec.
  Let gp_set_add_in := @IdentifyGenLemmas.gp_set_add_in A eqb eqb_spec.
  Let gp_union_in := @IdentifyGenLemmas.gp_union_in A eqb eqb_spec.
  Let gp_inter_in := @IdentifyGenLemmas.gp_inter_in A eqb eqb_spec.
  Let gp_diff_in := @IdentifyGenLemmas.gp_diff_in A eqb eqb_spec.
  Let geq_anc := @IdentifyGenLemmas.geq_anc A eqb eqb_spec.
  Let geq_desc := @IdentifyGenLemmas.geq_desc A eqb eqb_spec.
  Let geq_del := @IdentifyGenLemmas.geq_del A eqb eqb_spec.
  Let geq_parents := @IdentifyGenLemmas.geq_parents A eqb eqb_spec.
  Let gp_del_arc_arc := @IdentifyGenLemmas.gp_del_arc_arc A eqb eqb_spec.
  Let gp_add_edge_arc := @IdentifyGenLemmas.gp_add_edge_arc A eqb eqb_spec.
  Let gp_add_edge_verts := @IdentifyGenLemmas.gp_add_edge_verts A eqb.
  Local Notation del_list := (@IdentifyGenLemmas.del_list A eqb).
  Let del_list_verts := @IdentifyGenLemmas.del_list_verts A eqb.
  Let del_list_arc := @IdentifyGenLemmas.del_list_arc A eqb eqb_spec.
  Let del_list_children := @IdentifyGenLemmas.del_list_children A eqb eqb_spec.
  Let gp_rm_loop_nx := @IdentifyGenLemmas.gp_rm_loop_nx A eqb eqb_spec.
  Let gp_rm_loop_cg := @IdentifyGenLemmas.gp_rm_loop_cg A eqb eqb_spec.
  Let gp_succ_nodup := @IdentifyGenLemmas.gp_succ_nodup A eqb eqb_spec ord ord_ok.
  Let gp_succ_in := @IdentifyGenLemmas.gp_succ_in A eqb eqb_spec ord ord_ok.
  Let gp_pred_in := @IdentifyGenLemmas.gp_pred_in A eqb eqb_spec ord ord_ok.
  Let gp_children_nodup := @IdentifyGenLemmas.gp_children_nodup A eqb eqb_spec ord ord_ok.
  Let gp_children_in := @IdentifyGenLemmas.gp_children_in A eqb eqb_spec ord ord_ok.
  Let gp_parents_in := @IdentifyGenLemmas.gp_parents_in A eqb eqb_spec ord ord_ok.
  Local Notation add_all := (@IdentifyGenLemmas.add_all A eqb).
  Let add_all_verts := @IdentifyGenLemmas.add_all_verts A eqb.
  Let add_all_arc := @IdentifyGenLemmas.add_all_arc A eqb eqb_spec.
  Let gp_collect_equiv := @IdentifyGenLemmas.gp_collect_equiv A eqb eqb_spec.
  Let gp_conf_search_geq := @IdentifyGenLemmas.gp_conf_search_geq A eqb eqb_spec.
  Let gp_filter_neq_in := @IdentifyGenLemmas.gp_filter_neq_in A eqb eqb_spec.
  Let gp_filter_loop := @IdentifyGenLemmas.gp_filter_loop A eqb eqb_spec.
  Let gp_filter_copy := @IdentifyGenLemmas.gp_filter_copy A eqb eqb_spec ord ord_ok.
  Let gp_filter_outer := @IdentifyGenLemmas.gp_filter_outer A eqb eqb_spec ord ord_ok.
  Let gp_forallb_ord := @IdentifyGenLemmas.gp_forallb_ord ord ord_ok.
  Let gp_med_paths_loop := @IdentifyGenLemmas.gp_med_paths_loop A eqb.
  Let gp_fold_inter_all := @IdentifyGenLemmas.gp_fold_inter_all A eqb eqb_spec.
  Let gp_fold_inter_nodup := @IdentifyGenLemmas.gp_fold_inter_nodup A eqb.
  Let gp_inst_paths_loop := @IdentifyGenLemmas.gp_inst_paths_loop A eqb eqb_spec.
  Local Notation gp_cand1 := (@IdentifyGenLemmas.gp_cand1 A eqb).
  Local Notation gp_inst_guard := (@IdentifyGenLemmas.gp_inst_guard A eqb).
  Let gp_inst_phase2_raises := @IdentifyGenLemmas.gp_inst_phase2_raises A eqb eqb_spec ord ord_ok.
  Let gc_pair_memb_bi := @IdentifyGenLemmas.gc_pair_memb_bi A eqb.
  Let gc_fold_add := @IdentifyGenLemmas.gc_fold_add A eqb eqb_spec.
  Let gc_unshielded_loop := @IdentifyGenLemmas.gc_unshielded_loop A eqb.
  Let gc_unshieldedb_seteq := @IdentifyGenLemmas.gc_unshieldedb_seteq A eqb eqb_spec.

  (** * [identify_markov_boundary] *)

  Local Notation gen_verify := (gen__verify_identify_inputs eqb py_None py_empty_str ord).
  Local Notation gen_mb := (gen_identify_markov_boundary eqb py_None py_empty_str ord).

  (** What the checks of [_verify_identify_inputs] do (the first failing check decides). *)
  Lemma gmb_verify_cases (g : digraph A) x y :
    gen_verify g x y =
    if negb (acyclicb eqb g) then Exc PyTypeError
    else if negb (memb eqb x (verts g)) then Exc PyNodeDoesNotExistError
    else if negb (eqb y py_None) && negb (memb eqb y (verts g)) then Exc PyNodeDoesNotExistError
    else if negb (eqb y py_None)
            && (eqb x (if negb (eqb y py_None) then y else py_empty_str) || eqb x y) then Exc PyValueError
    else Ret (x, if negb (eqb y py_None) then y else py_empty_str).
  Proof.
    unfold gen__verify_identify_inputs, py_cg_is_dag, py_cg_node_exists, py_top.
    destruct (acyclicb eqb g); simpl; [|reflexivity].
    destruct (memb eqb x (verts g)); simpl; [|reflexivity].
    destruct (negb (eqb y py_None) && negb (memb eqb y (verts g))); reflexivity.
  Qed.

  (** With the second node omitted ([None]), [_verify_identify_inputs] performs no comparison of
      the node with anything (since the repair of finding F17; before it, the node was compared
      with the empty string, so that a node whose identifier is [''] was refused). *)
  Lemma gen_verify_none_ok (g : digraph A) x :
    wf g -> acyclic g -> In x (verts g) ->
    gen_verify g x py_None = Ret (x, py_empty_str).
  Proof.
    intros Hwf Hac Hx. rewrite gmb_verify_cases.
    rewrite (proj2 (@acyclicb_spec A eqb eqb_spec g Hwf) Hac).
    rewrite (proj2 (@memb_in A eqb eqb_spec x (verts g)) Hx).
    destruct (eqb_spec py_None py_None) as [_|E]; [|contradiction]. reflexivity.
  Qed.

  (** No hypothesis on the identifier of the node: in particular the node may be the one whose
      identifier is the empty string, or the value that stands for [None]. *)
  Theorem gen_markov_boundary_equiv (g : digraph A) x :
    wf g -> acyclic g -> In x (verts g) ->
    exists R, gen_mb g x = Ret R /\ forall z, In z R <-> In z (markov_boundary eqb g x).
  Proof.
    intros Hwf Hac Hx. unfold gen_identify_markov_boundary.
    rewrite (@gen_verify_none_ok g x Hwf Hac Hx). cbn [py_bind]. unfold py_top, py_list.
    eexists. split; [reflexivity|]. intros z.
    rewrite (@mb_spec A eqb eqb_spec).
    rewrite gp_iter_set_in.
    rewrite !gp_union_in, !gp_set_of_in.
    rewrite gp_parents_in, gp_children_in.
    rewrite in_flat_map. split.
    - intros [[H|H]|(c & Hc & Hz)]; [left; exact H|right; left; exact H|].
      right. right.
      rewrite gp_iter_set_in, gp_set_of_in,
        gp_children_in in Hc.
      rewrite in_flat_map in Hz. destruct Hz as (p & Hp & Hz).
      rewrite gp_parents_in in Hp.
      destruct (eqb_spec p x) as [E|E]; simpl in Hz; [destruct Hz|].
      destruct Hz as [<-|[]]. exists c. split; [exact Hc|]. split; [exact Hp|exact E].
    - intros [H|[H|(c & Hc & Hz & Hne)]]; [left; left; exact H|left; right; exact H|].
      right. exists c. split.
      + rewrite gp_iter_set_in, gp_set_of_in,
          gp_children_in. exact Hc.
      + rewrite in_flat_map. exists z. split.
        * rewrite gp_parents_in. exact Hz.
        * destruct (eqb_spec z x) as [E|E]; [contradiction|]. left. reflexivity.
  Qed.

  (** * [identify_colliders] (graphs with arbitrary edge types) *)

  Theorem gen_colliders_equiv (g : mgraph A) (u : bool) :
    exists R, gen_identify_colliders eqb py_None py_empty_str ord g u = Ret R /\
              forall z, In z R <-> In z (identify_colliders eqb (medges g) (mnodes g) u).
  Proof.
    unfold gen_identify_colliders.
    set (test := fun n => (2 <=? length (potential_parents eqb (medges g) n))
                          && (negb u || unshieldedb eqb (medges g) (potential_parents eqb (medges g) n))).
    rewrite py_for_loop.
    rewrite (@py_loop_fold _ _ _ (fun n cs => if test n then py_set_add eqb cs n else cs)).
    - unfold py_top, py_list, py_mcg_get_node_names, py_set_empty.
      eexists. split; [reflexivity|]. intros z.
      unfold identify_colliders. fold test.
      assert (Hfold : forall l acc,
                 In z (fold_left (fun cs n => if test n then py_set_add eqb cs n else cs) l acc) <->
                 In z acc \/ (In z l /\ test z = true)).
      { induction l as [|n l IH]; intros acc; simpl; [tauto|].
        rewrite IH. destruct (test n) eqn:En.
        - rewrite gp_set_add_in. split.
          + intros [[H| ->]|[H1 H2]]; auto.
          + intros [H|[[<-|H1] H2]]; auto.
        - split.
          + intros [H|[H1 H2]]; auto.
          + intros [H|[[<-|H1] H2]]; [auto|congruence|auto]. }
      rewrite gp_iter_set_in, Hfold, filter_In. simpl. tauto.
    - intros n cs. cbv beta zeta.
      unfold py_mcg_get_neighbors, py_mcg_get_bidirected_edges, py_mcg_edge_exists, py_mcg_get_edge.
      match goal with |- context [py_for py_in ?l py_set_empty _ _] => set (nbrs := l) end.
      assert (Hnb_nd : NoDup nbrs).
      { apply gp_ord_nodup. apply (@mk_neighbors_nodup A eqb eqb_spec). }
      rewrite py_for_loop.
      rewrite (@py_loop_fold _ _ _
                 (fun nb pp => if is_potential_parent eqb (medges g) n nb then py_set_add eqb pp nb else pp)).
      + rewrite (@gc_fold_add _ _ _ Hnb_nd); [|intros x _ []].
        unfold py_set_empty. cbn [app].
        set (pp := filter (is_potential_parent eqb (medges g) n) nbrs).
        assert (Hpp_nd : NoDup pp) by (apply NoDup_filter; exact Hnb_nd).
        assert (Hpp_in : forall x, In x pp <-> In x (potential_parents eqb (medges g) n)).
        { intros x. unfold pp, potential_parents, nbrs. rewrite !filter_In, gp_ord_in. tauto. }
        assert (Hmodel_nd : NoDup (potential_parents eqb (medges g) n))
          by apply (@potential_parents_nodup A eqb eqb_spec).
        assert (Hlen : length pp = length (potential_parents eqb (medges g) n)).
        { apply Permutation_length. apply NoDup_Permutation; assumption. }
        unfold test. rewrite Hlen.
        destruct (2 <=? length (potential_parents eqb (medges g) n)); [|reflexivity].
        destruct u; simpl.
        * rewrite py_for_loop. unfold py_combinations2.
          rewrite (@gc_unshielded_loop _ (medges g) _ (fun _ _ _ => eq_refl)).
          match goal with |- context [pairs2 ?l] =>
            fold (unshieldedb eqb (medges g) l);
            rewrite (@gc_unshieldedb_seteq (medges g) l (potential_parents eqb (medges g) n))
          end.
          -- destruct (unshieldedb eqb (medges g) (potential_parents eqb (medges g) n)); reflexivity.
          -- apply gp_iter_set_nodup. exact Hpp_nd.
          -- exact Hmodel_nd.
          -- intros x. rewrite gp_iter_set_in. apply Hpp_in.
        * reflexivity.
      + intros nb pp. unfold is_potential_parent, mg_edge_exists.
        rewrite !gc_pair_memb_bi.
        destruct (mg_get_edge eqb (medges g) nb n) as [e|]; simpl.
        * unfold py_edge_edge_type.
          destruct (etype_eqb (mty e) Dir || (mg_bi_stored eqb (medges g) nb n || mg_bi_stored eqb (medges g) n nb));
            reflexivity.
        * destruct (mg_bi_stored eqb (medges g) nb n || mg_bi_stored eqb (medges g) n nb); reflexivity.
  Qed.
End GenMBProofs.

(** * The statements, closed (vertex type [nat]; the theorems above are generic) *)

(** * [identify_markov_boundary] *)
Definition gen_markov_boundary_statement : Prop :=
  forall (ord : pyorder) (g : digraph nat) (none estr x : nat),
    pyorder_ok ord ->
    wf g -> acyclic g -> In x (verts g) ->
    exists R, gen_identify_markov_boundary Nat.eqb none estr ord g x = Ret R /\
              gen_seteq R (markov_boundary Nat.eqb g x).

Theorem gen_markov_boundary_statement_holds : gen_markov_boundary_statement.
Proof.
  intros ord g none estr x Hord.
  exact (@gen_markov_boundary_equiv nat Nat.eqb Nat.eqb_spec ord Hord none estr g x).
Qed.

(** "The function returns a list for every node of a DAG".  This statement was FALSE of the code
    before commit ee18ce4 (finding F17: the node whose identifier is the empty string was refused
    with ValueError, because the omitted second node was coerced to [''] and compared with the
    node; an earlier version of this file proved [gen_markov_total_refuted]).  It holds of the
    repaired code.  Real library: g = CausalGraph(); g.add_edge('', 'b'); g.add_edge('a', 'b');
    identify_markov_boundary(g, 'a') = ['', 'b'], identify_markov_boundary(g, '') = ['a', 'b'].
    Below '' = 0, a = 1, b = 2, None = 9. *)
Definition gen_markov_total_statement : Prop :=
  forall (g : digraph nat) (none estr x : nat),
    wf g -> acyclic g -> In x (verts g) ->
    exists R, gen_identify_markov_boundary Nat.eqb none estr pyorder_id g x = Ret R.

Theorem gen_markov_total_holds : gen_markov_total_statement.
Proof.
  intros g none estr x Hwf Hac Hx.
  destruct (@gen_markov_boundary_statement_holds pyorder_id g none estr x pyorder_id_ok Hwf Hac Hx)
    as (R & HR & _).
  exists R. exact HR.
Qed.

Example gen_ex_markov_empty_identifier :
  gen_identify_markov_boundary Nat.eqb 9 0 pyorder_id (id_mk 3 [(0, 2); (1, 2)]) 1 = Ret [2; 0] /\
  gen_identify_markov_boundary Nat.eqb 9 0 pyorder_id (id_mk 3 [(0, 2); (1, 2)]) 0 = Ret [2; 1].
Proof. vm_compute. split; reflexivity. Qed.

(** docstring of [identify_markov_boundary]: u v b c a d e w f x y g z = 0 .. 12; the boundary
    of a = 4 is {b, c, d, e, f, g} = {2, 3, 5, 6, 8, 11}. *)
Definition gen_mb_doc : digraph nat :=
  id_mk 13 [(0, 2); (1, 3); (2, 4); (3, 4); (4, 5); (4, 6); (7, 8); (8, 5); (5, 9); (5, 10);
            (11, 6); (11, 12)].
Example gen_ex_markov_doc :
  isort Nat.leb (match gen_identify_markov_boundary Nat.eqb 13 14 pyorder_id gen_mb_doc 4 with
                 | Ret l => l | _ => [] end) = [2; 3; 5; 6; 8; 11] /\
  isort Nat.leb (markov_boundary Nat.eqb gen_mb_doc 4) = [2; 3; 5; 6; 8; 11].
Proof. vm_compute. split; reflexivity. Qed.

(** * [identify_colliders] *)
Definition gen_colliders_statement : Prop :=
  forall (ord : pyorder) (none estr : nat) (g : mgraph nat) (u : bool),
    pyorder_ok ord ->
    exists R, gen_identify_colliders Nat.eqb none estr ord g u = Ret R /\
              gen_seteq R (identify_colliders Nat.eqb (medges g) (mnodes g) u).

Theorem gen_colliders_statement_holds : gen_colliders_statement.
Proof.
  intros ord none estr g u Hord. exact (@gen_colliders_equiv nat Nat.eqb Nat.eqb_spec ord Hord none estr g u).
Qed.

(** a -> c <- b, c <> d, d -- e, a -> e: c is the only collider, and it is unshielded; with the
    extra edge a -- b it is shielded (values of the real library). *)
Example gen_ex_colliders :
  gen_identify_colliders Nat.eqb 9 10 pyorder_id
    {| mnodes := seq 0 5; medges := [(0, 2, Dir); (1, 2, Dir); (2, 3, Bi); (3, 4, Und); (0, 4, Dir)] |} true
  = Ret [2] /\
  gen_identify_colliders Nat.eqb 9 10 pyorder_id
    {| mnodes := seq 0 3; medges := [(0, 2, Dir); (1, 2, Dir); (0, 1, Und)] |} true = Ret [] /\
  gen_identify_colliders Nat.eqb 9 10 pyorder_id
    {| mnodes := seq 0 3; medges := [(0, 2, Dir); (1, 2, Dir); (0, 1, Und)] |} false = Ret [2].
Proof. vm_compute. repeat split; reflexivity. Qed.

(** * The theorems applied to concrete inputs (non-vacuity) *)

Example gen_mb_doc_ok : wf gen_mb_doc /\ acyclic gen_mb_doc.
Proof.
  split.
  - apply (@id_wfb_wf nat Nat.eqb Nat.eqb_spec). vm_compute. reflexivity.
  - apply (@id_rank_acyclic nat gen_mb_doc
             (fun n => match n with
                       | 0 | 1 | 7 | 11 => 0 | 2 | 3 | 8 => 1 | 4 => 2 | 5 | 6 | 12 => 3 | _ => 4
                       end)).
    vm_compute. reflexivity.
Qed.

(** [gen_markov_boundary_equiv] on the docstring graph of [identify_markov_boundary]. *)
Example gen_ex_markov_by_theorem :
  exists R, gen_identify_markov_boundary Nat.eqb 13 14 pyorder_alt gen_mb_doc 4 = Ret R /\
            gen_seteq R (markov_boundary Nat.eqb gen_mb_doc 4) /\ In 8 R.
Proof.
  destruct gen_mb_doc_ok as [Hwf Hac].
  destruct (@gen_markov_boundary_statement_holds pyorder_alt gen_mb_doc 13 14 4 pyorder_alt_ok Hwf Hac)
    as (R & HR & HRM).
  - vm_compute. auto 20.
  - exists R. split; [exact HR|]. split; [exact HRM|]. apply HRM. vm_compute. auto 20.
Qed.
(** The iteration order is visible in the returned LIST, not in the returned set. *)
Example gen_ex_markov_other_order :
  gen_identify_markov_boundary Nat.eqb 13 14 pyorder_id gen_mb_doc 4 = Ret [2; 3; 5; 6; 8; 11] /\
  gen_identify_markov_boundary Nat.eqb 13 14 pyorder_alt gen_mb_doc 4 = Ret [11; 8; 5; 6; 3; 2].
Proof. vm_compute. split; reflexivity. Qed.
