(** Closed.v — discharges the Section hypotheses that SerialProofs / MatrixProofs / SkeletonProofs
    carry (invariant preservation, exactness of the cycle check) with the theorems of
    GraphInvProofs / GraphAcyclicProofs, at the verified name codec. *)
From CG Require Import Base Digraph Names Graph GraphObs GraphInv GraphInvProofs GraphAcyclicProofs.
From CG Require Import Serial SerialProofs Matrix MatrixProofs Skeleton SkeletonProofs.

Lemma inv_left : forall (k : kind) (g : graph) (o : op),
    Inv parse k g -> Inv parse k (snd (run_op parse fmt k g o)).
Proof. intros k g o H. exact (proj1 (good_run_op parse fmt k g o H)). Qed.

Definition HI := inv_init parse.
Definition HS := @inv_step parse fmt.
Definition HC := cycle_check parse.

(** C05 *)
Definition roundtrip_closed := @SerialProofs.roundtrip parse fmt inv_left HC.
Definition roundtrip_novalidate_closed := @SerialProofs.roundtrip_novalidate parse fmt.
Definition from_dict_inv_closed := @from_dict_inv parse fmt inv_left.
Definition ts_to_cg_deep_eq_closed := @ts_to_cg_deep_eq parse fmt inv_left HC.
Definition ts_to_cg_to_ts_closed := @ts_to_cg_to_ts parse fmt inv_left HC.

(** C08 / C09 *)
Definition matrix_roundtrip_closed := @matrix_roundtrip parse fmt HI HS HC.
Definition matrix_roundtrip_own_closed := @matrix_roundtrip_own parse fmt HI HS HC.
Definition matrix_roundtrip_cyclic_refused_closed := @matrix_roundtrip_cyclic_refused parse fmt HI HS HC.
Definition nx_roundtrip_closed := @nx_roundtrip parse fmt HI HS HC.
Definition from_matrix_inv_closed := fun k => @from_matrix_inv parse fmt k HI HS.
Definition sk_rebuild_matrix_closed := @sk_rebuild_matrix parse fmt HI HS HC.
Definition sk_rebuild_nx_closed := @sk_rebuild_nx parse fmt HI HS HC.
Definition sk_rebuild_matrix_own_closed := @sk_rebuild_matrix_own parse fmt HI HS HC.
Definition sk_rebuild_nx_own_closed := @sk_rebuild_nx_own parse fmt HI HS HC.
