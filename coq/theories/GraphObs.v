(** GraphObs.v — the read views of CausalGraph / TimeSeriesCausalGraph on the concrete model,
    and the canonical OBSERVATION of a state used by the correspondence checks and by the
    failure-atomicity theorem (DEFINITIONS ONLY). *)
From CG Require Import Base Graph Tok.
Set Implicit Arguments.

Definition node_leb (a b : node) : bool := name_leb (nid a) (nid b).
Definition nodes_sorted (g : graph) : list node := isort node_leb (gnodes g).

(** get_nodes() / get_node_names() *)
Definition v_nodes (g : graph) : list (name * vtype * meta) :=
  map (fun n => (nid n, nvt n, nmeta n)) (nodes_sorted g).
Definition v_node_names (g : graph) : list name := map nid (nodes_sorted g).

(** get_edges() *)
Definition v_edges (g : graph) : list edge := sorted_edges g.
(** get_edges(source=n) / get_edges(destination=n): read from the two different indexes *)
Definition v_edges_from (g : graph) (n : name) : list edge := edges_from g n.
Definition v_edges_into (g : graph) (n : name) : list edge := edges_into g n.

(** get_edge(s, d, edge_type=oty) *)
Definition v_get_edge (g : graph) (s d : name) (oty : option etype) : res edge :=
  match edge_at g s d with
  | None => Err EEdgeMissing
  | Some e =>
      match oty with
      | Some t => if etype_eqb t (ety e) then Ok e else Err EEdgeMissing
      | None => Ok e
      end
  end.

(** edge_exists(s, d, edge_type=oty) *)
Definition v_edge_exists (g : graph) (s d : name) (oty : option etype) : bool :=
  match edge_at g s d with
  | None => false
  | Some e => match oty with Some t => etype_eqb t (ety e) | None => true end
  end.

(** get_parents / get_children: read from the per-node lists *)
Definition v_parents (g : graph) (n : name) : res (list name) :=
  match get_node g n with
  | None => Err EAssert
  | Some x => Ok (sort_names (dedup (ninb x)))
  end.
Definition v_children (g : graph) (n : name) : res (list name) :=
  match get_node g n with
  | None => Err EAssert
  | Some x => Ok (sort_names (dedup (noutb x)))
  end.

(** get_neighbors *)
Definition v_neighbors (g : graph) (n : name) : res (list name) :=
  if node_exists g n then
    Ok (sort_names (dedup (filter (fun x => negb (name_eqb x n))
                             (map edst (v_edges_from g n) ++ map esrc (v_edges_into g n)))))
  else Err EAssert.

(** get_inputs / get_outputs *)
Definition v_inputs (g : graph) : list name :=
  filter (fun n => match v_edges_into g n with [] => true | _ => false end) (v_node_names g).
Definition v_outputs (g : graph) : list name :=
  filter (fun n => match v_edges_from g n with [] => true | _ => false end) (v_node_names g).

(** the per-type edge lists *)
Definition v_edges_of_type (g : graph) (t : etype) : list edge :=
  filter (fun e => etype_eqb (ety e) t) (v_edges g).
Definition v_nondirected (g : graph) : list edge :=
  filter (fun e => negb (etype_eqb (ety e) Dir)) (v_edges g).

Definition all_etypes : list etype := [Dir; Und; Bi; Unk; UnkDir; UnkUnd].

(** * Time-series lookups *)
Definition v_nodes_at_lag (g : graph) (l : Z) : list name :=
  map snd (filter (fun p => Z.eqb (fst p) l) (glag g)).
Definition v_nodes_for_var (g : graph) (v : name) : list name :=
  map snd (filter (fun p => name_eqb (fst p) v) (gvar g)).

(** get_contemporaneous_nodes(node_id): KeyError for an unknown id, ValueError if the node has
    no lag tag *)
Definition v_contemporaneous (g : graph) (n : name) : res (list name) :=
  match get_node g n with
  | None => Err EKey
  | Some x =>
      match meta_lag (nmeta x) with
      | None => Err EValue
      | Some l => Ok (filter (fun y => negb (name_eqb y n)) (v_nodes_at_lag g l))
      end
  end.

Fixpoint all_some {A} (l : list (option A)) : option (list A) :=
  match l with
  | [] => Some []
  | None :: _ => None
  | Some x :: l' => match all_some l' with Some r => Some (x :: r) | None => None end
  end.

(** variables: sorted(set(node.variable_name for node in nodes)); ValueError if a tag is missing *)
Definition v_variables (g : graph) : res (list name) :=
  match all_some (map (fun n => meta_var (nmeta n)) (nodes_sorted g)) with
  | None => Err EValue
  | Some vs => Ok (sort_names (dedup vs))
  end.

Definition node_lags (g : graph) : res (list Z) :=
  match all_some (map (fun n => meta_lag (nmeta n)) (nodes_sorted g)) with
  | None => Err EValue
  | Some ls => Ok ls
  end.

Definition zmin_list (l : list Z) : option Z :=
  match l with [] => None | x :: l' => Some (fold_left Z.min l' x) end.
Definition zmax_list (l : list Z) : option Z :=
  match l with [] => None | x :: l' => Some (fold_left Z.max l' x) end.

(** max_backward_lag / max_forward_lag *)
Definition v_max_backward (g : graph) : res (option Z) :=
  bind (node_lags g) (fun ls =>
    Ok (match zmin_list (filter (fun z => (z <=? 0)%Z) ls) with
        | Some m => Some (Z.abs m) | None => None end)).
Definition v_max_forward (g : graph) : res (option Z) :=
  bind (node_lags g) (fun ls => Ok (zmax_list (filter (fun z => (0 <=? z)%Z) ls))).

Section WithCodec.
  Variable parse : name -> option (name * Z).

  (** get_all_variable_names: parses the node NAMES (not the tags) *)
  Definition v_all_variable_names (g : graph) : res (list name) :=
    match all_some (map (fun n => match parse n with Some (v, _) => Some v | None => None end)
                      (v_node_names g)) with
    | None => Err EValue
    | Some vs => Ok (sort_names (dedup vs))
    end.

  (** * Token form of one state, relative to a pool of names / lags / variables to query *)
  Definition tk_edge (e : edge) : list N :=
    tk_name (esrc e) ++ tk_name (edst e) ++ tk_etype (ety e) ++ tk_meta (emeta e).
  Definition tk_key (e : edge) : list N := tk_name (esrc e) ++ tk_name (edst e) ++ tk_etype (ety e).
  Definition tk_node3 (n : name * vtype * meta) : list N :=
    let '(i, t, m) := n in tk_name i ++ tk_vtype t ++ tk_meta m.

  Definition obs_core (g : graph) (pool : list name) : list N :=
    tk_list tk_node3 (v_nodes g)
    ++ tk_list tk_edge (v_edges g)
    ++ flat_map (fun n =>
         tk_bool (node_exists g n)
         ++ tk_list tk_key (v_edges_from g n)
         ++ tk_list tk_key (v_edges_into g n)
         ++ tk_res tk_names (v_parents g n)
         ++ tk_res tk_names (v_children g n)
         ++ tk_res tk_names (v_neighbors g n)) pool
    ++ tk_names (v_inputs g) ++ tk_names (v_outputs g)
    ++ flat_map (fun t => tk_list tk_key (v_edges_of_type g t)) all_etypes
    ++ tk_list tk_key (v_nondirected g)
    ++ flat_map (fun s => flat_map (fun d =>
         tk_bool (v_edge_exists g s d None)
         ++ [mask_of (map (fun t => v_edge_exists g s d (Some t)) all_etypes)]
         ++ tk_res tk_etype (match v_get_edge g s d None with Ok e => Ok (ety e) | Err x => Err x end))
         pool) pool.

  (** the mirrored private state: _edges_by_destination and the per-node directed lists *)
  Definition obs_private (g : graph) : list N :=
    tk_list tk_key (isort pair_leb_e (gdst g))
    ++ flat_map (fun n => tk_names (sort_names (ninb n)) ++ tk_names (sort_names (noutb n)))
         (nodes_sorted g).

  Definition obs_ts (g : graph) (pool : list name) (lags : list Z) (vars : list name) : list N :=
    flat_map (fun n => tk_opt tk_name (meta_var (nmeta n)) ++ tk_opt tk_Z (meta_lag (nmeta n)))
      (nodes_sorted g)
    ++ flat_map (fun l => tk_names (v_nodes_at_lag g l)) lags
    ++ flat_map (fun v => tk_names (v_nodes_for_var g v)) vars
    ++ flat_map (fun n => tk_res tk_names (v_contemporaneous g n)) pool
    ++ tk_res tk_names (v_variables g)
    ++ tk_res tk_names (v_all_variable_names g)
    ++ tk_res (tk_opt tk_Z) (v_max_backward g)
    ++ tk_res (tk_opt tk_Z) (v_max_forward g)
    (* the private indexes as multisets, listed by node id *)
    ++ tk_list (fun p => tk_Z (fst p) ++ tk_name (snd p))
         (isort (fun a b : Z * name => name_leb (snd a) (snd b)) (glag g))
    ++ tk_list (fun p => tk_name (fst p) ++ tk_name (snd p))
         (isort (fun a b : name * name => name_leb (snd a) (snd b)) (gvar g)).

  Definition observe (k : kind) (g : graph) (pool : list name) (lags : list Z) (vars : list name)
    : list N :=
    obs_core g pool ++ obs_private g
    ++ match k with Plain => [] | TS => obs_ts g pool lags vars end.

  (** * Running a history: after every operation, the outcome code and the hash of the
      observation. *)
  Variable fmt : name -> Z -> option name.

  Fixpoint run_hist (k : kind) (g : graph) (ops : list (op)) (pool : list name) (lags : list Z)
    (vars : list name) : list (N * Uint63.int) :=
    match ops with
    | [] => []
    | o :: ops' =>
        let r := run_op parse fmt k g o in
        let g' := snd r in
        (match fst r with Ok _ => 0%N | Err x => err_code x end,
         hash_tokens (observe k g' pool lags vars))
          :: run_hist k g' ops' pool lags vars
    end.

  (** full tokens after a history (for diagnosis of a mismatch) *)
  Definition run_tokens (k : kind) (g : graph) (ops : list op) (pool : list name) (lags : list Z)
    (vars : list name) : list N :=
    observe k (run parse fmt k ops g) pool lags vars.
End WithCodec.
