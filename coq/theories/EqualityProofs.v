(** EqualityProofs.v — C07: graph / skeleton / node / edge equality of Equality.v is a structural
    equivalence relation characterised by the canonical forms [canon], [canon_deep],
    [canon_skel], [canon_skel_deep]; it never raises on states satisfying the invariant. *)
From CG Require Import Base Digraph Graph GraphObs GraphInv Equality.
Set Implicit Arguments.

(** * Decidable equalities *)

Section JsonInd.
  Variable P : json -> Prop.
  Hypothesis Hnull : P JNull.
  Hypothesis Hbool : forall b, P (JBool b).
  Hypothesis Hint : forall z, P (JInt z).
  Hypothesis Hstr : forall s, P (JStr s).
  Hypothesis Hlist : forall l, Forall P l -> P (JList l).
  Hypothesis Hobj : forall l, Forall (fun kv : name * json => P (snd kv)) l -> P (JObj l).
  Fixpoint eq_json_ind (j : json) : P j :=
    match j with
    | JNull => Hnull
    | JBool b => Hbool b
    | JInt z => Hint z
    | JStr s => Hstr s
    | JList l =>
        Hlist ((fix go (l : list json) : Forall P l :=
                  match l with
                  | [] => Forall_nil _
                  | x :: l' => Forall_cons x (eq_json_ind x) (go l')
                  end) l)
    | JObj l =>
        Hobj ((fix go (l : list (name * json)) : Forall (fun kv => P (snd kv)) l :=
                 match l with
                 | [] => Forall_nil _
                 | kv :: l' => Forall_cons kv (eq_json_ind (snd kv)) (go l')
                 end) l)
    end.
End JsonInd.

Lemma eq_json_eqb_eq a : forall b, json_eqb a b = true <-> a = b.
Proof.
  induction a as [| x | x | x | l IH | l IH] using eq_json_ind; intros b; destruct b;
    simpl; try (split; [discriminate|congruence]).
  - tauto.
  - rewrite Bool.eqb_true_iff; split; congruence.
  - rewrite Z.eqb_eq; split; congruence.
  - rewrite name_eqb_eq; split; congruence.
  - rename l0 into l2. revert l2; induction IH as [|x l Hx Hl IHl]; intros [|y l2];
      try (split; [discriminate|congruence]); [tauto|].
    rewrite andb_true_iff, Hx, IHl; split; [intros [-> E]; inversion E; reflexivity|].
    intros E; inversion E; auto.
  - rename l0 into l2. revert l2; induction IH as [|[k x] l Hx Hl IHl]; intros [|[k2 y] l2];
      try (split; [discriminate|congruence]); [tauto|].
    simpl in Hx. rewrite !andb_true_iff, name_eqb_eq, Hx, IHl; split.
    + intros [[-> ->] E]; inversion E; reflexivity.
    + intros E; inversion E; auto.
Qed.

Lemma eq_meta_eqb_eq (x y : meta) : meta_eqb x y = true <-> x = y.
Proof.
  revert y; induction x as [|[k a] x IH]; intros [|[k2 b] y]; simpl;
    try (split; [discriminate|congruence]); [tauto|].
  rewrite !andb_true_iff, name_eqb_eq, eq_json_eqb_eq, IH; split.
  - intros [[-> ->] ->]; reflexivity.
  - intros E; inversion E; auto.
Qed.

Lemma py_meta_eqb_eq a b : py_meta_eqb a b = true <-> meta_norm a = meta_norm b.
Proof. unfold py_meta_eqb; apply eq_meta_eqb_eq. Qed.

Lemma eq_vtype_eqb_eq a b : vtype_eqb a b = true <-> a = b.
Proof. destruct (vtype_eqb_spec a b); split; congruence. Qed.

Lemma eq_etype_eqb_eq a b : etype_eqb a b = true <-> a = b.
Proof. destruct (etype_eqb_spec a b); split; congruence. Qed.

Lemma eq_etype_eqb_refl a : etype_eqb a a = true.
Proof. apply eq_etype_eqb_eq; reflexivity. Qed.

Lemma pair_eqb_eq p q : pair_eqb p q = true <-> p = q.
Proof. destruct (pair_eqb_spec p q); split; congruence. Qed.

Lemma pair_eqb_refl p : pair_eqb p p = true.
Proof. apply pair_eqb_eq; reflexivity. Qed.

(** * Sorting: maps and key-determined orders *)

Lemma insert_map A B (f : A -> B) (la : A -> A -> bool) (lb : B -> B -> bool) :
  (forall x y, la x y = lb (f x) (f y)) ->
  forall x l, map f (insert la x l) = insert lb (f x) (map f l).
Proof.
  intros H x l; induction l as [|y l IH]; simpl; [reflexivity|].
  rewrite <- H. destruct (la x y); simpl; [reflexivity|rewrite IH; reflexivity].
Qed.

Lemma isort_map A B (f : A -> B) (la : A -> A -> bool) (lb : B -> B -> bool) :
  (forall x y, la x y = lb (f x) (f y)) ->
  forall l, map f (isort la l) = isort lb (map f l).
Proof.
  intros H l; induction l as [|x l IH]; simpl; [reflexivity|].
  rewrite (insert_map f la lb H), IH; reflexivity.
Qed.

Section KeySort.
  Variables (A K : Type) (key : A -> K) (kleb : K -> K -> bool).
  Hypothesis kleb_total : forall x y, kleb x y = true \/ kleb y x = true.
  Hypothesis kleb_trans : forall x y z, kleb x y = true -> kleb y z = true -> kleb x z = true.
  Hypothesis kleb_antisym : forall x y, kleb x y = true -> kleb y x = true -> x = y.

  Definition kl (a b : A) : bool := kleb (key a) (key b).

  Lemma sorted_perm_eq_key l1 l2 :
    NoDup (map key l1) -> StronglySorted (Base.le kl) l1 -> StronglySorted (Base.le kl) l2 ->
    Permutation l1 l2 -> l1 = l2.
  Proof.
    revert l2; induction l1 as [|x l1 IH]; intros l2 ND S1 S2 P.
    - apply Permutation_nil in P; subst; reflexivity.
    - destruct l2 as [|y l2]; [apply Permutation_sym, Permutation_nil in P; discriminate|].
      inversion S1 as [|? ? S1' H1]; inversion S2 as [|? ? S2' H2]; subst.
      rewrite Forall_forall in H1, H2.
      simpl in ND; inversion ND as [|? ? Hnin ND']; subst.
      assert (Exy : x = y).
      { assert (Hx : In x (y :: l2)) by (eapply Permutation_in; [exact P|left; reflexivity]).
        assert (Hy : In y (x :: l1)) by
          (eapply Permutation_in; [symmetry; exact P|left; reflexivity]).
        destruct Hx as [->|Hx]; [reflexivity|]. destruct Hy as [<-|Hy]; [reflexivity|].
        exfalso; apply Hnin.
        assert (Ek : key x = key y)
          by (apply kleb_antisym; [apply (H1 _ Hy)|apply (H2 _ Hx)]).
        rewrite Ek; apply in_map; exact Hy. }
      subst y; f_equal; apply IH; try assumption.
      eapply Permutation_cons_inv; exact P.
  Qed.

  Lemma isort_perm_eq_key l1 l2 :
    NoDup (map key l1) -> Permutation l1 l2 -> isort kl l1 = isort kl l2.
  Proof.
    intros ND P.
    assert (T : forall x y, kl x y = true \/ kl y x = true) by (intros; apply kleb_total).
    assert (R : forall x y z, kl x y = true -> kl y z = true -> kl x z = true)
      by (unfold kl; intros x y z; apply kleb_trans).
    apply sorted_perm_eq_key; try (apply isort_sorted; assumption).
    - eapply Permutation_NoDup; [|exact ND]. apply Permutation_map, isort_perm.
    - rewrite <- (isort_perm kl l1), <- (isort_perm kl l2); exact P.
  Qed.
End KeySort.

Lemma map_inj_eq A B (f : A -> B) :
  (forall x y, f x = f y -> x = y) -> forall l1 l2, map f l1 = map f l2 -> l1 = l2.
Proof.
  intros Hf l1; induction l1 as [|x l1 IH]; intros [|y l2] E; simpl in E; try discriminate;
    [reflexivity|].
  inversion E as [[E1 E2]]. f_equal; [apply Hf; exact E1|apply IH; exact E2].
Qed.

(** * Lookups *)

Lemma find_node_some id ns n : find_node id ns = Some n -> In n ns /\ nid n = id.
Proof.
  induction ns as [|m ns IH]; simpl; [discriminate|].
  destruct (name_eqb_spec id (nid m)) as [E|_].
  - intros [= <-]; split; [left; reflexivity|symmetry; exact E].
  - intros H; destruct (IH H) as [Hin E]; split; [right; exact Hin|exact E].
Qed.

Lemma find_node_none id ns : find_node id ns = None -> ~ In id (map nid ns).
Proof.
  induction ns as [|m ns IH]; simpl; [tauto|].
  destruct (name_eqb_spec id (nid m)) as [E|Hn]; [discriminate|].
  intros H [E|Hin]; [congruence|exact (IH H Hin)].
Qed.

Lemma find_node_nodup ns n : NoDup (map nid ns) -> In n ns -> find_node (nid n) ns = Some n.
Proof.
  induction ns as [|m ns IH]; simpl; [tauto|].
  intros ND Hin; inversion ND as [|? ? Hnin ND']; subst.
  destruct Hin as [->|Hin]; [rewrite name_eqb_refl; reflexivity|].
  destruct (name_eqb_spec (nid n) (nid m)) as [E|_]; [|apply IH; assumption].
  exfalso; apply Hnin; rewrite <- E; apply in_map; exact Hin.
Qed.

Lemma find_node_in id ns : In id (map nid ns) -> exists n, find_node id ns = Some n.
Proof.
  intros Hin; destruct (find_node id ns) as [n|] eqn:E; [exists n; reflexivity|].
  exfalso; exact (find_node_none _ _ E Hin).
Qed.

Lemma find_edge_some s d es e : find_edge s d es = Some e -> In e es /\ edge_key e = (s, d).
Proof.
  induction es as [|m es IH]; simpl; [discriminate|].
  destruct (name_eqb_spec s (esrc m)) as [E1|_]; simpl;
    [destruct (name_eqb_spec d (edst m)) as [E2|_]|].
  - intros [= <-]; split; [left; reflexivity|unfold edge_key; congruence].
  - intros H; destruct (IH H) as [Hin E]; split; [right; exact Hin|exact E].
  - intros H; destruct (IH H) as [Hin E]; split; [right; exact Hin|exact E].
Qed.

Lemma find_edge_none s d es : find_edge s d es = None -> ~ In (s, d) (map edge_key es).
Proof.
  induction es as [|m es IH]; simpl; [tauto|].
  destruct (name_eqb_spec s (esrc m)) as [E1|Hn]; simpl;
    [destruct (name_eqb_spec d (edst m)) as [E2|Hn]|].
  - discriminate.
  - intros H [E|Hin]; [unfold edge_key in E; congruence|exact (IH H Hin)].
  - intros H [E|Hin]; [unfold edge_key in E; congruence|exact (IH H Hin)].
Qed.

Lemma find_edge_nodup es e :
  NoDup (map edge_key es) -> In e es -> find_edge (esrc e) (edst e) es = Some e.
Proof.
  induction es as [|m es IH]; simpl; [tauto|].
  intros ND Hin; inversion ND as [|? ? Hnin ND']; subst.
  destruct Hin as [->|Hin]; [rewrite !name_eqb_refl; reflexivity|].
  destruct (name_eqb_spec (esrc e) (esrc m)) as [E1|_]; simpl; [|apply IH; assumption].
  destruct (name_eqb_spec (edst e) (edst m)) as [E2|_]; [|apply IH; assumption].
  exfalso; apply Hnin. replace (edge_key m) with (edge_key e) by (unfold edge_key; congruence).
  apply in_map; exact Hin.
Qed.

(** * The loop combinator and the set tests *)

Lemma all_res_true A (f : A -> res bool) l :
  all_res f l = Ok true <-> forall x, In x l -> f x = Ok true.
Proof.
  induction l as [|y l IH]; simpl; [split; [intros _ x []|reflexivity]|].
  destruct (f y) as [[|]|x] eqn:E.
  - rewrite IH; split; [intros H x [<-|Hx]; auto|intros H x Hx; apply H; right; exact Hx].
  - split; [discriminate|intros H; specialize (H y (or_introl eq_refl)); congruence].
  - split; [discriminate|intros H; specialize (H y (or_introl eq_refl)); congruence].
Qed.

Lemma all_res_total A (f : A -> res bool) l :
  (forall x, In x l -> exists b, f x = Ok b) -> exists b, all_res f l = Ok b.
Proof.
  induction l as [|y l IH]; simpl; intros H; [exists true; reflexivity|].
  destruct (H y (or_introl eq_refl)) as ([|] & ->); [|exists false; reflexivity].
  apply IH; intros x Hx; apply H; right; exact Hx.
Qed.

Lemma name_set_eqb_spec a b : name_set_eqb a b = true <-> (forall x, In x a <-> In x b).
Proof.
  unfold name_set_eqb; rewrite andb_true_iff, !forallb_forall; split.
  - intros [H1 H2] x; split; intros Hx; apply mem_in; auto.
  - intros H; split; intros x Hx; apply mem_in, H, Hx.
Qed.

Lemma name_set_eqb_refl a : name_set_eqb a a = true.
Proof. apply name_set_eqb_spec; tauto. Qed.

Lemma upair_eqb_spec p q : upair_eqb p q = true <-> (q = p \/ q = (snd p, fst p)).
Proof.
  destruct p as [a b], q as [c d]; unfold upair_eqb, in_pair; simpl.
  destruct (name_eqb_spec a c), (name_eqb_spec a d), (name_eqb_spec b c), (name_eqb_spec b d),
    (name_eqb_spec c a), (name_eqb_spec c b), (name_eqb_spec d a), (name_eqb_spec d b);
    simpl; subst; split; try discriminate; try congruence; auto;
    intros [E|E]; inversion E; congruence.
Qed.

Lemma upair_set_eqb_spec a b :
  upair_set_eqb a b = true <->
  (forall p, In p a -> exists q, In q b /\ upair_eqb p q = true)
  /\ (forall q, In q b -> exists p, In p a /\ upair_eqb q p = true).
Proof.
  unfold upair_set_eqb; rewrite andb_true_iff, !forallb_forall.
  split; intros [H1 H2]; split; intros x Hx.
  - apply existsb_exists; auto.
  - apply existsb_exists; auto.
  - apply existsb_exists; auto.
  - apply existsb_exists; auto.
Qed.

(** * Node comparison *)

Lemma node_eqb_base_refl d a : node_eqb_base d a a = true.
Proof.
  unfold node_eqb_base; destruct d; [|apply name_eqb_refl].
  rewrite name_eqb_refl; simpl.
  replace (vtype_eqb (nvt a) (nvt a)) with true by (symmetry; apply eq_vtype_eqb_eq; reflexivity).
  apply py_meta_eqb_eq; reflexivity.
Qed.

(** the base comparison decides equality of the compared fields *)
Definition node_key (d : bool) (n : node) : name * option (vtype * meta) :=
  (nid n, if d then Some (nvt n, meta_norm (nmeta n)) else None).

Lemma node_eqb_base_key d a b : node_eqb_base d a b = true <-> node_key d a = node_key d b.
Proof.
  unfold node_eqb_base, node_key; destruct d.
  - rewrite !andb_true_iff, name_eqb_eq, eq_vtype_eqb_eq, py_meta_eqb_eq; split.
    + intros [[-> ->] ->]; reflexivity.
    + intros E; inversion E; auto.
  - rewrite name_eqb_eq; split; [intros ->; reflexivity|intros E; inversion E; reflexivity].
Qed.

Lemma node_eqb_base_sym d a b : node_eqb_base d a b = node_eqb_base d b a.
Proof.
  destruct (node_eqb_base d a b) eqn:E1, (node_eqb_base d b a) eqn:E2; try reflexivity.
  - apply node_eqb_base_key in E1; symmetry in E1; apply node_eqb_base_key in E1; congruence.
  - apply node_eqb_base_key in E2; symmetry in E2; apply node_eqb_base_key in E2; congruence.
Qed.

Lemma node_eqb_deep_canon a b : node_eqb_base true a b = true <-> canon_node a = canon_node b.
Proof.
  rewrite node_eqb_base_key; unfold node_key, canon_node; split; intros E; inversion E; reflexivity.
Qed.

(** [a.__eq__(b)] and [b.__eq__(a)] agree, including when they raise *)
Theorem node_eqb_sym k d a b : node_eqb k d a b = node_eqb k d b a.
Proof.
  unfold node_eqb; destruct k; [rewrite node_eqb_base_sym; reflexivity|].
  rewrite (node_eqb_base_sym d a b).
  destruct (node_eqb_base d b a); simpl; [|reflexivity].
  destruct (meta_var (nmeta a)) as [va|], (meta_var (nmeta b)) as [vb|]; try reflexivity.
  rewrite (name_eqb_sym va vb).
  destruct (name_eqb vb va); simpl; [|reflexivity].
  destruct (meta_lag (nmeta a)) as [la|], (meta_lag (nmeta b)) as [lb|]; try reflexivity.
  rewrite Z.eqb_sym; reflexivity.
Qed.

(** the complete key compared by the node class of kind [k] *)
Definition node_fullkey (k : kind) (d : bool) (n : node)
  : (name * option (vtype * meta)) * option (option name * option Z) :=
  (node_key d n, match k with Plain => None | TS => Some (meta_var (nmeta n), meta_lag (nmeta n)) end).

Definition tagged (k : kind) (n : node) : Prop :=
  k = TS -> exists v l, meta_var (nmeta n) = Some v /\ meta_lag (nmeta n) = Some l.

Lemma node_eqb_true_key k d a b :
  node_eqb k d a b = Ok true -> node_fullkey k d a = node_fullkey k d b.
Proof.
  unfold node_eqb, node_fullkey; destruct k.
  - intros [= E]; apply node_eqb_base_key in E; rewrite E; reflexivity.
  - destruct (node_eqb_base d a b) eqn:E; simpl; [|discriminate].
    apply node_eqb_base_key in E; rewrite E.
    destruct (meta_var (nmeta a)) as [va|]; [|discriminate].
    destruct (meta_var (nmeta b)) as [vb|]; [|discriminate].
    destruct (name_eqb_spec va vb) as [->|]; simpl; [|discriminate].
    destruct (meta_lag (nmeta a)) as [la|]; [|discriminate].
    destruct (meta_lag (nmeta b)) as [lb|]; [|discriminate].
    intros [= El]; apply Z.eqb_eq in El; subst; reflexivity.
Qed.

Lemma node_eqb_key_true k d a b :
  tagged k a -> node_fullkey k d a = node_fullkey k d b -> node_eqb k d a b = Ok true.
Proof.
  unfold node_eqb, node_fullkey; intros Ta E.
  pose proof (f_equal fst E) as E1; pose proof (f_equal snd E) as E2; simpl in E1, E2.
  assert (Eb : node_eqb_base d a b = true) by (apply node_eqb_base_key; exact E1).
  rewrite Eb; destruct k; [reflexivity|]; simpl.
  destruct (Ta eq_refl) as (v & l & Hv & Hl). rewrite Hv, Hl in E2.
  injection E2 as E3 E4.
  rewrite <- E3, <- E4, Hv, Hl, name_eqb_refl, Z.eqb_refl; reflexivity.
Qed.

Theorem node_eqb_refl k d a : tagged k a -> node_eqb k d a a = Ok true.
Proof. intros T; apply node_eqb_key_true; [exact T|reflexivity]. Qed.

Theorem node_eqb_trans k d a b c :
  node_eqb k d a b = Ok true -> node_eqb k d b c = Ok true -> node_eqb k d a c = Ok true.
Proof.
  intros H1 H2. pose proof (node_eqb_true_key _ _ _ _ H1) as K1.
  pose proof (node_eqb_true_key _ _ _ _ H2) as K2.
  apply node_eqb_key_true; [|congruence].
  intros ->. unfold node_eqb in H1.
  destruct (node_eqb_base d a b); simpl in H1; [|discriminate].
  destruct (meta_var (nmeta a)) as [va|]; [|discriminate].
  destruct (meta_var (nmeta b)) as [vb|]; [|discriminate].
  destruct (name_eqb va vb); simpl in H1; [|discriminate].
  destruct (meta_lag (nmeta a)) as [la|]; [|discriminate].
  exists va, la; split; reflexivity.
Qed.

Lemma node_eqb_total k d a b : tagged k a -> tagged k b -> exists r, node_eqb k d a b = Ok r.
Proof.
  unfold node_eqb; intros Ta Tb; destruct k; [eexists; reflexivity|].
  destruct (node_eqb_base d a b); simpl; [|eexists; reflexivity].
  destruct (Ta eq_refl) as (va & la & -> & ->), (Tb eq_refl) as (vb & lb & -> & ->).
  destruct (name_eqb va vb); simpl; eexists; reflexivity.
Qed.

Lemma node_eqb_diff_id k d a b : nid a <> nid b -> node_eqb k d a b = Ok false.
Proof.
  intros Hn; unfold node_eqb.
  assert (E : node_eqb_base d a b = false).
  { destruct (node_eqb_base d a b) eqn:E; [|reflexivity].
    apply node_eqb_base_key in E; unfold node_key in E; inversion E; contradiction. }
  rewrite E; destruct k; reflexivity.
Qed.

Lemma node_eqb_deep_shallow k a b : node_eqb k true a b = Ok true -> node_eqb k false a b = Ok true.
Proof.
  intros H. pose proof (node_eqb_true_key _ _ _ _ H) as K.
  apply node_eqb_key_true.
  - intros ->. unfold node_eqb in H.
    destruct (node_eqb_base true a b); simpl in H; [|discriminate].
    destruct (meta_var (nmeta a)) as [va|]; [|discriminate].
    destruct (meta_var (nmeta b)) as [vb|]; [|discriminate].
    destruct (name_eqb va vb); simpl in H; [|discriminate].
    destruct (meta_lag (nmeta a)) as [la|]; [|discriminate].
    exists va, la; split; reflexivity.
  - unfold node_fullkey, node_key in *; inversion K; congruence.
Qed.

(** * Edge comparison (shallow) *)

Lemma in_dont_care_spec t : in_dont_care t = true <-> (t = Und \/ t = Bi \/ t = Unk).
Proof. destruct t; simpl; split; try discriminate; try tauto; intros [E|[E|E]]; discriminate. Qed.

Lemma canon_pair_cases e :
  canon_pair e = edge_key e \/ canon_pair e = (edst e, esrc e).
Proof. unfold canon_pair; destruct (_ && _); [right|left]; reflexivity. Qed.

(** the pair test decides equality of canonical edges *)
Theorem edge_pair_test_canon e e' : edge_pair_test e e' = true <-> canon_edge e = canon_edge e'.
Proof.
  unfold edge_pair_test, canon_edge, canon_pair, edge_key.
  destruct e as [s d t m], e' as [s' d' t' m']; simpl.
  destruct (pair_eqb_spec (s, d) (s', d')) as [E|Hn].
  - inversion E; subst. rewrite eq_etype_eqb_eq; split; [intros ->; reflexivity|].
    intros H; inversion H; reflexivity.
  - destruct (pair_eqb_spec (s, d) (d', s')) as [E|Hn2].
    + inversion E; subst s' d'. rewrite andb_true_iff, eq_etype_eqb_eq; split.
      * intros [Hd <-]. rewrite Hd; simpl. f_equal.
        destruct (name_leb s d) eqn:L1, (name_leb d s) eqn:L2; simpl; try reflexivity.
        -- pose proof (name_leb_antisym _ _ L1 L2); subst; reflexivity.
        -- destruct (name_leb_total s d); congruence.
      * intros H. assert (Et : t = t') by (inversion H; reflexivity). subst t'.
        split; [|reflexivity].
        destruct (in_dont_care t); [reflexivity|]. simpl in H; inversion H; subst; congruence.
    + split; [discriminate|]. intros H; exfalso.
      assert (Et : t = t') by (inversion H; reflexivity). subst t'.
      destruct (in_dont_care t); simpl in H.
      * destruct (name_leb s d), (name_leb s' d'); simpl in H; inversion H; subst; congruence.
      * inversion H; subst; congruence.
Qed.

Lemma edge_eqb_shallow k g h e e' : edge_eqb k false g h e e' = Ok (edge_pair_test e e').
Proof. reflexivity. Qed.

(** shallow [Edge.__eq__] is an equivalence relation (on all edges, in particular on edges
    whose endpoints are distinct) *)
Theorem edge_eq_equiv k g :
  (forall e, edge_eqb k false g g e e = Ok true)
  /\ (forall h e e', edge_eqb k false g h e e' = edge_eqb k false h g e' e)
  /\ (forall h i e e' e'', edge_eqb k false g h e e' = Ok true ->
        edge_eqb k false h i e' e'' = Ok true -> edge_eqb k false g i e e'' = Ok true).
Proof.
  repeat split.
  - intros e; rewrite edge_eqb_shallow; f_equal; apply edge_pair_test_canon; reflexivity.
  - intros h e e'; rewrite !edge_eqb_shallow; f_equal.
    destruct (edge_pair_test e e') eqn:E1, (edge_pair_test e' e) eqn:E2; try reflexivity.
    + apply edge_pair_test_canon in E1; symmetry in E1; apply edge_pair_test_canon in E1; congruence.
    + apply edge_pair_test_canon in E2; symmetry in E2; apply edge_pair_test_canon in E2; congruence.
  - intros h i e e' e''; rewrite !edge_eqb_shallow; intros [= E1] [= E2]; f_equal.
    apply edge_pair_test_canon in E1, E2; apply edge_pair_test_canon; congruence.
Qed.

Lemma canon_pair_eq_cases e e' :
  canon_pair e = canon_pair e' -> edge_key e' = edge_key e \/ edge_key e' = (edst e, esrc e).
Proof.
  intros H. destruct (canon_pair_cases e) as [E|E], (canon_pair_cases e') as [E'|E'];
    rewrite E, E' in H; unfold edge_key in *.
  - left; congruence.
  - right; inversion H; congruence.
  - right; inversion H; congruence.
  - left; inversion H; congruence.
Qed.

Lemma canon_pair_upair e e' :
  canon_pair e = canon_pair e' -> upair_eqb (edge_key e) (edge_key e') = true.
Proof. intros H; apply upair_eqb_spec; apply canon_pair_eq_cases in H; exact H. Qed.

Lemma canon_pair_nodup l :
  NoDup (map edge_key l) ->
  (forall e, In e l -> ~ In (edst e, esrc e) (map edge_key l)) ->
  NoDup (map canon_pair l).
Proof.
  induction l as [|e l IH]; simpl; intros ND NR; [constructor|].
  inversion ND as [|? ? Hnin ND']; subst. constructor.
  - intros Hin; apply in_map_iff in Hin; destruct Hin as (e' & Ee & He').
    symmetry in Ee; destruct (canon_pair_eq_cases _ _ Ee) as [E|E].
    + apply Hnin; rewrite <- E; apply in_map; exact He'.
    + apply (NR e (or_introl eq_refl)); right; rewrite <- E; apply in_map; exact He'.
  - apply IH; [exact ND'|]. intros e' He' Hin. apply (NR e' (or_intror He')); right; exact Hin.
Qed.
