(** EqualityProofs.v — C07: graph / skeleton / node / edge equality of Equality.v is a structural
    equivalence relation characterised by the canonical forms [canon], [canon_deep],
    [canon_skel], [canon_skel_deep]; it never raises on states satisfying the invariant. *)
From CG Require Import Base Digraph Graph GraphObs GraphInv Equality.
Set Implicit Arguments.

(** * Decidable equalities *)

Section JsonInd.
  Variable P : json -> Prop.
  Hypothesis Hnull : P JNull.
  Hypothesis Hbool : forall b, P (JBool b).
  Hypothesis Hint : forall z, P (JInt z).
  Hypothesis Hstr : forall s, P (JStr s).
  Hypothesis Hlist : forall l, Forall P l -> P (JList l).
  Hypothesis Hobj : forall l, Forall (fun kv : name * json => P (snd kv)) l -> P (JObj l).
  Fixpoint eq_json_ind (j : json) : P j :=
    match j with
    | JNull => Hnull
    | JBool b => Hbool b
    | JInt z => Hint z
    | JStr s => Hstr s
    | JList l =>
        Hlist ((fix go (l : list json) : Forall P l :=
                  match l with
                  | [] => Forall_nil _
                  | x :: l' => Forall_cons x (eq_json_ind x) (go l')
                  end) l)
    | JObj l =>
        Hobj ((fix go (l : list (name * json)) : Forall (fun kv => P (snd kv)) l :=
                 match l with
                 | [] => Forall_nil _
                 | kv :: l' => Forall_cons kv (eq_json_ind (snd kv)) (go l')
                 end) l)
    end.
End JsonInd.

Lemma eq_json_eqb_eq a : forall b, json_eqb a b = true <-> a = b.
Proof.
  induction a as [| x | x | x | l IH | l IH] using eq_json_ind; intros b; destruct b;
    simpl; try (split; [discriminate|congruence]).
  - tauto.
  - rewrite Bool.eqb_true_iff; split; congruence.
  - rewrite Z.eqb_eq; split; congruence.
  - rewrite name_eqb_eq; split; congruence.
  - rename l0 into l2. revert l2; induction IH as [|x l Hx Hl IHl]; intros [|y l2];
      try (split; [discriminate|congruence]); [tauto|].
    rewrite andb_true_iff, Hx, IHl; split; [intros [-> E]; inversion E; reflexivity|].
    intros E; inversion E; auto.
  - rename l0 into l2. revert l2; induction IH as [|[k x] l Hx Hl IHl]; intros [|[k2 y] l2];
      try (split; [discriminate|congruence]); [tauto|].
    simpl in Hx. rewrite !andb_true_iff, name_eqb_eq, Hx, IHl; split.
    + intros [[-> ->] E]; inversion E; reflexivity.
    + intros E; inversion E; auto.
Qed.

Lemma eq_meta_eqb_eq (x y : meta) : meta_eqb x y = true <-> x = y.
Proof.
  revert y; induction x as [|[k a] x IH]; intros [|[k2 b] y]; simpl;
    try (split; [discriminate|congruence]); [tauto|].
  rewrite !andb_true_iff, name_eqb_eq, eq_json_eqb_eq, IH; split.
  - intros [[-> ->] ->]; reflexivity.
  - intros E; inversion E; auto.
Qed.

Lemma py_meta_eqb_eq a b : py_meta_eqb a b = true <-> meta_norm a = meta_norm b.
Proof. unfold py_meta_eqb; apply eq_meta_eqb_eq. Qed.

Lemma eq_vtype_eqb_eq a b : vtype_eqb a b = true <-> a = b.
Proof. destruct (vtype_eqb_spec a b); split; congruence. Qed.

Lemma eq_etype_eqb_eq a b : etype_eqb a b = true <-> a = b.
Proof. destruct (etype_eqb_spec a b); split; congruence. Qed.

Lemma eq_etype_eqb_refl a : etype_eqb a a = true.
Proof. apply eq_etype_eqb_eq; reflexivity. Qed.

Lemma pair_eqb_eq p q : pair_eqb p q = true <-> p = q.
Proof. destruct (pair_eqb_spec p q); split; congruence. Qed.

Lemma pair_eqb_refl p : pair_eqb p p = true.
Proof. apply pair_eqb_eq; reflexivity. Qed.

(** * Sorting: maps and key-determined orders *)

Lemma insert_map A B (f : A -> B) (la : A -> A -> bool) (lb : B -> B -> bool) :
  (forall x y, la x y = lb (f x) (f y)) ->
  forall x l, map f (insert la x l) = insert lb (f x) (map f l).
Proof.
  intros H x l; induction l as [|y l IH]; simpl; [reflexivity|].
  rewrite <- H. destruct (la x y); simpl; [reflexivity|rewrite IH; reflexivity].
Qed.

Lemma isort_map A B (f : A -> B) (la : A -> A -> bool) (lb : B -> B -> bool) :
  (forall x y, la x y = lb (f x) (f y)) ->
  forall l, map f (isort la l) = isort lb (map f l).
Proof.
  intros H l; induction l as [|x l IH]; simpl; [reflexivity|].
  rewrite (insert_map f la lb H), IH; reflexivity.
Qed.

Section KeySort.
  Variables (A K : Type) (key : A -> K) (kleb : K -> K -> bool).
  Hypothesis kleb_total : forall x y, kleb x y = true \/ kleb y x = true.
  Hypothesis kleb_trans : forall x y z, kleb x y = true -> kleb y z = true -> kleb x z = true.
  Hypothesis kleb_antisym : forall x y, kleb x y = true -> kleb y x = true -> x = y.

  Definition kl (a b : A) : bool := kleb (key a) (key b).

  Lemma sorted_perm_eq_key l1 l2 :
    NoDup (map key l1) -> StronglySorted (Base.le kl) l1 -> StronglySorted (Base.le kl) l2 ->
    Permutation l1 l2 -> l1 = l2.
  Proof.
    revert l2; induction l1 as [|x l1 IH]; intros l2 ND S1 S2 P.
    - apply Permutation_nil in P; subst; reflexivity.
    - destruct l2 as [|y l2]; [apply Permutation_sym, Permutation_nil in P; discriminate|].
      inversion S1 as [|? ? S1' H1]; inversion S2 as [|? ? S2' H2]; subst.
      rewrite Forall_forall in H1, H2.
      simpl in ND; inversion ND as [|? ? Hnin ND']; subst.
      assert (Exy : x = y).
      { assert (Hx : In x (y :: l2)) by (eapply Permutation_in; [exact P|left; reflexivity]).
        assert (Hy : In y (x :: l1)) by
          (eapply Permutation_in; [symmetry; exact P|left; reflexivity]).
        destruct Hx as [->|Hx]; [reflexivity|]. destruct Hy as [<-|Hy]; [reflexivity|].
        exfalso; apply Hnin.
        assert (Ek : key x = key y)
          by (apply kleb_antisym; [apply (H1 _ Hy)|apply (H2 _ Hx)]).
        rewrite Ek; apply in_map; exact Hy. }
      subst y; f_equal; apply IH; try assumption.
      eapply Permutation_cons_inv; exact P.
  Qed.

  Lemma isort_perm_eq_key l1 l2 :
    NoDup (map key l1) -> Permutation l1 l2 -> isort kl l1 = isort kl l2.
  Proof.
    intros ND P.
    assert (T : forall x y, kl x y = true \/ kl y x = true) by (intros; apply kleb_total).
    assert (R : forall x y z, kl x y = true -> kl y z = true -> kl x z = true)
      by (unfold kl; intros x y z; apply kleb_trans).
    apply sorted_perm_eq_key; try (apply isort_sorted; assumption).
    - eapply Permutation_NoDup; [|exact ND]. apply Permutation_map, isort_perm.
    - rewrite <- (isort_perm kl l1), <- (isort_perm kl l2); exact P.
  Qed.
End KeySort.

Lemma map_inj_eq A B (f : A -> B) :
  (forall x y, f x = f y -> x = y) -> forall l1 l2, map f l1 = map f l2 -> l1 = l2.
Proof.
  intros Hf l1; induction l1 as [|x l1 IH]; intros [|y l2] E; simpl in E; try discriminate;
    [reflexivity|].
  inversion E as [[E1 E2]]. f_equal; [apply Hf; exact E1|apply IH; exact E2].
Qed.

(** * Lookups *)

Lemma find_node_some id ns n : find_node id ns = Some n -> In n ns /\ nid n = id.
Proof.
  induction ns as [|m ns IH]; simpl; [discriminate|].
  destruct (name_eqb_spec id (nid m)) as [E|_].
  - intros [= <-]; split; [left; reflexivity|symmetry; exact E].
  - intros H; destruct (IH H) as [Hin E]; split; [right; exact Hin|exact E].
Qed.

Lemma find_node_none id ns : find_node id ns = None -> ~ In id (map nid ns).
Proof.
  induction ns as [|m ns IH]; simpl; [tauto|].
  destruct (name_eqb_spec id (nid m)) as [E|Hn]; [discriminate|].
  intros H [E|Hin]; [congruence|exact (IH H Hin)].
Qed.

Lemma find_node_nodup ns n : NoDup (map nid ns) -> In n ns -> find_node (nid n) ns = Some n.
Proof.
  induction ns as [|m ns IH]; simpl; [tauto|].
  intros ND Hin; inversion ND as [|? ? Hnin ND']; subst.
  destruct Hin as [->|Hin]; [rewrite name_eqb_refl; reflexivity|].
  destruct (name_eqb_spec (nid n) (nid m)) as [E|_]; [|apply IH; assumption].
  exfalso; apply Hnin; rewrite <- E; apply in_map; exact Hin.
Qed.

Lemma find_node_in id ns : In id (map nid ns) -> exists n, find_node id ns = Some n.
Proof.
  intros Hin; destruct (find_node id ns) as [n|] eqn:E; [exists n; reflexivity|].
  exfalso; exact (find_node_none _ _ E Hin).
Qed.

Lemma find_edge_some s d es e : find_edge s d es = Some e -> In e es /\ edge_key e = (s, d).
Proof.
  induction es as [|m es IH]; simpl; [discriminate|].
  destruct (name_eqb_spec s (esrc m)) as [E1|_]; simpl;
    [destruct (name_eqb_spec d (edst m)) as [E2|_]|].
  - intros [= <-]; split; [left; reflexivity|unfold edge_key; congruence].
  - intros H; destruct (IH H) as [Hin E]; split; [right; exact Hin|exact E].
  - intros H; destruct (IH H) as [Hin E]; split; [right; exact Hin|exact E].
Qed.

Lemma find_edge_none s d es : find_edge s d es = None -> ~ In (s, d) (map edge_key es).
Proof.
  induction es as [|m es IH]; simpl; [tauto|].
  destruct (name_eqb_spec s (esrc m)) as [E1|Hn]; simpl;
    [destruct (name_eqb_spec d (edst m)) as [E2|Hn]|].
  - discriminate.
  - intros H [E|Hin]; [unfold edge_key in E; congruence|exact (IH H Hin)].
  - intros H [E|Hin]; [unfold edge_key in E; congruence|exact (IH H Hin)].
Qed.

Lemma find_edge_nodup es e :
  NoDup (map edge_key es) -> In e es -> find_edge (esrc e) (edst e) es = Some e.
Proof.
  induction es as [|m es IH]; simpl; [tauto|].
  intros ND Hin; inversion ND as [|? ? Hnin ND']; subst.
  destruct Hin as [->|Hin]; [rewrite !name_eqb_refl; reflexivity|].
  destruct (name_eqb_spec (esrc e) (esrc m)) as [E1|_]; simpl; [|apply IH; assumption].
  destruct (name_eqb_spec (edst e) (edst m)) as [E2|_]; [|apply IH; assumption].
  exfalso; apply Hnin. replace (edge_key m) with (edge_key e) by (unfold edge_key; congruence).
  apply in_map; exact Hin.
Qed.

(** * The loop combinator and the set tests *)

Lemma all_res_true A (f : A -> res bool) l :
  all_res f l = Ok true <-> forall x, In x l -> f x = Ok true.
Proof.
  induction l as [|y l IH]; simpl; [split; [intros _ x []|reflexivity]|].
  destruct (f y) as [[|]|x] eqn:E.
  - rewrite IH; split; [intros H x [<-|Hx]; auto|intros H x Hx; apply H; right; exact Hx].
  - split; [discriminate|intros H; specialize (H y (or_introl eq_refl)); congruence].
  - split; [discriminate|intros H; specialize (H y (or_introl eq_refl)); congruence].
Qed.

Lemma all_res_total A (f : A -> res bool) l :
  (forall x, In x l -> exists b, f x = Ok b) -> exists b, all_res f l = Ok b.
Proof.
  induction l as [|y l IH]; simpl; intros H; [exists true; reflexivity|].
  destruct (H y (or_introl eq_refl)) as ([|] & ->); [|exists false; reflexivity].
  apply IH; intros x Hx; apply H; right; exact Hx.
Qed.

Lemma name_set_eqb_spec a b : name_set_eqb a b = true <-> (forall x, In x a <-> In x b).
Proof.
  unfold name_set_eqb; rewrite andb_true_iff, !forallb_forall; split.
  - intros [H1 H2] x; split; intros Hx; apply mem_in; auto.
  - intros H; split; intros x Hx; apply mem_in, H, Hx.
Qed.

Lemma name_set_eqb_refl a : name_set_eqb a a = true.
Proof. apply name_set_eqb_spec; tauto. Qed.

Lemma upair_eqb_spec p q : upair_eqb p q = true <-> (q = p \/ q = (snd p, fst p)).
Proof.
  destruct p as [a b], q as [c d]; unfold upair_eqb, in_pair; simpl.
  destruct (name_eqb_spec a c), (name_eqb_spec a d), (name_eqb_spec b c), (name_eqb_spec b d),
    (name_eqb_spec c a), (name_eqb_spec c b), (name_eqb_spec d a), (name_eqb_spec d b);
    simpl; subst; split; try discriminate; try congruence; auto;
    intros [E|E]; inversion E; congruence.
Qed.

Lemma upair_set_eqb_spec a b :
  upair_set_eqb a b = true <->
  (forall p, In p a -> exists q, In q b /\ upair_eqb p q = true)
  /\ (forall q, In q b -> exists p, In p a /\ upair_eqb q p = true).
Proof.
  unfold upair_set_eqb; rewrite andb_true_iff, !forallb_forall.
  split; intros [H1 H2]; split; intros x Hx.
  - apply existsb_exists; auto.
  - apply existsb_exists; auto.
  - apply existsb_exists; auto.
  - apply existsb_exists; auto.
Qed.

(** * Node comparison *)

Lemma node_eqb_base_refl d a : node_eqb_base d a a = true.
Proof.
  unfold node_eqb_base; destruct d; [|apply name_eqb_refl].
  rewrite name_eqb_refl; simpl.
  replace (vtype_eqb (nvt a) (nvt a)) with true by (symmetry; apply eq_vtype_eqb_eq; reflexivity).
  apply py_meta_eqb_eq; reflexivity.
Qed.

(** the base comparison decides equality of the compared fields *)
Definition node_key (d : bool) (n : node) : name * option (vtype * meta) :=
  (nid n, if d then Some (nvt n, meta_norm (nmeta n)) else None).

Lemma node_eqb_base_key d a b : node_eqb_base d a b = true <-> node_key d a = node_key d b.
Proof.
  unfold node_eqb_base, node_key; destruct d.
  - rewrite !andb_true_iff, name_eqb_eq, eq_vtype_eqb_eq, py_meta_eqb_eq; split.
    + intros [[-> ->] ->]; reflexivity.
    + intros E; inversion E; auto.
  - rewrite name_eqb_eq; split; [intros ->; reflexivity|intros E; inversion E; reflexivity].
Qed.

Lemma node_eqb_base_sym d a b : node_eqb_base d a b = node_eqb_base d b a.
Proof.
  destruct (node_eqb_base d a b) eqn:E1, (node_eqb_base d b a) eqn:E2; try reflexivity.
  - apply node_eqb_base_key in E1; symmetry in E1; apply node_eqb_base_key in E1; congruence.
  - apply node_eqb_base_key in E2; symmetry in E2; apply node_eqb_base_key in E2; congruence.
Qed.

Lemma node_eqb_deep_canon a b : node_eqb_base true a b = true <-> canon_node a = canon_node b.
Proof.
  rewrite node_eqb_base_key; unfold node_key, canon_node; split; intros E; inversion E; reflexivity.
Qed.

(** [a.__eq__(b)] and [b.__eq__(a)] agree, including when they raise *)
Theorem node_eqb_sym k d a b : node_eqb k d a b = node_eqb k d b a.
Proof.
  unfold node_eqb; destruct k; [rewrite node_eqb_base_sym; reflexivity|].
  rewrite (node_eqb_base_sym d a b).
  destruct (node_eqb_base d b a); simpl; [|reflexivity].
  destruct (meta_var (nmeta a)) as [va|], (meta_var (nmeta b)) as [vb|]; try reflexivity.
  rewrite (name_eqb_sym va vb).
  destruct (name_eqb vb va); simpl; [|reflexivity].
  destruct (meta_lag (nmeta a)) as [la|], (meta_lag (nmeta b)) as [lb|]; try reflexivity.
  rewrite Z.eqb_sym; reflexivity.
Qed.

(** the complete key compared by the node class of kind [k] *)
Definition node_fullkey (k : kind) (d : bool) (n : node)
  : (name * option (vtype * meta)) * option (option name * option Z) :=
  (node_key d n, match k with Plain => None | TS => Some (meta_var (nmeta n), meta_lag (nmeta n)) end).

Definition tagged (k : kind) (n : node) : Prop :=
  k = TS -> exists v l, meta_var (nmeta n) = Some v /\ meta_lag (nmeta n) = Some l.

Lemma node_eqb_true_key k d a b :
  node_eqb k d a b = Ok true -> node_fullkey k d a = node_fullkey k d b.
Proof.
  unfold node_eqb, node_fullkey; destruct k.
  - intros [= E]; apply node_eqb_base_key in E; rewrite E; reflexivity.
  - destruct (node_eqb_base d a b) eqn:E; simpl; [|discriminate].
    apply node_eqb_base_key in E; rewrite E.
    destruct (meta_var (nmeta a)) as [va|]; [|discriminate].
    destruct (meta_var (nmeta b)) as [vb|]; [|discriminate].
    destruct (name_eqb_spec va vb) as [->|]; simpl; [|discriminate].
    destruct (meta_lag (nmeta a)) as [la|]; [|discriminate].
    destruct (meta_lag (nmeta b)) as [lb|]; [|discriminate].
    intros [= El]; apply Z.eqb_eq in El; subst; reflexivity.
Qed.

Lemma node_eqb_key_true k d a b :
  tagged k a -> node_fullkey k d a = node_fullkey k d b -> node_eqb k d a b = Ok true.
Proof.
  unfold node_eqb, node_fullkey; intros Ta E.
  pose proof (f_equal fst E) as E1; pose proof (f_equal snd E) as E2; simpl in E1, E2.
  assert (Eb : node_eqb_base d a b = true) by (apply node_eqb_base_key; exact E1).
  rewrite Eb; destruct k; [reflexivity|]; simpl.
  destruct (Ta eq_refl) as (v & l & Hv & Hl). rewrite Hv, Hl in E2.
  injection E2 as E3 E4.
  rewrite <- E3, <- E4, Hv, Hl, name_eqb_refl, Z.eqb_refl; reflexivity.
Qed.

Theorem node_eqb_refl k d a : tagged k a -> node_eqb k d a a = Ok true.
Proof. intros T; apply node_eqb_key_true; [exact T|reflexivity]. Qed.

Theorem node_eqb_trans k d a b c :
  node_eqb k d a b = Ok true -> node_eqb k d b c = Ok true -> node_eqb k d a c = Ok true.
Proof.
  intros H1 H2. pose proof (node_eqb_true_key _ _ _ _ H1) as K1.
  pose proof (node_eqb_true_key _ _ _ _ H2) as K2.
  apply node_eqb_key_true; [|congruence].
  intros ->. unfold node_eqb in H1.
  destruct (node_eqb_base d a b); simpl in H1; [|discriminate].
  destruct (meta_var (nmeta a)) as [va|]; [|discriminate].
  destruct (meta_var (nmeta b)) as [vb|]; [|discriminate].
  destruct (name_eqb va vb); simpl in H1; [|discriminate].
  destruct (meta_lag (nmeta a)) as [la|]; [|discriminate].
  exists va, la; split; reflexivity.
Qed.

Lemma node_eqb_total k d a b : tagged k a -> tagged k b -> exists r, node_eqb k d a b = Ok r.
Proof.
  unfold node_eqb; intros Ta Tb; destruct k; [eexists; reflexivity|].
  destruct (node_eqb_base d a b); simpl; [|eexists; reflexivity].
  destruct (Ta eq_refl) as (va & la & -> & ->), (Tb eq_refl) as (vb & lb & -> & ->).
  destruct (name_eqb va vb); simpl; eexists; reflexivity.
Qed.

Lemma node_eqb_diff_id k d a b : nid a <> nid b -> node_eqb k d a b = Ok false.
Proof.
  intros Hn; unfold node_eqb.
  assert (E : node_eqb_base d a b = false).
  { destruct (node_eqb_base d a b) eqn:E; [|reflexivity].
    apply node_eqb_base_key in E; unfold node_key in E; inversion E; contradiction. }
  rewrite E; destruct k; reflexivity.
Qed.

Lemma node_eqb_deep_shallow k a b : node_eqb k true a b = Ok true -> node_eqb k false a b = Ok true.
Proof.
  intros H. pose proof (node_eqb_true_key _ _ _ _ H) as K.
  apply node_eqb_key_true.
  - intros ->. unfold node_eqb in H.
    destruct (node_eqb_base true a b); simpl in H; [|discriminate].
    destruct (meta_var (nmeta a)) as [va|]; [|discriminate].
    destruct (meta_var (nmeta b)) as [vb|]; [|discriminate].
    destruct (name_eqb va vb); simpl in H; [|discriminate].
    destruct (meta_lag (nmeta a)) as [la|]; [|discriminate].
    exists va, la; split; reflexivity.
  - unfold node_fullkey, node_key in *; inversion K; congruence.
Qed.

(** * Edge comparison (shallow) *)

Lemma in_dont_care_spec t : in_dont_care t = true <-> (t = Und \/ t = Bi \/ t = Unk).
Proof. destruct t; simpl; split; try discriminate; try tauto; intros [E|[E|E]]; discriminate. Qed.

Lemma canon_pair_cases e :
  canon_pair e = edge_key e \/ canon_pair e = (edst e, esrc e).
Proof. unfold canon_pair; destruct (_ && _); [right|left]; reflexivity. Qed.

(** the pair test decides equality of canonical edges *)
Theorem edge_pair_test_canon e e' : edge_pair_test e e' = true <-> canon_edge e = canon_edge e'.
Proof.
  unfold edge_pair_test, canon_edge, canon_pair, edge_key.
  destruct e as [s d t m], e' as [s' d' t' m']; simpl.
  destruct (pair_eqb_spec (s, d) (s', d')) as [E|Hn].
  - inversion E; subst. rewrite eq_etype_eqb_eq; split; [intros ->; reflexivity|].
    intros H; inversion H; reflexivity.
  - destruct (pair_eqb_spec (s, d) (d', s')) as [E|Hn2].
    + inversion E; subst s' d'. rewrite andb_true_iff, eq_etype_eqb_eq; split.
      * intros [Hd <-]. rewrite Hd; simpl. f_equal.
        destruct (name_leb s d) eqn:L1, (name_leb d s) eqn:L2; simpl; try reflexivity.
        -- pose proof (name_leb_antisym _ _ L1 L2); subst; reflexivity.
        -- destruct (name_leb_total s d); congruence.
      * intros H. assert (Et : t = t') by (inversion H; reflexivity). subst t'.
        split; [|reflexivity].
        destruct (in_dont_care t); [reflexivity|]. simpl in H; inversion H; subst; congruence.
    + split; [discriminate|]. intros H; exfalso.
      assert (Et : t = t') by (inversion H; reflexivity). subst t'.
      destruct (in_dont_care t); simpl in H.
      * destruct (name_leb s d), (name_leb s' d'); simpl in H; inversion H; subst; congruence.
      * inversion H; subst; congruence.
Qed.

Lemma edge_eqb_shallow k g h e e' : edge_eqb k false g h e e' = Ok (edge_pair_test e e').
Proof. reflexivity. Qed.

(** shallow [Edge.__eq__] is an equivalence relation (on all edges, in particular on edges
    whose endpoints are distinct) *)
Theorem edge_eq_equiv k g :
  (forall e, edge_eqb k false g g e e = Ok true)
  /\ (forall h e e', edge_eqb k false g h e e' = edge_eqb k false h g e' e)
  /\ (forall h i e e' e'', edge_eqb k false g h e e' = Ok true ->
        edge_eqb k false h i e' e'' = Ok true -> edge_eqb k false g i e e'' = Ok true).
Proof.
  repeat split.
  - intros e; rewrite edge_eqb_shallow; f_equal; apply edge_pair_test_canon; reflexivity.
  - intros h e e'; rewrite !edge_eqb_shallow; f_equal.
    destruct (edge_pair_test e e') eqn:E1, (edge_pair_test e' e) eqn:E2; try reflexivity.
    + apply edge_pair_test_canon in E1; symmetry in E1; apply edge_pair_test_canon in E1; congruence.
    + apply edge_pair_test_canon in E2; symmetry in E2; apply edge_pair_test_canon in E2; congruence.
  - intros h i e e' e''; rewrite !edge_eqb_shallow; intros [= E1] [= E2]; f_equal.
    apply edge_pair_test_canon in E1, E2; apply edge_pair_test_canon; congruence.
Qed.

Lemma canon_pair_eq_cases e e' :
  canon_pair e = canon_pair e' -> edge_key e' = edge_key e \/ edge_key e' = (edst e, esrc e).
Proof.
  intros H. destruct (canon_pair_cases e) as [E|E], (canon_pair_cases e') as [E'|E'];
    rewrite E, E' in H; unfold edge_key in *.
  - left; congruence.
  - right; inversion H; congruence.
  - right; inversion H; congruence.
  - left; inversion H; congruence.
Qed.

Lemma canon_pair_upair e e' :
  canon_pair e = canon_pair e' -> upair_eqb (edge_key e) (edge_key e') = true.
Proof. intros H; apply upair_eqb_spec; apply canon_pair_eq_cases in H; exact H. Qed.

Lemma canon_pair_nodup l :
  NoDup (map edge_key l) ->
  (forall e, In e l -> ~ In (edst e, esrc e) (map edge_key l)) ->
  NoDup (map canon_pair l).
Proof.
  induction l as [|e l IH]; simpl; intros ND NR; [constructor|].
  inversion ND as [|? ? Hnin ND']; subst. constructor.
  - intros Hin; apply in_map_iff in Hin; destruct Hin as (e' & Ee & He').
    symmetry in Ee; destruct (canon_pair_eq_cases _ _ Ee) as [E|E].
    + apply Hnin; rewrite <- E; apply in_map; exact He'.
    + apply (NR e (or_introl eq_refl)); right; rewrite <- E; apply in_map; exact He'.
  - apply IH; [exact ND'|]. intros e' He' Hin. apply (NR e' (or_intror He')); right; exact Hin.
Qed.

(** * Views *)

Lemma v_node_names_sort g : v_node_names g = sort_names (node_ids g).
Proof.
  unfold v_node_names, nodes_sorted, sort_names, node_ids.
  apply isort_map; intros x y; reflexivity.
Qed.

Lemma nodes_sorted_in g n : In n (nodes_sorted g) <-> In n (gnodes g).
Proof. apply isort_in. Qed.

Lemma v_edges_in g e : In e (v_edges g) <-> In e (gsrc g).
Proof. apply isort_in. Qed.

Lemma v_node_names_in g x : In x (v_node_names g) <-> In x (node_ids g).
Proof. rewrite v_node_names_sort; apply sort_names_in. Qed.

Lemma v_nodes_length g : length (v_nodes g) = length (gnodes g).
Proof. unfold v_nodes, nodes_sorted; rewrite map_length; apply isort_length. Qed.

Lemma v_edges_length g : length (v_edges g) = length (gsrc g).
Proof. apply isort_length. Qed.

Lemma bind_ok A B (r : res A) (f : A -> res B) v :
  bind r f = Ok v -> exists x, r = Ok x /\ f x = Ok v.
Proof. destruct r as [x|x]; simpl; [intros H; exists x; auto|discriminate]. Qed.

Lemma perm_of_incl A B (f : A -> B) l l' :
  NoDup (map f l) -> length l' = length l ->
  (forall x, In x l -> exists x', In x' l' /\ f x = f x') ->
  Permutation (map f l) (map f l').
Proof.
  intros ND L H. apply NoDup_Permutation_bis; [exact ND|rewrite !map_length; lia|].
  intros y Hy; apply in_map_iff in Hy; destruct Hy as (x & <- & Hx).
  destruct (H x Hx) as (x' & Hx' & ->); apply in_map; exact Hx'.
Qed.

Lemma perm_map_in A B (f : A -> B) l l' :
  Permutation (map f l) (map f l') -> forall x, In x l -> exists x', In x' l' /\ f x = f x'.
Proof.
  intros P x Hx. assert (Hy : In (f x) (map f l')) by (eapply Permutation_in; [exact P|apply in_map, Hx]).
  apply in_map_iff in Hy; destruct Hy as (x' & E & Hx'); exists x'; split; [exact Hx'|symmetry; exact E].
Qed.

Definition cnode_leb (a b : name * vtype * meta) : bool := name_leb (fst (fst a)) (fst (fst b)).

Lemma canon_nodes_sorted g :
  map canon_node (nodes_sorted g) = isort cnode_leb (map canon_node (gnodes g)).
Proof. unfold nodes_sorted; apply isort_map; intros x y; reflexivity. Qed.

Lemma isort_cnode_perm l1 l2 :
  NoDup (map (fun a : name * vtype * meta => fst (fst a)) l1) -> Permutation l1 l2 ->
  isort cnode_leb l1 = isort cnode_leb l2.
Proof.
  exact (@isort_perm_eq_key _ _ (fun a : name * vtype * meta => fst (fst a)) name_leb
           name_leb_total name_leb_trans name_leb_antisym l1 l2).
Qed.

Lemma isort_cedge_perm (l1 l2 : list ((name * name) * etype)) :
  NoDup (map fst l1) -> Permutation l1 l2 -> isort cedge_leb l1 = isort cedge_leb l2.
Proof.
  exact (@isort_perm_eq_key _ _ (@fst (name * name) etype) pair_leb
           pair_leb_total pair_leb_trans pair_leb_antisym l1 l2).
Qed.

Lemma isort_dedge_perm (l1 l2 : list (((name * name) * etype) * meta)) :
  NoDup (map (fun a => fst (fst a)) l1) -> Permutation l1 l2 ->
  isort dedge_leb l1 = isort dedge_leb l2.
Proof.
  exact (@isort_perm_eq_key _ _ (fun a : ((name * name) * etype) * meta => fst (fst a)) pair_leb
           pair_leb_total pair_leb_trans pair_leb_antisym l1 l2).
Qed.

(** * The decomposition of [graph_eqb] *)

Definition node_step (k : kind) (deep : bool) (h : graph) (n : node) : res bool :=
  match get_node h (nid n) with None => Err EKey | Some n' => node_eqb k deep n n' end.
Definition edge_step (k : kind) (deep : bool) (g h : graph) (e : edge) : res bool :=
  bind (other_edge h e) (fun e' => edge_eqb k deep g h e e').

Definition tests (g h : graph) : Prop :=
  length (v_nodes g) = length (v_nodes h) /\ length (v_edges g) = length (v_edges h)
  /\ name_set_eqb (v_node_names g) (v_node_names h) = true
  /\ upair_set_eqb (map edge_key (v_edges g)) (map edge_key (v_edges h)) = true.

Lemma graph_eqb_true_iff k deep g h :
  graph_eqb k deep g h = Ok true <->
  tests g h
  /\ all_res (node_step k deep h) (nodes_sorted g) = Ok true
  /\ all_res (edge_step k deep g h) (v_edges g) = Ok true.
Proof.
  unfold graph_eqb, tests. fold (node_step k deep h) (edge_step k deep g h).
  destruct (Nat.eqb_spec (length (v_nodes g)) (length (v_nodes h))) as [L1|L1]; simpl;
    [|split; [discriminate|tauto]].
  destruct (Nat.eqb_spec (length (v_edges g)) (length (v_edges h))) as [L2|L2]; simpl;
    [|split; [discriminate|tauto]].
  destruct (name_set_eqb _ _); simpl; [|split; [discriminate|intros (H & _); decompose [and] H; discriminate]].
  destruct (upair_set_eqb _ _); simpl; [|split; [discriminate|intros (H & _); decompose [and] H; discriminate]].
  destruct (all_res (node_step k deep h) (nodes_sorted g)) as [[|]|x].
  - tauto.
  - split; [discriminate|intros (_ & H & _); discriminate].
  - split; [discriminate|intros (_ & H & _); discriminate].
Qed.

Lemma graph_eqb_total_cond k deep g h :
  (tests g h -> forall n, In n (nodes_sorted g) -> exists b, node_step k deep h n = Ok b) ->
  (tests g h -> forall e, In e (v_edges g) -> exists b, edge_step k deep g h e = Ok b) ->
  exists b, graph_eqb k deep g h = Ok b.
Proof.
  unfold graph_eqb, tests. fold (node_step k deep h) (edge_step k deep g h).
  destruct (Nat.eqb_spec (length (v_nodes g)) (length (v_nodes h))) as [L1|L1]; simpl;
    [|eexists; reflexivity].
  destruct (Nat.eqb_spec (length (v_edges g)) (length (v_edges h))) as [L2|L2]; simpl;
    [|eexists; reflexivity].
  destruct (name_set_eqb _ _); simpl; [|eexists; reflexivity].
  destruct (upair_set_eqb _ _); simpl; [|eexists; reflexivity].
  intros Hn He.
  destruct (all_res_total (node_step k deep h) (nodes_sorted g) (Hn (conj L1 (conj L2 (conj eq_refl eq_refl)))))
    as ([|] & ->); [|eexists; reflexivity].
  apply all_res_total, He; auto.
Qed.

Unset Strict Implicit.

Section Eq.
  Variable parse : name -> option (name * Z).

  (** what the proofs use of the invariant *)
  Record GOK (k : kind) (g : graph) : Prop := {
    ok_nodes : NoDup (node_ids g);
    ok_keys : NoDup (edge_keys g);
    ok_ends : forall e, In e (gsrc g) -> In (esrc e) (node_ids g) /\ In (edst e) (node_ids g);
    ok_norev : forall e, In e (gsrc g) -> ~ In (edst e, esrc e) (edge_keys g);
    ok_tags : k = TS -> forall n, In n (gnodes g) ->
      exists v l, parse (nid n) = Some (v, l)
                  /\ meta_var (nmeta n) = Some v /\ meta_lag (nmeta n) = Some l
  }.

  Lemma Inv_GOK k g : Inv parse k g -> GOK k g.
  Proof.
    intros I; constructor.
    - exact (inv_nodup_nodes I).
    - exact (inv_nodup_keys I).
    - exact (inv_endpoints I).
    - exact (inv_noreverse I).
    - intros Hk n Hn. exact (ts_nodeok (inv_ts I Hk) n Hn).
  Qed.

  Lemma GOK_tagged k g n : GOK k g -> In n (gnodes g) -> tagged k n.
  Proof.
    intros G Hn Hk. destruct (ok_tags G Hk Hn) as (v & l & _ & Hv & Hl); exists v, l; auto.
  Qed.

  Lemma GOK_get_node k g x :
    GOK k g -> In x (node_ids g) -> exists n, get_node g x = Some n /\ In n (gnodes g) /\ nid n = x.
  Proof.
    intros G Hx. destruct (find_node_in _ _ Hx) as (n & F). exists n; split; [exact F|].
    apply find_node_some in F; exact F.
  Qed.

  Lemma GOK_get_node_of k g n : GOK k g -> In n (gnodes g) -> get_node g (nid n) = Some n.
  Proof. intros G Hn; apply find_node_nodup; [exact (ok_nodes G)|exact Hn]. Qed.

  Lemma GOK_same_id_tags k g h a b :
    GOK k g -> GOK k h -> In a (gnodes g) -> In b (gnodes h) -> nid a = nid b -> k = TS ->
    meta_var (nmeta a) = meta_var (nmeta b) /\ meta_lag (nmeta a) = meta_lag (nmeta b).
  Proof.
    intros Gg Gh Ha Hb E Hk.
    destruct (ok_tags Gg Hk Ha) as (v & l & P & -> & ->).
    destruct (ok_tags Gh Hk Hb) as (v' & l' & P' & -> & ->).
    rewrite E in P; rewrite P in P'; inversion P'; auto.
  Qed.

  Lemma other_edge_ok h e e' :
    other_edge h e = Ok e' ->
    In e' (gsrc h) /\ (edge_key e' = edge_key e \/ edge_key e' = (edst e, esrc e)).
  Proof.
    unfold other_edge, edge_at.
    destruct (find_edge (esrc e) (edst e) (gsrc h)) as [x|] eqn:F1.
    - intros [= <-]; apply find_edge_some in F1; destruct F1 as [Hin E]; split; [exact Hin|left; exact E].
    - destruct (find_edge (edst e) (esrc e) (gsrc h)) as [x|] eqn:F2; [|discriminate].
      intros [= <-]; apply find_edge_some in F2; destruct F2 as [Hin E]; split; [exact Hin|right; exact E].
  Qed.

  Lemma other_edge_found k h e e' :
    GOK k h -> In e' (gsrc h) ->
    (edge_key e' = edge_key e \/ edge_key e' = (edst e, esrc e)) -> other_edge h e = Ok e'.
  Proof.
    intros G Hin [E|E]; unfold other_edge, edge_at.
    - assert (E1 : esrc e' = esrc e) by (unfold edge_key in E; congruence).
      assert (E2 : edst e' = edst e) by (unfold edge_key in E; congruence).
      rewrite <- E1, <- E2, (find_edge_nodup _ _ (ok_keys G) Hin); reflexivity.
    - destruct (find_edge (esrc e) (edst e) (gsrc h)) as [x|] eqn:F1.
      + apply find_edge_some in F1; destruct F1 as [Hx Ex]. exfalso.
        apply (ok_norev G Hx).
        assert (E1 : esrc x = esrc e) by (unfold edge_key in Ex; congruence).
        assert (E2 : edst x = edst e) by (unfold edge_key in Ex; congruence).
        rewrite E1, E2, <- E. apply in_map; exact Hin.
      + assert (E1 : esrc e' = edst e) by (unfold edge_key in E; congruence).
        assert (E2 : edst e' = esrc e) by (unfold edge_key in E; congruence).
        rewrite <- E1, <- E2, (find_edge_nodup _ _ (ok_keys G) Hin); reflexivity.
  Qed.

  (** ** Totality *)

  Lemma node_step_total k deep g h n :
    GOK k g -> GOK k h -> tests g h -> In n (nodes_sorted g) ->
    exists b, node_step k deep h n = Ok b.
  Proof.
    intros Gg Gh (_ & _ & Hs & _) Hn. unfold node_step.
    apply nodes_sorted_in in Hn.
    assert (Hx : In (nid n) (node_ids h)).
    { apply v_node_names_in. apply (proj1 (name_set_eqb_spec _ _) Hs).
      apply v_node_names_in. apply in_map; exact Hn. }
    destruct (GOK_get_node Gh Hx) as (n' & -> & Hn' & _).
    apply node_eqb_total; [exact (GOK_tagged Gg Hn)|exact (GOK_tagged Gh Hn')].
  Qed.

  Lemma edge_eqb_total k deep g h e e' :
    GOK k g -> GOK k h -> In e (gsrc g) -> In e' (gsrc h) ->
    exists b, edge_eqb k deep g h e e' = Ok b.
  Proof.
    intros Gg Gh He He'. unfold edge_eqb. destruct deep; [|eexists; reflexivity].
    destruct (ok_ends Gg He) as [Hs Hd]. destruct (ok_ends Gh He') as [Hs' Hd'].
    destruct (GOK_get_node Gg Hs) as (s & -> & Is & _).
    destruct (GOK_get_node Gg Hd) as (d & -> & Id & _).
    destruct (GOK_get_node Gh Hs') as (s' & -> & Is' & _).
    destruct (GOK_get_node Gh Hd') as (d' & -> & Id' & _).
    pose proof (GOK_tagged Gg Is) as Ts. pose proof (GOK_tagged Gg Id) as Td.
    pose proof (GOK_tagged Gh Is') as Ts'. pose proof (GOK_tagged Gh Id') as Td'.
    destruct (@node_eqb_total k true _ _ Ts Ts') as (b1 & ->).
    destruct (@node_eqb_total k true _ _ Td Td') as (b2 & ->).
    destruct (@node_eqb_total k true _ _ Ts Td') as (b3 & E3).
    destruct (@node_eqb_total k true _ _ Td Ts') as (b4 & E4).
    cbn [bind]. destruct (in_dont_care (ety e) && etype_eqb (ety e) (ety e')).
    - destruct b1; cbn [negb bind]; [|rewrite E3; cbn [bind]; destruct b3; cbn [negb];
        [|eexists; reflexivity]];
        (destruct b2; cbn [negb bind]; [|rewrite E4; cbn [bind]; destruct b4; cbn [negb bind]]);
        destruct (py_meta_eqb (emeta e) (emeta e')); cbn [negb]; eexists; reflexivity.
    - cbn [bind]. destruct (negb (negb b1 || negb b2)); cbn [negb]; [|eexists; reflexivity].
      destruct (py_meta_eqb (emeta e) (emeta e')); cbn [negb]; eexists; reflexivity.
  Qed.

  Lemma edge_step_total k deep g h e :
    GOK k g -> GOK k h -> tests g h -> In e (v_edges g) ->
    exists b, edge_step k deep g h e = Ok b.
  Proof.
    intros Gg Gh (_ & _ & _ & Hu) He. unfold edge_step.
    apply upair_set_eqb_spec in Hu; destruct Hu as [Hu _].
    destruct (Hu (edge_key e) (in_map _ _ _ He)) as (q & Hq & U).
    apply in_map_iff in Hq; destruct Hq as (e' & <- & He').
    apply v_edges_in in He, He'. apply upair_eqb_spec in U.
    rewrite (@other_edge_found k h e e' Gh He' U); cbn [bind].
    apply edge_eqb_total; assumption.
  Qed.

  Lemma graph_eqb_total k deep g h : GOK k g -> GOK k h -> exists b, graph_eqb k deep g h = Ok b.
  Proof.
    intros Gg Gh; apply graph_eqb_total_cond; intros T x Hx.
    - exact (node_step_total deep Gg Gh T Hx).
    - exact (edge_step_total deep Gg Gh T Hx).
  Qed.
  (** ** Characterisation by the canonical form (shallow) *)

  Lemma GOK_canon_pair_nodup k g : GOK k g -> NoDup (map canon_pair (gsrc g)).
  Proof.
    intros G; apply canon_pair_nodup; [exact (ok_keys G)|]. intros e He; exact (ok_norev G He).
  Qed.

  Lemma names_eq_of_set k g h :
    GOK k g -> GOK k h -> name_set_eqb (v_node_names g) (v_node_names h) = true ->
    Permutation (node_ids g) (node_ids h).
  Proof.
    intros Gg Gh Hs. apply NoDup_Permutation; [exact (ok_nodes Gg)|exact (ok_nodes Gh)|].
    intros x; rewrite <- !v_node_names_in. apply name_set_eqb_spec; exact Hs.
  Qed.

  (** what the two loops establish, element-wise *)
  Lemma node_loop_elim k deep g h :
    all_res (node_step k deep h) (nodes_sorted g) = Ok true ->
    forall n, In n (gnodes g) ->
      exists n', In n' (gnodes h) /\ nid n' = nid n /\ node_eqb k deep n n' = Ok true.
  Proof.
    intros H n Hn. apply nodes_sorted_in in Hn.
    pose proof (proj1 (all_res_true _ _) H n Hn) as S. unfold node_step in S.
    destruct (get_node h (nid n)) as [n'|] eqn:F; [|discriminate].
    apply find_node_some in F; destruct F as [Hin E]. exists n'; auto.
  Qed.

  Lemma edge_loop_elim k deep g h :
    all_res (edge_step k deep g h) (v_edges g) = Ok true ->
    forall e, In e (gsrc g) ->
      exists e', In e' (gsrc h) /\ edge_eqb k deep g h e e' = Ok true.
  Proof.
    intros H e He. apply v_edges_in in He.
    pose proof (proj1 (all_res_true _ _) H e He) as S. unfold edge_step in S.
    apply bind_ok in S; destruct S as (e' & O & S).
    apply other_edge_ok in O; destruct O as [Hin _]. exists e'; auto.
  Qed.

  Lemma graph_eq_canon_fwd k g h :
    GOK k g -> GOK k h -> graph_eqb k false g h = Ok true -> canon g = canon h.
  Proof.
    intros Gg Gh H. apply graph_eqb_true_iff in H.
    destruct H as ((L1 & L2 & Hs & Hu) & Hn & He). unfold canon; f_equal.
    - rewrite !v_node_names_sort. apply sort_names_perm_eq. eapply names_eq_of_set; eauto.
    - apply isort_cedge_perm.
      + rewrite map_map; simpl. exact (GOK_canon_pair_nodup Gg).
      + apply perm_of_incl.
        * apply (NoDup_map_inv fst). rewrite map_map; simpl. exact (GOK_canon_pair_nodup Gg).
        * rewrite !v_edges_length in L2; lia.
        * intros e Hin. destruct (edge_loop_elim He Hin) as (e' & Hin' & E).
          exists e'; split; [exact Hin'|]. rewrite edge_eqb_shallow in E.
          apply edge_pair_test_canon; congruence.
  Qed.

  Lemma canon_edges_perm g h :
    snd (canon g) = snd (canon h) ->
    Permutation (map canon_edge (gsrc g)) (map canon_edge (gsrc h)).
  Proof.
    unfold canon; simpl; intros E.
    rewrite (isort_perm cedge_leb (map canon_edge (gsrc g))), E. symmetry; apply isort_perm.
  Qed.

  Lemma tests_of_corr g h :
    v_node_names g = v_node_names h -> length (gsrc g) = length (gsrc h) ->
    (forall e, In e (gsrc g) -> exists e', In e' (gsrc h) /\ canon_pair e = canon_pair e') ->
    (forall e, In e (gsrc h) -> exists e', In e' (gsrc g) /\ canon_pair e = canon_pair e') ->
    tests g h.
  Proof.
    intros En Le C1 C2; unfold tests; repeat split.
    - unfold v_nodes; rewrite !map_length.
      apply (f_equal (@length _)) in En; unfold v_node_names in En; rewrite !map_length in En; exact En.
    - rewrite !v_edges_length; exact Le.
    - rewrite En; apply name_set_eqb_refl.
    - apply upair_set_eqb_spec; split; intros p Hp; apply in_map_iff in Hp;
        destruct Hp as (e & <- & He); apply v_edges_in in He.
      + destruct (C1 e He) as (e' & He' & E). exists (edge_key e'); split.
        * apply in_map, v_edges_in; exact He'.
        * apply canon_pair_upair; exact E.
      + destruct (C2 e He) as (e' & He' & E). exists (edge_key e'); split.
        * apply in_map, v_edges_in; exact He'.
        * apply canon_pair_upair; exact E.
  Qed.

  Lemma node_shallow_same_id k g h a b :
    GOK k g -> GOK k h -> In a (gnodes g) -> In b (gnodes h) -> nid a = nid b ->
    node_eqb k false a b = Ok true.
  Proof.
    intros Gg Gh Ha Hb E. apply node_eqb_key_true; [exact (GOK_tagged Gg Ha)|].
    unfold node_fullkey, node_key; rewrite E. destruct k; [reflexivity|].
    destruct (GOK_same_id_tags Gg Gh Ha Hb E eq_refl) as [-> ->]; reflexivity.
  Qed.

  Lemma graph_eq_canon_bwd k g h :
    GOK k g -> GOK k h -> canon g = canon h -> graph_eqb k false g h = Ok true.
  Proof.
    intros Gg Gh E. pose proof (f_equal fst E) as En; pose proof (f_equal snd E) as Ee.
    simpl in En. apply canon_edges_perm in Ee.
    assert (C1 : forall e, In e (gsrc g) -> exists e', In e' (gsrc h) /\ canon_edge e = canon_edge e')
      by (apply perm_map_in; exact Ee).
    assert (C2 : forall e, In e (gsrc h) -> exists e', In e' (gsrc g) /\ canon_edge e = canon_edge e')
      by (apply perm_map_in; symmetry; exact Ee).
    apply graph_eqb_true_iff; split; [|split].
    - apply tests_of_corr; [exact En| | |].
      + apply Permutation_length in Ee; rewrite !map_length in Ee; exact Ee.
      + intros e He; destruct (C1 e He) as (e' & He' & X); exists e'; split; [exact He'|].
        exact (f_equal fst X).
      + intros e He; destruct (C2 e He) as (e' & He' & X); exists e'; split; [exact He'|].
        exact (f_equal fst X).
    - apply all_res_true; intros n Hn. apply nodes_sorted_in in Hn. unfold node_step.
      assert (Hx : In (nid n) (node_ids h)).
      { apply v_node_names_in; rewrite <- En; apply v_node_names_in, in_map; exact Hn. }
      destruct (GOK_get_node Gh Hx) as (n' & -> & Hn' & En').
      apply (node_shallow_same_id Gg Gh Hn Hn'); symmetry; exact En'.
    - apply all_res_true; intros e He. apply v_edges_in in He. unfold edge_step.
      destruct (C1 e He) as (e' & He' & X).
      rewrite (@other_edge_found k h e e' Gh He' (canon_pair_eq_cases e e' (f_equal fst X))); cbn [bind].
      rewrite edge_eqb_shallow; f_equal. apply edge_pair_test_canon; exact X.
  Qed.

  Theorem graph_eq_char_ok k g h :
    GOK k g -> GOK k h -> (graph_eqb k false g h = Ok true <-> canon g = canon h).
  Proof.
    intros Gg Gh; split; [apply graph_eq_canon_fwd|apply graph_eq_canon_bwd]; assumption.
  Qed.
  (** ** Characterisation by the canonical form (deep) *)

  Lemma edge_eqb_deep_true k g h e e' :
    edge_eqb k true g h e e' = Ok true ->
    edge_pair_test e e' = true /\ py_meta_eqb (emeta e) (emeta e') = true.
  Proof.
    unfold edge_eqb.
    destruct (get_node g (esrc e)) as [s|]; [|discriminate].
    destruct (get_node g (edst e)) as [d|]; [|discriminate].
    destruct (get_node h (esrc e')) as [s'|]; [|discriminate].
    destruct (get_node h (edst e')) as [d'|]; [|discriminate].
    intros H. apply bind_ok in H; destruct H as (b1 & _ & H).
    apply bind_ok in H; destruct H as (b2 & _ & H).
    apply bind_ok in H; destruct H as (ok & _ & H).
    destruct ok; cbn [negb] in H; [|discriminate].
    destruct (py_meta_eqb (emeta e) (emeta e')); cbn [negb] in H; [|discriminate].
    injection H as H; auto.
  Qed.

  Lemma deep_eq_canon_fwd k g h :
    GOK k g -> GOK k h -> graph_eqb k true g h = Ok true -> canon_deep g = canon_deep h.
  Proof.
    intros Gg Gh H. apply graph_eqb_true_iff in H.
    destruct H as ((L1 & L2 & Hs & Hu) & Hn & He). unfold canon_deep; f_equal.
    - rewrite !canon_nodes_sorted. apply isort_cnode_perm.
      + rewrite map_map; simpl. exact (ok_nodes Gg).
      + apply perm_of_incl.
        * apply (NoDup_map_inv (fun a : name * vtype * meta => fst (fst a))).
          rewrite map_map; simpl. exact (ok_nodes Gg).
        * rewrite !v_nodes_length in L1; lia.
        * intros n Hin. destruct (node_loop_elim Hn Hin) as (n' & Hin' & _ & E).
          exists n'; split; [exact Hin'|].
          apply node_eqb_true_key in E. apply (f_equal fst) in E; simpl in E.
          apply node_eqb_deep_canon, node_eqb_base_key; exact E.
    - apply isort_dedge_perm.
      + rewrite map_map; simpl. exact (GOK_canon_pair_nodup Gg).
      + apply perm_of_incl.
        * apply (NoDup_map_inv (fun a : ((name * name) * etype) * meta => fst (fst a))).
          rewrite map_map; simpl. exact (GOK_canon_pair_nodup Gg).
        * rewrite !v_edges_length in L2; lia.
        * intros e Hin. destruct (edge_loop_elim He Hin) as (e' & Hin' & E).
          exists e'; split; [exact Hin'|].
          apply edge_eqb_deep_true in E; destruct E as [E1 E2]. unfold canon_dedge; f_equal.
          -- apply edge_pair_test_canon; exact E1.
          -- apply py_meta_eqb_eq; exact E2.
  Qed.

  Lemma cross_node_deep k g h x a b :
    GOK k g -> GOK k h -> map canon_node (nodes_sorted g) = map canon_node (nodes_sorted h) ->
    get_node g x = Some a -> get_node h x = Some b -> node_eqb k true a b = Ok true.
  Proof.
    intros Gg Gh E Fa Fb. apply find_node_some in Fa, Fb. destruct Fa as [Ha Ea], Fb as [Hb Eb].
    assert (Hc : In (canon_node a) (map canon_node (nodes_sorted h))).
    { rewrite <- E; apply in_map, nodes_sorted_in; exact Ha. }
    apply in_map_iff in Hc; destruct Hc as (b' & Ec & Hb'). apply nodes_sorted_in in Hb'.
    assert (Eid : nid b' = nid a) by exact (f_equal (fun c : name * vtype * meta => fst (fst c)) Ec).
    assert (Ebb : b' = b).
    { pose proof (GOK_get_node_of Gh Hb') as F1. pose proof (GOK_get_node_of Gh Hb) as F2.
      rewrite Eid, Ea, <- Eb in F1. congruence. }
    subst b'. apply node_eqb_key_true; [exact (GOK_tagged Gg Ha)|].
    unfold node_fullkey; f_equal.
    - apply node_eqb_base_key, node_eqb_deep_canon; symmetry; exact Ec.
    - destruct k; [reflexivity|].
      destruct (GOK_same_id_tags Gg Gh Ha Hb (eq_sym Eid) eq_refl) as [-> ->]; reflexivity.
  Qed.

  Lemma edge_eqb_deep_intro k g h e e' :
    GOK k g -> GOK k h ->
    (forall x a b, get_node g x = Some a -> get_node h x = Some b -> node_eqb k true a b = Ok true) ->
    In e (gsrc g) -> In e' (gsrc h) -> canon_dedge e = canon_dedge e' ->
    edge_eqb k true g h e e' = Ok true.
  Proof.
    intros Gg Gh Hx He He' Ec.
    assert (Ece : canon_edge e = canon_edge e') by exact (f_equal fst Ec).
    assert (Em : py_meta_eqb (emeta e) (emeta e') = true)
      by (apply py_meta_eqb_eq; exact (f_equal snd Ec)).
    assert (Et : ety e = ety e') by exact (f_equal snd Ece).
    pose proof (proj2 (edge_pair_test_canon e e') Ece) as Ep.
    assert (Hcase : edge_key e' = edge_key e
                    \/ (edge_key e' = (edst e, esrc e) /\ esrc e <> edst e)).
    { destruct (canon_pair_eq_cases e e' (f_equal fst Ece)) as [K|K]; [left; exact K|].
      destruct (name_eq_dec (esrc e) (edst e)) as [E|Hn]; [left|right; auto].
      rewrite K; unfold edge_key; rewrite E; reflexivity. }
    unfold edge_eqb.
    destruct (ok_ends Gg He) as [Hs Hd]. destruct (ok_ends Gh He') as [Hs' Hd'].
    destruct (GOK_get_node Gg Hs) as (s & Fs & Is & Es).
    destruct (GOK_get_node Gg Hd) as (d & Fd & Id & Ed).
    destruct (GOK_get_node Gh Hs') as (s' & Fs' & Is' & Es').
    destruct (GOK_get_node Gh Hd') as (d' & Fd' & Id' & Ed').
    rewrite Fs, Fd, Fs', Fd'.
    destruct Hcase as [K|[K Hne]].
    - assert (K1 : esrc e' = esrc e) by (unfold edge_key in K; congruence).
      assert (K2 : edst e' = edst e) by (unfold edge_key in K; congruence).
      rewrite K1 in Fs'; rewrite K2 in Fd'.
      rewrite (Hx _ _ _ Fs Fs'), (Hx _ _ _ Fd Fd'). cbn [bind negb].
      destruct (in_dont_care (ety e) && etype_eqb (ety e) (ety e')); cbn [bind negb orb];
        rewrite Em, Ep; reflexivity.
    - assert (K1 : esrc e' = edst e) by (unfold edge_key in K; congruence).
      assert (K2 : edst e' = esrc e) by (unfold edge_key in K; congruence).
      assert (N1 : node_eqb k true s s' = Ok false) by (apply node_eqb_diff_id; congruence).
      assert (N2 : node_eqb k true d d' = Ok false) by (apply node_eqb_diff_id; congruence).
      rewrite K1 in Fs'; rewrite K2 in Fd'.
      rewrite N1, N2, (Hx _ _ _ Fs Fd'), (Hx _ _ _ Fd Fs').
      assert (Dc : in_dont_care (ety e) = true).
      { destruct (in_dont_care (ety e)) eqn:Dc; [reflexivity|]. exfalso; apply Hne.
        pose proof (f_equal fst Ece) as P; unfold canon_edge, canon_pair in P; simpl in P.
        rewrite <- Et, Dc in P; simpl in P.
        assert (P' : edge_key e = edge_key e') by exact P.
        rewrite K in P'; unfold edge_key in P'; congruence. }
      rewrite Dc, <- Et, eq_etype_eqb_refl. cbn [bind negb andb]. rewrite Em, Ep; reflexivity.
  Qed.

  Lemma deep_eq_canon_bwd k g h :
    GOK k g -> GOK k h -> canon_deep g = canon_deep h -> graph_eqb k true g h = Ok true.
  Proof.
    intros Gg Gh E. pose proof (f_equal fst E) as En; pose proof (f_equal snd E) as Ee.
    simpl in En, Ee.
    assert (Pe : Permutation (map canon_dedge (gsrc g)) (map canon_dedge (gsrc h))).
    { rewrite (isort_perm dedge_leb (map canon_dedge (gsrc g))), Ee. symmetry; apply isort_perm. }
    assert (C1 : forall e, In e (gsrc g) -> exists e', In e' (gsrc h) /\ canon_dedge e = canon_dedge e')
      by (apply perm_map_in; exact Pe).
    assert (C2 : forall e, In e (gsrc h) -> exists e', In e' (gsrc g) /\ canon_dedge e = canon_dedge e')
      by (apply perm_map_in; symmetry; exact Pe).
    assert (Enames : v_node_names g = v_node_names h).
    { unfold v_node_names.
      assert (M : forall l, map nid l = map (fun c : name * vtype * meta => fst (fst c)) (map canon_node l))
        by (intros l; rewrite map_map; reflexivity).
      rewrite !M, En; reflexivity. }
    apply graph_eqb_true_iff; split; [|split].
    - apply tests_of_corr; [exact Enames| | |].
      + apply Permutation_length in Pe; rewrite !map_length in Pe; exact Pe.
      + intros e He; destruct (C1 e He) as (e' & He' & X); exists e'; split; [exact He'|].
        exact (f_equal (fun c : ((name * name) * etype) * meta => fst (fst c)) X).
      + intros e He; destruct (C2 e He) as (e' & He' & X); exists e'; split; [exact He'|].
        exact (f_equal (fun c : ((name * name) * etype) * meta => fst (fst c)) X).
    - apply all_res_true; intros n Hn. apply nodes_sorted_in in Hn. unfold node_step.
      assert (Hin : In (nid n) (node_ids h)).
      { apply v_node_names_in; rewrite <- Enames; apply v_node_names_in, in_map; exact Hn. }
      destruct (GOK_get_node Gh Hin) as (n' & Fn' & Hn' & En').
      rewrite Fn'. apply (cross_node_deep Gg Gh En (GOK_get_node_of Gg Hn) Fn').
    - apply all_res_true; intros e He. apply v_edges_in in He. unfold edge_step.
      destruct (C1 e He) as (e' & He' & X).
      rewrite (@other_edge_found k h e e' Gh He'
                 (canon_pair_eq_cases e e'
                    (f_equal (fun c : ((name * name) * etype) * meta => fst (fst c)) X))); cbn [bind].
      apply edge_eqb_deep_intro; try assumption.
      intros x a b; apply (cross_node_deep Gg Gh En).
  Qed.

  Theorem deep_eq_char_ok k g h :
    GOK k g -> GOK k h -> (graph_eqb k true g h = Ok true <-> canon_deep g = canon_deep h).
  Proof.
    intros Gg Gh; split; [apply deep_eq_canon_fwd|apply deep_eq_canon_bwd]; assumption.
  Qed.

  Lemma canon_deep_shallow g h : canon_deep g = canon_deep h -> canon g = canon h.
  Proof.
    intros E. pose proof (f_equal fst E) as En; pose proof (f_equal snd E) as Ee.
    simpl in En, Ee. unfold canon; f_equal.
    - unfold v_node_names.
      assert (M : forall l, map nid l = map (fun c : name * vtype * meta => fst (fst c)) (map canon_node l))
        by (intros l; rewrite map_map; reflexivity).
      rewrite !M, En; reflexivity.
    - assert (M : forall l, isort cedge_leb (map canon_edge l)
                            = map fst (isort dedge_leb (map canon_dedge l))).
      { intros l. rewrite (isort_map (@fst _ _) dedge_leb cedge_leb) by reflexivity.
        rewrite map_map; reflexivity. }
      rewrite !M, Ee; reflexivity.
  Qed.
  (** ** Construction-order independence of the canonical forms *)

  Lemma canon_perm g g' :
    Permutation (node_ids g) (node_ids g') -> Permutation (gsrc g) (gsrc g') ->
    NoDup (map canon_pair (gsrc g)) -> canon g = canon g'.
  Proof.
    intros Pn Pe ND; unfold canon; f_equal.
    - rewrite !v_node_names_sort; apply sort_names_perm_eq; exact Pn.
    - apply isort_cedge_perm; [rewrite map_map; exact ND|apply Permutation_map; exact Pe].
  Qed.

  Lemma canon_deep_perm g g' :
    Permutation (map canon_node (gnodes g)) (map canon_node (gnodes g')) -> NoDup (node_ids g) ->
    Permutation (gsrc g) (gsrc g') -> NoDup (map canon_pair (gsrc g)) ->
    canon_deep g = canon_deep g'.
  Proof.
    intros Pn NDn Pe ND; unfold canon_deep; f_equal.
    - rewrite !canon_nodes_sorted. apply isort_cnode_perm; [rewrite map_map; exact NDn|exact Pn].
    - apply isort_dedge_perm; [rewrite map_map; exact ND|apply Permutation_map; exact Pe].
  Qed.

  Lemma equiv_canon_nodes g g' :
    Forall2 node_equiv (gnodes g) (gnodes g') ->
    map canon_node (gnodes g) = map canon_node (gnodes g').
  Proof.
    induction 1 as [|a b l l' (E1 & E2 & E3 & _) _ IH]; simpl; [reflexivity|].
    rewrite IH; unfold canon_node; rewrite E1, E2, E3; reflexivity.
  Qed.

  Lemma equiv_canon k g g' :
    GOK k g -> equiv g g' -> canon g = canon g' /\ canon_deep g = canon_deep g'.
  Proof.
    intros G (Hn & Pe & _). pose proof (equiv_canon_nodes Hn) as En. split.
    - apply canon_perm; [|exact Pe|exact (GOK_canon_pair_nodup G)].
      unfold node_ids.
      assert (M : forall l, map nid l = map (fun c : name * vtype * meta => fst (fst c)) (map canon_node l))
        by (intros l; rewrite map_map; reflexivity).
      rewrite !M, En; reflexivity.
    - apply canon_deep_perm; [rewrite En; reflexivity|exact (ok_nodes G)|exact Pe|
                              exact (GOK_canon_pair_nodup G)].
  Qed.

  (** ** The theorems of C07 for graphs, stated on the invariant *)

  Lemma res_bool_eq (r r' : res bool) :
    (exists b, r = Ok b) -> (exists b, r' = Ok b) -> (r = Ok true <-> r' = Ok true) -> r = r'.
  Proof.
    intros ([|] & ->) ([|] & ->) H; try reflexivity.
    - pose proof (proj1 H eq_refl) as X; discriminate X.
    - pose proof (proj2 H eq_refl) as X; discriminate X.
  Qed.

  (** 1. never raises *)
  Theorem graph_eq_never_raises k g h :
    Inv parse k g -> Inv parse k h -> exists b, graph_eqb k false g h = Ok b.
  Proof. intros Ig Ih; apply graph_eqb_total; apply Inv_GOK; assumption. Qed.

  Theorem deep_eq_never_raises k g h :
    Inv parse k g -> Inv parse k h -> exists b, graph_eqb k true g h = Ok b.
  Proof. intros Ig Ih; apply graph_eqb_total; apply Inv_GOK; assumption. Qed.

  (** 2. characterisation *)
  Theorem graph_eq_char k g h :
    Inv parse k g -> Inv parse k h -> (graph_eqb k false g h = Ok true <-> canon g = canon h).
  Proof. intros Ig Ih; apply graph_eq_char_ok; apply Inv_GOK; assumption. Qed.

  Theorem deep_eq_char k g h :
    Inv parse k g -> Inv parse k h -> (graph_eqb k true g h = Ok true <-> canon_deep g = canon_deep h).
  Proof. intros Ig Ih; apply deep_eq_char_ok; apply Inv_GOK; assumption. Qed.

  (** 3. equivalence relation, [!=], deep => shallow, order independence *)
  Theorem graph_eq_refl k d g : Inv parse k g -> graph_eqb k d g g = Ok true.
  Proof.
    intros I; destruct d; [apply deep_eq_char|apply graph_eq_char]; auto.
  Qed.

  Theorem graph_eq_sym k d g h :
    Inv parse k g -> Inv parse k h -> graph_eqb k d g h = graph_eqb k d h g.
  Proof.
    intros Ig Ih. pose proof (Inv_GOK Ig) as Gg; pose proof (Inv_GOK Ih) as Gh.
    apply res_bool_eq; try (apply graph_eqb_total; assumption).
    destruct d.
    - rewrite (deep_eq_char Ig Ih), (deep_eq_char Ih Ig); split; congruence.
    - rewrite (graph_eq_char Ig Ih), (graph_eq_char Ih Ig); split; congruence.
  Qed.

  Theorem graph_eq_trans k d g h i :
    Inv parse k g -> Inv parse k h -> Inv parse k i ->
    graph_eqb k d g h = Ok true -> graph_eqb k d h i = Ok true -> graph_eqb k d g i = Ok true.
  Proof.
    intros Ig Ih Ii; destruct d.
    - rewrite (deep_eq_char Ig Ih), (deep_eq_char Ih Ii), (deep_eq_char Ig Ii); congruence.
    - rewrite (graph_eq_char Ig Ih), (graph_eq_char Ih Ii), (graph_eq_char Ig Ii); congruence.
  Qed.

  Theorem graph_ne_negb k g h :
    Inv parse k g -> Inv parse k h ->
    exists b, graph_eqb k false g h = Ok b /\ graph_neb k g h = Ok (negb b).
  Proof.
    intros Ig Ih; destruct (graph_eq_never_raises Ig Ih) as (b & E); exists b; split; [exact E|].
    unfold graph_neb; rewrite E; reflexivity.
  Qed.

  Theorem deep_implies_shallow k g h :
    Inv parse k g -> Inv parse k h ->
    graph_eqb k true g h = Ok true -> graph_eqb k false g h = Ok true.
  Proof.
    intros Ig Ih; rewrite (deep_eq_char Ig Ih), (graph_eq_char Ig Ih); apply canon_deep_shallow.
  Qed.

  (** the answer does not depend on the insertion order of nodes and edges *)
  Theorem canon_order_independent k g g' :
    Inv parse k g ->
    Permutation (map canon_node (gnodes g)) (map canon_node (gnodes g')) ->
    Permutation (gsrc g) (gsrc g') ->
    canon g = canon g' /\ canon_deep g = canon_deep g'.
  Proof.
    intros I Pn Pe. pose proof (Inv_GOK I) as G.
    assert (D : canon_deep g = canon_deep g').
    { apply canon_deep_perm; [exact Pn|exact (ok_nodes G)|exact Pe|exact (GOK_canon_pair_nodup G)]. }
    split; [apply canon_deep_shallow; exact D|exact D].
  Qed.

  Theorem graph_eq_order_independent k d g g' h :
    Inv parse k g -> Inv parse k g' -> Inv parse k h -> equiv g g' ->
    graph_eqb k d g h = graph_eqb k d g' h /\ graph_eqb k d h g = graph_eqb k d h g'.
  Proof.
    intros Ig Ig' Ih Q. pose proof (Inv_GOK Ig) as Gg; pose proof (Inv_GOK Ig') as Gg'.
    pose proof (Inv_GOK Ih) as Gh. destruct (equiv_canon Gg Q) as [C D].
    split; apply res_bool_eq; try (apply graph_eqb_total; assumption); destruct d.
    - rewrite (deep_eq_char Ig Ih), (deep_eq_char Ig' Ih), D; tauto.
    - rewrite (graph_eq_char Ig Ih), (graph_eq_char Ig' Ih), C; tauto.
    - rewrite (deep_eq_char Ih Ig), (deep_eq_char Ih Ig'), D; tauto.
    - rewrite (graph_eq_char Ih Ig), (graph_eq_char Ih Ig'), C; tauto.
  Qed.
  (** * Skeleton comparison: reduction to graph comparison of the undirected copies *)

  Definition skel (g : graph) : graph :=
    {| gnodes := gnodes g; gsrc := map und (gsrc g); gdst := map und (gdst g);
       gmeta := gmeta g; glag := glag g; gvar := gvar g |}.

  Lemma skel_keys g : edge_keys (skel g) = edge_keys g.
  Proof. unfold edge_keys, skel; simpl. rewrite map_map; reflexivity. Qed.

  Lemma GOK_skel k g : GOK k g -> GOK k (skel g).
  Proof.
    intros G; constructor.
    - exact (ok_nodes G).
    - rewrite skel_keys; exact (ok_keys G).
    - intros e He; simpl in He; apply in_map_iff in He; destruct He as (e0 & <- & He0).
      exact (ok_ends G He0).
    - intros e He; simpl in He; apply in_map_iff in He; destruct He as (e0 & <- & He0).
      rewrite skel_keys; exact (ok_norev G He0).
    - exact (ok_tags G).
  Qed.

  Lemma sk_edges_skel g : sk_edges g = v_edges (skel g).
  Proof.
    unfold sk_edges, v_edges, sorted_edges, skel; simpl.
    apply isort_map; intros x y; reflexivity.
  Qed.

  Lemma filter_none A (p : A -> bool) l : (forall y, In y l -> p y = false) -> filter p l = [].
  Proof.
    induction l as [|a l IH]; simpl; intros H; [reflexivity|].
    rewrite (H a (or_introl eq_refl)); apply IH; intros y Hy; apply H; right; exact Hy.
  Qed.

  Lemma filter_unique A (p : A -> bool) l x :
    NoDup l -> In x l -> p x = true -> (forall y, In y l -> p y = true -> y = x) ->
    filter p l = [x].
  Proof.
    induction l as [|a l IH]; simpl; intros ND Hx Px U; [contradiction|].
    inversion ND as [|? ? Hnin ND']; subst.
    destruct (p a) eqn:Pa.
    - assert (a = x) by (apply U; auto). subst a. f_equal.
      apply filter_none; intros y Hy. destruct (p y) eqn:Py; [|reflexivity].
      exfalso; apply Hnin. rewrite <- (U y (or_intror Hy) Py); exact Hy.
    - destruct Hx as [->|Hx]; [congruence|].
      apply IH; auto.
  Qed.

  Lemma nodup_map_inj A B (f : A -> B) l x y :
    NoDup (map f l) -> In x l -> In y l -> f x = f y -> x = y.
  Proof.
    induction l as [|a l IH]; simpl; intros ND Hx Hy E; [contradiction|].
    inversion ND as [|? ? Hnin ND']; subst.
    destruct Hx as [->|Hx], Hy as [->|Hy]; auto.
    - exfalso; apply Hnin; rewrite E; apply in_map; exact Hy.
    - exfalso; apply Hnin; rewrite <- E; apply in_map; exact Hx.
  Qed.

  Lemma sk_get_node_spec k h id :
    GOK k h ->
    sk_get_node h id = match get_node h id with Some n => Ok n | None => Err EAssert end.
  Proof.
    intros G; unfold sk_get_node.
    assert (NDs : NoDup (map nid (nodes_sorted h))).
    { eapply Permutation_NoDup; [|exact (ok_nodes G)]. apply Permutation_map, isort_perm. }
    destruct (get_node h id) as [n|] eqn:F.
    - apply find_node_some in F; destruct F as [Hin E].
      rewrite (@filter_unique _ (fun n0 => name_eqb (nid n0) id) (nodes_sorted h) n); auto.
      + exact (NoDup_map_inv _ _ NDs).
      + apply nodes_sorted_in; exact Hin.
      + apply name_eqb_eq; exact E.
      + intros y Hy Py; apply name_eqb_eq in Py.
        apply (nodup_map_inj NDs Hy); [apply nodes_sorted_in; exact Hin|congruence].
    - apply find_node_none in F. rewrite filter_none; [reflexivity|].
      intros y Hy. apply name_eqb_neq; intros E; apply F. rewrite <- E.
      apply in_map, nodes_sorted_in; exact Hy.
  Qed.

  Definition sk_match (s d : name) (e : edge) : bool :=
    pair_eqb (edge_key e) (s, d) || pair_eqb (edge_key e) (d, s).

  Lemma sk_get_edge_found k h s d e' :
    GOK k h -> In e' (gsrc h) -> (edge_key e' = (s, d) \/ edge_key e' = (d, s)) ->
    sk_get_edge h s d = Ok (und e').
  Proof.
    intros G Hin K; unfold sk_get_edge. fold (sk_match s d).
    pose proof (GOK_skel G) as Gs.
    assert (NDk : NoDup (map edge_key (sk_edges h))).
    { rewrite sk_edges_skel. eapply Permutation_NoDup; [|exact (ok_keys Gs)].
      apply Permutation_map, isort_perm. }
    assert (Hin' : In (und e') (sk_edges h)).
    { rewrite sk_edges_skel; apply v_edges_in; simpl; apply in_map; exact Hin. }
    rewrite (@filter_unique _ (sk_match s d) (sk_edges h) (und e')); auto.
    - exact (NoDup_map_inv _ _ NDk).
    - unfold sk_match. change (edge_key (und e')) with (edge_key e').
      destruct K as [-> | ->]; rewrite pair_eqb_refl; [reflexivity|apply orb_true_r].
    - intros y Hy Py. apply (nodup_map_inj NDk Hy Hin').
      change (edge_key (und e')) with (edge_key e').
      unfold sk_match in Py; apply orb_true_iff in Py; rewrite !pair_eqb_eq in Py.
      rewrite sk_edges_skel in Hy; apply v_edges_in in Hy.
      destruct Py as [Py|Py], K as [K|K]; try congruence; exfalso.
      + apply (ok_norev Gs Hy). rewrite skel_keys.
        assert (E1 : esrc y = s) by (unfold edge_key in Py; congruence).
        assert (E2 : edst y = d) by (unfold edge_key in Py; congruence).
        rewrite E1, E2, <- K. apply in_map; exact Hin.
      + apply (ok_norev Gs Hy). rewrite skel_keys.
        assert (E1 : esrc y = d) by (unfold edge_key in Py; congruence).
        assert (E2 : edst y = s) by (unfold edge_key in Py; congruence).
        rewrite E1, E2, <- K. apply in_map; exact Hin.
  Qed.

  Lemma sk_get_edge_none h s d :
    ~ In (s, d) (edge_keys h) -> ~ In (d, s) (edge_keys h) -> sk_get_edge h s d = Err EAssert.
  Proof.
    intros N1 N2; unfold sk_get_edge. rewrite filter_none; [reflexivity|].
    intros y Hy. rewrite sk_edges_skel in Hy; apply v_edges_in in Hy; simpl in Hy.
    apply in_map_iff in Hy; destruct Hy as (e0 & <- & He0).
    change (edge_key (und e0)) with (edge_key e0).
    apply orb_false_iff; split; apply not_true_is_false; rewrite pair_eqb_eq; intros E.
    - apply N1; rewrite <- E; apply in_map; exact He0.
    - apply N2; rewrite <- E; apply in_map; exact He0.
  Qed.

  (** the two error classes differ (AssertionError vs KeyError / EdgeDoesNotExistError), the
      boolean answers do not *)
  Definition res_sim (r r' : res bool) : Prop :=
    match r, r' with Ok b, Ok b' => b = b' | Err _, Err _ => True | _, _ => False end.

  Lemma res_sim_refl r : res_sim r r.
  Proof. destruct r; simpl; auto. Qed.

  Lemma all_res_sim A (f f' : A -> res bool) l :
    (forall x, In x l -> res_sim (f x) (f' x)) -> res_sim (all_res f l) (all_res f' l).
  Proof.
    induction l as [|a l IH]; simpl; intros H; [reflexivity|].
    pose proof (H a (or_introl eq_refl)) as Ha.
    destruct (f a) as [[|]|x], (f' a) as [[|]|x']; simpl in Ha; try discriminate; try contradiction;
      simpl; auto.
  Qed.

  Lemma sk_edge_lookup_sim k h e :
    GOK k h ->
    match other_edge (skel h) e with
    | Ok x => sk_get_edge h (esrc e) (edst e) = Ok x
    | Err _ => sk_get_edge h (esrc e) (edst e) = Err EAssert
               /\ sk_get_edge h (edst e) (esrc e) = Err EAssert
    end.
  Proof.
    intros G. destruct (other_edge (skel h) e) as [x|err] eqn:O.
    - apply other_edge_ok in O; destruct O as [Hin K]. simpl in Hin.
      apply in_map_iff in Hin; destruct Hin as (e0 & <- & He0).
      change (edge_key (und e0)) with (edge_key e0) in K.
      apply (sk_get_edge_found G He0). exact K.
    - unfold other_edge, edge_at in O.
      destruct (find_edge (esrc e) (edst e) (gsrc (skel h))) eqn:F1; [discriminate|].
      destruct (find_edge (edst e) (esrc e) (gsrc (skel h))) eqn:F2; [discriminate|].
      apply find_edge_none in F1, F2. fold (edge_keys (skel h)) in F1, F2.
      rewrite skel_keys in F1, F2. split; apply sk_get_edge_none; assumption.
  Qed.

  Lemma skeleton_graph_sim k deep g h :
    GOK k g -> GOK k h ->
    res_sim (skeleton_eqb k deep g h) (graph_eqb k deep (skel g) (skel h)).
  Proof.
    intros Gg Gh. unfold skeleton_eqb, graph_eqb.
    rewrite !sk_edges_skel. unfold v_nodes; rewrite !map_length.
    change (nodes_sorted (skel g)) with (nodes_sorted g).
    change (nodes_sorted (skel h)) with (nodes_sorted h).
    change (v_node_names (skel g)) with (v_node_names g).
    change (v_node_names (skel h)) with (v_node_names h).
    destruct (_ || _); [reflexivity|].
    destruct (negb (name_set_eqb _ _)); [reflexivity|].
    destruct (negb (upair_set_eqb _ _)); [reflexivity|].
    assert (S1 : res_sim
                   (all_res (fun n => bind (sk_get_node h (nid n)) (fun n' => node_eqb k deep n n'))
                      (nodes_sorted g))
                   (all_res (fun n => match get_node (skel h) (nid n) with
                                      | None => Err EKey
                                      | Some n' => node_eqb k deep n n'
                                      end) (nodes_sorted g))).
    { apply all_res_sim; intros n _. rewrite (sk_get_node_spec (nid n) Gh).
      change (get_node (skel h) (nid n)) with (get_node h (nid n)).
      destruct (get_node h (nid n)); simpl; [apply res_sim_refl|exact I]. }
    match type of S1 with res_sim ?a ?b => destruct a as [[|]|x], b as [[|]|x'] end;
      simpl in S1; try discriminate; try contradiction; try reflexivity; try exact I.
    apply all_res_sim; intros e _.
    pose proof (sk_edge_lookup_sim e Gh) as L.
    destruct (other_edge (skel h) e) as [x|err].
    - rewrite L; cbn [bind]. apply res_sim_refl.
    - destruct L as [-> ->]; simpl; exact I.
  Qed.

  (** canonical forms of the undirected copy *)
  Lemma canon_edge_und e : canon_edge (und e) = (sk_pair e, Und).
  Proof.
    unfold canon_edge, canon_pair, sk_pair; simpl.
    destruct (name_leb (esrc e) (edst e)); reflexivity.
  Qed.

  Lemma canon_skel_iff g h : canon (skel g) = canon (skel h) <-> canon_skel g = canon_skel h.
  Proof.
    assert (M : forall g0, canon (skel g0)
                = (fst (canon_skel g0), map (fun p : name * name => (p, Und)) (snd (canon_skel g0)))).
    { intros g0; unfold canon, canon_skel; simpl. f_equal.
      rewrite (isort_map (fun p : name * name => (p, Und)) pair_leb cedge_leb) by reflexivity.
      rewrite !map_map. f_equal. apply map_ext; intros e; apply canon_edge_und. }
    rewrite !M; split; intros E.
    - pose proof (f_equal fst E) as E1; pose proof (f_equal snd E) as E2; simpl in E1, E2.
      apply map_inj_eq in E2; [|intros x y X; inversion X; reflexivity].
      unfold canon_skel; f_equal; assumption.
    - rewrite E; reflexivity.
  Qed.

  Lemma canon_skel_deep_iff g h :
    canon_deep (skel g) = canon_deep (skel h) <-> canon_skel_deep g = canon_skel_deep h.
  Proof.
    pose (F := fun c : (name * name) * meta => ((fst c, Und), snd c)).
    assert (M : forall g0, canon_deep (skel g0)
                = (fst (canon_skel_deep g0), map F (snd (canon_skel_deep g0)))).
    { intros g0; unfold canon_deep, canon_skel_deep; simpl. f_equal.
      rewrite (isort_map F (fun a b : (name * name) * meta => pair_leb (fst a) (fst b)) dedge_leb)
        by reflexivity.
      rewrite !map_map. f_equal. apply map_ext; intros e.
      unfold canon_dedge, F, sk_dedge; simpl. rewrite canon_edge_und; reflexivity. }
    rewrite !M; split; intros E.
    - pose proof (f_equal fst E) as E1; pose proof (f_equal snd E) as E2; simpl in E1, E2.
      apply map_inj_eq in E2.
      + unfold canon_skel_deep; f_equal; assumption.
      + intros [x1 x2] [y1 y2] X; unfold F in X; simpl in X; inversion X; reflexivity.
    - rewrite E; reflexivity.
  Qed.

  Lemma sim_ok_true r r' : res_sim r r' -> (r = Ok true <-> r' = Ok true).
  Proof.
    destruct r as [[|]|x], r' as [[|]|x']; simpl; intros H; try discriminate; try contradiction;
      split; congruence.
  Qed.

  Lemma sim_total r r' : res_sim r r' -> (exists b, r' = Ok b) -> exists b, r = Ok b.
  Proof.
    destruct r as [b|x], r' as [b'|x']; simpl; intros H (c & E); try discriminate; try contradiction.
    exists b; reflexivity.
  Qed.

  (** 4. the skeleton theorems *)
  Theorem skeleton_eq_never_raises k d g h :
    Inv parse k g -> Inv parse k h -> exists b, skeleton_eqb k d g h = Ok b.
  Proof.
    intros Ig Ih. pose proof (Inv_GOK Ig) as Gg; pose proof (Inv_GOK Ih) as Gh.
    apply (sim_total (skeleton_graph_sim d Gg Gh)).
    apply graph_eqb_total; apply GOK_skel; assumption.
  Qed.

  Theorem skeleton_eq_char k g h :
    Inv parse k g -> Inv parse k h ->
    (skeleton_eqb k false g h = Ok true <-> canon_skel g = canon_skel h).
  Proof.
    intros Ig Ih. pose proof (Inv_GOK Ig) as Gg; pose proof (Inv_GOK Ih) as Gh.
    rewrite (sim_ok_true (skeleton_graph_sim false Gg Gh)).
    rewrite (graph_eq_char_ok (GOK_skel Gg) (GOK_skel Gh)). apply canon_skel_iff.
  Qed.

  Theorem skeleton_deep_eq_char k g h :
    Inv parse k g -> Inv parse k h ->
    (skeleton_eqb k true g h = Ok true <-> canon_skel_deep g = canon_skel_deep h).
  Proof.
    intros Ig Ih. pose proof (Inv_GOK Ig) as Gg; pose proof (Inv_GOK Ih) as Gh.
    rewrite (sim_ok_true (skeleton_graph_sim true Gg Gh)).
    rewrite (deep_eq_char_ok (GOK_skel Gg) (GOK_skel Gh)). apply canon_skel_deep_iff.
  Qed.

  Theorem skeleton_eq_refl k d g : Inv parse k g -> skeleton_eqb k d g g = Ok true.
  Proof.
    intros I; destruct d; [apply skeleton_deep_eq_char|apply skeleton_eq_char]; auto.
  Qed.

  Theorem skeleton_eq_sym k d g h :
    Inv parse k g -> Inv parse k h -> skeleton_eqb k d g h = skeleton_eqb k d h g.
  Proof.
    intros Ig Ih. apply res_bool_eq; try (apply skeleton_eq_never_raises; assumption).
    destruct d.
    - rewrite (skeleton_deep_eq_char Ig Ih), (skeleton_deep_eq_char Ih Ig); split; congruence.
    - rewrite (skeleton_eq_char Ig Ih), (skeleton_eq_char Ih Ig); split; congruence.
  Qed.

  Theorem skeleton_eq_trans k d g h i :
    Inv parse k g -> Inv parse k h -> Inv parse k i ->
    skeleton_eqb k d g h = Ok true -> skeleton_eqb k d h i = Ok true ->
    skeleton_eqb k d g i = Ok true.
  Proof.
    intros Ig Ih Ii; destruct d.
    - rewrite (skeleton_deep_eq_char Ig Ih), (skeleton_deep_eq_char Ih Ii),
        (skeleton_deep_eq_char Ig Ii); congruence.
    - rewrite (skeleton_eq_char Ig Ih), (skeleton_eq_char Ih Ii), (skeleton_eq_char Ig Ii); congruence.
  Qed.

  Theorem skeleton_ne_negb k g h :
    Inv parse k g -> Inv parse k h ->
    exists b, skeleton_eqb k false g h = Ok b /\ skeleton_neb k g h = Ok (negb b).
  Proof.
    intros Ig Ih; destruct (skeleton_eq_never_raises false Ig Ih) as (b & E); exists b; split;
      [exact E|]. unfold skeleton_neb; rewrite E; reflexivity.
  Qed.

  Theorem skeleton_deep_implies_shallow k g h :
    Inv parse k g -> Inv parse k h ->
    skeleton_eqb k true g h = Ok true -> skeleton_eqb k false g h = Ok true.
  Proof.
    intros Ig Ih. pose proof (Inv_GOK Ig) as Gg; pose proof (Inv_GOK Ih) as Gh.
    rewrite (sim_ok_true (skeleton_graph_sim true Gg Gh)),
      (sim_ok_true (skeleton_graph_sim false Gg Gh)).
    rewrite (deep_eq_char_ok (GOK_skel Gg) (GOK_skel Gh)),
      (graph_eq_char_ok (GOK_skel Gg) (GOK_skel Gh)).
    apply canon_deep_shallow.
  Qed.

  (** equal graphs have equal skeletons *)
  Theorem graph_eq_implies_skeleton_eq k g h :
    Inv parse k g -> Inv parse k h ->
    graph_eqb k false g h = Ok true -> skeleton_eqb k false g h = Ok true.
  Proof.
    intros Ig Ih. rewrite (graph_eq_char Ig Ih), (skeleton_eq_char Ig Ih).
    intros E. pose proof (f_equal fst E) as E1. pose proof (canon_edges_perm (f_equal snd E)) as P.
    simpl in E1. unfold canon_skel; f_equal; [exact E1|].
    assert (M : forall l, map sk_pair l
                          = map (fun c : (name * name) * etype =>
                                   if name_leb (fst (fst c)) (snd (fst c)) then fst c
                                   else (snd (fst c), fst (fst c))) (map canon_edge l)).
    { intros l; rewrite map_map; apply map_ext; intros e.
      unfold sk_pair, canon_edge, canon_pair; simpl.
      destruct (in_dont_care (ety e)); simpl; [|destruct (name_leb (esrc e) (edst e)); reflexivity].
      destruct (name_leb (esrc e) (edst e)) eqn:L1; simpl; [rewrite L1; reflexivity|].
      destruct (name_leb (edst e) (esrc e)) eqn:L2; [reflexivity|].
      destruct (name_leb_total (esrc e) (edst e)); congruence. }
    rewrite !M.
    apply isort_perm_eq; [apply pair_leb_total|apply pair_leb_trans|apply pair_leb_antisym|].
    apply Permutation_map; exact P.
  Qed.
End Eq.

(** * Non-vacuity and pinned behaviour (every value below was observed on the implementation) *)
From CG Require Names.

Module EqualityExamples.
  Local Open Scope N_scope.
  Definition x : name := [120].
  Definition y : name := [121].
  Definition z : name := [122].
  Definition ka : name := [97].
  Definition kb : name := [98].
  Definition x_lag1 : name := [120; 32; 108; 97; 103; 40; 110; 61; 49; 41].  (* "x lag(n=1)" *)
  Definition mk (k : kind) (ops : list op) : graph :=
    run Names.parse Names.fmt k ops (empty_graph []).
  Definition ae (s d : name) (t : etype) (m : option meta) : op :=
    OAddEdge (str_ep s) (str_ep d) t m true.

  Ltac in_list H := simpl in H; repeat (destruct H as [H|H]; [subst|]); try contradiction.
  Ltac prove_inv :=
    constructor;
    [ vm_compute; repeat constructor; simpl; intuition discriminate
    | vm_compute; apply Permutation_refl
    | vm_compute; repeat constructor; simpl; intuition discriminate
    | let e := fresh "e" in let H := fresh "H" in
      intros e H; vm_compute in H; in_list H; vm_compute; intuition congruence
    | let e := fresh "e" in let H := fresh "H" in
      intros e H; vm_compute in H; in_list H; vm_compute; discriminate
    | let e := fresh "e" in let H := fresh "H" in
      intros e H; vm_compute in H; in_list H; vm_compute; intuition discriminate
    | let n := fresh "n" in let H := fresh "H" in
      intros n H; vm_compute in H; in_list H; vm_compute; apply Permutation_refl
    | let n := fresh "n" in let H := fresh "H" in
      intros n H; vm_compute in H; in_list H; vm_compute; apply Permutation_refl
    | try (intros _; split; reflexivity); try discriminate
    | try discriminate ].

  (** x -- y, y -> z   versus   y -> z, y -- x  (other insertion order, other orientation) *)
  Definition g_und := mk Plain [ae x y Und None; ae y z Dir None].
  Definition h_und := mk Plain [ae y z Dir None; ae y x Und None].
  Example g_und_inv : Inv Names.parse Plain g_und. Proof. prove_inv. Qed.
  Example h_und_inv : Inv Names.parse Plain h_und. Proof. prove_inv. Qed.
  Example und_flip_equal :
    graph_eqb Plain false g_und h_und = Ok true /\ graph_neb Plain g_und h_und = Ok false
    /\ graph_eqb Plain true g_und h_und = Ok true /\ graph_eqb Plain false h_und g_und = Ok true
    /\ skeleton_eqb Plain false g_und h_und = Ok true
    /\ canon g_und = canon h_und /\ canon_deep g_und = canon_deep h_und.
  Proof. vm_compute; repeat split; reflexivity. Qed.

  (** x -> y  versus  y -> x *)
  Definition g_dir := mk Plain [ae x y Dir None].
  Definition h_dir := mk Plain [ae y x Dir None].
  Example g_dir_inv : Inv Names.parse Plain g_dir. Proof. prove_inv. Qed.
  Example h_dir_inv : Inv Names.parse Plain h_dir. Proof. prove_inv. Qed.
  Example dir_flip_unequal :
    graph_eqb Plain false g_dir h_dir = Ok false /\ graph_neb Plain g_dir h_dir = Ok true
    /\ skeleton_eqb Plain false g_dir h_dir = Ok true /\ skeleton_eqb Plain true g_dir h_dir = Ok true
    /\ canon g_dir <> canon h_dir /\ canon_skel g_dir = canon_skel h_dir.
  Proof. vm_compute; repeat split; try reflexivity; discriminate. Qed.

  (** x o> y  versus  y o> x: "o>" is not in the dont-care list *)
  Definition g_ud := mk Plain [ae x y UnkDir None].
  Definition h_ud := mk Plain [ae y x UnkDir None].
  Example g_ud_inv : Inv Names.parse Plain g_ud. Proof. prove_inv. Qed.
  Example h_ud_inv : Inv Names.parse Plain h_ud. Proof. prove_inv. Qed.
  Example unkdir_flip_unequal :
    graph_eqb Plain false g_ud h_ud = Ok false /\ graph_neb Plain g_ud h_ud = Ok true
    /\ skeleton_eqb Plain false g_ud h_ud = Ok true /\ canon g_ud <> canon h_ud.
  Proof. vm_compute; repeat split; try reflexivity; discriminate. Qed.

  (** shallow-equal but deep-unequal: variable type of a node / metadata of an edge *)
  Definition g_vt := mk Plain [OAddNode x VBin (Some [(ka, JInt 1)]); ae x y Dir None].
  Definition h_vt := mk Plain [OAddNode x VCont (Some [(ka, JInt 1)]); ae x y Dir None].
  Example g_vt_inv : Inv Names.parse Plain g_vt. Proof. prove_inv. Qed.
  Example h_vt_inv : Inv Names.parse Plain h_vt. Proof. prove_inv. Qed.
  Example deep_unequal_shallow_equal :
    graph_eqb Plain false g_vt h_vt = Ok true /\ graph_eqb Plain true g_vt h_vt = Ok false
    /\ skeleton_eqb Plain false g_vt h_vt = Ok true /\ skeleton_eqb Plain true g_vt h_vt = Ok false
    /\ canon g_vt = canon h_vt /\ canon_deep g_vt <> canon_deep h_vt.
  Proof. vm_compute; repeat split; try reflexivity; discriminate. Qed.

  Definition g_em := mk Plain [ae x y Dir (Some [(ka, JInt 1)])].
  Definition h_em := mk Plain [ae x y Dir (Some [(ka, JInt 2)])].
  Example edge_meta_deep_unequal :
    graph_eqb Plain false g_em h_em = Ok true /\ graph_eqb Plain true g_em h_em = Ok false
    /\ skeleton_eqb Plain true g_em h_em = Ok false.
  Proof. vm_compute; repeat split; reflexivity. Qed.

  (** Python's [True == 1]: metadata {'b': True} and {'b': 1} are deep-equal *)
  Definition g_b := mk Plain [OAddNode x VUnspec (Some [(kb, JBool true)])].
  Definition h_b := mk Plain [OAddNode x VUnspec (Some [(kb, JInt 1)])].
  Example bool_int_deep_equal :
    graph_eqb Plain true g_b h_b = Ok true /\ graph_eqb Plain true h_b g_b = Ok true
    /\ canon_deep g_b = canon_deep h_b.
  Proof. vm_compute; repeat split; reflexivity. Qed.

  (** time-series class *)
  Definition g_ts := mk TS [ae x y Und None].
  Definition h_ts := mk TS [ae y x Und None].
  Example ts_und_flip_equal :
    graph_eqb TS false g_ts h_ts = Ok true /\ graph_eqb TS true g_ts h_ts = Ok true
    /\ skeleton_eqb TS false g_ts h_ts = Ok true /\ map edge_key (gsrc h_ts) = [(y, x)].
  Proof. vm_compute; repeat split; reflexivity. Qed.
  Definition g_ts2 := mk TS [ae x_lag1 x Dir None].
  Definition h_ts2 := mk TS [ae x_lag1 x Bi None].
  Example ts_type_unequal :
    graph_eqb TS false g_ts2 h_ts2 = Ok false /\ skeleton_eqb TS false g_ts2 h_ts2 = Ok true.
  Proof. vm_compute; repeat split; reflexivity. Qed.

  Example g_ts_inv : Inv Names.parse TS g_ts.
  Proof.
    constructor.
    - vm_compute; repeat constructor; simpl; intuition discriminate.
    - vm_compute; apply Permutation_refl.
    - vm_compute; repeat constructor; simpl; intuition discriminate.
    - intros e H; vm_compute in H; in_list H; vm_compute; intuition congruence.
    - intros e H; vm_compute in H; in_list H; vm_compute; discriminate.
    - intros e H; vm_compute in H; in_list H; vm_compute; intuition discriminate.
    - intros n H; vm_compute in H; in_list H; vm_compute; apply Permutation_refl.
    - intros n H; vm_compute in H; in_list H; vm_compute; apply Permutation_refl.
    - discriminate.
    - intros _; constructor.
      + intros n H; vm_compute in H; in_list H.
        * exists x, 0%Z; vm_compute; repeat split; reflexivity.
        * exists y, 0%Z; vm_compute; repeat split; reflexivity.
      + vm_compute; repeat constructor.
      + vm_compute; repeat constructor.
      + intros e H; vm_compute in H; in_list H. exists 0%Z, 0%Z; vm_compute; repeat split; discriminate.
  Qed.

  (** a time-series node whose [time_lag] tag was deleted behind the graph's back: the
      property accessor raises ValueError, in both argument orders; when the variable names
      already differ the lags are not read and the answer is [False] *)
  Definition strip_lag (g : graph) : graph :=
    {| gnodes := map (fun n => {| nid := nid n; nvt := nvt n;
                                  nmeta := remove_key k_time_lag (nmeta n);
                                  ninb := ninb n; noutb := noutb n |}) (gnodes g);
       gsrc := gsrc g; gdst := gdst g; gmeta := gmeta g; glag := glag g; gvar := gvar g |}.
  Definition g_x := mk TS [OAddNode x VUnspec None].
  Example missing_tag_raises :
    graph_eqb TS false g_x (strip_lag g_x) = Err EValue
    /\ graph_eqb TS false (strip_lag g_x) g_x = Err EValue.
  Proof. vm_compute; split; reflexivity. Qed.

  (** node and edge comparison *)
  Example edge_examples :
    let e1 := {| esrc := x; edst := y; ety := Bi; emeta := [] |} in
    let e2 := {| esrc := y; edst := x; ety := Bi; emeta := [] |} in
    let e3 := {| esrc := y; edst := x; ety := UnkUnd; emeta := [] |} in
    let e4 := {| esrc := x; edst := y; ety := UnkUnd; emeta := [] |} in
    edge_pair_test e1 e2 = true /\ edge_pair_test e3 e4 = false /\ edge_pair_test e1 e4 = false.
  Proof. vm_compute; repeat split; reflexivity. Qed.
End EqualityExamples.

(** * Deep comparison of edges implies shallow comparison *)
Theorem edge_deep_implies_shallow k g h e e' :
  edge_eqb k true g h e e' = Ok true -> edge_eqb k false g h e e' = Ok true.
Proof.
  intros H; apply edge_eqb_deep_true in H; destruct H as [H _].
  rewrite edge_eqb_shallow, H; reflexivity.
Qed.

(** non-vacuity of the hypothesis [equiv] of [graph_eq_order_independent]: two states that differ
    in the insertion order of their edges *)
Module EquivExample.
  Import EqualityExamples.
  Definition g1 := mk Plain [OAddNodesFrom [x; y; z]; ae x y Und None; ae y z Dir None].
  Definition g2 := mk Plain [OAddNodesFrom [x; y; z]; ae y z Dir None; ae x y Und None].
  Example g1_inv : Inv Names.parse Plain g1. Proof. prove_inv. Qed.
  Example g2_inv : Inv Names.parse Plain g2. Proof. prove_inv. Qed.
  Example g1_equiv_g2 : equiv g1 g2 /\ gsrc g1 <> gsrc g2.
  Proof.
    split; [|vm_compute; discriminate].
    unfold equiv; vm_compute; repeat split.
    - repeat constructor.
    - apply perm_swap.
    - apply perm_swap.
  Qed.
  Example order_independent_instance :
    graph_eqb Plain true g1 g_und = Ok true /\ graph_eqb Plain true g2 g_und = Ok true.
  Proof. vm_compute; split; reflexivity. Qed.
End EquivExample.
